"""C16 — Sanitized parameters are injection-safe for the library's own parser."""
import decimal
from ..sqlgen import *  # noqa
from ..common import run_go, run_lean, dec_val, canon, enc_val, f2bits, load_findings

MODULE = "Genql.Properties.C16"
FACTS = True
LEAN_TARGETS = [MODULE, "Genql.Obligations.C16"]
THEOREMS = ["Genql.C16." + t for t in [
    "quoteString_eq_passes", "quote_roundtrip", "number_single_token", "bool_null_keyword", "sanitize_spec",
    "sanitize_shape", "missing_unused_reported", "placeholder_zero_error", "sanitize_no_panic",
    "lexer_skips_quoted_partial", "sq_segment_agrees", "echo_string", "backtick_counterexample"]] + \
    ["Genql.Obligations.C16.sanitizer_package_text"]
TRUSTED = ["the model `scanStr` of sqlparser's scanString/scanStringSlow + SQLDecodeMap (validated through the echo oracle on the "
           "real parser)", "strconv.FormatFloat text of float arguments (supplied, not modelled)", "sqlparser grammar"]
RULE = ("(a) SanitizeSQL vs the Lean model on templates with 0-4 placeholders in literal positions (also inside '...', \"...\", "
        "-- and /* */ segments, $0, missing and unused arguments) x arguments of every kind, strings over an alphabet with quotes, "
        "backslashes, comment introducers, NUL, newlines, multi-byte runes and SQL keywords; (b) the real parser and engine as "
        "oracle: the sanitized query must return exactly what the same query returns when the arguments are passed as data "
        "(CONSTANT(k)) instead of text, and `SELECT $1 AS v FROM dual` must echo the argument; non-trivial = an argument contains "
        "a character special to either lexer")

HOSTILE = ["'", "\\", '"', "`", "-", "-- ", "/*", "*/", "#", "\x00", "\n", "\r", "\x1a", "é", "世", "$1", " OR ", "1=1", "=", ";",
           "a", "b", " ", "%", "_", "''", "\\'", "x"]


def rand_str(rnd):
    k = rnd.random()
    if k < 0.15:
        return rnd.choice(["", "a", "plain text", "O'Reilly", "\\", "' OR 1=1 -- ", "\\' OR 1=1 -- ", "'; DROP TABLE t; -- ",
                           "a\\", "\\\\'", "''", "$1", "$2 $1", "/* x */", "x' UNION SELECT 1 -- ", "\x00", "é'世\\"])
    return "".join(rnd.choice(HOSTILE) for _ in range(rnd.randint(0, 7)))


def go_float_text(x):
    d = decimal.Decimal(repr(float(x)))
    s = format(d, "f")
    if "." in s:
        s = s.rstrip("0").rstrip(".")
    if s == "-0":
        s = "-0"
    return s


def rand_arg(rnd):
    """-> (python value, go typed arg, lean typed arg)"""
    k = rnd.random()
    if k < 0.55:
        s = rand_str(rnd)
        return s, {"t": "string", "v": s}, {"t": "string", "v": s}
    if k < 0.7:
        i = rnd.choice([0, 1, -1, 42, -7, 2**31, -(2**40), 9007199254740993, 123456789, -9007199254740993, -1234567890123456789,
                        2**62, -(2**62), 2**63 - 1, -(2**63) + 1])
        return i, {"t": "int64", "v": str(i)}, {"t": "int64", "v": str(i)}
    if k < 0.82:
        x = rnd.choice([0.5, -1.5, 2.25, 1e6, 123.456, 1e-5, 3.0, 1e21, 0.1])
        return x, {"t": "float64", "v": str(f2bits(x))}, {"t": "floattext", "v": go_float_text(x)}
    if k < 0.92:
        b = rnd.random() < 0.5
        return b, {"t": "bool", "v": "true" if b else "false"}, {"t": "bool", "v": "true" if b else "false"}
    return None, {"t": "nil", "v": ""}, {"t": "nil", "v": ""}


SEGMENTS = ["'$1 lit'", "\"$2\"", "-- $1 c\n", "/* $1 */", "/* a /* $2 */ b */", "'it''s $1'", " ", "x", ",", "(", ")"]


def rand_template(rnd, nargs):
    parts = ["SELECT "]
    used = list(range(1, nargs + 1))
    rnd.shuffle(used)
    k = rnd.random()
    if k < 0.1 and used:
        used.pop()                      # an unused argument
    if k > 0.92:
        used.append(nargs + 1)          # a missing argument
    if 0.1 <= k < 0.15:
        used.append(0)                  # $0
    if used and rnd.random() < 0.3:
        # repeated placeholders: "unused" is per ARGUMENT, not a count of placeholder occurrences
        for _ in range(rnd.randint(1, 2)):
            used.insert(rnd.randint(0, len(used)), rnd.choice([u for u in used]))
    items = []
    for n in used:
        items.append("$%d AS c%d" % (n, len(items)))
        if rnd.random() < 0.3:
            items.append(rnd.choice(SEGMENTS[:6]).strip() + " AS s%d" % len(items) if rnd.random() < 0.5 else "1 " + rnd.choice(SEGMENTS[2:5]))
    if rnd.random() < 0.15:
        # the lexer's other literal forms: `e'…'` escape strings (a backslash swallows the next character), a quote that
        # follows a word ending in e / E, doubled double quotes, an unterminated literal at the end
        items.append(rnd.choice(["e'$1 \\' q'", "E'x\\\\' , $2", "type'$2'", "NAME'it''s $1'", "e''", "\"a\"\"$1\"", "E'\\", "e'a\\'b' , $1",
                                 "'$1"]) + (" AS x%d" % len(items) if rnd.random() < 0.5 else ""))
    if not items:
        items.append("1 AS one")
    parts.append(", ".join(items))
    parts.append(" FROM dual")
    if rnd.random() < 0.2:
        parts.append(" " + rnd.choice(SEGMENTS[2:5]))
    elif rnd.random() < 0.1:
        # a template that ENDS inside a comment or literal (the lexer stops in the middle of a state): it is rendered like any
        # other, and whatever it leaves behind must not reach the next call (all calls of a run share one process)
        parts.append(" " + rnd.choice(["/* a", "/* a /* b", "/* see /* the /* notes */", "/* /* /* /* x */", "-- $1 to the end", "'open $1",
                                       "\"open $2", "e'open \\", "/* a */ /* b /* c", "/*/*/*"]))
    return "".join(parts)


def special(s):
    return isinstance(s, str) and any(c in s for c in "'\\\"`-/*#\x00\n$")


def explore(chk, rnd, tier):
    n = 3000 if tier == "quick" else 50000
    nt = set()
    # ---------- (a) model vs implementation on the text level
    cases = []
    for _ in range(n):
        nargs = rnd.randint(0, 4)
        args = [rand_arg(rnd) for _ in range(nargs)]
        t = rand_template(rnd, nargs)
        cases.append((t, args))
    gos = run_go([{"op": "sanitize", "text": t, "args": [a[1] for a in args]} for t, args in cases])
    leans = run_lean([{"op": "sanitize", "text": t, "args": [a[2] for a in args]} for t, args in cases])
    nt_hist = []
    for (t, args), g, l in zip(cases, gos, leans):
        chk.count("sanitize:" + str(g.get("r")))
        if g.get("r") in ("panic", "crash", "hang"):
            chk.add_violation("sanitize-panic", {"template": t, "args": [a[1] for a in args], "impl": g})
            break
        if g.get("r") != l.get("r") or (g.get("r") == "ok" and g.get("v") != l.get("v")):
            detail = {"template": t, "args": [a[1] for a in args], "impl": g, "model": l}
            # does the call fail on its own? if not, the failure depends on the calls made before it in the same process:
            # find a short history (the calls just before it) that reproduces it, and make that the replay
            i = len(nt_hist)
            req = lambda c: {"op": "sanitize", "text": c[0], "args": [a[1] for a in c[1]]}
            alone = run_go([req((t, args))])[0]
            if alone.get("r") == l.get("r") and (alone.get("r") != "ok" or alone.get("v") == l.get("v")):
                k = 1
                while k <= len(nt_hist):
                    hist = nt_hist[-k:]
                    again = run_go([req(c) for c in hist] + [req((t, args))])[-1]
                    if again.get("r") != l.get("r") or (again.get("r") == "ok" and again.get("v") != l.get("v")):
                        detail["history_dependent"] = True
                        detail["history"] = [req(c) for c in hist]
                        break
                    k *= 2
                else:
                    detail["history_dependent"] = True
            chk.add_violation("sanitize-model-vs-impl", detail)
            break
        nt_hist.append((t, args))
        if any(special(a[0]) for a in args):
            nt.add(t + canon([a[1] for a in args]))
    # ---------- (b) the real parser + engine as oracle
    doc = {"t": [{"k": "a", "n": 1}, {"k": "b'", "n": 2}, {"k": "' OR 1=1 -- ", "n": 3}, {"k": "\\", "n": 4}, {"k": "", "n": 5}]}
    m = 1500 if tier == "quick" else 20000
    reqs_s, metas = [], []
    for _ in range(m):
        a1, a2 = rand_arg(rnd), rand_arg(rnd)
        if rnd.random() < 0.3:
            a2 = (rnd.choice(doc["t"])["k"],) * 1 + ({"t": "string", "v": None},) * 2
            a2 = (a2[0], {"t": "string", "v": a2[0]}, {"t": "string", "v": a2[0]})
        if isinstance(a1[0], float) and (abs(a1[0]) >= 1e15 or 0 < abs(a1[0]) < 1e-4):
            continue
        tmpl = "SELECT $1 AS v, n, 'tail' AS z FROM t WHERE k = $2"
        ref = "SELECT CONSTANT('p1') AS v, n, 'tail' AS z FROM t WHERE k = CONSTANT('p2')"
        reqs_s.append({"op": "sanitize", "text": tmpl, "args": [a1[1], a2[1]]})
        metas.append((tmpl, ref, a1, a2))
    sans = run_go(reqs_s)
    q1, q2, keep = [], [], []
    for (tmpl, ref, a1, a2), s in zip(metas, sans):
        if s.get("r") != "ok":
            chk.add_violation("sanitize-failed", {"template": tmpl, "args": [a1[1], a2[1]], "impl": s})
            break
        q1.append({"op": "query", "doc": enc_val(doc), "sql": s["v"]})
        q2.append({"op": "query", "doc": enc_val(doc), "sql": ref, "consts": enc_val({"p1": a1[0], "p2": a2[0]})})
        keep.append((tmpl, a1, a2, s["v"]))
    r1 = run_go(q1) if q1 else []
    r2 = run_go(q2) if q2 else []
    for (tmpl, a1, a2, text), x, y in zip(keep, r1, r2):
        chk.count("oracle:" + str(x.get("r")))
        ok = x.get("r") == "ok" and y.get("r") == "ok" and canon(dec_val(x["v"])) == canon(dec_val(y["v"]))
        if not ok:
            chk.add_violation("injection-oracle", {"template": tmpl, "args": [a1[1], a2[1]], "sanitized": text,
                                                   "sanitized_result": x, "args_as_data_result": y})
            break
        if special(a1[0]) or special(a2[0]):
            nt.add("oracle" + canon([a1[1], a2[1]]))
    # echo
    echo_args = [rand_arg(rnd) for _ in range(400 if tier == "quick" else 5000)]
    echo_args = [a for a in echo_args if not (isinstance(a[0], float) and (abs(a[0]) >= 1e15 or 0 < abs(a[0]) < 1e-4))]
    sans = run_go([{"op": "sanitize", "text": "SELECT $1 AS v FROM dual", "args": [a[1]]} for a in echo_args])
    outs = run_go([{"op": "query", "doc": {}, "sql": s.get("v", "")} for s in sans])
    for a, s, o in zip(echo_args, sans, outs):
        chk.count("echo:" + str(o.get("r")))
        want = a[0] if not isinstance(a[0], (int, float)) or isinstance(a[0], bool) else float(a[0])
        got = dec_val(o["v"])[0].get("v") if o.get("r") == "ok" and dec_val(o["v"]) else "#none"
        if o.get("r") != "ok" or got != want:
            chk.add_violation("echo", {"arg": a[1], "sanitized": s.get("v"), "result": o, "expected": want})
            break
    # echo of TWO arguments under every dialect option: the pre-processors of the options (double quotes -> backticks,
    # [..] -> ARRAY(..)) run over the sanitized text and must leave the rendered literals alone, whatever they contain
    pool = ["a\\", "x\\", "say \"hi\"", "[1, 2]", "it's", "`tick`", "\\'", "\"", "]", "plain", "", "a\\b", "é\\"]
    pairs = [(rnd.choice(pool), rnd.choice(pool)) for _ in range(150 if tier == "quick" else 2000)]
    sans2 = run_go([{"op": "sanitize", "text": "SELECT $1 AS a, $2 AS b FROM dual",
                     "args": [{"t": "string", "v": x}, {"t": "string", "v": y}]} for x, y in pairs])
    reqs2, meta2 = [], []
    for (x, y), s2 in zip(pairs, sans2):
        if s2.get("r") != "ok":
            chk.add_violation("sanitize-failed", {"args": [x, y], "impl": s2})
            break
        for pg in (False, True):
            for arr in (False, True):
                reqs2.append({"op": "query", "doc": {}, "sql": s2["v"], "pg": pg, "arr": arr})
                meta2.append((x, y, s2["v"], pg, arr))
    outs2 = run_go(reqs2) if reqs2 and not chk.violations else []
    for (x, y, text, pg, arr), o in zip(meta2, outs2):
        chk.count("echo2:pg=%s,arr=%s:%s" % (pg, arr, o.get("r")))
        row = dec_val(o["v"])[0] if o.get("r") == "ok" and dec_val(o["v"]) else {}
        if o.get("r") != "ok" or row.get("a") != x or row.get("b") != y:
            chk.add_violation("echo-under-dialect-options", {"args": [x, y], "sanitized": text, "pg": pg, "arr": arr, "result": o})
            break
    # ---------- known finding witness: `$n` inside a backtick identifier is substituted
    for f in load_findings():
        if f.get("property") == "C16" and f.get("id") == "KF-lexer-backtick":
            w = run_go([{"op": "sanitize", "text": "SELECT `$1` FROM dual", "args": [{"t": "string", "v": "x"}]}])[0]
            if w.get("r") == "ok" and "$1" not in w.get("v", ""):
                chk.add_known("KF-lexer-backtick", "`$1` inside a backtick identifier is substituted: " + w.get("v", ""))
    chk.cov["evaluations"] = len(cases) + len(keep) + len(echo_args)
    chk.cov["distinct_nontrivial"] = len(nt)
    chk.samples.extend([{"template": t, "args": [a[1] for a in args]} for t, args in cases[:3]])


LEVEL_TEXT = ("Lean theorems about a model of SanitizeSQL (placeholder lexer state by state, QuoteString, argument formatting, "
              "used/missing accounting) and of the consuming tokenizer's string scanner: the quoted form of ANY string is read back "
              "by the tokenizer as exactly that string and the scan resumes right after it (no argument can end the literal early); "
              "numbers/booleans/NULL are single tokens; the output is the template with each placeholder part replaced by one "
              "literal; $0 / missing / unused are errors; never a panic; `$n` inside '...', \"...\", -- and /* */ is not a "
              "placeholder. Tied to /repo by text-level correspondence and by the real parser+engine as oracle.")
LEVEL_NOTE = ("The template-side lexer applies PostgreSQL rules (backtick identifiers, backslash escapes and # comments in the "
              "TEMPLATE are mis-segmented): recorded known finding KF-lexer-backtick with a kernel-checked counterexample; templates "
              "in the generated domain stay inside the shared lexical subset. Invalid UTF-8 is out of scope.")
TECHNIQUE = "Lean 4 proof (scanner round-trip by induction over the argument string) + text correspondence + parser/engine oracle"
