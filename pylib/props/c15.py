"""C15 — Value comparison is a coherent order across all numeric types and strings."""
import itertools
from fractions import Fraction
from ..common import run_go, run_lean, f2bits
import struct

MODULE = "Genql.Properties.C15"
FACTS = True
LEAN_TARGETS = [MODULE, "Genql.Obligations.C15"]
THEOREMS = ["Genql.C15." + t for t in [
    "cmp_range", "cmp_num_math", "cmp_num_rat", "cmp_int_math", "cmp_str_lex", "cmp_num_str_text", "cmp_str_num_text",
    "cmp_refl", "cmp_antisymm", "cmp_trans_num", "cmp_trans_int", "cmp_trans_str", "cmp_num_kind_irrelevant"]] + \
    ["Genql.Obligations.C15.compare_package_text"]
TRUSTED = ["byte-wise strings.Compare = Lean String < on valid UTF-8", "a finite IEEE value is the dyadic rational decoded from its bits",
           "fmt %v digit generation for floats (model: exact expansion when <= 15 significant digits)"]
RULE = ("exhaustive over a representative table: all 12 Go numeric types x {min, -1, 0, 1, max, fractions, 2^53 edges} plus strings "
        "(empty, numeric-looking, prefixes) and bool/nil: all ordered pairs (quick) and all triples for transitivity (thorough), "
        "implementation vs Lean model vs exact rational order computed in Python; non-trivial = pair of different Go types or values")

INT_RANGES = {"int": (-2**63, 2**63 - 1), "int8": (-128, 127), "int16": (-2**15, 2**15 - 1), "int32": (-2**31, 2**31 - 1),
              "int64": (-2**63, 2**63 - 1), "uint": (0, 2**64 - 1), "uint8": (0, 255), "uint16": (0, 2**16 - 1),
              "uint32": (0, 2**32 - 1), "uint64": (0, 2**64 - 1)}


def f32bits(x):
    return struct.unpack("<I", struct.pack("<f", x))[0]


def table(full):
    vals = []
    for t, (lo, hi) in INT_RANGES.items():
        cand = {lo, hi, 0, 1, -1, 2, 100, 127, 128, 255, 256, 2**53, 2**53 + 1, -(2**53), 10, 9}
        if not full:
            cand = {lo, hi, 0, 1, -1, 2, 10, 2**53}
        for v in sorted(cand):
            if lo <= v <= hi:
                vals.append(({"t": t, "v": str(v)}, ("int", Fraction(v))))
    # 0.1, 2.7, -0.3: not dyadic — the float32 and the float64 nearest to them differ, and so do their %v texts when a
    # float32 is widened before it is printed
    fl = [0.0, 1.0, -1.0, 1.5, -1.5, 0.5, 2.0, 100.0, 0.25, 10.0, 9.0, 255.0, 127.0, 1e6, 123456.5, 2.0**53, -2.0**53, 3.0e9,
          0.1, 2.7, -0.3, 1e20, 1.5e19, -1e20, 1e300, 1e200, 2.0**63, 2.0**64,
          # where the %v text of a float changes shape: 999999 / 1e+06 / 1.000001e+06, 0.0001 / 1e-05, 1e+21
          -1e6, 999999.0, 1000001.0, 1e7, 1e21, 0.0001, 0.00001, 100000.0, 1234567.0]
    if not full:
        # (whole floats beyond the 64-bit integer range stay floats: no integer path may take them)
        fl = [0.0, 1.0, -1.0, 1.5, 0.5, 2.0, 10.0, 2.0**53, 0.1, -0.3, 1e20, 1.5e19, 1e300, 2.0**63, 1e6, -1e6, 100000.0, 0.00001]
    for x in fl:
        vals.append(({"t": "float64", "v": str(f2bits(x))}, ("flt", Fraction(x))))
        if abs(x) < 3.0e38:      # (a float32 holds nothing larger)
            vals.append(({"t": "float32", "v": str(f32bits(x))}, ("flt", Fraction(struct.unpack("<f", struct.pack("<f", x))[0]))))
    strs = ["", "1", "1.5", "10", "9", "a", "ab", "b", "-1", "true", "<nil>", "A", "é", "1e+06", "0.1", "2.7", "-0.3",
            "0.10000000149011612", "1000000", "11", "1a", "-1e+06", "-1000000", "-11", "1e-05", "0.00001", "1e+21", "100000",
            "1.234567e+06", "1234567", "1e+07"]
    if not full:
        strs = ["", "1", "1.5", "10", "a", "ab", "-1", "0.1", "-0.3", "1e+06", "1000000", "11", "-11", "1e-05"]
    for s in strs:
        vals.append(({"t": "string", "v": s}, ("str", s)))
    vals.append(({"t": "bool", "v": "true"}, ("other", "true")))
    vals.append(({"t": "bool", "v": "false"}, ("other", "false")))
    vals.append(({"t": "nil", "v": ""}, ("other", "<nil>")))
    return vals


def sign(x):
    return (x > 0) - (x < 0)


def exact_ok(meta):
    k, v = meta
    return k != "int" or abs(v) <= 2**53


def explore(chk, rnd, tier):
    vals = table(tier != "quick")
    pairs = list(itertools.product(range(len(vals)), repeat=2))
    reqs = [{"op": "compare", "a": vals[i][0], "b": vals[j][0]} for i, j in pairs]
    gos = run_go([dict(r) for r in reqs])
    leans = run_lean([dict(r) for r in reqs])
    res = {}
    nt = 0
    for (i, j), g, l in zip(pairs, gos, leans):
        chk.count("pairs")
        if g.get("r") != "ok":
            chk.add_violation("compare-failed", {"a": vals[i][0], "b": vals[j][0], "impl": g})
            break
        c = g["v"]
        res[(i, j)] = c
        if c not in (-1, 0, 1):
            chk.add_violation("range", {"a": vals[i][0], "b": vals[j][0], "impl": c})
            break
        if l["r"] == "ok" and l["v"] != c:
            chk.add_violation("model-vs-impl", {"a": vals[i][0], "b": vals[j][0], "impl": c, "model": l["v"]})
            break
        if l["r"] != "ok":
            chk.count("out-of-model")
        (ka, va), (kb, vb) = vals[i][1], vals[j][1]
        # the mathematical order on exactly representable numbers; byte-wise order on strings
        if ka in ("int", "flt") and kb in ("int", "flt") and exact_ok(vals[i][1]) and exact_ok(vals[j][1]):
            if c != sign(va - vb):
                chk.add_violation("numeric-order", {"a": vals[i][0], "b": vals[j][0], "impl": c, "expected": sign(va - vb)})
                break
        if ka == "str" and kb == "str":
            ea, eb = va.encode(), vb.encode()
            if c != sign((ea > eb) - (ea < eb)):
                chk.add_violation("string-order", {"a": vals[i][0], "b": vals[j][0], "impl": c})
                break
        if i != j:
            nt += 1
    if not chk.violations:
        for (i, j), c in res.items():
            if res[(j, i)] != -c:
                chk.add_violation("antisymmetry", {"a": vals[i][0], "b": vals[j][0], "ab": c, "ba": res[(j, i)]})
                break
            if i == j and c != 0:
                chk.add_violation("reflexivity", {"a": vals[i][0], "aa": c})
                break
    if not chk.violations and tier != "quick":
        # transitivity within each kind on all triples (numbers in the exact range; strings)
        groups = {"num": [i for i, v in enumerate(vals) if v[1][0] in ("int", "flt") and exact_ok(v[1])],
                  "str": [i for i, v in enumerate(vals) if v[1][0] == "str"]}
        for gname, idx in groups.items():
            for a, b, c in itertools.product(idx, repeat=3):
                chk.count("triples")
                if res[(a, b)] <= 0 and res[(b, c)] <= 0 and res[(a, c)] > 0:
                    chk.add_violation("transitivity", {"a": vals[a][0], "b": vals[b][0], "c": vals[c][0]})
                    break
            if chk.violations:
                break
    chk.cov["evaluations"] = len(pairs)
    chk.cov["distinct_nontrivial"] = nt
    chk.cov["exhaustive"] = True
    chk.samples.extend([{"a": vals[i][0], "b": vals[j][0], "impl": res.get((i, j))} for i, j in pairs[5:8]])


LEVEL_TEXT = ("Lean theorems about the model of compare.Compare (all 12 numeric Go types as exact integers / dyadic rationals, "
              "strings, bool, nil): result in {-1,0,1}; numbers in the exactly representable range are ordered as rationals whatever "
              "their Go types; strings lexicographically; number vs string by the number's %v text; reflexive; antisymmetric for ALL "
              "value pairs; transitive within numbers and within strings. Model tied to /repo by an exhaustive pair table.")
LEVEL_NOTE = ("Trusted: byte-wise strings.Compare = code-point order on valid UTF-8; fmt %v digits of floats with <= 15 significant "
              "digits; integer->float64 rounding outside +-2^53 modelled with round-to-nearest-even.")
TECHNIQUE = "Lean 4 proof (case analysis over kinds, integer/dyadic arithmetic by omega) + exhaustive table correspondence"
