"""C17 — Dialect options rewrite only syntax and preserve query meaning."""
from ..sqlgen import *  # noqa
from ..common import run_go, run_lean, dec_val, canon, enc_val

FACTS = True
MODULE = "Genql.Properties.C17"
LEAN_TARGETS = [MODULE, "Genql.Obligations.C17"]
THEOREMS = ["Genql.C17." + t for t in [
    "dq2bt_spelling", "dq2bt_preserves_literals", "dq2bt_total", "dq2bt_never_panics", "dq2bt_id_of_no_ident",
    "fixArrE_eq", "fixArr_spelling", "findBrackets_fifo", "rewrite_length", "fixArr_spelling_forest",
    "fixArr_unbalanced_error", "fixArr_total", "findBrackets_total",
    "applyDialect_off", "applyDialect_pg_only", "applyDialect_arr_only", "applyDialect_both", "applyDialect_both_spelling"]] + \
    ["Genql.Obligations.C17.dialect_rewrite_lines"]
TRUSTED = ["sqlparser (both spellings hand it the same text, so its meaning is not needed)",
           "the flattening of DoubleQuotesToBackTick's nested loops into a state machine (validated by the byte-string correspondence)"]
RULE = ("(a) DoubleQuotesToBackTick / FixIdiomaticArray vs the Lean scanners on byte strings over an alphabet with \" ' ` \\ [ ] "
        "letters, spaces and multi-byte runes (exhaustive up to length 4 in thorough, random longer); (b) metamorphic pairs through "
        "New+Exec: option + alternative spelling vs canonical spelling over generated queries with hostile literals/identifiers, "
        "nested brackets, all option combinations; (c) Wrapped() vs {\"root\": input}; non-trivial = text contains a quoted "
        "segment with a character from \" ' \\ ` [ ]")

# (the rewrites know nothing of SQL comments: `--`, `#`, `/*` are ordinary bytes to them, as `a--1` is ordinary arithmetic to the parser)
ALPHA = ["'", '"', "`", "\\", "[", "]", "a", " ", ",", "1", "é", "世", "x", "(", ")", "-", "--", "#", "/*", "*/", "\n"]
HOSTILE = ['"', "[", "]", "[1,2]", "a b", "é世", "''", "x\"y", "]", "[["]


def rand_text(rnd):
    return "".join(rnd.choice(ALPHA) for _ in range(rnd.randint(0, 12)))


def structured_text(rnd):
    """mostly well-formed SQL-ish text with quoted segments and brackets"""
    parts = []
    for _ in range(rnd.randint(1, 6)):
        k = rnd.random()
        if k < 0.25:
            body = "".join(rnd.choice(["a", "[", "]", '"', "`", " ", "''", "\\\\", "\\'", "é"]) for _ in range(rnd.randint(0, 4)))
            parts.append("'" + body + "'")
        elif k < 0.45:
            body = "".join(rnd.choice(["a", "[", "]", "'", " ", "b", "世"]) for _ in range(rnd.randint(1, 4)))
            parts.append('"' + body + '"')
        elif k < 0.6:
            body = "".join(rnd.choice(["a", "[", "]", "'", '"', " "]) for _ in range(rnd.randint(1, 4)))
            parts.append("`" + body + "`")
        elif k < 0.85:
            def br(d):
                n = rnd.randint(0, 3)
                items = []
                for _ in range(n):
                    items.append(br(d - 1) if d > 0 and rnd.random() < 0.4 else rnd.choice(["1", "a", "'x]'", "2"]))
                return "[" + ",".join(items) + "]"
            parts.append(br(2))
        else:
            parts.append(rnd.choice(["SELECT", "a", ",", " ", "1+2", "]", "[", "a--1", "a-- 1", "--", "#", "/*", "*/", "1-\n-2", "a#b"]))
    return rnd.choice([" ", " ", " ", ""]).join(parts)


def unit_cases(rnd, n, exhaustive_len):
    texts = []
    if exhaustive_len:
        import itertools
        small = ["'", '"', "`", "\\", "[", "]", "a", " "]
        for L in range(0, exhaustive_len + 1):
            for t in itertools.product(small, repeat=L):
                texts.append("".join(t))
    for _ in range(n):
        texts.append(rand_text(rnd) if rnd.random() < 0.4 else structured_text(rnd))
    return texts


def nontrivial_text(t):
    inq = None
    for ch in t:
        if inq is None and ch in "'\"`":
            inq = ch
        elif inq is not None and ch == inq:
            inq = None
        elif inq is not None and ch in "\"'\\`[]":
            return True
    return False


def lit(rnd):
    return "".join(rnd.choice(["a", "b", '"', "[", "]", " ", "é", "x", "1", ",", "`"]) for _ in range(rnd.randint(0, 5)))


def keyname(rnd):
    return "".join(rnd.choice(["a", "b", "[", "]", " ", "'", "k", "2"]) for _ in range(rnd.randint(1, 4))).strip() or "k"


WRAPPED_SHAPES = [
    "SELECT n, {lit} AS lit FROM `root.t` WHERE n >= 1",
    "SELECT d.n, {lit} AS lit FROM (SELECT n FROM `root.t` WHERE n >= 1) d",
    "WITH c AS (SELECT n FROM `root.t`) SELECT n, {lit} AS lit FROM c",
    "WITH c AS (SELECT n FROM `root.t`), e AS (SELECT n FROM c WHERE n > 1) SELECT n FROM e",
    "SELECT n FROM `root.t` UNION ALL SELECT n FROM `root.t` WHERE n > 1",
    "SELECT n FROM `root.t` UNION SELECT n FROM `root.t` UNION ALL SELECT n FROM `root.t`",
    "SELECT n, (SELECT COUNT(*) AS c FROM `<-root.t`) AS cnt FROM `root.t`",
    "SELECT n FROM `root.t` WHERE n IN (SELECT n FROM `<-root.t` WHERE n > 1)",
    "SELECT * FROM `root.t` a JOIN `root.t` b ON a.n = b.n",
    "SELECT n, COUNT(*) AS c FROM `root.t` GROUP BY n",
    "SELECT x.n FROM (SELECT y.n FROM (SELECT n FROM `root.t`) y) x ORDER BY x.n DESC LIMIT 2",
    "SELECT `root.t[0].n` AS first, {lit} AS lit FROM dual",
]


def meta_cases(rnd, n):
    """(canonical request, alternative request) pairs that must give equal results"""
    pairs = []
    for _ in range(n):
        k1, k2 = keyname(rnd), keyname(rnd)
        if k1 == k2:
            k2 += "z"
        rows = [{k1: rnd.choice([1, 2, 3]), k2: rnd.choice(["p", lit(rnd)]), "n": rnd.choice([1, 2])} for _ in range(rnd.randint(0, 4))]
        doc = {"t": rows}
        s = lit(rnd)
        kind = rnd.random()
        bt = lambda name: "`" + name + "`"
        dq = lambda name: '"' + name + '"'
        if "`" in k1 or "`" in k2 or '"' in k1 or '"' in k2 or "\\" in k1 + k2:
            continue
        if kind < 0.45:
            # identifier quoting: backticks without the option == double quotes with it
            # (sometimes behind arithmetic whose text looks like the start of a comment to anything but the tokenizer)
            pre = rnd.choice(["", "", "", "n--1 AS neg, ", "n-- 1 AS neg, ", "n-(-1) AS neg, ", "1--n AS neg, "])
            tmpl = "SELECT " + pre + "{a} AS r1, {b} AS r2, " + sql_str(s) + " AS lit FROM t WHERE {b} != " + sql_str(s + "#")
            canon_sql = tmpl.format(a=bt(k1), b=bt(k2))
            alt_sql = tmpl.format(a=dq(k1), b=dq(k2))
            pairs.append(({"op": "query", "doc": enc_val(doc), "sql": canon_sql},
                          {"op": "query", "doc": enc_val(doc), "sql": alt_sql, "pg": True}, "pg-ident"))
            # and the option must not disturb a query that has no double-quoted identifier
            pairs.append(({"op": "query", "doc": enc_val(doc), "sql": canon_sql},
                          {"op": "query", "doc": enc_val(doc), "sql": canon_sql, "pg": True}, "pg-noop"))
        elif kind < 0.85:
            def arr(d):
                items = []
                for _ in range(rnd.randint(0, 3)):
                    items.append(arr(d - 1) if d > 0 and rnd.random() < 0.35 else
                                 rnd.choice(["n", "1", "n + 1", sql_str(s), ("ID", k1)]))
                return items
            tree = arr(2)
            def leaf(x, q):
                return q(x[1]) if isinstance(x, tuple) else x
            def r_arr(t, q=bt):
                return "ARRAY(" + ", ".join(r_arr(x, q) if isinstance(x, list) else leaf(x, q) for x in t) + ")"
            def r_brk(t, q=bt):
                return "[" + ", ".join(r_brk(x, q) if isinstance(x, list) else leaf(x, q) for x in t) + "]"
            pre = rnd.choice(["", "", "", "n--1 AS neg, ", "n-(-1) AS neg, ", "1--n AS neg, "])
            canon_sql = "SELECT %s%s AS v, %s AS lit FROM t" % (pre, r_arr(tree), sql_str(s))
            alt_sql = "SELECT %s%s AS v, %s AS lit FROM t" % (pre, r_brk(tree), sql_str(s))
            alt_sql_dq = "SELECT %s%s AS v, %s AS lit FROM t" % (pre, r_brk(tree, dq), sql_str(s))
            pairs.append(({"op": "query", "doc": enc_val(doc), "sql": canon_sql},
                          {"op": "query", "doc": enc_val(doc), "sql": alt_sql, "arr": True}, "arrays"))
            both = rnd.random() < 0.3
            if both:
                pairs.append(({"op": "query", "doc": enc_val(doc), "sql": canon_sql},
                              {"op": "query", "doc": enc_val(doc), "sql": alt_sql_dq, "arr": True, "pg": True},
                              "arrays+pg"))
        else:
            # Wrapped(): the input is addressable under `root` in EVERY statement of the query (derived tables, CTE
            # bodies, union branches, sub-queries), exactly as if the caller had passed {"root": input}
            sql_root = rnd.choice(WRAPPED_SHAPES).replace("{lit}", sql_str(s))
            wdoc = doc
            if rnd.random() < 0.2:
                # the wrapper is `root` itself: read as a whole, also when the input is empty or holds no table
                sql_root = rnd.choice(["SELECT * FROM root", "SELECT COUNT(*) AS c FROM root", "SELECT root AS r FROM dual",
                                       "SELECT 1 AS one, {lit} AS lit FROM root".replace("{lit}", sql_str(s)),
                                       "SELECT `root.t` AS t FROM dual"])
                wdoc = rnd.choice([{}, {}, doc, {"t": []}, {"n": 1}])
            pairs.append(({"op": "query", "doc": enc_val({"root": wdoc}), "sql": sql_root},
                          {"op": "query", "doc": enc_val(wdoc), "sql": sql_root, "wrapped": True}, "wrapped"))
    return pairs


def explore(chk, rnd, tier):
    texts = unit_cases(rnd, 3000 if tier == "quick" else 40000, 3 if tier == "quick" else 5)
    nt = set()
    for op in ("dq2bt", "fixarr"):
        reqs = [{"op": op, "text": t} for t in texts]
        gos = run_go([dict(r) for r in reqs])
        leans = run_lean([dict(r) for r in reqs])
        for t, g, l in zip(texts, gos, leans):
            chk.count(op + ":" + str(g.get("r")))
            if g.get("r") in ("panic", "crash", "hang"):
                chk.add_violation(op + "-panic", {"op": op, "text": t, "impl": g})
                break
            if g.get("r") != l.get("r") or (g.get("r") == "ok" and g.get("v") != l.get("v")):
                chk.add_violation(op + "-model-vs-impl", {"op": op, "text": t, "impl": g, "model": l})
                break
            if nontrivial_text(t):
                nt.add(op + t)
    pairs = meta_cases(rnd, 1200 if tier == "quick" else 20000)
    a = run_go([dict(p[0]) for p in pairs])
    b = run_go([dict(p[1]) for p in pairs])
    for (ca, cb, tag), ra, rb in zip(pairs, a, b):
        chk.count("meta:" + tag + ":" + str(ra.get("r")))
        if ra.get("r") in ("panic", "crash", "hang") or rb.get("r") in ("panic", "crash", "hang"):
            chk.add_violation("meta-crash", {"canonical": ca, "alternative": cb, "ra": ra, "rb": rb})
            break
        # joins and GROUP BY emit key groups in Go map order: compared as multisets
        unordered = " JOIN " in ca["sql"] or "GROUP BY" in ca["sql"]
        def same_rows(x, y):
            if unordered and isinstance(x, list) and isinstance(y, list):
                return sorted(canon(r) for r in x) == sorted(canon(r) for r in y)
            return canon(x) == canon(y)
        same = ra.get("r") == rb.get("r") and (ra.get("r") != "ok" or same_rows(dec_val(ra["v"]), dec_val(rb["v"])))
        if not same:
            chk.add_violation("spelling-changes-result", {"kind": tag, "canonical": ca, "alternative": cb,
                                                          "canonical_result": ra, "alternative_result": rb})
            break
        if ra.get("r") == "ok":
            nt.add(cb["sql"])
    chk.cov["evaluations"] = 2 * len(texts) + 2 * len(pairs)
    chk.cov["distinct_nontrivial"] = len(nt)
    chk.samples.extend([{"text": t} for t in texts[-3:]] + [{"canonical": p[0]["sql"], "alternative": p[1]["sql"]} for p in pairs[:3]])


LEVEL_TEXT = ("Lean theorems about byte-level models of DoubleQuotesToBackTick and FindArrayIndex/FixIdiomaticArray: for every token "
              "list the double-quote spelling is rewritten to exactly the backtick spelling and single-quoted literals / backtick "
              "identifiers are copied byte for byte; for every byte string with balanced active brackets every `[` becomes ARRAY( "
              "and every `]` becomes ) and nothing else changes (FIFO pairing and the 5k offset proved harmless); unbalanced input "
              "is an error; neither function can panic. Tied to /repo by byte-string correspondence and metamorphic spelling pairs.")
LEVEL_NOTE = ("Both spellings hand the parser the same text, so no model of the parser is needed. A backslash outside '...'/\"...\" "
              "(e.g. at the end of a backtick identifier) hides the next byte from the bracket scanner: recorded observation.")
TECHNIQUE = "Lean 4 proof (state-machine simulation over token lists / bracket forests) + byte-string correspondence + metamorphic pairs"

# the text of the functions this property's model mirrors is a regenerated fact (Obligations/PinC17: closed by rfl)
FACTS = True
LEAN_TARGETS = list(LEAN_TARGETS) + ["Genql.Obligations.PinC17"]
THEOREMS = list(THEOREMS) + ["Genql.Obligations.PinC17.pinned_text"]
