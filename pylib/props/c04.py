"""C04 — Joins return the textbook multiset for every join type and strategy."""
from ..sqlgen import *  # noqa
from ..qcheck import mk_case, run_cases
from ..common import dec_val

FACTS = True
MODULE = "Genql.Properties.C04"
LEAN_TARGETS = [MODULE, "Genql.Properties.C04Model", "Genql.Proofs.KeyText", "Genql.Properties.C04On", "Genql.Properties.C04Cmp", "Genql.Obligations.C04"]
THEOREMS = ["Genql.C04." + t for t in [
    "catalogue_eq_groups", "catalog_flatten_perm", "catalog_member_key", "catalog_lookup_filter",
    "hash_inner_perm_textbook", "hash_left_perm_textbook", "flatMap_comm_perm", "nested_inner_perm_textbook",
    "strategy_independent", "parallel_schedule_independent", "map_order_independent",
    "toCatalog_catalogue", "catLookup_pure", "pairAll_pure", "nullAll_pure", "hashJoinRun_pure", "hashPure_inner_eq",
    "hashPure_left_eq", "nested_group_perm", "nested_left_perm_textbook", "catalog_group_nonempty", "catalog_cover",
    "nestedRun_pure", "nestedPure_inner_eq", "nestedPure_left_eq", "toCatalog_entries", "hash_join_model_textbook",
    "nested_join_model_textbook"]] + ["Genql.KeyText." + t for t in [
        "tok_append_inj", "enc_injective", "encKey_injective", "rowKey_enc", "rowKey_eq_iff"]] + \
    ["Genql.C04." + t for t in ["hard_eq_flat", "on_sound", "on_and_sound", "func_args_read_as_paths", "rowKey_total", "valueOfText_mem",
                               "join_cmp_model_textbook"]] + ["Genql.Obligations.C04.join_strategy_lines"]
TRUSTED = ["Go map iteration order is an arbitrary permutation (results compared as multisets)",
           "SHA-256 of the key text is collision free",
           "sqlparser's parser; its JoinType predicates are no longer taken on trust: the table in pylib/sqlgen.py is compared with the parser's answers on every run",
           "goroutine scheduling of the PARALLEL variants only permutes chunk order (mutex-protected append)"]
RULE = ("two aliased tables (0-7 rows, duplicate keys, numeric and string key columns, names chosen so both sides sort "
        "differently) x ON built from = != < <= > >= over 1-3 column pairs under AND/OR in random order and orientation x all 17 "
        "join spellings x each side given as the table, as a derived table over it or as a CTE holding it; compared as multisets; non-trivial = >=1 matching and >=1 non-matching pair; distinct by (doc, SQL)")

LCOLS = [("a", "num"), ("z", "str"), ("k", "num")]
RCOLS = [("m", "num"), ("b", "str"), ("a", "num")]


def gen_side(rnd, cols):
    n = rnd.randint(0, 7)
    # (neighbours beyond 2^24 and with many significant digits: distinct keys whose texts differ only in the last digits;
    #  1e6 / 1e21: where the %v text of a key changes shape)
    npool = rnd.choice([[1, 2, 3], [1, 1, 2], [0, 1, 2, 3, 10], [1.5, 2, 2.5], [1, 2, 3], [0, 1, 2, 3, 10],
                        [40000001, 40000002, 40000003, 7], [16777216, 16777217, 16777218], [0.1, 0.10000000149011612, 0.3],
                        [1000000, 999999, 1e21, 123456789.25, 123456789.5]])
    spool = rnd.choice([["p", "q"], ["a-", "a", "-b", "b"], ["x", "y", "z"], ["1", "2", "1-"]])
    rows = []
    for _ in range(n):
        rows.append({c: (rnd.choice(npool) if k == "num" else rnd.choice(spool)) for c, k in cols})
    return rows


def gen_on(rnd, depth, eq_only=False):
    if depth > 0 and rnd.random() < 0.5:
        op = "and" if (eq_only or rnd.random() < 0.65) else "or"
        return [op, gen_on(rnd, depth - 1, eq_only), gen_on(rnd, depth - 1, eq_only)]
    kind = rnd.choice(["num", "str"])
    lc = rnd.choice([c for c, k in LCOLS if k == kind])
    rc = rnd.choice([c for c, k in RCOLS if k == kind])
    op = "eq" if (eq_only or rnd.random() < 0.5) else rnd.choice(["ne", "lt", "le", "gt", "ge"])
    a, b = col("x", lc), col("y", rc)
    if rnd.random() < 0.4:
        a, b = b, a
        op = {"lt": "gt", "gt": "lt", "le": "ge", "ge": "le"}.get(op, op)
    return ["cmp", op, a, b]


KEYWORD_NAMES = {"a": "key", "z": "name", "k": "value", "m": "status", "b": "date"}


def rename(x, names):
    """the same case with its columns renamed (document rows and the query's column paths)"""
    if isinstance(x, dict):
        return {names.get(k, k) if isinstance(k, str) else k: rename(v, names) for k, v in x.items()}
    if isinstance(x, list):
        if len(x) >= 2 and x[0] == "col" and isinstance(x[1], list):
            return ["col", [x[1][0]] + [names.get(p, p) for p in x[1][1:]]] + [rename(y, names) for y in x[2:]]
        return [rename(y, names) for y in x]
    return x


def gen_case(rnd):
    c = gen_case0(rnd)
    if rnd.random() < 0.2:
        # column names are data: the same join over columns called key / name / value / status / date (SQL keywords, which a
        # printer of the syntax tree would quote)
        doc = {t: [rename(row, KEYWORD_NAMES) for row in rows] for t, rows in c["doc"].items()}
        q = rename(c["q"], KEYWORD_NAMES)
        c2 = mk_case(doc, q, mode="multiset", tag=c["tag"], num_kind=c.get("num_kind"))
        c2["mixed"], c2["sides"], c2["renamed"] = c.get("mixed"), c.get("sides"), True
        return c2
    return c


def gen_case0(rnd):
    l, r = gen_side(rnd, LCOLS), gen_side(rnd, RCOLS)
    mixed = rnd.random() < 0.1
    if mixed:
        # keys whose %v texts coincide across kinds ("1" vs 1): Compare treats them as equal, so must the hash path
        for row in l:
            row["a"] = rnd.choice([1, "1", 2, "2", "1.0", 10, "9", "10"])
        for row in r:
            row["m"] = rnd.choice([1, "1", 2, "2", 3, "01", 9, "10", "2.0"])
    spelling = rnd.choice(list(JOIN_KINDS))
    eq_only = rnd.random() < 0.45
    on = gen_on(rnd, rnd.randint(0, 2), eq_only)
    jt = join_type(spelling)
    # each side: the table itself, a derived table over it, or a CTE holding it — the rows are the same, so is the textbook join
    ctes = []
    sides = []
    for tname, alias in (("l", "x"), ("r", "y")):
        form = rnd.random()
        if form < 0.12:
            sides.append(["derived", select([["star"]], table(tname)), alias])
        elif form < 0.2:
            ctes.append(["cte_" + tname, select([["star"]], table(tname))])
            sides.append(table("cte_" + tname, alias))
        else:
            sides.append(table(tname, alias))
    frm = ["join", jt, sides[0], sides[1], on]
    q = select([["star"]], frm, ctes=ctes)
    form_tag = "+".join(sd[0] if sd[0] == "derived" else ("cte" if sd[1][0].startswith("cte_") else "table") for sd in sides)
    c = mk_case({"l": l, "r": r}, q, mode="multiset", tag=spelling,
                num_kind=rnd.choice(["int", "int64", "int32", "uint8", "float32"]) if (not mixed and rnd.random() < 0.1) else None)
    c["sides"] = form_tag
    c["mixed"] = mixed
    return c


def py_on(on, x, y):
    t = on[0]
    if t == "and":
        return py_on(on[1], x, y) and py_on(on[2], x, y)
    if t == "or":
        return py_on(on[1], x, y) or py_on(on[2], x, y)
    def val(e):
        side, c = e[1]
        return (x if side == "x" else y)[c]
    a, b = val(on[2]), val(on[3])
    return {"eq": a == b, "ne": a != b, "lt": a < b, "le": a <= b, "gt": a > b, "ge": a >= b}[on[1]]


def textbook(c):
    """reference: pairs satisfying ON + NULL-extended unmatched rows of the preserved side"""
    frm = c["q"][4]
    jt, on = frm[1], frm[4]
    L, R = c["doc"]["l"], c["doc"]["r"]
    out = []
    for x in L:
        for y in R:
            if py_on(on, x, y):
                out.append({"x": x, "y": y})
    if not jt["inner"]:
        if jt["left"]:
            for x in L:
                if not any(py_on(on, x, y) for y in R):
                    out.append({"x": x, "y": None})
        else:
            for y in R:
                if not any(py_on(on, x, y) for x in L):
                    out.append({"x": None, "y": y})
    return out


def nontrivial(c, g, l):
    if g["r"] != "ok":
        return False
    n = len(dec_val(g["v"]))
    nl, nr = len(c["doc"]["l"]), len(c["doc"]["r"])
    return 0 < n and nl * nr > 0 and n != nl * nr


def join_type_table(chk):
    """the table of JoinType predicates the generator (and through it the model) uses, against what the parser's own
    IsInner / IsLeftJoin / IsStraightJoin / IsParallel answer for each spelling in this build"""
    from ..common import run_go
    sp = list(JOIN_KINDS)
    outs = run_go([{"op": "jointype", "text": s} for s in sp])
    bad = []
    for s, o in zip(sp, outs):
        want = dict(zip(("inner", "left", "straight", "parallel"), JOIN_KINDS[s]))
        got = {k: o.get(k) for k in want}
        if o.get("r") != "ok" or got != want:
            bad.append("%s: table %s parser %s" % (s, want, got if o.get("r") == "ok" else o.get("msg")))
    chk.obligation("join-type-table-matches-parser", not bad, "; ".join(bad)[:1500])
    chk.cov["join_spellings_checked_against_parser"] = len(sp)


def explore(chk, rnd, tier):
    join_type_table(chk)
    n = 3000 if tier == "quick" else 80000
    done = 0
    while done < n and not chk.violations:
        m = min(5000, n - done)
        res = run_cases(chk, [gen_case(rnd) for _ in range(m)], nontrivial=nontrivial)
        # cross-check of the model itself against a direct textbook reference (guards against a
        # model that faithfully mirrors a wrong implementation)
        from ..common import as_multiset, enc_val
        for c, g, l, v in res:
            if c.get("sides"):
                chk.count("sides:" + c["sides"])
            if l["r"] == "ok" and not c.get("mixed") and not (c.get("tag") or "").startswith("ctx:"):
                if as_multiset(dec_val(l["v"])) != as_multiset(dec_val(enc_val(textbook(c)))):
                    chk.add_violation("model-vs-textbook", {"sql": c["sql"], "doc": c["doc"], "model": l, "textbook": textbook(c)})
                    break
                chk.count("textbook-agree")
        done += m


LEVEL_TEXT = ("Lean theorems: catalogues (first-appearance key groups) flatten to a permutation of the rows and lookup is filter; "
              "the hash join and the nested loop over key groups are permutations of the textbook join (pairs satisfying ON plus "
              "NULL-extended unmatched rows for outer joins) for every table pair, ON predicate determined by the key columns, and "
              "iteration order; hence strategy- and schedule-independence as multisets. End to end for the executable model: for "
              "object rows with readable key columns, toCatalog + hashJoinRun / nestedRun succeed and return a permutation of the "
              "textbook INNER / LEFT OUTER join (hash_join_model_textbook, nested_join_model_textbook; RIGHT = LEFT with sides "
              "swapped by definition of execJoin). The length-prefixed key text is injective for every list of column texts "
              "(enc_injective, rowKey_eq_iff): two rows share a catalogue group iff their key column texts are equal. ON is "
              "evaluated with hard-coded reads on the merged key map: on the predicate fragment that is ordinary evaluation with "
              "flattened column names, so ON has its SQL truth value there and AND/OR/NOT pass the reads on to every operand "
              "(hard_eq_flat, on_sound). Capstone (join_cmp_model_textbook): the executable model's execJoin of two aliased "
              "tables on one comparison x.a op y.b (op in != < <= > >=), INNER and LEFT OUTER, sequential or PARALLEL flag, "
              "succeeds and returns a permutation of the textbook join on the SQL comparison of the two column values - column "
              "extraction, catalogues, ON on the merged key map and the pairing loops all unfolded; assumption: equal %v texts "
              "mean equal values within each key column. "
              "Tied to /repo by the correspondence over all 17 join spellings.")
LEVEL_NOTE = ("Go map order / goroutine schedule enter only as a permutation of key groups (proved irrelevant). A data race inside "
              "the PARALLEL variants cannot be exhibited by the model: that is C13's obligation. STRAIGHT_JOIN on LEFT/RIGHT is an "
              "error by design.")
TECHNIQUE = "Lean 4 proof (List.Perm reasoning over catalogue groups) + differential correspondence"

# the text of the functions this property's model mirrors is a regenerated fact (Obligations/PinC04: closed by rfl)
FACTS = True
LEAN_TARGETS = list(LEAN_TARGETS) + ["Genql.Obligations.PinC04"]
THEOREMS = list(THEOREMS) + ["Genql.Obligations.PinC04.pinned_text"]
