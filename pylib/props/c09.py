"""C09 — Path selectors evaluate per the documented grammar and fail only with errors."""
from ..common import run_go, run_lean, dec_val, canon, enc_val

MODULE = "Genql.Properties.C09"
LEAN_TARGETS = [MODULE]
THEOREMS = ["Genql.C09." + t for t in [
    "sel_total_no_panic", "parse_no_panic", "evalSteps_keys", "key_on_object", "key_maps_arrays", "missing_key_null",
    "index_in_range", "index_out_of_range_error", "range_is_slice", "range_out_of_bounds_error", "each_iterates",
    "each_flattens", "dims_eq_flattened_keep", "keep_preserves_nesting", "continue_is_composition", "pipe_reshape",
    "quoted_key_literal", "toplevel_fn_applied_last", "toplevel_fn_registered_now", "registered_again_overrides",
    "register_other_untouched", "parse_is_registry_free", "registered_now_text", "mix_flat_idempotent", "wrong_shape_error", "parse_keys", "exec_keys",
    "print_parse_roundtrip"]]
TRUSTED = ["Go regexp (the three tokenizer patterns are re-implemented by hand in the model; agreement is checked by the "
           "correspondence on grammar-derived, mutated and random selector strings)", "fmt %v / %d / %f and strconv.ParseFloat in pipes"]
RULE = ("ExecReader vs the Lean selector model on (a) selectors derived from the documented grammar (keys, quoted keys, [i], [i:j], "
        "each, keep=>, (m:n) with begin/end, {k|type,...}, ::, fn=>) over ragged documents of depth <= 4 with indices in -1..len+1, "
        "each text (valid, mutated or random) also replayed as a history over 7 documents in one process (selector cache), "
        "(b) mutated selectors, (c) random strings; recover() around every call (a panic is a violation) and a before/after comparison "
        "of the document; non-trivial = selector with >=2 steps on a document of depth >=2; error cases counted separately")

KEYS = ["a", "b", "c", "users", "name", "tags", "x", "y", "grid", "id", "k_1", "0", "createdAt", "Name", "2023"]


def gen_val(rnd, depth):
    k = rnd.random()
    if depth <= 0 or k < 0.25:
        return rnd.choice([1, 2, 3.5, -1, "s", "12", "", True, None, "a b"])
    if k < 0.6:
        n = rnd.randint(0, 4)
        if rnd.random() < 0.5:
            # array of objects with the same keys
            ks = rnd.sample(KEYS, rnd.randint(1, 3))
            return [{kk: gen_val(rnd, depth - 2) for kk in ks} for _ in range(n)]
        return [gen_val(rnd, depth - 1) for _ in range(n)]
    return {kk: gen_val(rnd, depth - 1) for kk in rnd.sample(KEYS, rnd.randint(0, 4))}


def gen_doc(rnd):
    d = {kk: gen_val(rnd, rnd.randint(1, 4)) for kk in rnd.sample(KEYS, rnd.randint(1, 5))}
    if rnd.random() < 0.4:
        rows, cols = rnd.randint(0, 3), rnd.randint(0, 3)
        d["grid"] = [[[rnd.randint(0, 9) for _ in range(rnd.randint(0, 2))] for _ in range(cols)] for _ in range(rows)]
    if rnd.random() < 0.4:
        d["users"] = [{"name": rnd.choice(["ann", "bob"]), "id": i, "tags": [rnd.choice(["t", "u"]) for _ in range(rnd.randint(0, 3))],
                       "createdAt": "2020"} for i in range(rnd.randint(0, 4))]
    return d


def gen_dim(rnd):
    k = rnd.random()
    if k < 0.4:
        return str(rnd.randint(0, 4))
    if k < 0.65:
        return "each"
    b = rnd.choice(["begin", "0", "1", "2", "5"])
    e = rnd.choice(["end", "0", "1", "2", "3", "7"])
    return "(%s:%s)" % (b, e)


def gen_dim_hist(rnd):
    """dimension for the history stream: open-ended ranges (`begin` / `end` depend on the array at hand, so
    whatever a cached parse remembers about one document is wrong for the next) are the common case"""
    k = rnd.random()
    if k < 0.5:
        return "(%s:%s)" % (rnd.choice(["begin", "0", "1"]), rnd.choice(["end", "end", "2"]))
    return gen_dim(rnd)


def gen_step(rnd):
    k = rnd.random()
    if k < 0.5:
        return "." + rnd.choice(KEYS)
    if k < 0.58:
        return ".'" + rnd.choice(["a b", "user.name", "x", "k-1"]) + "'"
    if k < 0.85:
        dims = ":".join(gen_dim(rnd) for _ in range(rnd.randint(1, 3)))
        return "[" + ("keep=>" if rnd.random() < 0.3 else "") + dims + "]"
    if k < 0.95:
        items = []
        for _ in range(rnd.randint(1, 3)):
            key = rnd.choice(KEYS)
            t = rnd.choice(["", "", "|string", "|number", "|bogus"])
            items.append(key + t)
        return "{" + ", ".join(items) + "}"
    return "::" + rnd.choice(["[0]", "[each]", "name", "[(0:1)]"])


def gen_selector(rnd, doc):
    s = rnd.choice(list(doc.keys()) + KEYS[:3])
    for _ in range(rnd.randint(0, 4)):
        s += gen_step(rnd)
    if rnd.random() < 0.12:
        s = rnd.choice(["mix", "distinct", "nosuch", ""]) + "=>" + s
    return s


MUT = list("[](){}:.'|=> -+,") + ["each", "keep=>", "begin", "end", "::", "=>", "é", "1", "99999999999999999999", "\n"]


def mutate(rnd, s):
    chars = list(s)
    for _ in range(rnd.randint(1, 3)):
        op = rnd.random()
        pos = rnd.randint(0, len(chars))
        if op < 0.4:
            chars.insert(pos, rnd.choice(MUT))
        elif op < 0.7 and chars:
            del chars[min(pos, len(chars) - 1)]
        elif chars:
            chars[min(pos, len(chars) - 1)] = rnd.choice(MUT)
    return "".join(chars)


def random_string(rnd):
    alpha = list("ab01[](){}:.'|=>- ,_") + ["each", "é", "\\"]
    return "".join(rnd.choice(alpha) for _ in range(rnd.randint(0, 10)))


def depth(v):
    if isinstance(v, dict):
        return 1 + max([depth(x) for x in v.values()] + [0])
    if isinstance(v, list):
        return 1 + max([depth(x) for x in v] + [0])
    return 0


def explore(chk, rnd, tier):
    n = 6000 if tier == "quick" else 120000
    done = 0
    nt = set()
    while done < n and not chk.violations:
        m = min(20000, n - done)
        cases = []
        # histories: the process-wide selector cache is keyed by selector TEXT, so the same text is
        # applied to several documents of different shapes (and ragged arrays) within one process
        pool_docs = [gen_doc(rnd) for _ in range(12)]
        ragged = {"grid": [[1, 2], [3, 4, 5], [], [6]], "rows": [["a", "b", "c"], ["d"]], "items": ["a", "b", "c"],
                  "users": [{"tags": [1]}, {"tags": [1, 2, 3]}, {"tags": []}]}
        ragged2 = {"grid": [[1], [2, 3, 4, 5, 6]], "rows": [["x"], ["y", "z", "w", "v"]], "items": ["a", "b", "c", "d", "e"],
                   "users": [{"tags": [1, 2, 3, 4]}, {"tags": [2]}]}
        for _ in range(m // 40):
            sel = gen_selector(rnd, rnd.choice(pool_docs))
            if rnd.random() < 0.5:
                sel = rnd.choice(["grid", "rows", "items", "users[each].tags", "users.tags"]) + \
                    "[" + ("keep=>" if rnd.random() < 0.3 else "") + ":".join(gen_dim_hist(rnd) for _ in range(rnd.randint(1, 2))) + "]"
            if rnd.random() < 0.1:
                # a valid head followed by a `::` segment the parser rejects: nothing of the failed parse may be kept
                sel = sel + "::" + rnd.choice(["[first]", "[(1:2:3)]", "[(a:b)]", "[x", "{k|}"])
            if rnd.random() < 0.35:
                # invalid texts too: a failed parse must fail again on every later evaluation
                sel = mutate(rnd, sel) if rnd.random() < 0.8 else random_string(rnd)
            for d in rnd.sample(pool_docs, 4) + [ragged, ragged2, ragged]:
                cases.append((d, sel, "history"))
        # several dimensions whose innermost one is a range that ends before the array does, over rectangular arrays with at
        # least two rows: the chunks are sub-slices of the document itself, flattening must copy them
        for _ in range(m // 25):
            r, c, dd = rnd.randint(2, 4), rnd.randint(2, 4), rnd.randint(2, 3)
            rect = {"grid": [[10 * i + j for j in range(c)] for i in range(r)],
                    "cube": [[[100 * i + 10 * j + k for k in range(dd)] for j in range(c)] for i in range(r)]}
            rng = lambda hi: "(%s:%d)" % (rnd.choice(["begin", "0", "1"]), rnd.randint(1, hi))
            head, dims = rnd.choice([("grid", ["each", rng(c)]), ("grid", [rng(r), rng(c)]), ("cube", ["each", "each", rng(dd)]),
                                     ("cube", ["each", rng(c)]), ("cube", [rng(r), "each", rng(dd)]), ("cube", ["each", rng(c), rng(dd)])])
            sel = head + "[" + rnd.choice([",", ":", ", "]).join(dims) + "]"
            cases.append((rect, sel, "sub-slice-dims"))
            cases.append((rect, head + "[0]", "sub-slice-dims"))
        while len(cases) < m:
            doc = gen_doc(rnd)
            k = rnd.random()
            sel = gen_selector(rnd, doc)
            kind = "grammar"
            if k > 0.6:
                sel = mutate(rnd, sel)
                kind = "mutated"
            if k > 0.88:
                sel = random_string(rnd)
                kind = "random"
            cases.append((doc, sel, kind))
        reqs = [{"op": "reader", "doc": enc_val(d), "selector": s} for d, s, _ in cases]
        gos = run_go([dict(r) for r in reqs])
        leans = run_lean([dict(r) for r in reqs])
        for (d, s, kind), g, l in zip(cases, gos, leans):
            chk.count(kind + ":" + str(g.get("r")))
            if g.get("r") in ("panic", "crash", "hang"):
                chk.add_violation("selector-panic", {"doc": d, "selector": s, "impl": g})
                break
            if g.get("docChanged"):
                chk.add_violation("document-modified", {"doc": d, "selector": s})
                break
            if l.get("r") == "oom":
                chk.count("out-of-model")
                continue
            same = (g.get("r") == l.get("r")) and (g.get("r") != "ok" or canon(dec_val(g["v"])) == canon(dec_val(l["v"])))
            if not same:
                chk.add_violation("selector-model-vs-impl", {"doc": d, "selector": s, "impl": g, "model": l})
                break
            if g.get("r") == "ok" and depth(d) >= 2 and sum(s.count(c) for c in ".[{:") >= 1:
                nt.add(s + canon(d))
        done += m
    # `fn=>path` applies the top-level function registered under `fn` NOW: registering the name again (after the selector text has
    # been evaluated, and cached, with the earlier function) changes what the same text returns. Expected = the function applied,
    # here, to what the plain path returns.
    apply = {"count": lambda v: float(len(v)) if isinstance(v, list) else 1.0, "wrap": lambda v: [v], "id": lambda v: v,
             "first": lambda v: (v[0] if isinstance(v, list) and v else None)}
    seqs = []
    while len(seqs) < (60 if tier == "quick" else 800) and not chk.violations:
        doc = gen_doc(rnd)
        sel = gen_selector(rnd, doc)
        if "::" in sel or "=>" in sel.split("[")[0] or "=>" in sel.replace("keep=>", ""):
            continue
        name = rnd.choice(["vf_top", "vf_top2", "vf_top3"])
        impls = [rnd.choice(list(apply)) for _ in range(rnd.randint(2, 4))]
        seqs.append((doc, sel, name, impls))
    rreqs, rmeta = [], []
    for doc, sel, name, impls in seqs:
        rreqs.append({"op": "reader", "doc": enc_val(doc), "selector": sel})
        rmeta.append(None)
        for im in impls:
            rreqs.append({"op": "reader", "doc": enc_val(doc), "selector": name + "=>" + sel, "topName": name, "topImpl": im})
            rmeta.append(im)
    routs = run_go([dict(r) for r in rreqs]) if rreqs else []
    # the model evaluates each request under `register builtins name <impl>` (Sel.execReaderWith: C09.toplevel_fn_registered_now)
    rleans = run_lean([dict(r) for r in rreqs]) if rreqs else []
    plain = None
    for r, im, o, l in zip(rreqs, rmeta, routs, rleans):
        if im is None:
            plain = o
            continue
        chk.count("registered-again:" + str(o.get("r")))
        if plain.get("r") != "ok":
            ok = o.get("r") == plain.get("r")
        else:
            ok = o.get("r") == "ok" and canon(dec_val(o["v"])) == canon(apply[im](dec_val(plain["v"])))
        if ok and l.get("r") != "oom":
            ok = o.get("r") == l.get("r") and (o.get("r") != "ok" or canon(dec_val(o["v"])) == canon(dec_val(l["v"])))
        if not ok:
            chk.add_violation("top-level-function-registered-again", {"request": r, "impl": o, "model": l, "plain_path_result": plain,
                                                                      "expected": "the function registered last (" + im + ") applied to the plain result"})
            break
    chk.cov["registration_sequences"] = len(seqs)
    chk.cov["evaluations"] = done
    chk.cov["distinct_nontrivial"] = len(nt)
    chk.samples.extend([{"selector": s, "doc": d} for d, s, _ in cases[:4]])


LEVEL_TEXT = ("Lean theorems about a model of ParseSelector (hand-written equivalents of the three tokenizer regexes) and "
              "Reader/SelectDimension/SelectMany/Unwind/pipes/Mix/Distinct/ExecReader: for every document and EVERY string the "
              "evaluation never panics (only errors); the documented laws hold for all documents: key descent and mapping over "
              "arrays, missing key = NULL, index in/out of range, ranges as slices, each = flattening of the kept structure, keep "
              "preserves nesting, `::` is composition, pipes reshape/convert, quoted keys are literal, top-level functions are applied "
              "last, wrong shape = error; key-only paths agree with the column reader of the query model; print/parse round trip. "
              "Tied to /repo by correspondence on grammar-derived, mutated and random selectors.")
LEVEL_NOTE = ("Purity (the document is never modified) cannot be stated in a functional model: it is carried by C11's write-site "
              "obligation and the before/after comparison here. `{k|number}` on non-integer texts and %f renderings are out of model "
              "(counted).")
TECHNIQUE = "Lean 4 proof (structural induction over selector steps and documents) + differential correspondence incl. random strings"

# the text of the functions this property's model mirrors is a regenerated fact (Obligations/PinC09: closed by rfl)
FACTS = True
LEAN_TARGETS = list(LEAN_TARGETS) + ["Genql.Obligations.PinC09"]
THEOREMS = list(THEOREMS) + ["Genql.Obligations.PinC09.pinned_text"]
