"""C02 — Projection emits one row per kept row with correctly computed columns."""
from ..sqlgen import *  # noqa
from ..qcheck import mk_case, run_cases
from ..common import dec_val

FACTS = True
MODULE = "Genql.Properties.C02"
LEAN_TARGETS = [MODULE, "Genql.Properties.C02Selectors", "Genql.Properties.C02Exprs", "Genql.Properties.Pipeline", "Genql.Obligations.C01", "Genql.Obligations.C12"]
THEOREMS = ["Genql.C02." + t for t in [
    "select_length", "select_row_local", "select_rowwise", "select_keys", "evalSel_frame", "select_values",
    "missing_is_null", "binop_null", "select_no_marker", "select_plain",
    "selc_eval", "selc_error", "selc_keys_eq_col", "tableSel_keys_eq_table",
    "evalWhens_first_true", "case_spec", "case_no_match_null", "bin_num", "bin_field_total", "bin_null_right", "bin_type_error",
    "tuple_values", "evalArgs_length"]] + ["Genql.Obligations.C01.binary_cases", "Genql.Obligations.C12.select_item_lines",
                                        "Genql.Pipeline.having_without_group_by_is_inert"]
TRUSTED = ["IEEE-754 arithmetic (Lean Float in the driver, opaque to the kernel)", "sqlparser (query text -> AST)"]
RULE = ("random tables with nested objects, NULLs and missing keys x select lists of 1-6 items (columns, nested paths, "
        "aliases, duplicates, *, expression trees over all 11 binary and 3 unary operators, CASE with/without ELSE whose conditions compare "
        "computed operands incl. nested CASE); plus "
        "columns, WHERE operands and FROM tables written as path-selector texts (indexes, open ranges, each, pipes, quoted "
        "keys, mix=>) over rows whose arrays differ in length; "
        "non-trivial = >=1 row and an expression of depth >=2 whose value is not NULL on some row; distinct by (doc, SQL)")

INT_OPS = ["intDiv", "mod", "bitAnd", "bitOr", "bitXor", "shl", "shr"]
ARITH = ["plus", "minus", "mult", "div"]


def gen_rows(rnd):
    n = rnd.randint(0, 7)
    rows = []
    ipool = rnd.choice([[0, 1, 2, 3, 7], [-3, -1, 0, 2, 5], [1, 2, 4, 8, 16]])
    fpool = [0.5, 1.5, 2.25, -0.75, 3, 10]
    for _ in range(n):
        r = {}
        for k in ("i0", "i1"):
            x = rnd.random()
            if x < 0.1:
                r[k] = None
            elif x < 0.17:
                pass
            else:
                r[k] = rnd.choice(ipool)
        for k in ("f0",):
            if rnd.random() < 0.85:
                r[k] = rnd.choice(fpool)
        r["s0"] = rnd.choice(["a", "b", "Ab", ""])
        r["b0"] = rnd.random() < 0.5
        if rnd.random() < 0.8:
            r["o"] = {"x": rnd.choice(ipool), "y": {"z": rnd.choice(fpool)}, "s": rnd.choice(["p", "q"])}
        rows.append(r)
    return rows


def gen_num_expr(rnd, depth, want_int=False):
    """-> (expr, is_int)"""
    if depth <= 0 or rnd.random() < 0.3:
        k = rnd.random()
        if k < 0.35:
            return col(rnd.choice(["i0", "i1"])), True
        if k < 0.45 and not want_int:
            return col("f0"), False
        if k < 0.55:
            return col("o", "x", style=rnd.choice([0, 1])), True
        if k < 0.62 and not want_int:
            return ["col", ["o", "y", "z"], {"style": 1}], False
        if k < 0.67:
            return col("nokey"), True
        if want_int or k < 0.9:
            return num(rnd.choice([0, 1, 2, 3, 5, -2, 10, 16777217])), True
        # (constants a narrower float would not hold: non-dyadic fractions, more than 24 significant bits)
        return num(rnd.choice([0.5, 1.5, 2.5, -0.25, 0.1, 0.3, 123456.789])), False
    k = rnd.random()
    if k < 0.12:
        e, ii = gen_num_expr(rnd, depth - 1, want_int)
        return ["un", "neg", e], ii
    if k < 0.18:
        e, _ = gen_num_expr(rnd, depth - 1, True)
        return ["un", "tilda", e], True
    if k < 0.28:
        # CASE
        whens = []
        for _ in range(rnd.randint(1, 2)):
            c = ["cmp", rnd.choice(["lt", "ge", "eq", "ne"]), col(rnd.choice(["i0", "i1"])), num(rnd.choice([0, 1, 2, 3]))]
            if depth >= 2 and rnd.random() < 0.35:
                # operands that are themselves computed — arithmetic, or a CASE with its own comparison (a comparison evaluated
                # while another one is being evaluated)
                a, _ = gen_num_expr(rnd, depth - 1, True)
                b, _ = gen_num_expr(rnd, depth - 2, True)
                c = ["cmp", rnd.choice(["lt", "ge", "eq", "ne", "gt", "le"]), a, b]
                if rnd.random() < 0.5:
                    c = [rnd.choice(["and", "or"]), c, ["cmp", rnd.choice(["lt", "ge"]), col("i1"), num(rnd.choice([1, 2]))]]
            v, _ = gen_num_expr(rnd, depth - 1, want_int)
            whens.append([c, v])
        has_else = rnd.random() < 0.6
        if has_else:
            e, _ = gen_num_expr(rnd, depth - 1, want_int)
            return ["case", whens, e, {"else": True}], want_int
        return ["case", whens, ["null"], {"else": False}], want_int
    if k < 0.55 or want_int:
        if rnd.random() < 0.45:
            op = rnd.choice(INT_OPS)
            a, _ = gen_num_expr(rnd, depth - 1, True)
            if op in ("shl", "shr"):
                b = num(rnd.choice([0, 1, 2, 3, 5])) if rnd.random() < 0.8 else col("i0")
            else:
                b, _ = gen_num_expr(rnd, depth - 1, True)
            return ["bin", op, a, b], True
        op = rnd.choice(["plus", "minus", "mult"])
        a, ia = gen_num_expr(rnd, depth - 1, want_int)
        b, ib = gen_num_expr(rnd, depth - 1, want_int)
        return ["bin", op, a, b], ia and ib
    if rnd.random() < 0.2:
        # `%` is the IEEE remainder on doubles: fractional operands, fractional and negative divisors
        a, _ = gen_num_expr(rnd, depth - 1)
        b = num(rnd.choice([2, 0.25, 1.5, -2, 0.5, 3, 7.5])) if rnd.random() < 0.8 else col("f0")
        return ["bin", "mod", a, b], False
    op = rnd.choice(ARITH)
    a, ia = gen_num_expr(rnd, depth - 1)
    b, ib = gen_num_expr(rnd, depth - 1)
    return ["bin", op, a, b], (ia and ib and op != "div")


def depth_of(e):
    if not isinstance(e, list) or not e:
        return 0
    return 1 + max([depth_of(x) for x in e[1:] if isinstance(x, list)] + [0])


def gen_item(rnd, depth, used):
    k = rnd.random()
    if k < 0.25:
        c = rnd.choice([col("i0"), col("s0"), col("b0"), col("f0"), col("o"), col("o", "x"), col("o", "s"),
                        col("nokey"), ["col", ["o", "y", "z"], {"style": 1}]])
        # an alias may well be the name of ANOTHER source column: items to its right still read the source row
        alias = rnd.choice(["", "", "k%d" % rnd.randint(0, 3), rnd.choice(["i0", "i1", "s0", "f0", "b0", "nokey", "o"])])
        return item(c, alias)
    if k < 0.32:
        return item(rnd.choice([["str", "lit"], num(7), ["bool", True], ["null"]]), "k%d" % rnd.randint(0, 3))
    if k < 0.37:
        # FUSE blends the keys of an object column into the row (with an optional prefix)
        return item(["func", "", "fuse", [col("o")]], rnd.choice(["", "", "p"]))
    if k < 0.40:
        return item(["un", "bang", col("b0")], "k%d" % rnd.randint(0, 3))
    if k < 0.47:
        c = ["cmp", rnd.choice(["lt", "ge", "eq"]), col("i0"), num(rnd.choice([0, 1, 2]))]
        return item(["case", [[c, rnd.choice([col("s0"), ["str", "yes"], col("o")])]], rnd.choice([["str", "no"], col("i1")]),
                     {"else": True}], "k%d" % rnd.randint(0, 3))
    e, _ = gen_num_expr(rnd, depth)
    return item(e, rnd.choice(["k%d" % rnd.randint(0, 5)] * 3 + ["i0", "i1", "f0", "nokey"]))


def gen_case(rnd, depth):
    rows = gen_rows(rnd)
    n = rnd.randint(1, 6)
    sel = []
    if rnd.random() < 0.2:
        sel.append(["star"])
    for _ in range(n):
        sel.append(gen_item(rnd, depth, None))
    if rnd.random() < 0.1:
        sel.insert(rnd.randint(0, len(sel)), ["star"])
    wh = TRUE
    if rnd.random() < 0.3:
        wh = ["cmp", rnd.choice(["lt", "ge", "ne"]), col("s0"), ["str", "b"]]
    hv = TRUE
    if rnd.random() < 0.1:
        # a trailing HAVING on a query without GROUP BY: the engine reads it and applies nothing (one row per row that passed WHERE)
        hv = ["cmp", rnd.choice(["lt", "ge", "ne", "eq"]), col(rnd.choice(["i0", "i1"])), num(rnd.choice([0, 1, 2, 3]))]
    q = select(sel, table("t"), wh=wh, hv=hv)
    respell(q, rnd, 0.1)
    c = mk_case({"t": rows}, q, mode="seq")
    if rnd.random() < 0.15:
        # the same document with its integral numbers stored as another Go number kind: plain columns, comparisons and CASE
        # work on every kind; arithmetic is refused (invalid cast) — a refusal is accepted, an ANSWER must be the model's
        c["num_kind"] = rnd.choice(["int", "int64", "int32", "uint8", "float32", "mixed"])
        c["kind_lenient"] = True
        c["tag"] = "go-number-kind"
    return c


SEL_TEXTS = ["items[0].x", "items[1].x", "items[(1:end)]", "items[(begin:1)]", "items[each].x", "items[(0:2)].x",
             "tags[(0:1)]", "tags[(1:end)]", "tags[0]", "tags[3]", "o.k", "o{k|string}", "o{k, z}", "items[keep=>each].x",
             "items[each]", "grid[each:0]", "grid[(0:1):each]", "grid[each:(1:end)]", "mix=>grid", "missing[0]", "'a b'.c"]


def gen_selector_case(rnd):
    """select items / WHERE operands written as path-selector texts, evaluated per row: every row has arrays of a
    different length, so whatever a cached parse remembers about one row is wrong for the next"""
    n = rnd.randint(0, 6)
    rows = []
    for i in range(n):
        rows.append({"a": rnd.choice([1, 2, 3]),
                     "items": [{"x": rnd.choice([1, 2, 5]), "y": "v%d" % j} for j in range(rnd.randint(0, 4))],
                     "tags": [rnd.choice(["p", "q", "r"]) for _ in range(rnd.randint(0, 4))],
                     "o": {"k": rnd.choice([1, 2.5, "s", None]), "z": i},
                     "grid": [[rnd.randint(0, 9) for _ in range(rnd.randint(0, 3))] for _ in range(rnd.randint(0, 3))],
                     "a b": {"c": i}})
    sel = [item(col("a"))]
    for j in range(rnd.randint(1, 4)):
        sel.append(item(selc(rnd.choice(SEL_TEXTS)), "s%d" % j))
    if rnd.random() < 0.2:
        sel.append(item(["bin", "plus", selc("items[0].x"), num(1)], "calc"))
    if rnd.random() < 0.2:
        sel.append(item(["func", "", "if", [["cmp", "gt", selc("o.z"), num(1)], selc("items[0].x"), col("a")]], "cc"))
    wh = TRUE
    if rnd.random() < 0.3:
        wh = ["cmp", rnd.choice(["gt", "le", "ne"]), selc(rnd.choice(["items[0].x", "o.z", "grid[0:0]"])), num(rnd.choice([1, 2]))]
    frm = table("t")
    if rnd.random() < 0.3:
        frm = tablesel(rnd.choice(["t[(0:2)]", "t[(1:end)]", "t[0].items", "t[each].items", "t[(0:2)].items", "t[5]"]))
    q = select(sel, frm, wh=wh)
    return mk_case({"t": rows}, q, mode="seq", tag="selector-columns")


def nontrivial(c, g, l):
    if g["r"] != "ok":
        return False
    rows = dec_val(g["v"])
    if not rows:
        return False
    if c.get("tag") == "selector-columns":
        return len(rows) >= 2
    deep = [s for s in c["q"][3] if s[0] == "item" and depth_of(s[1]) >= 2]
    if not deep:
        return False
    return any(r.get(s[2]) is not None for r in rows for s in deep)


def explore(chk, rnd, tier):
    n = 2500 if tier == "quick" else 60000
    depth = 4 if tier == "quick" else 6
    done = 0
    while done < n and not chk.violations:
        m = min(5000, n - done)
        cases = [gen_case(rnd, rnd.randint(1, depth)) for _ in range(m)]
        run_cases(chk, cases, nontrivial=nontrivial)
        run_cases(chk, [gen_selector_case(rnd) for _ in range(m // 5)], nontrivial=nontrivial, label="sel:")
        done += m


LEVEL_TEXT = ("Lean theorems about the model of ExecSelect/SelectExpr/Expr: output length = input length, key set = aliases / "
              "column names / source keys for *, each value = the denotation of its expression on that row only, missing key => "
              "NULL, NULL operand => NULL, every output value plain and no `<-` key; a column / table written as a selector text is "
              "evaluated by the selector model of C09 on the current row only and agrees with the key-path reading on dotted "
              "identifiers (selc_keys_eq_col, tableSel_keys_eq_table); tied to /repo by the correspondence "
              "(bit-exact on doubles).")
LEVEL_NOTE = ("IEEE rounding/NaN/Inf are outside every theorem (numbers are an abstract type in proofs, Float in the driver). "
              "Integer operators are modelled on int64-exact operands only; other operands are skipped as out-of-model and counted.")
TECHNIQUE = "Lean 4 proof (structural induction over select list / expression) + differential correspondence"

# the text of the functions this property's model mirrors is a regenerated fact (Obligations/PinC02: closed by rfl)
FACTS = True
LEAN_TARGETS = list(LEAN_TARGETS) + ["Genql.Obligations.PinC02"]
THEOREMS = list(THEOREMS) + ["Genql.Obligations.PinC02.pinned_text"]
