"""C01 — WHERE keeps exactly the rows that satisfy the predicate, in source order."""
from ..sqlgen import *  # noqa
from ..qcheck import mk_case, run_cases
from ..common import run_go, dec_val

FACTS = True
MODULE = "Genql.Properties.C01"
LEAN_TARGETS = [MODULE, "Genql.Obligations.C01", "Genql.Obligations.C08"]
THEOREMS = [
    "Genql.C01.evalPred_sound",
    "Genql.C01.where_exact",
    "Genql.C01.where_exact_model",
    "Genql.C01.notIn_complement",
    "Genql.C01.between_iff_ge_le",
    "Genql.C01.not_partitions",
    "Genql.C01.like_translation",
    "Genql.C01.inLoop_subquery_rows",
    "Genql.C01.inLoop_multi_column_error",
    "Genql.Obligations.C01.cmpDispatch_modelCmp",
    "Genql.Obligations.C01.comparison_cases_agree",
    "Genql.Obligations.C01.comparison_case_labels",
    "Genql.Obligations.C08.copy_inherits_clauses",
    "Genql.Obligations.C08.copy_own_state",
]
TRUSTED = ["Go regexp engine and regexp.QuoteMeta (compared directly, not modelled)",
           "strings.ToLower beyond ASCII", "sqlparser (query text -> AST)"]
RULE = ("random tables (0-10 rows, typed columns, small value pools) x random predicates from the full operator "
        "grammar (depth<=5 quick / 8 thorough); non-trivial = predicate keeps >=1 and drops >=1 row; "
        "distinct by (document, SQL); LIKE additionally over the small world {a,b}* x {a,b,%,_}* (values up to 3-4, patterns up to 4 characters: "
        "sampled in quick, complete in thorough); 1 in 10 tables is given as an array of arrays (2-3 inner arrays)")


def in_subq_factory(doc_other, names=(), kinds=()):
    def f(rnd, kind):
        cols = [k for k, kd in doc_other["kinds"].items() if kd == kind]
        if not cols:
            return None
        c = rnd.choice(cols)
        wh = TRUE
        outer = [n for n, k in zip(names, kinds) if k == kind]
        if outer and rnd.random() < 0.35:
            # a correlated sub-query: its own WHERE reads the OUTER row through `<-`, so the candidate set differs from row to row
            wh = ["cmp", rnd.choice(["ge", "le", "ne", "lt", "gt", "eq"]), col(c), col("<-", rnd.choice(outer), style=1)]
        frm = table("u") if rnd.random() < 0.6 else ["table", ["<-", "u"], "", "<-u", {"bt": True}]
        return select([item(col(c))], frm, wh=wh)
    return f


def gen_case(rnd, depth):
    names, kinds, pools, rows = gen_table(rnd)
    # a nullable column that only IS [NOT] NULL may touch
    for r in rows:
        k = rnd.random()
        if k < 0.3:
            r["nz"] = None
        elif k < 0.6:
            r["nz"] = rnd.choice([1, "s"])
    n2, k2, p2, rows2 = gen_table(rnd, ncols=2, names=["u0", "u1"], kinds=[rnd.choice(kinds), rnd.choice(["num", "str"])])
    # IN-subquery columns draw from the same pools so membership is frequent
    for r in rows2:
        for j, n in enumerate(n2):
            same = [pools[i] for i in range(len(kinds)) if kinds[i] == k2[j]]
            if same:
                r[n] = rnd.choice(rnd.choice(same))
    doc = {"t": rows, "u": rows2}
    other = {"kinds": dict(zip(n2, k2))}
    p = gen_pred(rnd, names, kinds, pools, depth, in_subq=in_subq_factory(other, names, kinds))
    if rnd.random() < 0.15:
        p = ["and", p, ["is", rnd.choice(["null", "notNull"]), col("nz")]] if rnd.random() < 0.5 else \
            ["or", ["is", rnd.choice(["null", "notNull"]), col("nz")], p]
    q = select([["star"]], table("t"), wh=p)
    if rnd.random() < 0.12:
        # a predicate and its negation partition the rows — evaluated over the SAME table value within one statement
        q = ["union", [], select([["star"]], table("t"), wh=p), select([["star"]], table("t"), wh=["not", p]), False, [], None, None, {}]
    elif rnd.random() < 0.1 and rows:
        # the same rows as an array of arrays: WHERE must filter inside every inner array (each is run in a copy of the query)
        i = rnd.randint(0, len(rows))
        j = rnd.randint(i, len(rows))
        doc = {"t": [rows[:i], rows[i:j], rows[j:]] if rnd.random() < 0.5 else [rows[:i], rows[i:]], "u": rows2}
    # the same table with its integral numbers stored as another Go number kind (the engine accepts all of them)
    nk = rnd.choice(["int", "int64", "int32", "int16", "int8", "uint", "uint64", "uint32", "uint16", "uint8", "float32", "mixed"]) \
        if rnd.random() < 0.2 else None
    # ... or with its tables handed over as typed slices ([]map[string]any) instead of []any
    return mk_case(doc, q, mode="seq", num_kind=nk, tables="maps" if rnd.random() < 0.15 else None)


def nontrivial(c, g, l):
    def flat(x):
        return [r for y in x for r in (flat(y) if isinstance(y, list) else [y])]
    n = len(flat(c["doc"]["t"]))
    k = len(flat(dec_val(g["v"]))) if g["r"] == "ok" else -1
    return 0 < k < n


LIKE_ALPHA = ["a", "B", "%", "_", ".", "(", "[", "\\", "*", "+", "?", "^", "$", "|", "\n", "🙂", "世", "b", "A"]


def like_cases(rnd, n):
    reqs = []
    for _ in range(n):
        s = "".join(rnd.choice(LIKE_ALPHA) for _ in range(rnd.randint(0, 5)))
        if rnd.random() < 0.6:
            # derive the pattern from the string so matches are common
            pat = []
            for ch in s:
                r = rnd.random()
                pat.append("_" if r < 0.2 else ("%" if r < 0.3 else (ch.swapcase() if r < 0.4 else ch)))
            if rnd.random() < 0.3:
                pat.insert(rnd.randint(0, len(pat)), "%")
            pat = "".join(pat)
        else:
            pat = "".join(rnd.choice(LIKE_ALPHA) for _ in range(rnd.randint(0, 4)))
        reqs.append((s, pat))
    # the small world over {a, b} x {a, b, %, _}: every way literal segments of a pattern can overlap, abut or exceed the
    # value (prefix = suffix, a segment longer than what is left, % at either end, empty value) occurs here
    import itertools
    values = ["".join(t) for k in range(0, 4) for t in itertools.product("ab", repeat=k)] + ["abab", "aaaa", "abba", "AB", "aB"]
    pats = ["".join(t) for k in range(0, 5) for t in itertools.product("ab%_", repeat=k)]
    small = [(v, p) for v in values for p in pats]
    rnd.shuffle(small)
    reqs.extend(small[:n] if n < 2000 else small)
    return reqs


def explore(chk, rnd, tier):
    n = 2500 if tier == "quick" else 60000
    depth = 5 if tier == "quick" else 8
    batch = 5000
    done = 0
    while done < n:
        m = min(batch, n - done)
        cases = [gen_case(rnd, rnd.randint(0, depth)) for _ in range(m)]
        run_cases(chk, cases, nontrivial=nontrivial)
        done += m
        if chk.violations:
            break
    # LIKE against the real regexp engine, through a one-row table
    pairs = like_cases(rnd, 600 if tier == "quick" else 8000)
    cases = []
    for s, pat in pairs:
        doc = {"t": [{"s": s}]}
        q = select([["star"]], table("t"), wh=["cmp", "like", col("s"), ["str", pat]])
        cases.append(mk_case(doc, q, mode="seq", tag="like-direct"))
    run_cases(chk, cases, nontrivial=lambda c, g, l: True, label="like:")

LEVEL_TEXT = ("Lean theorems: on the property's domain (typed non-NULL columns, NULL only under IS [NOT] NULL) the model of "
              "ComparisonExpr/BetweenExpr/And/Or/Not/IsExpr returns exactly the SQL truth value and the exec() filter loop "
              "returns rows.filter(sem) for every table and predicate (unbounded); LIKE's matcher equals the SQL LIKE relation. "
              "The model is tied to /repo by a differential correspondence on generated tables x predicates on every run, and by an "
              "obligation on the operator decision table regenerated from ComparisonExpr (each ordering case tests the result of "
              "compare.Compare exactly as cmpDispatch does).")
LEVEL_NOTE = ("Trusted: Lean kernel (+propext, Classical.choice, Quot.sound), the Go<->Lean correspondence glue, sqlparser, Go regexp "
              "(compared not modelled), ASCII-only case folding in the model. IN over a sub-query: the scan over the sub-query's rows "
              "is proved to be membership among the single column's values (inLoop_subquery_rows; several columns = error); that "
              "the rows are what the sub-query returns stand-alone is C07's statement and is covered here by the correspondence.")
TECHNIQUE = "Lean 4 proof (induction over predicate syntax and row list) + differential model/implementation correspondence"

# the text of the functions this property's model mirrors is a regenerated fact (Obligations/PinC01: closed by rfl)
FACTS = True
LEAN_TARGETS = list(LEAN_TARGETS) + ["Genql.Obligations.PinC01"]
THEOREMS = list(THEOREMS) + ["Genql.Obligations.PinC01.pinned_text"]
