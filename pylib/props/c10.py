"""C10 — No query, option set or input can crash or hang the host process."""
from ..sqlgen import *  # noqa
from ..qcheck import go_req
from ..common import run_go, run_lean, dec_val, canon, enc_val
from . import c01, c02, c03, c04, c05, c06, c07, c08, c12, c17

FACTS = True
MODULE = "Genql.Properties.C10"
LEAN_TARGETS = [MODULE, "Genql.Obligations.C10"]
THEOREMS = ["Genql.C10." + t for t in [
    "api_never_panics", "window_total", "selector_total", "dq2bt_total", "fixArr_total", "sanitize_total",
    "self_cte_terminates", "mutual_cte_terminates", "from_index_out_of_range_is_error"]] + \
    ["Genql.Obligations.C10." + t for t in ["panic_sites_guarded", "goroutines_guarded", "recover_boundaries"]]
TRUSTED = ["panics inside the third-party sqlparser, stack exhaustion and scheduler deadlock cannot be expressed in a model: they are "
           "only explored (child process, timeout, memory limit)", "the go/ast extraction of panic sites, goroutines and recover boundaries"]
RULE = ("proof part: totality theorems of every modelled component + obligations on the panic sites / goroutines / recover boundaries "
        "regenerated from the source; exploration part (labelled): the runner is a child process with a timeout and a memory limit; "
        "streams = random byte strings, malformed/mutated selectors inside valid queries (interleaved with valid ones in one "
        "process: a request that fails only after earlier requests is replayed and shrunk to that history), every generator of C01-C08/C12/C17, mutated queries, the listed crash shapes, all 8 option "
        "combinations, PARALLEL joins and ASYNC/SPIN calls that fail or panic on some row; observations = exit status, timeout, "
        "`fatal error`/panic lines; non-trivial = the query reaches Build (not a parse error) or is a listed crash shape")

CRASH_SHAPES = [
    "SELECT * FROM t NATURAL JOIN u",
    "SELECT a FROM t UNION SELECT a FROM u UNION SELECT a FROM t",
    "SELECT a FROM t UNION ALL SELECT a FROM u UNION SELECT a FROM t UNION ALL SELECT a FROM u",
    "WITH c AS (SELECT * FROM c) SELECT * FROM c",
    "WITH c AS (SELECT * FROM d), d AS (SELECT * FROM c) SELECT * FROM c",
    "WITH c AS (SELECT * FROM t WHERE a IN (SELECT a FROM `<-c`)) SELECT * FROM c",
    "SELECT [1, 2 FROM t",
    "SELECT 1] FROM t",
    "SELECT ] [ FROM t",
    "SELECT * FROM `t[7]`",
    "SELECT * FROM `t[0][0]`",
    "SELECT * FROM `t[(5:2)]`",
    "SELECT * FROM `t[(0:99)]`",
    "SELECT * FROM `t[x]`",
    "SELECT a FROM t",
    "SELECT `arr[(1:2:3)]` AS v FROM t",
    "SELECT `arr[0]` AS v FROM t",
    "SELECT `arr[(a:b)]` AS v FROM t",
    "SELECT `arr[each]` AS v FROM t",
    "SELECT * FROM `nosuchfn=>t`",
    "SELECT * FROM `t{a|bogus}`",
    "SELECT * FROM `t::[`",
    # a path INTO a not yet evaluated CTE: the selector runs the CTE's thunk, which reads paths itself
    "WITH x AS (SELECT * FROM t) SELECT * FROM `x.items`",
    "WITH x AS (SELECT a FROM t) SELECT `x[0].a` AS v FROM dual",
    "WITH x AS (SELECT a FROM t), y AS (SELECT * FROM `x[(0:1)]`) SELECT * FROM y",
    "SELECT a FROM t",
    "SELECT * FROM t x PARALLEL JOIN u y ON x.a + 1 = y.a",
    "SELECT * FROM t x PARALLEL JOIN u y ON VF_PANIC(TRUE) = y.a",
    # ON failing / panicking under SEVERAL keys of a PARALLEL join (every task reports; all of them must be collected)
    "SELECT * FROM t x PARALLEL JOIN u y ON x.a <> y.a AND x.s",
    "SELECT * FROM t x PARALLEL LEFT JOIN u y ON x.a <> y.a AND NOT (y.a << (x.a - 3) > 1000)",
    "SELECT * FROM w x PARALLEL JOIN w y ON x.k >= y.k AND x.s",
    "SELECT * FROM w x PARALLEL RIGHT JOIN w y ON x.k < y.k AND VF_PANIC(x.k <> 3)",
    "SELECT * FROM w x PARALLEL HASH_JOIN w y ON x.k = y.k AND x.s + 1 > 0",
    # ... over more keys than any plausible bound on workers or tasks, every task panicking / failing; a PARALLEL join whose ON
    # itself runs a PARALLEL join (each task starts one while the others hold their places)
    "SELECT * FROM wp x PARALLEL JOIN wp y ON x.k < y.k AND IF(x.flag, TRUE, FALSE)",
    "SELECT * FROM wp x PARALLEL STRAIGHT_JOIN wp y ON x.k < y.k AND VF_PANIC(TRUE)",
    "SELECT * FROM wp x PARALLEL LEFT JOIN wp y ON x.k <> y.k AND x.s",
    "SELECT * FROM wn x PARALLEL JOIN wn y ON x.k < y.k AND EXISTS (SELECT * FROM `<-u` c PARALLEL JOIN `<-u` d ON c.a < d.a)",
    "SELECT * FROM wn x PARALLEL LEFT JOIN wn y ON x.k < y.k AND x.k IN (SELECT c.a FROM `<-u` c PARALLEL JOIN `<-u` d ON c.a <= d.a)",
    "SELECT * FROM t x PARALLEL HASH_JOIN u y ON x.nokey.deep = y.a",
    "SELECT * FROM t x PARALLEL LEFT JOIN `u.a` y ON x.a = y.a",
    "SELECT ASYNC.VF_PANIC(TRUE) AS v FROM t",
    "SELECT SPIN.VF_PANIC(TRUE) FROM t",
    "SELECT SPINASYNC.VF_PANIC(TRUE) FROM t",
    "SELECT ASYNC.VF_ERR(TRUE) AS v FROM t",
    "SELECT SPINASYNC.VF_ERR(TRUE), a FROM t",
    "SELECT VF_PANIC(TRUE) AS v FROM t",
    "SELECT a FROM t WHERE VF_PANIC(a = 1) IS NULL",
    "SELECT DISTINCT (SELECT a FROM `<-u`) AS s, * FROM t",
    "SELECT DISTINCT (SELECT * FROM `<-t`), * FROM t",
    "SELECT * FROM t WHERE a IN (SELECT * FROM `<-t`)",
    "SELECT AWAIT(x) AS v FROM t",
    "SELECT (SELECT AWAIT(q) AS item FROM (SELECT ASYNC.VF_SLOW('t', a) AS q FROM t) AS z) AS v FROM t",
    "SELECT IF(NULL, 1, 2) AS v FROM t",
    "SELECT ELEMENTAT(arr, -1) AS v FROM t",
    "SELECT SUBSTR(s, 5, 100) AS v FROM t",
    "SELECT VF_EXT(a) AS v, ASYNC.VF_EXT(s) AS w, VF_EXT() AS z FROM t",
    "SELECT VF_EXT_FAIL(a) AS v FROM t",
    "SELECT a, ASYNC.VF_EXT_FAIL(a) AS v, SPIN.VF_EXT_FAIL(a) FROM t WHERE VF_EXT(a) = a",
    "SELECT a FROM t ORDER BY nokey.deep",
    "SELECT a FROM t GROUP BY arr",
    "SELECT a FROM t LIMIT 99999999999999999999",
    "SELECT a FROM t LIMIT 3 OFFSET 7",
    "SELECT GLOBAL.SUM(a) FROM t",
    "SELECT ONCE.NOSUCH(a) FROM t",
    "SELECT a FROM (SELECT a FROM (SELECT a FROM (SELECT a FROM t) AS x) AS y) AS z",
    "SELECT CONSTANT('k') FROM t",
    "SELECT GETVAR('k') FROM t",
    "SELECT SETVAR('k', 1) FROM t",
    "SELECT * FROM t x JOIN u y USING (a)",
    "SELECT * FROM t x JOIN u y ON x.a = y.a INTO z",
    "SELECT * FROM t, u",
    "INSERT INTO t VALUES (1)",
    "",
    "SELECT",
]


def mutate(rnd, s):
    toks = ["(", ")", "'", '"', "`", ",", "SELECT", "FROM", "WHERE", "UNION", "JOIN", "ON", "[", "]", "<-", "NULL", "*", "\x00", "é",
            "GROUP BY", "ORDER BY", "LIMIT", "-", "ASYNC.", "(SELECT", "WITH c AS (", "99999999999999999999", "=>", "::"]
    chars = list(s)
    for _ in range(rnd.randint(1, 3)):
        op = rnd.random()
        pos = rnd.randint(0, len(chars))
        if op < 0.45:
            chars.insert(pos, rnd.choice(toks))
        elif op < 0.75 and chars:
            del chars[min(pos, len(chars) - 1): min(pos, len(chars) - 1) + rnd.randint(1, 6)]
        elif chars:
            chars[min(pos, len(chars) - 1)] = rnd.choice(toks)
    return "".join(chars)


def explore(chk, rnd, tier):
    n = 2000 if tier == "quick" else 50000
    gens = [lambda r: c01.gen_case(r, 3), lambda r: c02.gen_case(r, 3), c03.gen_case, c04.gen_case, c05.gen_sort_case,
            c06.gen_distinct, c06.gen_union, c07.gen_cte_case, c07.gen_derived_case, c07.gen_subq_case, c08.gen_case]
    doc = {"t": [{"a": 1, "s": "x", "arr": [1, [2]], "o": {"k": 1}, "items": [{"x": 1}]}, {"a": 2, "s": "y", "arr": [], "items": []}],
           "u": [{"a": 1, "m": 1}, {"a": 3, "m": 2}], "n": 5, "nul": None,
           "w": [{"k": i, "a": i % 5, "s": "x"} for i in range(40)],
           "wp": [{"k": i, "s": "x"} for i in range(136)], "wn": [{"k": i} for i in range(72)]}
    reqs, kinds = [], []
    for i in range(n):
        c = rnd.choice(gens)(rnd)
        r = go_req(c)
        k = rnd.random()
        kind = "grammar"
        if k < 0.45:
            r["sql"] = mutate(rnd, r["sql"])
            kind = "mutated"
        opts = rnd.randint(0, 7)
        r["wrapped"], r["pg"], r["arr"] = bool(opts & 1), bool(opts & 2), bool(opts & 4)
        # the CompletedCallback option: a callback that counts, or one that panics (a panic of the caller's own callback is
        # the caller's to see as an error, not a crash of the process)
        cb = rnd.choice(["", "", "count", "panic"])
        if cb:
            r["completedCb"] = cb
        reqs.append(r)
        kinds.append(kind)
    alpha = list("SELCTFROMWH abcxt*,.'\"`()[]<->=1234\n") + ["SELECT ", " FROM t", "é", "\x00", "UNION ", "\\"]
    for i in range(n // 2):
        s = "".join(rnd.choice(alpha) for _ in range(rnd.randint(0, 30)))
        opts = rnd.randint(0, 7)
        reqs.append({"op": "query", "doc": enc_val(doc), "sql": s, "wrapped": bool(opts & 1), "pg": bool(opts & 2), "arr": bool(opts & 4)})
        kinds.append("bytes")
    for s in CRASH_SHAPES:
        for opts in range(8):
            reqs.append({"op": "query", "doc": enc_val(doc), "sql": s, "wrapped": bool(opts & 1), "pg": bool(opts & 2),
                         "arr": bool(opts & 4), "vars": {} if "VAR" in s else None})
            kinds.append("shape")
        for cb in ("count", "panic"):
            reqs.append({"op": "query", "doc": enc_val(doc), "sql": s, "completedCb": cb, "vars": {} if "VAR" in s else None})
            kinds.append("shape")
    # malformed / mutated path selectors inside otherwise valid queries, interleaved with valid ones in the same
    # process: a failed selector must not leave anything behind (lock, cache entry) that stops a later query
    from . import c09
    for i in range(n // 4):
        sel = c09.gen_selector(rnd, doc)
        if rnd.random() < 0.7:
            sel = c09.mutate(rnd, sel)
        sel = sel.replace("`", "")
        sql = rnd.choice(["SELECT * FROM `%s`", "SELECT `%s` AS v FROM t", "SELECT a FROM t WHERE `%s` IS NULL"]) % sel
        reqs.append({"op": "query", "doc": enc_val(doc), "sql": sql})
        kinds.append("selector-in-query")
    for t in c17.unit_cases(rnd, 300 if tier == "quick" else 5000, 0):
        reqs.append({"op": "query", "doc": enc_val(doc), "sql": "SELECT " + t + " FROM t", "pg": True, "arr": True})
        kinds.append("scanner-text")
    outs = run_go(reqs, per_req_timeout=10)
    nt = 0
    for r, k, o in zip(reqs, kinds, outs):
        chk.count(k + ":" + str(o.get("r")))
        if o.get("r") not in ("ok", "error"):
            chk.add_violation("crash-or-hang", {"kind": k, "sql": r.get("sql"), "doc": r.get("doc"),
                                                "opts": {x: r.get(x) for x in ("wrapped", "pg", "arr")}, "impl": o})
            break
        if o.get("stage") != "new" or k == "shape" or o.get("r") == "ok":
            nt += 1
    chk.cov["evaluations"] = len(reqs)
    chk.cov["distinct_nontrivial"] = nt
    chk.cov["explored_only"] = "parser panics, stack exhaustion, deadlock: child-process exploration, not proof"
    chk.samples.extend([{"sql": r["sql"], "kind": k} for r, k in list(zip(reqs, kinds))[:3]] + [{"sql": s} for s in CRASH_SHAPES[:4]])


LEVEL_TEXT = ("Proof of the modelled part, exploration of the rest. Lean: every modelled component is a total function with explicit "
              "panic outcomes and none of them can produce one at the API boundary (window arithmetic, selectors on ANY string, both "
              "preprocessors on ANY bytes, the sanitizer); self- and mutually-referencing CTEs terminate with an error/out-of-model "
              "outcome (structural recursion); an out-of-range FROM index is an error. Obligations re-checked on the current source: "
              "every explicit panic, single-value type assertion and goroutine is under a listed recover boundary; New/Exec/exec/Sort "
              "recover. The rest is searched by running the real library in a child process.")
LEVEL_NOTE = ("Partial by nature: panics inside the third-party parser, stack exhaustion and scheduler deadlock are not expressible in a "
              "model and are only explored (timeouts, memory limit, exit status).")
TECHNIQUE = "Lean 4 proof (totality / no-panic theorems) + go/ast panic-site and recover-boundary facts by decide + child-process exploration"
