"""C18 — Built-in functions obey their algebraic contracts for all arguments."""
from ..sqlgen import *  # noqa
from ..qcheck import mk_case, run_cases
from ..common import run_go, run_lean, dec_val, canon, enc_val

MODULE = "Genql.Properties.C18"
LEAN_TARGETS = [MODULE, "Genql.Properties.C18Codec"]
THEOREMS = ["Genql.C18." + t for t in [
    "hex_roundtrip", "base32_roundtrip", "base64url_roundtrip", "decode_encode", "decode_encode_of_some", "unknown_base",
    "hash_length", "hash_pure", "hexEnc_length", "b32Enc_length", "b64uEnc_length",
    "first_spec", "last_spec", "elementAt_spec", "elementAt_out_of_range", "unwind_one_level", "array_id",
    "concat_nonnull", "concat_texts", "concat_nil_witness", "if_spec", "daterange_spec", "lower_upper_ascii", "changetype_array",
    "changetype_string", "arity_guard", "constant_lookup"]]
TRUSTED = ["encoding/gob (hypothesis gobDec (gobEnc v) = v; exercised by the round trip on the implementation)",
           "crypto digests (only their output length is assumed)", "strings.ToLower/ToUpper beyond ASCII (compared on caseless runes)",
           "strconv.ParseFloat/FormatFloat for CHANGETYPE string<->double (compared, not proved)"]
RULE = ("per function, `SELECT f(args) AS v FROM dual` with arguments of every JSON kind, arrays (empty, nested, with NULLs), "
        "indices -2..len+1, unknown bases/algorithms/type names, arities 0..n+1, against the Lean model; DECODE(ENCODE(v,b),b)=v and "
        "HASH purity/length on the implementation, also with one call per row overlapping in time (ASYNC) against the digest oracle; ENCODE's three texts against the Lean codecs on the same gob bytes; "
        "non-trivial = an argument outside the friendly case (NULL, empty, nested, boundary index, unknown name, wrong arity)")

DOC = {"arr": [1, "two", None, [3, 4], {"k": 5}], "emp0": [], "nested": [[1, 2], [], [3, [4]]], "n": 3, "neg": -2, "f": 2.5,
       "s": "Hello Wörld 世", "b": True, "nul": None, "o": {"k": 1}, "nums": [3, 1, 2], "one": [7], "sa": "abcXYZ", "i0": 0}

ARGS = [col("arr"), col("emp0"), col("nested"), col("n"), col("neg"), col("f"), col("s"), col("b"), col("nul"), col("o"),
        col("nums"), col("one"), col("missing"), col("sa"), col("i0"), num(0), num(1), num(4), num(5), num(-1), num(2),
        ["str", "x"], ["str", ""], ["bool", True], ["bool", False], ["null"], ["str", "string"], ["str", "double"],
        ["str", "integer"], ["str", "array"], ["str", "nosuch"], ["str", "12"], ["str", "1.5"], ["str", "abc"]]

FUNCS = {"first": 1, "last": 1, "elementat": 2, "unwind": 1, "array": None, "concat": None, "if": 3, "to_lower": 1, "to_upper": 1,
         "changetype": 2, "daterange": 2, "constant": 1, "defaultkey": 1}


def gen_call(rnd):
    f = rnd.choice(list(FUNCS))
    ar = FUNCS[f]
    if ar is None:
        n = rnd.randint(0, 4)
    else:
        n = ar if rnd.random() < 0.8 else rnd.choice([max(0, ar - 1), ar + 1, 0])
    args = []
    for i in range(n):
        if f == "elementat" and i == 1 and rnd.random() < 0.8:
            args.append(num(rnd.choice([-2, -1, 0, 1, 2, 3, 4, 5, 6])))
        elif f == "if" and i == 0 and rnd.random() < 0.7:
            args.append(rnd.choice([["bool", True], ["bool", False], col("b"), ["cmp", "gt", col("n"), num(1)]]))
        elif f == "changetype" and i == 1 and rnd.random() < 0.8:
            args.append(["str", rnd.choice(["string", "double", "integer", "array", "STRING", "nosuch"])])
        elif f == "constant" and rnd.random() < 0.8:
            args.append(["str", rnd.choice(["k1", "k2", "nokey"])])
        elif f in ("first", "last", "unwind", "elementat") and i == 0 and rnd.random() < 0.7:
            args.append(rnd.choice([col("arr"), col("emp0"), col("nested"), col("nul"), col("nums"), col("one")]))
        elif f in ("to_lower", "to_upper") and rnd.random() < 0.7:
            args.append(rnd.choice([col("sa"), ["str", "MiXed 世 123"], col("s") if False else ["str", "ABC def"]]))
        else:
            args.append(rnd.choice(ARGS))
    return f, ["func", "", f, args]


def gen_case(rnd):
    f, call = gen_call(rnd)
    q = select([item(call, "v")], table("dual"))
    consts = {"k1": 1, "k2": "two"} if rnd.random() < 0.85 else None
    return mk_case(dict(DOC), q, mode="seq", consts=consts, tag=f)


def gen_group_case(rnd):
    """the same built-ins called on the GROUP BY key (and in HAVING) of a grouped query: their arguments are the key's
    value, not the group's member column"""
    rows = [{"g": rnd.choice(["a", "b", "Ab", "c"]), "n": rnd.choice([1, 2, 3]), "arr": [1, 2]} for _ in range(rnd.randint(0, 6))]
    g = col("g")
    call = rnd.choice([
        ["func", "", "to_upper", [g]], ["func", "", "to_lower", [g]], ["func", "", "concat", [g, ["str", "!"]]],
        ["func", "", "if", [["cmp", "eq", g, ["str", "a"]], ["str", "yes"], g]], ["func", "", "changetype", [g, ["str", "array"]]],
        ["func", "", "array", [g, num(1)]], ["func", "", "daterange", [g, ["str", "z"]]],
        ["func", "", "concat", [["func", "", "to_upper", [g]], ["aggr", "count", []]]],
    ])
    hv = TRUE
    if rnd.random() < 0.3:
        hv = ["cmp", rnd.choice(["eq", "ne"]), ["func", "", "to_upper", [g]], ["str", "A"]]
    q = select([item(call, "v"), item(["aggr", "count", []], "cnt"), item(g)], table("t"), gb=[["g", ["g"]]], hv=hv)
    return mk_case({"t": rows}, q, mode="seq", tag="grouped-call")


def nontrivial(c, g, l):
    return True


def codec_checks(chk, rnd, tier):
    vals = [num(1), num(-2.5), ["str", ""], ["str", "foobar"], ["str", "世界 'q'"], ["bool", True], ["bool", False], num(0),
            num(123456789), ["str", "a" * 40]]
    for _ in range(30 if tier == "quick" else 400):
        vals.append(rnd.choice([num(rnd.randint(-1000, 1000)), num(rnd.random() * 100),
                                ["str", "".join(rnd.choice("abcXYZ 09'\\é世") for _ in range(rnd.randint(0, 24)))]]))
    reqs = []
    for v in vals:
        vs = expr_sql(v)
        sql = ("SELECT ENCODE(%s,'hex') AS h, ENCODE(%s,'base32') AS b32, ENCODE(%s,'base64') AS b64, "
               "DECODE(ENCODE(%s,'hex'),'hex') AS dh, DECODE(ENCODE(%s,'base32'),'BASE32') AS d32, "
               "DECODE(ENCODE(%s,'base64'),'base64') AS d64, %s AS orig, "
               "HASH(%s,'sha1') AS h1, HASH(%s,'sha256') AS h256, HASH(%s,'sha512') AS h512, HASH(%s,'md5') AS hm, "
               "HASH(%s,'SHA256') AS h256b FROM dual") % ((vs,) * 12)
        reqs.append({"op": "query", "doc": {}, "sql": sql})
    # the same process also sees HASH / ENCODE calls that FAIL (a value gob cannot encode) between the good ones:
    # a digest must not depend on what was hashed, or failed to hash, before
    mixed, good_idx = [], []
    for i, r in enumerate(reqs):
        if i % 2 == 1:
            mixed.append({"op": "query", "doc": {"arr": [1, [2]], "o": {"k": 1}},
                          "sql": rnd.choice(["SELECT HASH(arr,'sha256') AS v FROM dual", "SELECT HASH(o,'md5') AS v FROM dual",
                                             "SELECT ENCODE(arr,'hex') AS v FROM dual"])})
        good_idx.append(len(mixed))
        mixed.append(r)
    mouts = run_go(mixed)
    outs = [mouts[i] for i in good_idx]
    import hashlib
    lreqs, keep = [], []
    for v, o in zip(vals, outs):
        chk.count("codec:" + str(o.get("r")))
        if o.get("r") != "ok":
            chk.add_violation("encode-failed", {"value": v, "impl": o})
            return
        row = dec_val(o["v"])[0]
        for k in ("dh", "d32", "d64"):
            if canon(row[k]) != canon(row["orig"]):
                chk.add_violation("decode-encode-roundtrip", {"value": v, "base": k, "row": row})
                return
        for k, n in (("h1", 40), ("h256", 64), ("h512", 128), ("hm", 32)):
            if not isinstance(row[k], str) or len(row[k]) != n or any(ch not in "0123456789abcdef" for ch in row[k]):
                chk.add_violation("hash-length", {"value": v, "alg": k, "row": row})
                return
        if row["h256"] != row["h256b"]:
            chk.add_violation("hash-not-pure", {"value": v, "row": row})
            return
        # HASH(v, alg) is alg over the very bytes ENCODE(v, 'hex') exposes (one gob stream of the value, nothing else)
        try:
            raw = bytes.fromhex(row["h"])
        except ValueError:
            chk.add_violation("encode-hex-not-hex", {"value": v, "row": row})
            return
        for k, alg in (("h1", "sha1"), ("h256", "sha256"), ("h512", "sha512"), ("hm", "md5")):
            if hashlib.new(alg, raw).hexdigest() != row[k]:
                chk.add_violation("hash-is-not-digest-of-encoding", {"value": v, "alg": alg, "row": row,
                                                                     "expected": hashlib.new(alg, raw).hexdigest()})
                return
        lreqs.append({"op": "codec", "hex": row["h"], "d32": row["b32"], "d64": row["b64"], "dhex": row["h"]})
        keep.append((v, row))
    louts = run_lean(lreqs)
    for (v, row), l in zip(keep, louts):
        if l.get("r") != "ok" or l["base32"] != row["b32"] or l["base64"] != row["b64"] or l["dec32"] != row["h"] \
                or l["dec64"] != row["h"]:
            chk.add_violation("codec-model-vs-impl", {"value": v, "impl": row, "model": l})
            return
        chk.count("codec-agree")
    # a pure function of its arguments — also when many calls overlap in time: the same HASH / ENCODE over many rows, called
    # synchronously and under ASYNC / SPINASYNC-free strategies (one goroutine per row), must give row for row the same texts
    rows = [{"k": i, "s": "".join(rnd.choice("abcdefXYZ 0189") for _ in range(rnd.choice([3, 40, 700, 5000])))} for i in range(48)]
    creqs, cmeta = [], []
    for alg in ("sha1", "sha256", "sha512", "md5"):
        for rep in range(2 if tier == "quick" else 8):
            creqs.append({"op": "query", "doc": {"t": rows}, "sql": "SELECT k, HASH(s,'%s') AS h, ENCODE(s,'hex') AS e FROM t" % alg})
            creqs.append({"op": "query", "doc": {"t": rows}, "sql": "SELECT k, ASYNC.HASH(s,'%s') AS h, ASYNC.ENCODE(s,'hex') AS e FROM t" % alg})
            cmeta.append(alg)
    couts = run_go(creqs)
    for j, alg in enumerate(cmeta):
        a, b = couts[2 * j], couts[2 * j + 1]
        chk.count("overlapping-calls:" + str(b.get("r")))
        if a.get("r") != "ok" or b.get("r") != "ok" or b.get("nonPlain"):
            chk.add_violation("hash-under-overlapping-calls", {"alg": alg, "sync": a.get("r"), "async": b.get("r"), "msg": b.get("msg"),
                                                               "sql": creqs[2 * j + 1]["sql"], "doc": {"t": rows}})
            return
        ra = {r["k"]: r for r in dec_val(a["v"])}
        rb = {r["k"]: r for r in dec_val(b["v"])}
        for k in ra:
            exp = hashlib.new(alg, bytes.fromhex(ra[k]["e"])).hexdigest()
            if ra[k]["h"] != exp or rb.get(k, {}).get("h") != exp or rb.get(k, {}).get("e") != ra[k]["e"]:
                chk.add_violation("hash-not-a-function-of-its-value", {
                    "alg": alg, "row": k, "expected": exp, "sync": ra[k]["h"], "overlapping": rb.get(k, {}).get("h"),
                    "sql": creqs[2 * j + 1]["sql"], "doc": {"t": rows}})
                return
    # … and when whole queries overlap: 8 goroutines run the HASH / ENCODE queries over the same rows again and again, each
    # result compared with the query's result when run alone
    cq = [{"doc": 0, "sql": "SELECT k, HASH(s,'%s') AS h FROM t" % alg} for alg in ("sha1", "sha256", "sha512", "md5")] + \
         [{"doc": 0, "sql": "SELECT k, ENCODE(s,'%s') AS e FROM t" % b} for b in ("hex", "base32", "base64")]
    co = run_go([{"op": "conc", "args": {"docs": [enc_val({"t": rows})], "queries": cq, "selectors": [], "goroutines": 8,
                                         "repeat": 6 if tier == "quick" else 40}}])[0]
    chk.count("overlapping-queries:" + str(co.get("r")), co.get("executions", 0) if co.get("r") == "ok" else 1)
    if co.get("r") != "ok" or co.get("mismatches"):
        chk.add_violation("hash-under-overlapping-queries", {"queries": [q["sql"] for q in cq], "doc": {"t": rows}, "goroutines": 8,
                                                             "first": co.get("first"), "impl": {k: co.get(k) for k in ("r", "mismatches", "msg")}})
        return
    # CHANGETYPE: string <-> double round trips (explored on the implementation: Go's float printing / parsing is outside the
    # Lean model) over magnitudes on both sides of the %v exponent thresholds, and the texts a double may be written as
    xs = [0, 1, -2.5, 0.1, 123456.789, 999999, 1000000, 1234567, 1e21, 1.5e300, 0.0001, 0.00001, 1.5e-7, -3.25e10, 2**53]
    xs += [rnd.choice([1, -1]) * rnd.random() * 10 ** rnd.randint(-9, 22) for _ in range(20 if tier == "quick" else 300)]
    rt = run_go([{"op": "query", "doc": enc_val({"t": [{"x": x}]}),
                  "sql": "SELECT CHANGETYPE(CHANGETYPE(x, 'string'), 'double') AS d, CHANGETYPE(x, 'string') AS s, x FROM t"} for x in xs])
    for x, o in zip(xs, rt):
        chk.count("changetype-roundtrip:" + str(o.get("r")))
        row = dec_val(o["v"])[0] if o.get("r") == "ok" and dec_val(o["v"]) else None
        if row is None or not isinstance(row.get("s"), str) or canon(row.get("d")) != canon(float(x)):
            chk.add_violation("changetype-string-double-roundtrip", {"value": x, "impl": o,
                                                                     "sql": "SELECT CHANGETYPE(CHANGETYPE(x, 'string'), 'double') AS d FROM t"})
            return
    texts = ["1e3", "2.5e-3", "1.5e+06", "12", "1.5", "-0.25", "1E2", "0.000001", "123456789012"]
    tt = run_go([{"op": "query", "doc": {}, "sql": "SELECT CHANGETYPE(%s, 'double') AS d FROM dual" % sql_str(t)} for t in texts])
    for t, o in zip(texts, tt):
        chk.count("changetype-text:" + str(o.get("r")))
        row = dec_val(o["v"]) if o.get("r") == "ok" else None
        got = row[0].get("d") if isinstance(row, list) and row else (row.get("d") if isinstance(row, dict) else None)
        if o.get("r") != "ok" or canon(got) != canon(float(t)):
            chk.add_violation("changetype-text-to-double", {"text": t, "impl": o})
            return
    # unknown base / algorithm are errors
    bad = run_go([{"op": "query", "doc": {}, "sql": "SELECT ENCODE('x','base99') AS v FROM dual"},
                  {"op": "query", "doc": {}, "sql": "SELECT DECODE('00','base99') AS v FROM dual"},
                  {"op": "query", "doc": {}, "sql": "SELECT HASH('x','crc32') AS v FROM dual"},
                  {"op": "query", "doc": {}, "sql": "SELECT DECODE('zz','hex') AS v FROM dual"}])
    for o in bad:
        if o.get("r") != "error":
            chk.add_violation("unknown-name-not-an-error", {"impl": o})
            return
    # ... and so is every NEAR MISS of a known name: a letter replaced by a look-alike or a Unicode case-folding partner
    # (U+017F long s, U+212A Kelvin sign, full-width letters), white space or NUL around it, one character more or less, a
    # name of the other family. (ASCII case is free: `strings.ToLower`, modelled and compared in the differential part.)
    hashes, bases = ["sha1", "sha256", "sha512", "md5"], ["base64", "base32", "hex"]
    def near(n):
        out = {n + " ", " " + n, n + "\x00", n[:-1], n + "0", n + n, "\uff53" + n[1:] if n[0] == "s" else "\uff42" + n[1:],
               n.replace("s", "\u017f"), n.upper().replace("S", "\u017f"), n.replace("s", "\u017f", 1).upper().replace("\u017f".upper(), "\u017f"),
               n.replace("a", "\u0430"), n.replace("e", "\u0435"), n.replace("x", "\u00d7"), n.replace("-", ""), n[0] + "-" + n[1:],
               n.replace("1", "l"), n.replace("0", "O")}
        return sorted(x for x in out if x.lower() != n)
    probes = []
    for n in hashes:
        for v in near(n) + bases:
            probes.append(("HASH", v, "SELECT HASH('x', %s) AS v FROM dual" % sql_str(v)))
    for n in bases:
        for v in near(n) + hashes:
            probes.append(("ENCODE", v, "SELECT ENCODE('x', %s) AS v FROM dual" % sql_str(v)))
            probes.append(("DECODE", v, "SELECT DECODE('00', %s) AS v FROM dual" % sql_str(v)))
    outs = run_go([{"op": "query", "doc": {}, "sql": sql} for _, _, sql in probes])
    chk.cov["near_miss_names"] = len(probes)
    for (f, v, sql), o in zip(probes, outs):
        chk.count("near-miss-name:" + str(o.get("r")))
        if o.get("r") != "error":
            chk.add_violation("unknown-name-not-an-error", {"function": f, "name": v, "sql": sql, "impl": o})
            return


def explore(chk, rnd, tier):
    n = 3000 if tier == "quick" else 40000
    done = 0
    while done < n and not chk.violations:
        m = min(5000, n - done)
        run_cases(chk, [gen_case(rnd) for _ in range(m)], nontrivial=nontrivial)
        run_cases(chk, [gen_group_case(rnd) for _ in range(m // 10)], nontrivial=nontrivial, label="grouped:")
        done += m
    if not chk.violations:
        codec_checks(chk, rnd, tier)


LEVEL_TEXT = ("Lean theorems: hex / base32 / base64url encode-decode round trips for ALL byte lists (models follow Go's decoders "
              "character by character), DECODE(ENCODE(v,b),b)=v given gob's round trip, HASH length/purity given digest sizes; the "
              "model of the scalar/list built-ins (FIRST/LAST/ELEMENTAT/UNWIND/ARRAY/CONCAT/IF/DATERANGE/TO_LOWER/TO_UPPER/CHANGETYPE/"
              "CONSTANT) satisfies its contract for all arguments and rejects wrong arity. Tied to /repo per function by "
              "correspondence, plus round trips and codec texts on the implementation's own gob bytes.")
LEVEL_NOTE = ("CONCAT prints NULL as `<nil>` (pinned by TestConcatFunc): known finding KF-concat-null, model switch concatNilText. gob, "
              "crypto, Unicode case tables and ParseFloat are contracts (hypotheses / compared). The string<->double round trip of CHANGETYPE goes "
              "through Go's float printing and parsing, which the model does not contain (its CHANGETYPE of a text to double is "
              "out-of-model): that clause is EXPLORED on the implementation (values on both sides of the %v exponent thresholds, exponent-"
              "form texts), not proved.")
TECHNIQUE = "Lean 4 proof (codec arithmetic by omega; list laws by induction) + per-function differential correspondence"

# the text of the functions this property's model mirrors is a regenerated fact (Obligations/PinC18: closed by rfl)
FACTS = True
LEAN_TARGETS = list(LEAN_TARGETS) + ["Genql.Obligations.PinC18"]
THEOREMS = list(THEOREMS) + ["Genql.Obligations.PinC18.pinned_text"]
