"""C19 — A failure anywhere surfaces as an error - never as a partial result."""
from ..sqlgen import *  # noqa
from ..common import run_go, run_lean, dec_val, canon, enc_val

FACTS = True
MODULE = "Genql.Properties.C19"
LEAN_TARGETS = [MODULE, "Genql.Properties.C19Strict", "Genql.Obligations.C19"]
THEOREMS = ["Genql.C19." + t for t in [
    "filterLoop_error", "mapE_error", "levelLoop_error", "execLevel_error", "evalArgs_error", "evalSel_error",
    "vf_fail_fails", "where_fault_propagates", "no_partial_result",
    "strict_step", "strict_in_error", "where_nested_fault_propagates", "select_nested_fault_propagates", "derived_fault_propagates",
    "from_error_select", "union_fault_propagates", "subquery_error", "cte_fault_propagates", "nestedRun_on_error",
    "exists_error", "in_subquery_error", "sortRows_key_error",
    "sumLoop_notNumeric", "minLoop_notNumeric", "numeric_aggregate_type_error", "changetype_double_notNumeric"]] + ["Genql.Obligations.C19.errors_not_swallowed"]
TRUSTED = ["the go/ast detector of error-swallowing shapes is syntactic (three shapes)", "sqlparser"]
RULE = ("queries with a fault-injecting function in every clause position (WHERE, select list, HAVING, CTE body, derived table, "
        "row-scoped sub-query, union branch, IN sub-query, EXISTS, ON of sequential and PARALLEL joins with partner-less keys), "
        "ON faults of joins over 40-48 distinct keys (more keys than processors; every pair, one key, one pair), an ORDER BY key unreadable on one row at every position of 3-9 row tables, RAISE / RAISE_WHEN firing on some row, type errors; the "
        "fault-free run counts the invocations n, then EVERY k = 1..n is injected (complete per query): Exec must report an error "
        "and return no rows; the Lean evaluator with the same fault (VF_FAIL fails on the k-th call's argument) must agree; a "
        "follow-up query on the same document object must equal its result on a pristine copy; non-trivial = k >= 2 or a nested "
        "clause position")


def F(e):
    return ["func", "", "vf_fail", [e]]


def uid(j):
    """a value unique per (row, position): id * 16 + j"""
    return ["bin", "plus", ["bin", "mult", col("id"), num(16)], num(j)]


def gen_doc(rnd):
    n = rnd.randint(1, 6)
    rows = [{"id": i, "a": rnd.choice([1, 2, 3]), "s": rnd.choice(["x", "y"]),
             "items": [{"id": 100 + 10 * i + j, "x": rnd.choice([1, 2, 3])} for j in range(rnd.randint(0, 2))]} for i in range(n)]
    return {"t": rows, "u": [{"id": 50 + i, "m": rnd.choice([1, 2])} for i in range(rnd.randint(1, 3))]}


def gen_query(rnd):
    k = rnd.choice(["where", "select", "select2", "having", "cte", "derived", "subq", "union", "insubq", "exists", "where+select",
                    "join-on", "join-on", "once-select", "once-where", "once-subq"])
    # ONCE is a synchronous strategy: the single invocation's failure is the query's failure, whatever rows reuse it
    FO = lambda e: ["func", "once", "vf_fail", [e]]
    if k == "once-select":
        return k, select([item(FO(num(7)), "v"), item(col("a"))], table("t"))
    if k == "once-where":
        return k, select([item(col("id"))], table("t"), wh=["cmp", "ge", FO(num(7)), num(0)])
    if k == "once-subq":
        sub = select([item(FO(["bin", "plus", col("id"), num(0)]), "v")], table("dual"))
        return k, select([item(col("id")), item(["subq", sub], "sub")], table("t"))
    if k == "join-on":
        # a user function as a boolean conjunct of a non-equi ON: evaluated once per pair of key groups by the nested loop
        sp = rnd.choice(["JOIN", "LEFT JOIN", "RIGHT JOIN", "PARALLEL JOIN", "PARALLEL JOIN", "PARALLEL JOIN", "PARALLEL LEFT JOIN",
                         "STRAIGHT_JOIN", "HASH_JOIN", "PARALLEL STRAIGHT_JOIN"])
        on = ["and", ["cmp", rnd.choice(["le", "ge", "ne", "lt"]), col("x", "a"), col("y", "m")], F(["bool", True])]
        if rnd.random() < 0.3:
            on = ["or", ["cmp", "eq", col("x", "a"), col("y", "m")], F(["bool", True])]
        return k, select([["star"]], ["join", join_type(sp), table("t", "x"), table("u", "y"), on])
    if k == "where":
        return k, select([item(col("id"))], table("t"), wh=["cmp", "ge", F(uid(1)), num(0)])
    if k == "select":
        return k, select([item(F(uid(1)), "v"), item(col("a"))], table("t"))
    if k == "select2":
        return k, select([item(F(uid(1)), "v"), item(["bin", "plus", F(uid(2)), num(1)], "w")], table("t"),
                         wh=["cmp", "ne", col("s"), ["str", "zz"]])
    if k == "where+select":
        return k, select([item(F(uid(2)), "v")], table("t"), wh=["cmp", "ge", F(uid(1)), num(0)])
    if k == "having":
        return k, select([item(col("s")), item(["aggr", "count", []], "n")], table("t"), gb=[["s", ["s"]]],
                         hv=["cmp", "ge", F(["aggr", "max", [col("id")]]), num(0)])
    if k == "cte":
        inner = select([item(col("id")), item(F(uid(1)), "v")], table("t"))
        return k, select([item(col("v"))], table("c"), ctes=[["c", inner]], wh=["cmp", "ge", F(["bin", "plus", col("v"), num(1000)]), num(0)])
    if k == "derived":
        inner = select([item(col("id")), item(F(uid(1)), "v")], table("t"))
        return k, select([item(col("d", "v"), "v")], ["derived", inner, "d"])
    if k == "subq":
        sub = select([item(F(["bin", "plus", col("id"), num(0)]), "v")], table("items"))
        return k, select([item(col("id")), item(["subq", sub], "sub")], table("t"))
    if k == "union":
        a = select([item(F(uid(1)), "v")], table("t"))
        b = select([item(F(["bin", "plus", col("id"), num(5000)]), "v")], table("u"))
        return k, ["union", [], a, b, rnd.random() < 0.5, [], None, None, {}]
    if k == "insubq":
        sub = select([item(F(["bin", "plus", col("id"), num(0)]), "v")], table("items"))
        return k, select([item(col("id"))], table("t"), wh=["cmp", "in", col("a"), ["subq", sub]])
    sub = select([["star"]], table("items"), wh=["cmp", "ge", F(["bin", "plus", col("x"), ["bin", "mult", col("id"), num(0)]]), num(0)])
    return "exists", select([item(col("id"))], table("t"), wh=["exists", sub])


OTHER_FAILS = [
    ("raise", "SELECT id, RAISE('boom') FROM t"),
    ("raise_when", "SELECT id, RAISE_WHEN(a = 2, 'boom') FROM t"),
    ("raise_when_where", "SELECT id FROM t WHERE id >= 0 AND a IN (SELECT x FROM items) OR RAISE_WHEN(id = 1, 'x') IS NULL"),
    ("type-error-where", "SELECT id FROM t WHERE a + s > 1"),
    ("type-error-select", "SELECT id, a + s AS v FROM t"),
    ("type-error-having", "SELECT s, COUNT(*) AS n FROM t GROUP BY s HAVING s + 1 > 0"),
    ("unknown-function", "SELECT NOSUCHFN(a) AS v FROM t"),
    ("type-error-cte", "WITH c AS (SELECT a + s AS v FROM t) SELECT v FROM c"),
    ("type-error-derived", "SELECT d.v FROM (SELECT -s AS v FROM t) AS d"),
    ("type-error-subq", "SELECT id, (SELECT x + 'q' AS v FROM items) AS sub FROM t WHERE id = 0 OR id = 1 OR id = 2"),
    ("type-error-union", "SELECT a FROM t UNION SELECT m + 'x' AS a FROM u"),
    # a numeric aggregate / conversion over a value that is no number (boolean, object, array): refused, not read as 0
    ("type-error-sum-bool", "SELECT SUM(flag) AS v FROM t"),
    ("type-error-max-object", "SELECT MAX(o) AS v FROM t"),
    ("type-error-avg-grouped", "SELECT s, AVG(flag) AS v FROM t GROUP BY s"),
    ("type-error-min-having", "SELECT s FROM t GROUP BY s HAVING MIN(flag) > 0"),
    ("type-error-changetype-bool", "SELECT CHANGETYPE(flag, 'double') AS v FROM t"),
    ("type-error-sum-array", "SELECT SUM(items) AS v FROM t"),
    ("type-error-min-object-one-row", "SELECT MIN(o) AS v FROM t WHERE id = 1"),
    ("type-error-sum-bool-derived", "SELECT x.v FROM (SELECT SUM(flag) AS v FROM t) x"),
    ("type-error-bool-arithmetic", "SELECT flag + 1 AS v, -flag AS w FROM t"),
    ("group-by-expr", "SELECT COUNT(*) AS n FROM t GROUP BY a + 1"),
    ("err-fn", "SELECT id, VF_ERR(a = 2) AS v FROM t"),
    ("once-raise", "SELECT id, ONCE.RAISE('boom') FROM t"),
    ("once-err-fn", "SELECT id, ONCE.VF_ERR(TRUE) AS v FROM t"),
    ("once-err-where", "SELECT id FROM t WHERE ONCE.VF_ERR(TRUE) IS NULL"),
    ("bad-selector", "SELECT id, `items[first]` AS v FROM t"),
    ("bad-selector-continuation", "SELECT id, `items::[first]` AS v FROM t"),
    ("bad-selector-range", "SELECT `items::[(1:2:3)]` AS v FROM t"),
    ("bad-selector-from", "SELECT * FROM `t::[x]`"),
]


def explore(chk, rnd, tier):
    nq = 120 if tier == "quick" else 2500
    cases = []
    for _ in range(nq):
        kind, q = gen_query(rnd)
        doc = gen_doc(rnd)
        if kind == "join-on":
            # several left key groups, some of them without a partner (their tasks end "not matched, no error")
            for r in doc["t"]:
                r["a"] = rnd.choice([1, 2, 3, 4, 5, 6])
        cases.append({"kind": kind, "doc": doc, "q": q, "sql": query_sql(q)})
    base = run_go([{"op": "query", "doc": enc_val(c["doc"]), "sql": c["sql"], "failAt": 0} for c in cases])
    lbase = run_lean([{"op": "query", "doc": enc_val(c["doc"]), "q": c["q"]} for c in cases])
    reqs, lreqs, meta = [], [], []
    for c, g, l in zip(cases, base, lbase):
        chk.count("fault-free:" + c["kind"] + ":" + str(g.get("r")))
        if g.get("r") != "ok":
            chk.add_violation("fault-free-run-failed", {"sql": c["sql"], "doc": c["doc"], "impl": g})
            return
        from ..common import as_multiset
        same = (as_multiset(dec_val(l["v"])) == as_multiset(dec_val(g["v"]))) if (l.get("r") == "ok" and c["kind"] == "join-on") else \
            (l.get("r") != "ok" or canon(dec_val(l["v"])) == canon(dec_val(g["v"])))
        if not same:
            chk.add_violation("model-vs-impl-fault-free", {"sql": c["sql"], "doc": c["doc"], "impl": g, "model": l})
            return
        log = [x[1] for x in dec_val(g.get("callLog", [])) if x[0] == "fail"]
        n = g.get("calls", 0)
        unique = len(set(canon(x) for x in log)) == len(log)
        for k in range(1, n + 1):
            reqs.append({"op": "query", "doc": enc_val(c["doc"]), "sql": c["sql"], "failAt": k})
            meta.append((c, k, n))
            lreqs.append({"op": "query", "doc": enc_val(c["doc"]), "q": c["q"], "failOn": enc_val(log[k - 1])} if unique and l.get("r") == "ok" and k <= len(log) else None)
    outs = run_go(reqs)
    louts = run_lean([r for r in lreqs if r is not None]) if any(lreqs) else []
    li = 0
    nt = 0
    for (c, k, n), o, lr in zip(meta, outs, lreqs):
        chk.count("injected:" + c["kind"])
        if o.get("r") != "error" or o.get("rowsWithError"):
            chk.add_violation("fault-not-reported", {"sql": c["sql"], "doc": c["doc"], "failAt": k, "invocations": n, "impl": o})
            return
        if lr is not None:
            l = louts[li]
            li += 1
            if l.get("r") not in ("error",):
                chk.add_violation("model-disagrees-on-fault", {"sql": c["sql"], "doc": c["doc"], "failAt": k, "failOn": lr["failOn"],
                                                               "impl": o, "model": l})
                return
            chk.count("model-agrees")
        if k >= 2 or c["kind"] not in ("where", "select"):
            nt += 1
    # RAISE family and type errors: an error, no rows
    doc = gen_doc(rnd)
    doc["t"] = [{"id": i, "a": [1, 2, 3][i % 3], "s": "x", "items": [{"id": 1, "x": 1}], "flag": i % 2 == 0, "o": {"k": 1}} for i in range(4)]
    # each failing query is run three times in ONE process: it fails every time (a failed run leaves nothing behind -
    # no cache entry, no memo - that lets the next run of the same text succeed)
    outs = run_go([{"op": "query", "doc": enc_val(doc), "sql": sql} for _, sql in OTHER_FAILS for _rep in range(3)])
    for i, o in enumerate(outs):
        name, sql = OTHER_FAILS[i // 3]
        chk.count("other:" + name + ":" + str(o.get("r")))
        if o.get("r") != "error" or o.get("rowsWithError"):
            chk.add_violation("failure-not-reported", {"kind": name, "sql": sql, "doc": doc, "impl": o, "run_in_process": i % 3 + 1})
            return
    # joins over MANY keys (more distinct keys than there are processors) whose ON fails on every pair, on one side's keys only,
    # or on a single pair: however the pairs are distributed over workers, the query reports the error — and returns
    wide = {"l": [{"id": i, "s": "x", "ok": ("bad" if i == 37 else True)} for i in range(48)], "r": [{"id": i, "m": i % 5} for i in range(40)]}
    wq = []
    for kind in ("JOIN", "LEFT JOIN", "PARALLEL JOIN", "PARALLEL LEFT JOIN", "PARALLEL RIGHT JOIN", "PARALLEL HASH_JOIN"):
        wq.append("SELECT * FROM l x %s r y ON x.id >= y.id AND x.s" % kind)                       # a string where a boolean is due: every pair
        wq.append("SELECT * FROM l x %s r y ON x.id < y.id AND x.ok" % kind)                         # one key only (its `ok` is a string)
        wq.append("SELECT * FROM l x %s r y ON x.id = y.id AND x.s + 1 > 0" % kind)                # type error, equality shape
    wouts = run_go([{"op": "query", "doc": enc_val(wide), "sql": q} for q in wq for _rep in range(2)])
    for i, o in enumerate(wouts):
        chk.count("wide-join-fault:" + str(o.get("r")))
        if o.get("r") != "error" or o.get("rowsWithError"):
            chk.add_violation("failure-not-reported", {"kind": "wide-join-on-fault", "sql": wq[i // 2], "doc": wide, "impl": o,
                                                       "run_in_process": i % 2 + 1})
            return
    # a sort key that cannot be read on ONE row, at every position of tables of 3-9 rows: the comparator fails in the
    # middle of the sort, and the failure must survive the comparisons that follow it
    oreqs, lreqs2, ometa = [], [], []
    for _ in range(40 if tier == "quick" else 600):
        n = rnd.randint(3, 9)
        bad = set(rnd.sample(range(n), rnd.choice([1, 1, 2])))
        rows = [{"id": i, "meta": (7 if i in bad else {"rank": rnd.choice([1, 2, 3, 5, 8])})} for i in range(n)]
        desc = rnd.random() < 0.5
        oq = select([item(col("id")), item(col("meta"))], table("t"), order=[[["meta", "rank"], not desc]])
        form = rnd.choice(["flat", "flat", "derived", "cte"])
        sql = query_sql(oq)
        q2 = oq
        if form == "derived":
            q2 = select([item(col("d", "id"), "id")], ["derived", oq, "d"])
        elif form == "cte":
            q2 = select([item(col("id"))], table("c"), ctes=[["c", oq]])
        sql = query_sql(q2)
        oreqs.append({"op": "query", "doc": enc_val({"t": rows}), "sql": sql})
        lreqs2.append({"op": "query", "doc": enc_val({"t": rows}), "q": q2})
        ometa.append((sql, rows))
    outs = run_go(oreqs)
    louts2 = run_lean(lreqs2)
    for (sql, rows), o, l in zip(ometa, outs, louts2):
        chk.count("order-key-fault:" + str(o.get("r")) + ":model-" + str(l.get("r")))
        if l.get("r") == "oom":
            continue
        if l.get("r") != "error":
            chk.add_violation("model-disagrees-on-fault", {"sql": sql, "doc": {"t": rows}, "impl": o, "model": l,
                                                           "detail": "the model sorts a table whose sort key cannot be read on one row"})
            return
        if o.get("r") != "error":
            chk.add_violation("fault-not-reported", {"sql": sql, "doc": {"t": rows}, "impl": o,
                                                     "detail": "an ORDER BY key unreadable on one row: Exec must fail, it returned rows"})
            return
    # usable afterwards: a failed query followed by a good one on the SAME document object
    seqs = []
    withcalls = [(c, b) for c, b in zip(cases, base) if b.get("calls", 0) >= 1]
    for c, _ in withcalls[: (60 if tier == "quick" else 1000)]:
        follow = "SELECT id, a FROM t WHERE a >= 1"
        seqs.append({"op": "seq", "doc": enc_val(c["doc"]), "args": [{"sql": c["sql"], "failAt": 1}, {"sql": follow, "failAt": 0},
                                                                    {"sql": c["sql"], "failAt": 0}]})
    souts = run_go(seqs)
    pristine = run_go([{"op": "query", "doc": s["doc"], "sql": s["args"][1]["sql"]} for s in seqs])
    for s, o, p, (c, b) in zip(seqs, souts, pristine, withcalls):
        chk.count("follow-up")
        rs = o.get("results", [])
        if o.get("r") != "ok" or len(rs) != 3 or rs[0].get("r") != "error":
            chk.add_violation("sequence-failed", {"seq": s, "impl": o})
            return
        if rs[1].get("r") != "ok" or canon(dec_val(rs[1]["v"])) != canon(dec_val(p["v"])) or o.get("docChanged"):
            chk.add_violation("not-usable-after-failure", {"seq": s, "after_failure": rs[1], "pristine": p, "docChanged": o.get("docChanged")})
            return
        from ..common import as_multiset
        if rs[2].get("r") != "ok" or as_multiset(dec_val(rs[2]["v"])) != as_multiset(dec_val(b["v"])):
            chk.add_violation("failed-query-not-repeatable", {"seq": s, "again": rs[2], "first": b})
            return
    chk.cov["evaluations"] = len(cases) + len(reqs) + len(seqs)
    chk.cov["distinct_nontrivial"] = nt
    chk.cov["fault_points_enumerated"] = len(reqs)
    chk.cov["exhaustive_per_query"] = True
    chk.samples.extend([{"sql": c["sql"], "kind": c["kind"]} for c in cases[:4]])


LEVEL_TEXT = ("Lean theorems about the model: every loop of the engine (filter loop incl. nested sources, select list, argument lists) "
              "returns the first error of any step and nothing else; a fault in WHERE on any row fails the whole modelled query; a "
              "result is rows XOR error. 'Anywhere' over expression nesting (C19Strict): an operand in an always-evaluated position "
              "(both operands of AND/OR, NOT, both sides of every comparison, BETWEEN's three operands, the left operand of arithmetic, "
              "unary / IS operands, tuple elements, arguments of synchronous calls, the first WHEN condition) whose evaluation or "
              "ValueOf fails makes the parent fail, at any depth (strict_in_error); such an expression in WHERE or in the select list "
              "fails the SELECT (where_/select_nested_fault_propagates); a failing derived table, union branch, CTE body read by the "
              "outer query, or row-scoped sub-query fails the query around it; the nested-loop join fails when ON fails on any pair of "
              "key groups, whatever matched before (nestedRun_on_error). Obligation re-checked on the current source: no error-swallowing shape exists. Tied to /repo "
              "by COMPLETE fault enumeration per generated query (every invocation index k = 1..n) with the Lean evaluator given the "
              "same fault, RAISE / type-error probes in every clause, and follow-up queries on the same document object.")
LEVEL_NOTE = ("Faults inside ASYNC/SPIN calls are C14/C13 territory (the property is about synchronously evaluated steps). The "
              "'usable afterwards' clause rests on C11 (input unchanged) and is additionally exercised on the implementation.")
TECHNIQUE = "Lean 4 proof (error propagation by induction over each loop) + complete per-query fault enumeration against the model"

# the text of the functions this property's model mirrors is a regenerated fact (Obligations/PinC19: closed by rfl)
FACTS = True
LEAN_TARGETS = list(LEAN_TARGETS) + ["Genql.Obligations.PinC19"]
THEOREMS = list(THEOREMS) + ["Genql.Obligations.PinC19.pinned_text"]
