"""C06 — DISTINCT removes exactly the duplicates; UNION [ALL] concatenates [and dedups]."""
from ..sqlgen import *  # noqa
from ..qcheck import mk_case, run_cases
from ..common import dec_val, canon

FACTS = True
MODULE = "Genql.Properties.C06"
LEAN_TARGETS = [MODULE, "Genql.Properties.Pipeline", "Genql.Properties.C06Model", "Genql.Properties.UnionModel", "Genql.Obligations.C05"]
THEOREMS = ["Genql.C06." + t for t in [
    "dedupLoop_eq_spec", "dedup_first_occurrence", "dedup_sublist", "dedup_nodup", "dedup_mem_iff", "dedup_idempotent",
    "union_all_append", "union_dedup", "union_chain_assoc", "union_mixed", "union_limit_outermost"]] + \
    ["Genql.Pipeline." + t for t in ["select_pipeline", "select_filter_project", "select_distinct"]] + \
    ["Genql.ValEqEquiv." + t for t in ["valEq_refl", "valEq_symm", "valEq_trans", "subset_of_nodup_length"]] + \
    ["Genql.C06." + t for t in ["sameWF_equiv", "dedupBy_val", "distinct_model_first_occurrence", "distinct_model_idempotent",
                               "setKey_nodup", "union_model", "union_all_model", "nested_union_inner_window"]] + \
    ["Genql.Obligations.C05.exec_stage_order"]
TRUSTED = ["fmt %#v renders JSON-like rows injectively (keys sorted, strings quoted) and SHA-256 is collision free: the Go "
           "fingerprint identifies exactly equal rows; probed with adversarial strings", "sqlparser"]
RULE = ("tables with controlled duplication (values from 2-3 element pools, adversarial strings such as '1 s:x', nested objects) x "
        "DISTINCT select lists; UNION chains of 2-4 branches with every ALL/DISTINCT mix, WHERE per branch, LIMIT/OFFSET on the "
        "union; non-trivial = >=1 duplicate removed or both union branches non-empty; distinct by (doc, SQL)")

ADV = ["1 s:x", "x s:y", "1", "x", "y", "a\"b", "a b", "map[a:1]", "[1 2]", ""]


def gen_rows(rnd, n=None):
    n = rnd.randint(0, 9) if n is None else n
    pa = rnd.choice([[1, 2], [1, "1"], [1, 2, 3], ADV[:4]])
    ps = rnd.choice([["x", "y"], ADV, ["1 s:x", "1"]])
    rows = []
    for _ in range(n):
        r = {"a": rnd.choice(pa), "s": rnd.choice(ps)}
        if rnd.random() < 0.5:
            r["o"] = rnd.choice([{"k": 1}, {"k": 2}, {"k": 1, "j": "x"}, [1, 2], [1, [2]], None])
        if rnd.random() < 0.2:
            r["a"] = None
        rows.append(r)
    return rows


def gen_distinct(rnd):
    rows = gen_rows(rnd)
    k = rnd.random()
    if k < 0.3:
        sel = [["star"]]
    else:
        cols = rnd.sample(["a", "s", "o"], rnd.randint(1, 3))
        sel = [item(col(c), rnd.choice(["", "q_" + c])) for c in cols]
        if rnd.random() < 0.2:
            sel.append(item(["bin", "plus", col("a"), num(0)], "e"))
    q = select(sel, table("t"), distinct=True)
    return mk_case({"t": rows}, q, mode="seq", tag="distinct", num_kind=rnd.choice(["int", "int64", "int32", "uint8", "float32"]) if rnd.random() < 0.1 else None)


def gen_branch(rnd, tname):
    sel = [item(col("a")), item(col("s"))] if rnd.random() < 0.7 else [["star"]]
    wh = TRUE
    if rnd.random() < 0.4:
        wh = ["cmp", rnd.choice(["eq", "ne"]), col("s"), ["str", rnd.choice(["x", "y", "1"])]]
    return select(sel, table(tname), wh=wh, distinct=rnd.random() < 0.15)


def gen_union(rnd):
    nb = rnd.randint(2, 4)
    doc = {"t%d" % i: gen_rows(rnd, rnd.randint(0, 5)) for i in range(nb)}
    star = rnd.random() < 0.3
    branches = []
    for i in range(nb):
        b = gen_branch(rnd, "t%d" % i)
        if star:
            b[3] = [["star"]]
        else:
            b[3] = [item(col("a")), item(col("s"))]
        if not star and rnd.random() < 0.15:
            # a grouped branch: its GROUP BY belongs to the branch alone (the union and the other branches see rows, not groups)
            b[3] = [item(col("a")), item(col("s"))]
            b[6] = [["a", ["a"]], ["s", ["s"]]]
        branches.append(b)
    q = branches[0]
    flags = []
    for i in range(1, nb):
        distinct = rnd.random() < 0.5
        flags.append(distinct)
        limit = offset = None
        if i == nb - 1 and rnd.random() < 0.35:
            limit = rnd.randint(0, 6)
            if rnd.random() < 0.5:
                offset = rnd.randint(0, 4)
        elif i < nb - 1 and rnd.random() < 0.12:
            # a parenthesised inner union with a window of its own: `(A UNION B LIMIT n) UNION C` cuts A ++ B before C is appended
            limit = rnd.randint(0, 4)
            if rnd.random() < 0.4:
                offset = rnd.randint(0, 2)
        q = ["union", [], q, branches[i], distinct, [], limit, offset, {}]
    if rnd.random() < 0.15:
        # the chain under ONE WITH whose every branch reads a CTE holding its table (the WITH of a chain belongs to all branches,
        # however the chain nests)
        import copy
        q = copy.deepcopy(q)
        ctes = []

        def via_cte(n):
            if isinstance(n, list):
                if n and n[0] == "table" and isinstance(n[1], list) and len(n[1]) == 1 and n[1][0].startswith("t") and not n[2]:
                    name = "w_" + n[1][0]
                    if name not in [c[0] for c in ctes]:
                        ctes.append([name, select([["star"]], table(n[1][0]))])
                    n[1], n[3] = [name], name
                    return
                for x in n:
                    via_cte(x)
        via_cte(q)
        q[1] = ctes
    return mk_case(doc, q, mode="seq", tag="union%d" % nb, num_kind=rnd.choice(["int", "int64", "int32", "uint8", "float32"]) if rnd.random() < 0.1 else None)


def nontrivial(c, g, l):
    if g["r"] != "ok":
        return False
    rows = dec_val(g["v"])
    if c["tag"] == "distinct":
        return len(rows) < len(c["doc"]["t"])
    return sum(1 for t in c["doc"].values() if t) >= 2


def explore(chk, rnd, tier):
    n = 2500 if tier == "quick" else 60000
    done = 0
    while done < n and not chk.violations:
        m = min(5000, n - done)
        cases = [gen_distinct(rnd) if rnd.random() < 0.45 else gen_union(rnd) for _ in range(m)]
        run_cases(chk, cases, nontrivial=nontrivial)
        done += m


LEVEL_TEXT = ("Lean theorems: the seen-set scan of ExecDistinct keeps exactly the first occurrence of every equivalence class of the "
              "fingerprint relation (so, for an injective fingerprint, each distinct row once at its first position; no duplicates; "
              "membership preserved; idempotent); UNION ALL is append, UNION is append-then-dedup, chains associate "
              "(dedup(dedup(a++b)++c) = dedup(a++b++c)), LIMIT applies to the combined result. In the executable model DISTINCT "
              "runs on ALL projected rows, before ORDER BY and the window (select_pipeline, select_distinct), and the relation it "
              "deduplicates by - valEq: structural equality with objects compared as maps - is proved to be an equivalence on "
              "well-formed values (valEq_refl/symm/trans, sameWF_equiv), so the theorems above hold of the model's stage itself "
              "(distinct_model_first_occurrence, distinct_model_idempotent); a UNION [ALL] node of the model evaluates to unionRows "
              "of its sides' rows, then ORDER BY, then the window (union_model). "
              "Correspondence with adversarial rows.")
LEVEL_NOTE = ("The Go fingerprint is fmt %#v + SHA-256; that it identifies exactly equal rows is trusted (contract of fmt, collision "
              "freedom) and probed by adversarial strings; the theorem is about the scan for any equivalence-respecting `same`.")
TECHNIQUE = "Lean 4 proof (induction over the row list with the seen set as invariant) + differential correspondence"

# the text of the functions this property's model mirrors is a regenerated fact (Obligations/PinC06: closed by rfl)
FACTS = True
LEAN_TARGETS = list(LEAN_TARGETS) + ["Genql.Obligations.PinC06"]
THEOREMS = list(THEOREMS) + ["Genql.Obligations.PinC06.pinned_text"]
