"""C07 — CTEs, derived tables and subqueries equal staged evaluation."""
import copy
from ..sqlgen import *  # noqa
from ..qcheck import mk_case, run_cases, go_req, same_result
from ..common import dec_val, run_go, canon, as_multiset

MODULE = "Genql.Properties.C07"
LEAN_TARGETS = [MODULE]
THEOREMS = ["Genql.C07." + t for t in [
    "cte_substitution", "cte_chain", "union_cte_substitution", "cte_read_is_table_read", "derived_substitution",
    "subquery_standalone", "exists_iff"]]
TRUSTED = ["sqlparser", "laziness of CTE thunks is unobservable for pure CTE bodies (the model evaluates them in order)"]
RULE = ("documents with a base table (numeric/string columns, a nested array per row) x two- and three-stage pipelines: CTE chains "
        "of 1-3 with multiple references and `cte.column` paths, derived tables, joins whose sides are derived tables / CTE references, select-list subqueries (row-scoped and "
        "`<-`-rooted), IN (subquery), EXISTS with outer-column references; checked (1) model vs implementation and (2) "
        "metamorphically: composed query vs outer query over the materialised inner result given as plain input; non-trivial = "
        "inner result non-empty and outer result differs from the inner one")


def gen_doc(rnd):
    n = rnd.randint(0, 7)
    rows = []
    for i in range(n):
        items = [{"x": rnd.choice([1, 2, 3, 5]), "y": rnd.choice(["p", "q"])} for _ in range(rnd.randint(0, 3))]
        rows.append({"n0": rnd.choice([1, 2, 3, 4]), "n1": rnd.choice([0, 1, 2.5, 10]), "s0": rnd.choice(["a", "b", "c"]),
                     "items": items, "o": {"k": rnd.choice([1, 2]), "tags": [rnd.choice(["u", "v"])]}})
    return {"t": rows, "meta": [{"v": rnd.choice([1, 2, 3])}, {"v": rnd.choice([3, 4])}], "lim": rnd.choice([1, 2, 3])}


def gen_stage(rnd, frm, cols, prefix="", allow_group=True, allow_order=True):
    """one SELECT over `frm` whose rows have `cols` (name -> kind). -> (query, outcols)"""
    def c(name):
        return col(*(prefix.split(".") if prefix else []), name) if prefix else col(name)
    nums = [k for k, v in cols.items() if v == "num"]
    strs = [k for k, v in cols.items() if v == "str"]
    wh = TRUE
    if rnd.random() < 0.5 and nums:
        wh = ["cmp", rnd.choice(["gt", "le", "ne", "eq"]), c(rnd.choice(nums)), num(rnd.choice([1, 2, 3]))]
        if strs and rnd.random() < 0.3:
            wh = [rnd.choice(["and", "or"]), wh, ["cmp", "ne", c(rnd.choice(strs)), ["str", "b"]]]
    if allow_group and rnd.random() < 0.2 and (strs or nums):
        g = rnd.choice(strs or nums)
        gpath = (prefix.split(".") if prefix else []) + [g]
        sel = [item(c(g), "g"), item(["aggr", "count", []], "cnt")]
        out = {"g": cols[g], "cnt": "num"}
        if nums:
            sel.append(item(["aggr", rnd.choice(["sum", "max", "min"]), [c(rnd.choice(nums))]], "agg"))
            out["agg"] = "num"
        q = select(sel, frm, wh=wh, gb=[[".".join(gpath), gpath]])
        return q, out
    sel, out = [], {}
    names = list(cols)
    rnd.shuffle(names)
    for name in names[:rnd.randint(1, len(names))]:
        alias = rnd.choice(["", "r_" + name]) if not prefix else "r_" + name
        sel.append(item(c(name), alias))
        out[alias or name] = cols[name]
    if nums and rnd.random() < 0.4:
        sel.append(item(["bin", rnd.choice(["plus", "mult", "minus"]), c(rnd.choice(nums)), num(rnd.choice([1, 2, 10]))], "calc"))
        out["calc"] = "num"
    order, limit, offset = [], None, None
    if allow_order and rnd.random() < 0.3:
        onames = [k for k, v in out.items() if v in ("num", "str")]
        if onames:
            order = [[[rnd.choice(onames)], rnd.random() < 0.5]]
            # make the order total so that staged and composed evaluation agree as sequences
            for k in onames:
                if [k] != order[0][0]:
                    order.append([[k], True])
    if rnd.random() < 0.2 and order:
        limit = rnd.randint(0, 5)
    q = select(sel, frm, wh=wh, order=order, limit=limit, offset=offset, distinct=rnd.random() < 0.15)
    return q, out


BASE = {"n0": "num", "n1": "num", "s0": "str"}


def gen_cte_case(rnd):
    doc = gen_doc(rnd)
    nstages = rnd.randint(1, 3)
    ctes = []
    cols = dict(BASE)
    src = table("t")
    staged = []        # (name, query) in order, for the metamorphic run
    for i in range(nstages):
        q, cols = gen_stage(rnd, src, cols)
        name = "c%d" % i
        ctes.append([name, q])
        staged.append((name, q))
        src = table(name)
    outer, _ = gen_stage(rnd, src, cols)
    if rnd.random() < 0.2 and nstages >= 1:
        # second reference to a CTE through a sub-query in the outer WHERE
        kcol = [k for k, v in cols.items() if v == "num"]
        ref = ctes[-1][0]
        if kcol:
            sub = select([item(col(kcol[0]))], table(["<-" + ref]) if False else table(ref))
            # inside a sub-query the CTE is reachable through the backward navigation marker
            sub = select([item(col(kcol[0]))], ["table", ["<-", ref], "", "<-" + ref, {"bt": True}])
            outer[5] = ["cmp", "in", col(kcol[0]), ["subq", sub]] if outer[5] == TRUE else \
                ["and", outer[5], ["cmp", "in", col(kcol[0]), ["subq", sub]]]
    outer[1] = ctes
    has_order = bool(outer[8])
    c = mk_case(doc, outer, mode="seq", tag="cte%d" % nstages)
    c["staged"] = staged
    c["outer_plain"] = outer
    return c


def gen_cte_multi_case(rnd):
    """a CTE read several times within one WITH scope, incl. bodies with their own WITH, unions, joins and FROM dual roots"""
    doc = gen_doc(rnd)
    base_wh = rnd.choice([TRUE, ["cmp", "gt", col("n0"), num(1)], ["cmp", "ne", col("s0"), ["str", "b"]]])
    inner = select([item(col("n0")), item(col("s0"))], table("t"), wh=base_wh)
    shape = rnd.choice(["nested-with", "dual-union", "self-join", "union-root", "union-chain", "twice-in-chain", "subq-twice"])
    staged = [("a", inner)]
    if shape == "nested-with":
        body = select([item(col("n0")), item(col("s0"))], table("z"), ctes=[["z", inner]])
        qb = select([item(col("n0"))], table("a"), wh=["cmp", "ge", col("n0"), num(rnd.choice([1, 2]))])
        qc = ["union", [], select([item(col("n0"))], table("b")), select([item(col("n0"))], table("a")), rnd.random() < 0.5, [], None, None, {}]
        outer = select([item(col("n0"))], table("c"), ctes=[["a", body], ["b", qb], ["c", qc]])
        staged = [("a", body), ("b", qb), ("c", qc)]
    elif shape == "dual-union":
        sub = ["union", [], select([item(col("n0"))], table("a")), select([item(col("n0"))], table("a")), False, [], None, None, {}]
        outer = select([item(["subq", sub], "u")], table("dual"), ctes=[["a", inner]])
    elif shape == "self-join":
        outer = select([["star"]], ["join", join_type(rnd.choice(["JOIN", "LEFT JOIN", "HASH_JOIN"])), table("a", "x"), table("a", "y"),
                                    ["cmp", "eq", col("x", "n0"), col("y", "n0")]], ctes=[["a", inner]])
        c = mk_case(doc, outer, mode="multiset", tag="cte-multi:" + shape)
        c["staged"] = staged
        c["outer_plain"] = outer
        c["multiset"] = True
        return c
    elif shape == "union-root":
        outer = ["union", [["a", inner]], select([item(col("n0"))], table("a")),
                 select([item(col("n0"))], table("a"), wh=["cmp", "gt", col("n0"), num(2)]), rnd.random() < 0.5, [], None, None, {}]
        c = mk_case(doc, outer, mode="seq", tag="cte-multi:" + shape)
        return c
    elif shape == "union-chain":
        # WITH in front of a chain of 3-4 selects: the parser hangs the WITH on the outermost union only, every
        # select of the chain must still see the CTEs
        def br():
            return select([item(col("n0"))], table(rnd.choice(["a", "a", "b"])),
                          wh=rnd.choice([TRUE, ["cmp", "gt", col("n0"), num(2)], ["cmp", "le", col("n0"), num(2)]]))
        qb = select([item(col("n0"))], table("a"), wh=["cmp", "ne", col("n0"), num(3)])
        chain = ["union", [], br(), br(), rnd.random() < 0.5, [], None, None, {}]
        for _ in range(rnd.randint(1, 2)):
            chain = ["union", [], chain, br(), rnd.random() < 0.5, [], None, None, {}]
        chain[1] = [["a", inner], ["b", qb]]
        return mk_case(doc, chain, mode="seq", tag="cte-multi:" + shape)
    elif shape == "twice-in-chain":
        qb = select([item(col("n0"))], table("a"), wh=["cmp", "in", col("n0"), ["subq", select([item(col("n0"))], ["table", ["<-", "a"], "", "<-a", {"bt": True}])]])
        outer = select([item(col("n0"))], table("b"), ctes=[["a", inner], ["b", qb]],
                       wh=["cmp", "in", col("n0"), ["subq", select([item(col("n0"))], ["table", ["<-", "a"], "", "<-a", {"bt": True}])]])
        staged = [("a", inner), ("b", qb)]
    else:
        sub1 = select([item(["aggr", "count", []], "n")], ["table", ["<-", "a"], "", "<-a", {"bt": True}])
        sub2 = select([item(["aggr", "max", [col("n0")]], "m")], ["table", ["<-", "a"], "", "<-a", {"bt": True}])
        outer = select([item(col("n0")), item(["subq", sub1], "c1"), item(["subq", sub2], "c2")], table("a"), ctes=[["a", inner]])
    c = mk_case(doc, outer, mode="seq", tag="cte-multi:" + shape)
    c["staged"] = staged
    c["outer_plain"] = outer
    return c


def gen_cte_path_case(rnd):
    doc = gen_doc(rnd)
    inner = select([item(col("n0")), item(col("o")), item(col("items"))], table("t"),
                   wh=rnd.choice([TRUE, ["cmp", "ge", col("n0"), num(2)]]))
    k = rnd.random()
    if k < 0.5:
        outer = select([item(col("k")), item(col("tags"))], ["table", ["c0", "o"], "", "c0", {"bt": True}], ctes=[["c0", inner]])
    else:
        outer = select([item(col("n0"))], ["table", ["c0"], "", "c0"], ctes=[["c0", inner]],
                       wh=["cmp", "gt", col("n0"), num(1)])
    c = mk_case(doc, outer, mode="seq", tag="cte-path")
    c["staged"] = [("c0", inner)]
    c["outer_plain"] = outer
    return c


def gen_derived_case(rnd):
    doc = gen_doc(rnd)
    inner, cols = gen_stage(rnd, table("t"), dict(BASE))
    outer, _ = gen_stage(rnd, ["derived", inner, "d"], cols, prefix="d", allow_group=False)
    c = mk_case(doc, outer, mode="seq", tag="derived")
    c["derived"] = inner
    return c


def gen_derived_join_case(rnd):
    """a join whose sides are nested statements (derived tables, one of them possibly a CTE reference): equals the join of the
    two materialised results"""
    doc = gen_doc(rnd)
    def side(keep):
        wh = rnd.choice([TRUE, ["cmp", rnd.choice(["gt", "le", "ne"]), col("n0"), num(rnd.choice([1, 2, 3]))]])
        return select([item(col("n0")), item(col(keep))], table("t"), wh=wh)
    i1, i2 = side("s0"), side("n1")
    kind = rnd.choice(["JOIN", "LEFT JOIN", "RIGHT JOIN", "LEFT HASH_JOIN", "PARALLEL JOIN"])
    on = rnd.choice([["cmp", "eq", col("x", "n0"), col("y", "n0")], ["cmp", "lt", col("x", "n0"), col("y", "n0")],
                     ["and", ["cmp", "eq", col("x", "n0"), col("y", "n0")], ["cmp", "ne", col("x", "s0"), ["str", "b"]]]])
    jt = join_type(kind)
    ctes = []
    if rnd.random() < 0.3:
        ctes = [["cq", i2]]
        right = table("cq", "y")
    else:
        right = ["derived", i2, "y"]
    outer = select([["star"]], ["join", jt, ["derived", i1, "x"], right, on], ctes=ctes)
    plain = select([["star"]], ["join", jt, table("dm1", "x"), table("dm2", "y"), on])
    c = mk_case(doc, outer, mode="multiset", tag="derived-join")
    c["staged"] = [("dm1", i1), ("dm2", i2)]
    c["outer_plain"] = plain
    c["multiset"] = True
    return c


def gen_same_text_aggregate_case(rnd):
    """ungrouped aggregates with the SAME text in two stages of one statement (CTE body / derived table and the query reading it,
    two sibling CTEs): each stage computes its own — whatever is memoised per query must not be shared between stages"""
    doc = gen_doc(rnd)
    fn = rnd.choice(["count", "sum", "max", "min"])
    agg = ["aggr", fn, [] if fn == "count" else [col("n0")]]
    w1 = ["cmp", rnd.choice(["gt", "ge", "ne"]), col("n0"), num(rnd.choice([1, 2, 3]))]
    w2 = ["cmp", rnd.choice(["gt", "le"]), col("n0"), num(rnd.choice([2, 3]))]
    shape = rnd.choice(["cte", "derived", "siblings"])
    if shape == "cte":
        inner = select([item(agg, "n0")], table("t"), wh=w1)
        outer = select([item(agg, "m")], table("c"), ctes=[["c", inner]])
        c = mk_case(doc, outer, mode="seq", tag="same-text-aggregate:cte")
        c["staged"] = [("c", inner)]
        c["outer_plain"] = outer
    elif shape == "derived":
        inner = select([item(agg, "n0")], table("t"), wh=w1)
        outer = select([item(["aggr", fn, [] if fn == "count" else [col("d", "n0")]], "m")], ["derived", inner, "d"])
        c = mk_case(doc, outer, mode="seq", tag="same-text-aggregate:derived")
        c["derived"] = inner
    else:
        a = select([item(agg, "s")], table("t"), wh=w1)
        b = select([item(agg, "s")], table("t"), wh=w2)
        outer = ["union", [["a", a], ["b", b]], select([item(col("s"))], table("a")), select([item(col("s"))], table("b")), False, [], None, None, {}]
        c = mk_case(doc, outer, mode="seq", tag="same-text-aggregate:siblings")
    return c


def gen_subq_case(rnd):
    doc = gen_doc(rnd)
    k = rnd.random()
    if k < 0.12:
        # star projections of the scoped row (`FROM dual` inside a sub-query), directly and one FROM level below
        dual = select([["star"]], table("dual"))
        inner = rnd.choice([
            dual,
            select([["star"]], ["derived", dual, "z"]),
            ["union", [], dual, dual, False, [], None, None, {}],
            select([["star"]], table("w"), ctes=[["w", dual]]),
        ])
        q = select([item(col("n0")), item(["subq", inner], "sub")], table("t"))
        return mk_case(doc, q, mode="seq", tag="subq-dual")
    # every `<-` is exactly one step back: from an element of the row's nested array to the row, from the row
    # to the document — whether the sub-query sits in the select list, right of IN, or under EXISTS
    back1 = col("<-", "n0", style=1)
    back2 = col("<-", "<-", "lim", style=1)
    if k < 0.3:
        sub = select([item(col("x"))], table("items"),
                     wh=rnd.choice([TRUE, ["cmp", "gt", col("x"), num(1)], ["cmp", "ge", col("x"), back1],
                                    ["cmp", "gt", col("x"), back2]]))
        q = select([item(col("n0")), item(["subq", sub], "sub")], table("t"))
        tag = "subq-row"
    elif k < 0.5:
        # a sub-query over a table of the DOCUMENT (reached through `<-`), uncorrelated or correlated with the outer row through
        # `<-.column` in its WHERE / select list: it is evaluated for every outer row, not once
        corr = rnd.choice([None, None, ["cmp", rnd.choice(["ge", "lt", "eq", "ne"]), col("v"), back1],
                           ["cmp", "gt", ["bin", "plus", col("v"), back1], num(4)]])
        shape = rnd.random()
        frm = ["table", ["<-", "meta"], "", "<-meta", {"bt": True}]
        if shape < 0.4 or corr is None:
            sub = select([item(col("v"))], frm, wh=corr or TRUE)
            q = select([item(col("n0")), item(["subq", sub], "sub")], table("t"))
        elif shape < 0.7:
            sub = select([item(["aggr", "count", []], "n"), item(["aggr", "sum", [col("v")]], "s")], frm, wh=corr)
            q = select([item(col("n0")), item(["subq", sub], "sub")], table("t"))
        else:
            sub = select([item(col("v"))], frm, wh=corr)
            q = select([item(col("n0")), item(col("s0"))], table("t"), wh=["cmp", "in", col("n0"), ["subq", sub]])
        tag = "subq-root" + ("-correlated" if corr is not None else "")
    elif k < 0.75:
        sub = select([item(col("x"))], table("items"),
                     wh=rnd.choice([TRUE, TRUE, ["cmp", "ne", col("x"), back1], ["cmp", "ge", col("x"), back2]]))
        if rnd.random() < 0.1:
            # more than one column on the right of IN: an error, never a guess
            sub = select([item(col("x")), item(col("y"))], table("items"))
        q = select([item(col("n0")), item(col("s0"))], table("t"),
                   wh=["cmp", "in", col(rnd.choice(["n0", "n1"])), ["subq", sub]])
        tag = "in-subq"
    else:
        inner_wh = rnd.choice([
            ["cmp", "gt", col("x"), col("n0")],
            ["cmp", "eq", col("x"), col("n0")],
            ["and", ["cmp", "ge", col("x"), num(2)], ["cmp", "eq", col("y"), ["str", "p"]]],
            ["cmp", "lt", col("x"), num(rnd.choice([1, 2, 3]))],
            ["cmp", "gt", col("x"), back1],
            ["cmp", "gt", col("x"), back2],
            ["and", ["cmp", "ge", col("x"), back2], ["cmp", "ne", col("x"), back1]],
        ])
        sub = select([["star"]], table("items"), wh=inner_wh)
        p = ["exists", sub]
        if rnd.random() < 0.3:
            p = ["not", p]
        q = select([item(col("n0")), item(col("s0"))], table("t"), wh=p)
        tag = "exists"
    return mk_case(doc, q, mode="seq", tag=tag)


def nontrivial(c, g, l):
    if g["r"] != "ok":
        return False
    rows = dec_val(g["v"])
    return 0 < len(rows) and len(rows) != len(c["doc"]["t"]) or c["tag"].startswith(("subq", "cte-path"))


def metamorphic(chk, cases, results):
    """composed query vs staged evaluation on the real implementation"""
    todo = [(c, g) for (c, g, l, v) in results if g.get("r") == "ok" and ("staged" in c or "derived" in c)]
    # stage 1..k: materialise
    state = [{"doc": copy.deepcopy(c["doc"]), "ok": True} for c, _ in todo]
    maxst = max([len(c.get("staged", [])) for c, _ in todo] + [1])
    for si in range(maxst):
        reqs, idx = [], []
        for i, (c, _) in enumerate(todo):
            st = c.get("staged")
            if st is not None and si < len(st) and state[i]["ok"]:
                reqs.append({"op": "query", "doc": __import__("pylib.common", fromlist=["enc_val"]).enc_val(state[i]["doc"]),
                             "sql": query_sql(st[si][1])})
                idx.append(i)
            elif st is None and si == 0:
                reqs.append({"op": "query", "doc": __import__("pylib.common", fromlist=["enc_val"]).enc_val(state[i]["doc"]),
                             "sql": query_sql(c["derived"])})
                idx.append(i)
        outs = run_go(reqs) if reqs else []
        for i, o in zip(idx, outs):
            c = todo[i][0]
            if o.get("r") != "ok":
                state[i]["ok"] = False
                continue
            name = c["staged"][si][0] if "staged" in c else "dm"
            state[i]["doc"][name] = dec_val(o["v"])
    # final: outer over the materialised input
    reqs, idx = [], []
    from ..common import enc_val
    for i, (c, g) in enumerate(todo):
        if not state[i]["ok"]:
            continue
        if "staged" in c:
            outer = copy.deepcopy(c["outer_plain"])
            outer[1] = []
        else:
            outer = copy.deepcopy(c["q"])
            outer[4] = ["table", ["dm"], "d", "d"]
        reqs.append({"op": "query", "doc": enc_val(state[i]["doc"]), "sql": query_sql(outer)})
        idx.append(i)
    outs = run_go(reqs) if reqs else []
    for i, o in zip(idx, outs):
        c, g = todo[i]
        chk.count("metamorphic-pairs")
        same = o.get("r") == "ok" and (as_multiset(dec_val(o["v"])) == as_multiset(dec_val(g["v"])) if c.get("multiset")
                                       else canon(dec_val(o["v"])) == canon(dec_val(g["v"])))
        if not same:
            chk.add_violation("metamorphic", {"sql": c["sql"], "doc": c["doc"], "composed": g,
                                             "staged_sql": reqs[idx.index(i)]["sql"], "staged": o,
                                             "materialised": {k: v for k, v in state[i]["doc"].items() if k not in c["doc"]}})
            return


def explore(chk, rnd, tier):
    n = 2000 if tier == "quick" else 40000
    done = 0
    while done < n and not chk.violations:
        m = min(4000, n - done)
        cases = []
        for _ in range(m):
            k = rnd.random()
            cases.append(gen_cte_case(rnd) if k < 0.27 else gen_cte_multi_case(rnd) if k < 0.40 else gen_cte_path_case(rnd) if k < 0.47 else
                         gen_derived_case(rnd) if k < 0.58 else gen_derived_join_case(rnd) if k < 0.64 else
                         gen_same_text_aggregate_case(rnd) if k < 0.69 else gen_subq_case(rnd))
        res = run_cases(chk, cases, nontrivial=nontrivial)
        metamorphic(chk, cases, res)
        done += m


LEVEL_TEXT = ("Lean theorems about the model of BuildCte / derived tables / SubqueryExpr / ExistExpr: a query over a CTE equals the "
              "outer query over the document extended with the CTE's materialised result (chains: earlier CTEs visible to later "
              "ones); a derived table equals the outer query over the aliased materialised rows; a select-list sub-query contributes "
              "exactly its standalone result on the row extended with the `<-` marker; EXISTS is true iff some element of the nested "
              "source, merged with the outer row, satisfies the inner query. Tied to /repo by model correspondence and by a "
              "two-execution metamorphic run on the implementation itself.")
LEVEL_NOTE = ("CTE thunks are lazy in Go and sequentially evaluated in the model: unobservable for pure, non-failing bodies (the "
              "generated domain); self/forward references are out of model for values (C10 covers their termination).")
TECHNIQUE = "Lean 4 proof (unfolding of the structural evaluator; substitution lemmas) + model correspondence + metamorphic staged runs"

# the text of the functions this property's model mirrors is a regenerated fact (Obligations/PinC07: closed by rfl)
FACTS = True
LEAN_TARGETS = list(LEAN_TARGETS) + ["Genql.Obligations.PinC07"]
THEOREMS = list(THEOREMS) + ["Genql.Obligations.PinC07.pinned_text"]
