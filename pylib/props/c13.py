"""C13 — Concurrent queries are free of data races, crashes and cross-talk."""
import json
import os
import subprocess
from ..sqlgen import *  # noqa
from ..common import enc_val, build_go, HARNESS, log

FACTS = True
MODULE = "Genql.Properties.C13"
LEAN_TARGETS = [MODULE, "Genql.Obligations.C13"]
THEOREMS = ["Genql.C13." + t for t in [
    "well_locked_race_free", "well_locked_race_free_run", "holder_only_thread_inside", "unlock_only_by_holder",
    "no_deadlock_single_lock", "cache_is_parse_graph", "execReader_no_deadlock"]] + \
    ["Genql.Obligations.C13." + t for t in [
        "execReader_well_locked", "cache_only_in_execReader", "execReader_race_free", "parallel_join_well_locked",
        "parallel_hash_join_well_locked", "vars_well_locked", "registries_init_only", "package_vars_users", "sub_packages_stateless", "cached_parse_results_never_written"]]
TRUSTED = ["the Go memory model and scheduler are not formalised: a theorem cannot exhibit a race; races are only *searched* with "
           "the race detector", "the go/ast fact extractor (lock/unlock/access paths of ExecReader, PARALLEL join workers, GETVAR/SETVAR; "
           "writers of package-level variables)"]
RULE = ("proof part: protocol theorems + obligations on the instruction paths regenerated from the source; exploration part (labelled "
        "as such): a -race build of the runner executes 2-16 goroutines over separate and shared documents, fresh and cached selector "
        "texts (also the SAME open-range / each selector text over separate documents of different shapes), PARALLEL joins and "
        "ASYNC/SPINASYNC functions, each result compared with its stand-alone result = the result of a process that ran nothing else; observations = race "
        "reports, fatal errors, timeouts, cross-talk; non-trivial = >=2 executions overlapped in time (measured)")


def workloads(rnd, tier):
    rows = [{"a": i % 4, "s": rnd.choice(["x", "y", "z"]), "k": i, "items": [{"x": j} for j in range(i % 3)],
             "o": {"p%d" % j: j for j in range(1 + i % 4)}} for i in range(8)]
    other = [{"m": i % 3, "b": rnd.choice(["p", "q"])} for i in range(6)]
    doc = {"t": rows, "u": other, "meta": [{"v": 1}, {"v": 2}], "w": [{"k": i, "a": i % 5, "s": "x"} for i in range(44)],
           "wp": [{"k": i, "s": "x"} for i in range(136)], "wn": [{"k": i} for i in range(72)]}
    queries = [
        "SELECT a, s FROM t WHERE a >= 1 ORDER BY k DESC",
        "SELECT * FROM t x JOIN u y ON x.a = y.m",
        "SELECT * FROM t x PARALLEL JOIN u y ON x.a = y.m",
        "SELECT * FROM t x PARALLEL HASH_JOIN u y ON x.a = y.m",
        "SELECT * FROM t x PARALLEL LEFT JOIN u y ON x.a < y.m",
        # number-vs-string and string-vs-number comparisons (compare.Compare's text route) from many goroutines
        "SELECT * FROM t x PARALLEL JOIN u y ON x.k >= y.b",
        "SELECT * FROM t x PARALLEL JOIN u y ON y.b != x.a",
        "SELECT k FROM t WHERE a < s OR s > k",
        # ON conditions that register deferred work / memo entries on the join's query while the PARALLEL tasks run
        "SELECT * FROM t x PARALLEL JOIN u y ON EXISTS (SELECT * FROM `<-u` WHERE m = 1) AND x.a < y.m",
        "SELECT * FROM t x PARALLEL LEFT JOIN u y ON x.a IN (SELECT m FROM `<-u`) AND x.a < y.m",
        "SELECT * FROM t x PARALLEL JOIN u y ON ONCE.VF_ID(1) < y.m AND x.a < y.m",
        "SELECT * FROM t x PARALLEL JOIN u y ON x.s LIKE 'x%' OR y.b LIKE 'p%' AND x.a < y.m",
        "SELECT s, COUNT(*) AS n, SUM(a) AS tot FROM t GROUP BY s",
        "SELECT k, (SELECT x FROM items) AS sub FROM t",
        "SELECT k, (SELECT v FROM `<-meta`) AS sub FROM t WHERE k < 3",
        "SELECT k FROM t WHERE EXISTS (SELECT * FROM items WHERE x = a)",
        "SELECT k FROM t WHERE a IN (SELECT m FROM `<-u`)",
        "WITH c AS (SELECT a, k FROM t WHERE a > 0) SELECT k FROM c WHERE a < 3",
        "SELECT ASYNC.VF_SLOW('q', k) AS v, k FROM t",
        "SELECT SPINASYNC.VF_SLOW('q', k), k FROM t",
        # a panicking ASYNC call: the recovered error is written by the goroutine and read by the post processor
        "SELECT ASYNC.VF_PANIC(a = 2) AS v, k FROM t",
        "SELECT SPINASYNC.VF_PANIC(a = 2), k FROM t",
        "SELECT DISTINCT s FROM t",
        "SELECT a FROM t UNION SELECT m FROM u",
        "SELECT `t[0].s` AS first FROM dual",
        # built-ins that digest / encode their argument: nothing may be shared between two calls
        "SELECT k, HASH(s,'sha256') AS h, HASH(k,'md5') AS hk FROM t",
        # FUSE blends the keys of an object OF THE DOCUMENT into the row: it reads that object
        "SELECT k, FUSE(o) FROM t",
        "SELECT FUSE(o) AS p, a FROM t WHERE a > 0",
        "SELECT k, ASYNC.HASH(s,'sha256') AS h, ENCODE(s,'base64') AS e FROM t",
    ]
    # PARALLEL joins over more distinct keys than there are processors, healthy and with an ON that fails on every pair / on
    # the pairs of some keys: the tasks must all be collected (rows or the error), however they are spread over workers
    wide = ["SELECT * FROM w x PARALLEL JOIN w y ON x.k < y.k AND x.a = y.a",
            "SELECT * FROM w x PARALLEL HASH_JOIN w y ON x.k = y.k",
            "SELECT * FROM w x PARALLEL JOIN w y ON x.k >= y.k AND x.s",
            "SELECT * FROM w x PARALLEL LEFT JOIN w y ON x.k = y.k AND x.s + 1 > 0"]
    heavy = [
            # ... over more keys than any plausible bound on workers or tasks (136), every task PANICKING (a built-in over an
            # absent column) or failing; and a PARALLEL join whose ON itself runs a PARALLEL join (72 keys, each task starts one)
            "SELECT * FROM wp x PARALLEL JOIN wp y ON x.k < y.k AND IF(x.flag, TRUE, FALSE)",
            "SELECT * FROM wp x PARALLEL LEFT JOIN wp y ON x.k <> y.k AND x.s",
            "SELECT * FROM wn x PARALLEL JOIN wn y ON x.k < y.k AND EXISTS (SELECT * FROM `<-meta` c PARALLEL JOIN `<-meta` d ON c.v < d.v)"]
    selectors = ["t[%d:0].a" if False else "t.a", "t[each].items", "u[(0:2)].m", "k%d", "t{k%d|string}" if False else "meta.v",
                 "'k%d'.x", "t[0].k%d"]
    g = 4 if tier == "quick" else 16
    out = []
    # shared document: every query reads the same Go object
    out.append({"docs": [enc_val(doc)], "queries": [{"doc": 0, "sql": q} for q in queries + wide], "selectors": selectors,
                "goroutines": g, "repeat": 6 if tier == "quick" else 30})
    # the big joins: a few goroutines, a few rounds (each run is thousands of ON evaluations under the race detector)
    out.append({"docs": [enc_val(doc)], "queries": [{"doc": 0, "sql": q} for q in heavy + queries[:2]], "selectors": selectors[:2],
                "goroutines": 4, "repeat": 2 if tier == "quick" else 4})
    # separate documents: only the process-wide cache and registries are shared
    out.append({"docs": [enc_val(doc) for _ in range(4)],
                "queries": [{"doc": i % 4, "sql": q} for i, q in enumerate(queries)], "selectors": selectors,
                "goroutines": g, "repeat": 6 if tier == "quick" else 30})
    # wrapped + many goroutines on the cache path only
    out.append({"docs": [enc_val(doc)], "queries": [{"doc": 0, "sql": "SELECT a FROM `root.t`", "wrapped": True}],
                "selectors": ["t[0].k%d", "u.m%d", "meta[each].v%d", "x%d.y%d"], "goroutines": 2 * g, "repeat": 40 if tier == "quick" else 300})
    # separate documents of DIFFERENT shapes under the same selector texts with open ranges / each: whatever the process-wide
    # cache holds for a text must serve every document (a cached parse result is shared by all of them)
    def shaped(n):
        return {"t": [{"k": i, "a": i % 3, "items": [{"x": j} for j in range((i + n) % 4)]} for i in range(n)],
                "u": [{"m": i} for i in range(max(1, 7 - n))]}
    sdocs = [shaped(n) for n in (3, 6, 2, 8)]
    squeries = ["SELECT k FROM `t[(1:end)]`", "SELECT k FROM `t[(begin:2)]`", "SELECT k, `items[(0:end)]` AS it FROM t",
                "SELECT `t[(1:end)].k` AS ks, `u[(begin:end)].m` AS ms FROM dual", "SELECT x FROM `t[each].items[(0:end)]`",
                "SELECT k FROM t WHERE k IN (SELECT x FROM `items[(0:end)]`)"]
    out.append({"docs": [enc_val(d) for d in sdocs],
                "queries": [{"doc": i % 4, "sql": q} for q in squeries for i in range(4)], "selectors": ["t[(1:end)].k", "t[each].items[(0:end)]"],
                "goroutines": g, "repeat": 4 if tier == "quick" else 20})
    return out


def alone_expectations(runner, w):
    """each query of the workload once, in a process of its own: the stand-alone result (nothing cached, nothing shared)"""
    from concurrent.futures import ThreadPoolExecutor
    def one(q):
        req = {"id": 0, "op": "alone", "args": {"doc": w["docs"][q["doc"]], "q": q}}
        try:
            p = subprocess.run([runner], input=(json.dumps(req) + "\n").encode(), stdout=subprocess.PIPE, stderr=subprocess.PIPE,
                               env=dict(os.environ, GORACE="halt_on_error=0 exitcode=66", GOMEMLIMIT="2GiB"), timeout=90)
            o = [json.loads(l) for l in p.stdout.decode().splitlines() if l.strip()]
            if o and o[0].get("r") == "ok":
                return o[0]["v"], o[0]["rr"]
        except subprocess.TimeoutExpired:
            return "timeout"
        except Exception:
            pass
        return None
    with ThreadPoolExecutor(8) as ex:
        res = list(ex.map(one, w["queries"]))
    hung = [q["sql"] for q, r in zip(w["queries"], res) if r == "timeout"]
    for q, r in zip(w["queries"], res):
        if r is not None and r != "timeout":
            q["expectV"], q["expectR"] = r
    return sum(1 for r in res if r is not None and r != "timeout"), hung


def explore(chk, rnd, tier):
    ok, txt, runner = build_go(race=True)
    if not ok:
        log(txt[-2000:])
        chk.obligation("race-build-of-runner", False, txt[-1500:])
        return
    total = 0
    overlapped = 0
    for gmp in ([None] if tier == "quick" else [None, "2", "8"]):
        for w in workloads(rnd, tier):
            if gmp is None or "expectV" not in w["queries"][0]:
                n_alone, hung = alone_expectations(runner, w)
                chk.count("stand-alone-processes", n_alone)
                if hung:
                    chk.add_violation("deadlock-or-hang", {"detail": "a process running this one query alone did not return within 90 s",
                                                           "sql": hung[0], "doc": w["docs"][0], "all_hung": hung})
                    return
            env = dict(os.environ, GORACE="halt_on_error=0 exitcode=66", GOMEMLIMIT="4GiB")
            if gmp:
                env["GOMAXPROCS"] = gmp
            req = {"id": 0, "op": "conc", "args": w}
            try:
                p = subprocess.run([runner], input=(json.dumps(req) + "\n").encode(), stdout=subprocess.PIPE,
                                   stderr=subprocess.PIPE, env=env, timeout=300)
            except subprocess.TimeoutExpired:
                chk.add_violation("deadlock-or-hang", {"workload": w, "detail": "no answer within 300 s"})
                return
            err = p.stderr.decode("utf-8", "replace")
            outs = [json.loads(l) for l in p.stdout.decode().splitlines() if l.strip()]
            if "DATA RACE" in err:
                chk.add_violation("data-race", {"workload": {k: w[k] for k in ("queries", "selectors", "goroutines", "repeat")},
                                                "race_report": err[:6000]})
                return
            if "fatal error" in err or p.returncode not in (0,):
                chk.add_violation("crash", {"workload": w, "rc": p.returncode, "stderr": err[-4000:]})
                return
            if not outs or outs[0].get("r") != "ok":
                chk.add_violation("conc-op-failed", {"workload": w, "out": outs, "stderr": err[-2000:]})
                return
            o = outs[0]
            total += o["executions"]
            chk.count("executions", o["executions"])
            chk.count("max-concurrent-%d" % o["maxConcurrent"])
            if o["maxConcurrent"] >= 2:
                overlapped += 1
            if o["mismatches"]:
                chk.add_violation("cross-talk", {"workload": w, "first": o.get("first"), "mismatches": o["mismatches"]})
                return
            if o.get("docChanged"):
                chk.add_violation("shared-document-modified", {"workload": w})
                return
    chk.cov["evaluations"] = total
    chk.cov["distinct_nontrivial"] = overlapped * 16
    chk.cov["explored_only"] = "race detector runs are exploration, not proof"
    chk.samples.append({"queries": [q["sql"] for q in workloads(rnd, "quick")[0]["queries"]][:6]})


LEVEL_TEXT = ("Proof of the protocol, exploration of the runtime. Lean: every interleaving of threads that are well locked (each access "
              "to a guarded location inside a critical section of its mutex) is data-race free, mutual exclusion, no deadlock with one "
              "lock; the selector cache always is a sub-graph of `parse`, so every ExecReader returns its stand-alone result in every "
              "interleaving. Obligations re-checked on every run against instruction paths extracted from the current source: "
              "ExecReader, PARALLEL join workers, GETVAR/SETVAR are well locked; registries are written only by Register*. The "
              "shared-document case reduces to C11 (queries only read it).")
LEVEL_NOTE = ("Partial by nature: the Go memory model and the scheduler are not formalised. The -race runs (2-16 goroutines, shared and "
              "separate documents, fresh selector texts, PARALLEL joins, ASYNC) are exploration used to search for a concrete failing "
              "schedule; they are not part of the proof.")
TECHNIQUE = "Lean 4 proof (invariant over all interleavings) + go/ast facts instantiated by decide + race-detector exploration"
