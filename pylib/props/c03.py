"""C03 — GROUP BY partitions rows; aggregates cover exactly their group and honour WHERE."""
from ..sqlgen import *  # noqa
from ..qcheck import mk_case, run_cases
from ..common import dec_val, run_go, canon

MODULE = "Genql.Properties.C03"
LEAN_TARGETS = [MODULE, "Genql.Properties.GroupModel", "Genql.Properties.Pipeline"]
THEOREMS = ["Genql.C03." + t for t in [
    "groupLoop_pure", "groups_eq_spec", "groups_first_appearance", "groups_nodup_keys", "mem_group_iff", "same_group_iff",
    "groups_partition", "count_conservation", "sum_ignores_null", "minmax_spec", "avg_is_sum_div_count", "count_spec",
    "whole_table_one_row"]] + \
    ["Genql.GroupModel." + t for t in ["goEq_scalar", "groupLoop_on", "evalSel_group", "group_count_model", "group_count_groups", "group_count_sum", "group_pipeline"]] + \
    ["Genql.Pipeline.whole_aggregate_pipeline", "Genql.Pipeline.whole_aggregate_limit", "Genql.Pipeline.whole_aggregate_phases",
     "Genql.Pipeline.select_pipeline_phases"]
TRUSTED = ["IEEE-754 summation order is the source order in both model and Go (left fold)", "sqlparser"]
RULE = ("random tables (0-14 rows; 1-3 grouping columns with NULL / missing keys, single-group and all-distinct shapes) x "
        "select lists mixing grouping columns, *, COUNT/SUM/MIN/MAX/AVG (same function on different columns) x WHERE x HAVING; "
        "also whole-table aggregates with WHERE; each query also run 4x to expose order instability; non-trivial = >=2 groups or "
        "a non-empty WHERE-filtered whole-table aggregate; distinct by (doc, SQL)")

AGGS = ["count", "sum", "min", "max", "avg"]


def gen_rows(rnd):
    shape = rnd.random()
    n = rnd.randint(0, 14)
    g0pool = [1] if shape < 0.1 else ([1, 2, 3] if shape < 0.8 else list(range(20)))
    g1pool = ["x", "y"] if shape < 0.8 else ["x", "y", "z", "w", "1"]
    # values that print alike under %v but are different keys ("1" vs 1, true vs "true", NULL vs "<nil>")
    alike = rnd.random() < 0.25
    if alike:
        g0pool = [1, "1", 2, "2", True, "true"]
        g1pool = ["x", "true", True, "<nil>", None, 1, "1"]
    rows = []
    for i in range(n):
        r = {}
        k = rnd.random()
        if k < 0.08:
            r["g0"] = None
        elif k < 0.13:
            pass
        else:
            r["g0"] = rnd.choice(g0pool) if (shape < 0.8 or alike) else i
        r["g1"] = rnd.choice(g1pool) if rnd.random() < 0.92 else None
        r["g2"] = rnd.random() < 0.5
        for v in ("v0", "v1"):
            k = rnd.random()
            if k < 0.12:
                r[v] = None
            elif k < 0.16:
                pass
            else:
                r[v] = rnd.choice([-5, -1, 0, 1, 2, 2.5, 7, 10, 100])
        r["w"] = rnd.choice([1, 2, 3, 4])     # never NULL
        r["o"] = {"k": rnd.choice(["p", "q", 1])}   # grouping on a nested path
        rows.append(r)
    return rows


def gen_aggr(rnd):
    f = rnd.choice(AGGS)
    if f == "count" and rnd.random() < 0.6:
        return ["aggr", "count", []]
    c = rnd.choice(["v0", "v1", "w"])
    return ["aggr", f, [col(c)]]


def gen_where(rnd):
    k = rnd.random()
    if k < 0.4:
        return TRUE
    if k < 0.7:
        return ["cmp", rnd.choice(["gt", "le", "ne"]), col("w"), num(rnd.choice([1, 2, 3]))]
    if k < 0.85:
        return ["cmp", rnd.choice(["eq", "ne"]), col("g1"), ["str", rnd.choice(["x", "y"])]]
    if k < 0.93:
        return ["and", ["cmp", "ge", col("w"), num(2)], ["is", rnd.choice(["true", "false"]), col("g2")]]
    # a whole-table aggregate inside WHERE: computed over ALL source rows (the filter has not run yet), once
    return ["cmp", rnd.choice(["gt", "le", "lt", "ge"]), col("w"), ["aggr", rnd.choice(["avg", "min", "max"]), [col("w")]]]


def gen_having(rnd):
    k = rnd.random()
    if k < 0.6:
        return TRUE
    if k < 0.8:
        return ["cmp", rnd.choice(["gt", "ge", "eq", "lt"]), ["aggr", "count", []], num(rnd.choice([1, 2, 3]))]
    if k < 0.9:
        return ["cmp", rnd.choice(["gt", "le"]), ["aggr", "sum", [col("w")]], num(rnd.choice([2, 4, 6]))]
    return ["and", ["cmp", "ge", ["aggr", "count", []], num(1)], ["cmp", "lt", ["aggr", "max", [col("w")]], num(4)]]


def gen_case(rnd):
    rows = gen_rows(rnd)
    k = rnd.random()
    if k < 0.28:
        # whole-table aggregates
        n = rnd.randint(1, 5)
        sel = [item(gen_aggr(rnd), "a%d" % i) for i in range(n)]
        # a LIMIT / OFFSET on the statement windows the ONE output row; the aggregates still see every row that
        # passed WHERE (also one level down, in a derived table)
        lim = off = None
        if rnd.random() < 0.3:
            lim = rnd.choice([1, 1, 2, 3])
            off = rnd.choice([None, None, 0, 1])
        q = select(sel, table("t"), wh=gen_where(rnd), limit=lim, offset=off, limit_spelling=rnd.choice([0, 1]))
        if rnd.random() < 0.15:
            q = select([["star"]], ["derived", q, "d"])
        return mk_case({"t": rows}, q, mode="seq", tag="whole-table", num_kind=rnd.choice(["int", "int64", "int32", "uint8", "float32"]) if rnd.random() < 0.1 else None)
    gcols = rnd.sample(["g0", "g1", "g2"], rnd.randint(1, 3))
    nested_key = rnd.random() < 0.15
    sel = []
    shape = rnd.random()
    if shape < 0.15:
        sel.append(["star"])
    else:
        if shape > 0.3:
            for g in gcols:
                if rnd.random() < 0.85:
                    sel.append(item(col(g), rnd.choice(["", "", "k_" + g])))
        for i in range(rnd.randint(0 if sel else 1, 4)):
            sel.append(item(gen_aggr(rnd), "a%d" % i))
        if shape > 0.9:
            sel.append(["star"])
    if not sel:
        sel.append(item(["aggr", "count", []], "a0"))
    gb = [[g, [g]] for g in gcols]
    if nested_key:
        gb.append(["o.k", ["o", "k"]])
        if rnd.random() < 0.5:
            sel.append(item(["col", ["o", "k"], {"style": 1}], "ok"))
    lim = off = None
    if rnd.random() < 0.2:
        lim = rnd.choice([1, 2, 3, 5])
        off = rnd.choice([None, 0, 1])
    q = select(sel, table("t"), wh=gen_where(rnd), gb=gb, hv=gen_having(rnd), limit=lim, offset=off,
               limit_spelling=rnd.choice([0, 1]))
    return mk_case({"t": rows}, q, mode="seq", tag="group-by", num_kind=rnd.choice(["int", "int64", "int32", "uint8", "float32"]) if rnd.random() < 0.1 else None)


def nontrivial(c, g, l):
    if g["r"] != "ok":
        return False
    rows = dec_val(g["v"])
    if c["tag"] == "group-by":
        return len(rows) >= 2
    return c["q"][0] == "select" and c["q"][5] != TRUE and len(rows) == 1 and any(v not in (None, 0.0) for v in rows[0].values())


def explore(chk, rnd, tier):
    n = 2500 if tier == "quick" else 60000
    done = 0
    while done < n and not chk.violations:
        m = min(5000, n - done)
        cases = [gen_case(rnd) for _ in range(m)]
        res = run_cases(chk, cases, nontrivial=nontrivial)
        # determinism of group order: run a sample again, 4 times, expect identical sequences
        sample = [c for c, g, l, v in res if c["tag"] == "group-by" and g["r"] == "ok"][:300 if tier == "quick" else 3000]
        from ..qcheck import go_req
        for rep in range(3):
            again = run_go([go_req(c) for c in sample])
            for c, a in zip(sample, again):
                first = next(g for cc, g, l, v in res if cc is c)
                if a.get("r") != "ok" or canon(a.get("v")) != canon(first.get("v")):
                    chk.add_violation("group-order-unstable", {"sql": c["sql"], "doc": c["doc"], "first": first, "again": a})
                    break
            chk.count("repeat-runs", len(sample))
        done += m


LEVEL_TEXT = ("Lean theorems: the ExecGroupBy scan equals the textbook grouping (distinct keys in order of first appearance, each "
              "group = the rows with that key in source order): partition, key uniqueness, same-group-iff-same-key, COUNT "
              "conservation; aggregate loops (SUM/MIN/MAX ignore NULL, NULL if none; AVG = SUM/COUNT without NULLs; COUNT(*) = "
              "group size); whole-table aggregates yield one row over the WHERE-filtered rows. End to end for the executable "
              "model (group_count_model): SELECT g, COUNT(*) AS n FROM t WHERE p GROUP BY g returns exactly the textbook grouping of "
              "the rows that passed WHERE (key reading, Go == on keys, the member list, HAVING, the select list per group all "
              "unfolded), first-appearance order, counts adding up to the kept rows; and in general (group_pipeline): WHERE, then "
              "the textbook grouping, HAVING on the groups, the select list once per kept group on {key, *: members}, then "
              "DISTINCT / ORDER BY / window on the projected groups. Correspondence incl. repeated runs for "
              "order stability.")
LEVEL_NOTE = ("Group-key equality is Go `==` on scalars (modelled, panics on slices/maps mapped to errors). Aggregates proved over a "
              "lawful abstract number type; float summation order is the same left fold in model and code.")
TECHNIQUE = "Lean 4 proof (induction over the row list; refinement of the scan to eraseDups/filter spec) + differential correspondence"

# the text of the functions this property's model mirrors is a regenerated fact (Obligations/PinC03: closed by rfl)
FACTS = True
LEAN_TARGETS = list(LEAN_TARGETS) + ["Genql.Obligations.PinC03"]
THEOREMS = list(THEOREMS) + ["Genql.Obligations.PinC03.pinned_text"]
