"""C14 — Function execution strategies change timing, never results."""
from ..sqlgen import *  # noqa
from ..common import run_go, run_lean, dec_val, canon, enc_val

FACTS = True
MODULE = "Genql.Properties.C14"
LEAN_TARGETS = [MODULE, "Genql.Obligations.C14"]
THEOREMS = ["Genql.C14." + t for t in [
    "async_complete", "async_equals_plain", "counter_invariant", "done_counter_positive", "spin_no_column",
    "spinasync_no_column", "invoked_at_most_once", "once_single_invocation", "immediate_rejects", "wait_before_post",
    "async_no_deadlock", "asyncShape_iff", "asyncShape_protocol", "model_has_shape", "nested_wait_forwarded"]] + \
    ["Genql.Obligations.C14." + t for t in ["async_shape", "spinasync_shape", "spin_not_waited", "nested_wait_forwarded_sites",
                                            "immediate_table", "async_protocol", "spinasync_protocol", "unwind_done_last"]]
TRUSTED = ["sync.WaitGroup and goroutine semantics as modelled (Add/Done/Wait counter, Wait enabled at 0)",
           "the go/ast extraction of the event order of FunExpr / execAndPostProcess",
           "real goroutine schedules are explored (latency injection), not enumerated"]
RULE = ("tables of 0-20 rows x select lists mixing unqualified, ASYNC, SPIN, SPINASYNC and ONCE calls of an instrumented function "
        "(call log, completion flags, per-call latency: zero, random, skewed); after Exec returns: per-tag invocation counts, "
        "completion, column presence and values are compared with the Lean wait-group model run on a random complete schedule "
        "and with the unqualified query; immediate functions under ASYNC/SPIN/SPINASYNC must be errors; non-trivial = >=2 rows and "
        ">=1 qualified call")

STRATS = ["plain", "async", "spin", "spinasync", "once"]
QUAL = {"plain": "", "async": "async", "spin": "spin", "spinasync": "spinasync", "once": "once"}


def gen_case(rnd, idx=0):
    n = rnd.randint(0, 20) if rnd.random() < 0.3 else rnd.randint(0, 6)
    # `z`: falsy results (NULL, 0) — a memo / slot must be told apart from "not computed yet" by presence, not by value
    zmode = rnd.choice(["null", "zero", "mixed"])
    rows = [{"a": i + 1, "b": 100 + rnd.randint(0, 5),
             "z": None if zmode == "null" else (0 if zmode == "zero" else rnd.choice([None, 0, 7]))} for i in range(n)]
    k = rnd.randint(1, 5)
    items = [rnd.choice(STRATS) for _ in range(k)]
    # ONCE is keyed by function name in the engine: at most one ONCE item per query in this harness
    seen_once = False
    for i, s in enumerate(items):
        if s == "once":
            if seen_once:
                items[i] = "plain"
            seen_once = True
    sel, argcols = [], []
    for i, s in enumerate(items):
        c = rnd.choice(["a", "b", "a", "b", "z"])
        argcols.append(c)
        call = ["func", QUAL[s], "vf_slow", [["str", "q%d_t%d" % (idx, i)], col(c)]]
        sel.append(["item", call, "v%d" % i, "v%d" % i])
    sel.append(item(col("a")))
    lat = rnd.choice([[0], [0], [rnd.randint(0, 300) for _ in range(7)], [0, 0, 0, 2000], [500, 0]])
    q = select(sel, table("t"))
    return {"doc": {"t": rows}, "q": q, "items": items, "argcols": argcols, "lat": lat, "sql": query_sql(q), "idx": idx}


NULL_CODE = -999   # NULL arguments / results in the integer-valued protocol model


def schedule(rnd, total):
    """a random prefix followed by enough fair rounds to complete every thread"""
    ids = list(range(total + 1))
    sched = [rnd.choice(ids) for _ in range(rnd.randint(0, 6 * (total + 2)))]
    # main needs <= 2 steps per call + wait + posts + return; a task <= 3 steps
    for _ in range(3 * total + 12):
        r = ids[:]
        rnd.shuffle(r)
        sched.extend(r)
        sched.append(0)
    return sched


def explore(chk, rnd, tier):
    n = 400 if tier == "quick" else 5000
    cases = [gen_case(rnd, i) for i in range(n)]
    gos = run_go([{"op": "query", "doc": enc_val(c["doc"]), "sql": c["sql"], "latency": c["lat"]} for c in cases], timeout=900)
    lreqs = []
    for c in cases:
        rows = c["doc"]["t"]
        k = len(c["items"])
        args = []
        for r in rows:
            for i in range(k):
                v = r[c["argcols"][i]]
                args.append(NULL_CODE if v is None else v)
        lreqs.append({"op": "async", "rows": len(rows), "items": [[s, 0] for s in c["items"]], "imm": [False],
                      "args": args, "sched": schedule(rnd, len(rows) * k)})
    leans = run_lean(lreqs)
    nt = 0
    for c, g, l in zip(cases, gos, leans):
        rows = c["doc"]["t"]
        k = len(c["items"])
        chk.count("query:" + str(g.get("r")))
        if g.get("r") != "ok":
            chk.add_violation("qualified-query-failed", {"sql": c["sql"], "doc": c["doc"], "impl": g})
            break
        if l.get("phase") != "returned" or l.get("wg") != 0:
            chk.add_violation("model-run-incomplete", {"sql": c["sql"], "model": l})
            break
        out = dec_val(g["v"])
        if len(out) != len(rows):
            chk.add_violation("row-count", {"sql": c["sql"], "doc": c["doc"], "impl": g})
            break
        log = dec_val(g.get("callLog", []))
        per_tag = {}
        for tag, x in log:
            per_tag.setdefault(tag, []).append(x)
        bad = None
        for ri, (row, o) in enumerate(zip(rows, out)):
            for i, s in enumerate(c["items"]):
                cell = l["cols"][ri * k + i]
                key = "v%d" % i
                if cell == "absent":
                    if key in o:
                        bad = "column %s present for %s call" % (key, s)
                elif cell == "ptr":
                    bad = "model left a pointer"
                else:
                    want_v = None if cell == NULL_CODE else float(cell)
                    if key not in o or o[key] != want_v:
                        bad = "row %d column %s: impl %r, model %r" % (ri, key, o.get(key), want_v)
            if o.get("a") != float(row["a"]):
                bad = "plain column disturbed"
        # invocation counts, and completion of everything that is waited for
        for i, s in enumerate(c["items"]):
            tag = "q%d_t%d" % (c["idx"], i)   # unique per query: late SPIN goroutines of earlier queries are ignored
            want = sum(l["invoked"][ri * k + i] for ri in range(len(rows)))
            have = len(per_tag.get(tag, []))
            if s == "spin":
                if have > len(rows):
                    bad = "SPIN invoked more than once per row"
            elif have != want:
                bad = "%s %s: %d completed invocations when Exec returned, model says %d" % (s, tag, have, want)
            if s in ("plain", "async", "spinasync") and sorted(map(canon, per_tag.get(tag, []))) != \
                    sorted(canon(dec_val(enc_val(r[c["argcols"][i]]))) for r in rows):
                bad = "%s %s: invocation arguments differ from one call per row" % (s, tag)
        if bad:
            chk.add_violation("strategy-changes-result", {"sql": c["sql"], "doc": c["doc"], "latency": c["lat"], "detail": bad,
                                                          "impl": g, "model": l})
            break
        if len(rows) >= 2 and any(s != "plain" for s in c["items"]):
            nt += 1
    # the unqualified query returns the same columns for ASYNC items
    if not chk.violations:
        sample = [c for c in cases if "async" in c["items"]][:150 if tier == "quick" else 2000]
        plain_reqs = []
        for c in sample:
            import copy
            q2 = copy.deepcopy(c["q"])
            for it in q2[3]:
                if it[0] == "item" and it[1][0] == "func" and it[1][1] == "async":
                    it[1][1] = ""
            sql = query_sql(q2)
            plain_reqs.append({"op": "query", "doc": enc_val(c["doc"]), "sql": sql})
        pl = run_go(plain_reqs)
        qa = run_go([{"op": "query", "doc": enc_val(c["doc"]), "sql": c["sql"], "latency": c["lat"]} for c in sample])
        for c, a, b in zip(sample, qa, pl):
            chk.count("async-vs-plain")
            if a.get("r") != "ok" or b.get("r") != "ok" or canon(dec_val(a["v"])) != canon(dec_val(b["v"])):
                chk.add_violation("async-differs-from-unqualified", {"sql": c["sql"], "doc": c["doc"], "async": a, "plain": b})
                break
    # ... also when the rest of the statement looks at the column: DISTINCT, ORDER BY, LIMIT, UNION work on the values
    # the calls return, not on their unresolved slots
    if not chk.violations:
        creqs_a, creqs_p, cmeta = [], [], []
        for i in range(80 if tier == "quick" else 1200):
            n = rnd.randint(0, 8)
            rows = [{"a": r, "b": rnd.choice([1, 2, 2, 3, 5])} for r in range(n)]
            tag = "c%d" % i
            form = rnd.choice(["distinct", "order", "order-limit", "union", "distinct-order"])
            call = "%sVF_SLOW('" + tag + "', b)"
            if form == "distinct":
                tmpl = "SELECT DISTINCT " + call + " AS v FROM t"
            elif form == "order":
                tmpl = "SELECT " + call + " AS v, a FROM t ORDER BY v " + rnd.choice(["ASC", "DESC"]) + ", a"
            elif form == "order-limit":
                tmpl = "SELECT " + call + " AS v, a FROM t ORDER BY v DESC, a DESC LIMIT %d" % rnd.randint(0, 4)
            elif form == "union":
                tmpl = "SELECT " + call + " AS v FROM t UNION SELECT a AS v FROM t"
            else:
                tmpl = "SELECT DISTINCT " + call + " AS v FROM t ORDER BY v DESC"
            lat = rnd.choice([[0], [300, 0, 50], [0, 0, 900]])
            creqs_a.append({"op": "query", "doc": enc_val({"t": rows}), "sql": tmpl % "ASYNC.", "latency": lat})
            creqs_p.append({"op": "query", "doc": enc_val({"t": rows}), "sql": tmpl % ""})
            cmeta.append(form)
        ca, cp = run_go(creqs_a, timeout=900), run_go(creqs_p)
        for form, ra, rp, a, b in zip(cmeta, creqs_a, creqs_p, ca, cp):
            chk.count("async-clause:" + form + ":" + str(a.get("r")))
            if a.get("r") != "ok" or b.get("r") != "ok" or a.get("nonPlain") or canon(dec_val(a["v"])) != canon(dec_val(b["v"])):
                chk.add_violation("async-differs-from-unqualified", {"sql": ra["sql"], "doc": ra["doc"], "latency": ra["latency"],
                                                                     "async": a, "plain_sql": rp["sql"], "plain": b})
                break
    # nested queries forward their wait: qualified calls inside sub-queries, derived tables and EXISTS are
    # complete (and ASYNC values resolved) when the OUTER Exec returns
    if not chk.violations:
        ncases = []
        for i in range(120 if tier == "quick" else 1500):
            rows = [{"id": r, "items": [{"x": 10 * r + j} for j in range(rnd.randint(0, 3))]} for r in range(rnd.randint(1, 4))]
            qual = rnd.choice(["SPINASYNC", "ASYNC", "SPINASYNC", ""])
            tag = "n%d" % i
            shape = rnd.choice(["subq", "derived", "exists", "subq-in-where", "derived-join", "nested-from", "union", "cte"])
            call = "%sVF_SLOW('%s', x)" % (qual + "." if qual else "", tag)
            col_ = call + (" AS v" if qual in ("ASYNC", "") else "")
            if shape == "subq":
                sql = "SELECT id, (SELECT x, %s FROM items) AS sub FROM t" % col_
                expect = sorted(float(it["x"]) for r in rows for it in r["items"])
            elif shape == "derived":
                sql = "SELECT d.id AS id FROM (SELECT id, %s FROM t) AS d" % col_.replace("x)", "id)")
                expect = sorted(float(r["id"]) for r in rows)
            elif shape == "exists":
                if qual == "ASYNC":
                    qual, call = "SPINASYNC", "SPINASYNC.VF_SLOW('%s', x)" % tag
                    col_ = call
                sql = "SELECT id FROM t WHERE EXISTS (SELECT x, %s FROM items WHERE x >= 0)" % col_
                expect = sorted(float(it["x"]) for r in rows for it in r["items"])
            elif shape == "derived-join":
                # the derived table is one side of a join (built on a copy of the query)
                sql = "SELECT * FROM (SELECT id, %s FROM t) AS d %s t e ON d.id = e.id" % (
                    col_.replace("x)", "id)"), rnd.choice(["JOIN", "LEFT JOIN", "PARALLEL JOIN"]))
                expect = sorted(float(r["id"]) for r in rows)
            elif shape == "nested-from":
                # array of arrays: every inner array is run on a copy of the query
                sql = "SELECT x, %s FROM g" % col_
                expect = sorted(float(it["x"]) for r in rows for it in r["items"])
            elif shape == "union":
                sql = "SELECT id, %s FROM t UNION ALL SELECT id, %s FROM t" % (col_.replace("x)", "id)"), col_.replace("x)", "id)"))
                expect = sorted([float(r["id"]) for r in rows] * 2)
            elif shape == "cte":
                sql = "WITH c AS (SELECT id, %s FROM t) SELECT * FROM c" % col_.replace("x)", "id)")
                expect = sorted(float(r["id"]) for r in rows)
            else:
                # the right side of IN is one column: SPINASYNC adds none, a plain call sits in the sub-query's WHERE
                if qual == "ASYNC":
                    qual = "SPINASYNC"
                if qual == "SPINASYNC":
                    sql = "SELECT id FROM t WHERE id IN (SELECT id, SPINASYNC.VF_SLOW('%s', id) FROM `<-t`)" % tag
                else:
                    sql = "SELECT id FROM t WHERE id IN (SELECT id FROM `<-t` WHERE VF_SLOW('%s', id) >= 0)" % tag
                expect = sorted(float(r2["id"]) for r in rows for r2 in rows)
            ncases.append({"sql": sql, "doc": {"t": rows, "g": [r["items"] for r in rows]}, "tag": tag, "expect": expect, "qual": qual, "shape": shape,
                           "lat": rnd.choice([[0], [300], [0, 1500], [800, 0, 0]])})
        outs = run_go([{"op": "query", "doc": enc_val(c["doc"]), "sql": c["sql"], "latency": c["lat"]} for c in ncases], timeout=900)
        for c, o in zip(ncases, outs):
            chk.count("nested:" + c["shape"] + ":" + (c["qual"] or "plain") + ":" + str(o.get("r")))
            if o.get("r") != "ok":
                chk.add_violation("nested-qualified-query-failed", {"sql": c["sql"], "doc": c["doc"], "impl": o})
                break
            got = sorted(x for t, x in dec_val(o.get("callLog", [])) if t == c["tag"])
            if got != c["expect"]:
                chk.add_violation("nested-calls-not-complete-at-return", {
                    "sql": c["sql"], "doc": c["doc"], "latency_us": c["lat"], "completed_invocations": got, "expected": c["expect"],
                    "detail": "a qualified call inside a nested query had not run to completion exactly once per row when Exec returned"})
                break
            if o.get("nonPlain"):
                chk.add_violation("nested-async-slot-unresolved", {"sql": c["sql"], "doc": c["doc"], "impl": o})
                break
            if c["qual"] == "ASYNC" and c["shape"] == "subq":
                rows = dec_val(o["v"])
                for src, row in zip(c["doc"]["t"], rows):
                    want = [{"x": float(it["x"]), "v": float(it["x"])} for it in src["items"]]
                    if canon(row.get("sub")) != canon(want):
                        chk.add_violation("nested-async-value", {"sql": c["sql"], "doc": c["doc"], "impl": o, "expected_sub": want})
                        break
    # COMPOSED statements: the query holding the qualified call gets its rows through query copies (an array of arrays, a join
    # side) AND is itself nested (derived table, scalar sub-query), or the statement AROUND the derived table sorts / de-duplicates
    # the column. Every call is complete at return, and the rows are those of the unqualified statement.
    if not chk.violations:
        ccases = []
        for i in range(100 if tier == "quick" else 1400):
            nrows = rnd.randint(1, 5)
            order = list(range(nrows))
            rnd.shuffle(order)
            rows = [{"id": r, "b": rnd.choice([1, 2, 2, 3]),
                     "cells": [[{"x": 100 * r + 10 * j + k} for k in range(rnd.randint(0, 2))] for j in range(rnd.randint(0, 2))]} for r in order]
            qual = rnd.choice(["ASYNC", "ASYNC", "SPINASYNC"])
            tag = "m%d" % i
            shape = rnd.choice(["derived-of-grid", "subq-of-cells", "derived-of-derived-join", "derived-order", "derived-distinct",
                                "derived-join-order", "cte-order", "derived-of-cte"])
            if shape in ("derived-order", "derived-distinct", "derived-join-order", "cte-order"):
                qual = "ASYNC"
            def mk(q):
                call = "%sVF_SLOW('%s', %%s)" % (q + "." if q else "", tag)
                colx = call + (" AS v" if q in ("ASYNC", "") else "")
                if shape == "derived-of-grid":
                    return "SELECT * FROM (SELECT x, %s FROM g) d" % (colx % "x"), "grid", False
                if shape == "subq-of-cells":
                    return "SELECT id, (SELECT x, %s FROM cells) AS sub FROM t" % (colx % "x"), "grid", True
                if shape == "derived-of-derived-join":
                    return "SELECT * FROM (SELECT * FROM (SELECT id, %s FROM t) AS d JOIN t e ON d.id = e.id) z" % (colx % "id"), "ids", False
                if shape == "derived-order":
                    return "SELECT d.v AS v, d.id AS id FROM (SELECT id, %s FROM t) AS d ORDER BY v %s" % (colx % "id", "DESC" if i % 2 else "ASC"), "ids", True
                if shape == "derived-distinct":
                    return "SELECT DISTINCT d.v AS v FROM (SELECT %s FROM t) AS d" % (colx % "b"), "bs", True
                if shape == "derived-join-order":
                    return "SELECT z.v AS v FROM (SELECT d.v AS v FROM (SELECT id, %s FROM t) AS d JOIN t e ON d.id = e.id) z ORDER BY v DESC" % (colx % "id"), "ids", True
                if shape == "cte-order":
                    return "WITH c AS (SELECT id, %s FROM t) SELECT v, id FROM c ORDER BY v DESC" % (colx % "id"), "ids", True
                return "SELECT * FROM (WITH c AS (SELECT id, %s FROM t) SELECT * FROM c) d" % (colx % "id"), "ids", True
            sql, over, seq = mk(qual)
            psql = mk("")[0]
            if over == "grid":
                expect = sorted(float(c["x"]) for r in rows for inner in r["cells"] for c in inner)
            elif over == "bs":
                expect = sorted(float(r["b"]) for r in rows)
            else:
                expect = sorted(float(r["id"]) for r in rows)
            doc = {"t": rows, "g": [inner for r in rows for inner in r["cells"]]}
            ccases.append({"sql": sql, "plain_sql": psql, "doc": doc, "tag": tag, "expect": expect, "qual": qual, "shape": shape, "seq": seq,
                           "lat": rnd.choice([[0], [300], [0, 1500], [800, 0, 0], [2000]])})
        outs = run_go([{"op": "query", "doc": enc_val(c["doc"]), "sql": c["sql"], "latency": c["lat"]} for c in ccases], timeout=900)
        plains = run_go([{"op": "query", "doc": enc_val(c["doc"]), "sql": c["plain_sql"]} for c in ccases], timeout=900)
        for c, o, pl in zip(ccases, outs, plains):
            chk.count("composed:" + c["shape"] + ":" + c["qual"] + ":" + str(o.get("r")))
            if o.get("r") != "ok" or pl.get("r") != "ok":
                chk.add_violation("nested-qualified-query-failed", {"sql": c["sql"], "doc": c["doc"], "impl": o, "plain_sql": c["plain_sql"], "plain": pl})
                break
            got = sorted(x for t, x in dec_val(o.get("callLog", [])) if t == c["tag"])
            if got != c["expect"]:
                chk.add_violation("nested-calls-not-complete-at-return", {
                    "sql": c["sql"], "doc": c["doc"], "latency_us": c["lat"], "completed_invocations": got, "expected": c["expect"],
                    "detail": "a qualified call inside a nested query had not run to completion exactly once per row when Exec returned"})
                break
            if o.get("nonPlain"):
                chk.add_violation("nested-async-slot-unresolved", {"sql": c["sql"], "doc": c["doc"], "impl": o})
                break
            if c["qual"] == "ASYNC":
                va, vp = dec_val(o["v"]), dec_val(pl["v"])
                same = canon(va) == canon(vp) if c["seq"] else sorted(map(canon, va)) == sorted(map(canon, vp))
                if not same:
                    chk.add_violation("async-differs-from-unqualified", {"sql": c["sql"], "doc": c["doc"], "latency": c["lat"], "async": o,
                                                                         "plain_sql": c["plain_sql"], "plain": pl})
                    break
    # immediate functions reject the goroutine qualifiers
    if not chk.violations:
        reqs, exp = [], []
        for qual in ("ASYNC", "SPIN", "SPINASYNC"):
            for fn, arg in (("VF_IMM", "a"), ("SUM", "a"), ("TO_LOWER", "'X'"), ("GETVAR", "'k'"), ("RAISE", "'x'"),
                            ("VF_Imm_Mixed", "a"), ("vf_imm_mixed", "a"), ("vf_imm", "a"), ("Sum", "a")):
                reqs.append({"op": "query", "doc": enc_val({"t": [{"a": 1}, {"a": 2}]}), "sql": "SELECT %s.%s(%s) AS v FROM t" % (qual, fn, arg)})
        outs = run_go(reqs)
        for r, o in zip(reqs, outs):
            chk.count("immediate:" + str(o.get("r")))
            if o.get("r") != "error" or o.get("calls", 0) != 0:
                chk.add_violation("immediate-not-rejected", {"sql": r["sql"], "impl": o})
                break
    chk.cov["evaluations"] = len(cases)
    chk.cov["distinct_nontrivial"] = nt
    chk.samples.extend([{"sql": c["sql"], "rows": len(c["doc"]["t"]), "latency_us": c["lat"]} for c in cases[:3]])


LEVEL_TEXT = ("Lean theorems about a wait-group model of FunExpr/execAndPostProcess over ALL interleavings: when Exec returns every "
              "ASYNC and SPINASYNC call has been invoked exactly once and completed, the ASYNC column holds the unqualified call's "
              "value, SPIN/SPINASYNC add no column, ONCE invokes once per query and every row sees that value, immediate functions "
              "reject the qualifiers, no post-processor runs before the counter is zero, no deadlock. Obligations on the event order "
              "extracted from the current source (Add before go, goroutine ends with Done, Wait before posts, forwarders, immediate "
              "flags). The executable model is run on random complete schedules and compared with the implementation.")
LEVEL_NOTE = ("Real goroutine schedules are explored through latency injection, not enumerated; the protocol proof covers all schedules "
              "of the model. The ONCE memo is keyed by function name (as in the Go code): one ONCE item per function per query.")
TECHNIQUE = "Lean 4 proof (17-clause invariant over all schedules) + go/ast facts by decide + model-vs-implementation runs with latency injection"
