"""C20 — SETVAR/GETVAR behave as per-key registers in evaluation order."""
from ..sqlgen import *  # noqa
from ..common import run_go, run_lean, dec_val, canon, enc_val

FACTS = True
MODULE = "Genql.Properties.C20"
LEAN_TARGETS = [MODULE, "Genql.Properties.C20Query", "Genql.Obligations.C20"]
THEOREMS = ["Genql.C20." + t for t in [
    "step_refines", "vars_refine_registers", "setvar_no_column", "never_set_is_null", "final_store", "cross_query",
    "run_append", "selVars_refines", "query_vars_refine", "history_row_major", "selVars_other_untouched"]] + \
    ["Genql.Obligations.C20.vars_function_lines"]
TRUSTED = ["the evaluation order (rows in source order, select-list items left to right) is what Model/VarsQuery.rowsVars does and what "
           "query_vars_refine relates to the register machine; that SelectExpr/ExecSelect really evaluate in this order is what the "
           "correspondence checks (rows and final map of the implementation against the query-level model run by the driver; the "
           "harness-made history is kept as a second, independent oracle)",
           "SETVAR / GETVAR nested inside other expressions, in WHERE or under ASYNC are outside the query-level model (top-level select items only)"]
RULE = ("histories over 1-4 keys spread across 1-6 select-list positions and 0-10 rows, and sequences of 1-4 queries sharing one "
        "variable map (a third of the queries also read registers inside other expressions: counters, register copies, computed columns), each query flat or as a CTE body / derived table / UNION ALL branch / under LIMIT-OFFSET; rows (GETVAR columns, no SETVAR column) and the caller's final map are compared with the Lean store model "
        "run on the row-major, left-to-right history; non-trivial = a key read after >=2 writes, or across rows/queries")

KEYS = ["k1", "k2", "k3", "weird key", "1", "2.5", "true", "k1", "k2", "1e+06", "7e+06", "1e+19", "1e+20"]
# how a key is written in SQL: string literals, and non-string keys whose %v text is the key
KEY_SQL = {"1": ["num", 1], "2.5": num(2.5), "true": ["bool", True],
           # (whole numbers whose %v text is not their decimal spelling; two distinct names beyond the int64 range)
           "1e+06": num(1000000), "7e+06": num(7000000), "1e+19": num(1e19), "1e+20": num(1e20)}


def gen_query(rnd, qi):
    n = rnd.randint(0, 10) if rnd.random() < 0.3 else rnd.randint(0, 4)
    rows = [{"a": rnd.choice([1, 2, 3, 10]), "s": rnd.choice(["x", "y"]), "id": i} for i in range(n)]
    items = []
    for i in range(rnd.randint(1, 6)):
        k = rnd.choice(KEYS)
        if rnd.random() < 0.5:
            # values that are loosely equal (compare.Compare == 0) but of different types must still overwrite
            src = rnd.choice(["a", "s", "id", "lit", "expr", "null", "astext", "a", "astext", "seven", "seventext", "true", "truetext"])
            items.append(("set", k, src))
        else:
            items.append(("get", k, "g%d_%d" % (qi, i)))
    sel, ops_per_row = [], []
    for it in items:
        if it[0] == "set":
            arg = {"a": col("a"), "s": col("s"), "id": col("id"), "lit": ["str", "L"], "null": ["null"],
                   "expr": ["bin", "plus", col("a"), num(100)], "astext": ["func", "", "concat", [col("a")]],
                   "seven": num(7), "seventext": ["str", "7"], "true": ["bool", True], "truetext": ["str", "true"]}[it[2]]
            sel.append(["item", ["func", "", "setvar", [KEY_SQL.get(it[1], ["str", it[1]]), arg]], "sv", "sv"])
        else:
            sel.append(["item", ["func", "", "getvar", [KEY_SQL.get(it[1], ["str", it[1]])]], it[2], it[2]])
    # reads NESTED in other expressions: a counter (`SETVAR('cnt', GETVAR('cnt') + 1)`), a register copy
    # (`SETVAR(k2, GETVAR(k1))`), a computed column over a register — each reads the map as it is at that moment, on every row
    nested = rnd.random() < 0.3
    if nested:
        getv = lambda k: ["func", "", "getvar", [KEY_SQL.get(k, ["str", k])]]
        for j in range(rnd.randint(1, 3)):
            kind = rnd.choice(["incr", "copy", "plus", "case", "asyncarg", "asyncarg"])
            pos = rnd.randint(0, len(sel))
            if kind == "incr":
                it = ["item", ["func", "", "setvar", [["str", "cnt"], ["bin", "plus", getv("cnt"), num(rnd.choice([1, 2]))]]], "sv", "sv"]
            elif kind == "copy":
                k1, k2 = rnd.choice(KEYS + ["cnt"]), rnd.choice(KEYS)
                it = ["item", ["func", "", "setvar", [KEY_SQL.get(k2, ["str", k2]), getv(k1)]], "sv", "sv"]
            elif kind == "asyncarg":
                # a register read as ARGUMENT of a call run with the ASYNC / SPIN strategy: the arguments are evaluated when the
                # item is reached (the call itself may complete later); VF_SLOW(tag, x) returns x
                qual = "async"      # (a SPIN call contributes no column, so its argument is not observable in the rows)
                it = ["item", ["func", qual, "vf_slow", [["str", "r"], getv(rnd.choice(["cnt", "k1", "k2"]))]], "n%d_%d" % (qi, j), "n%d_%d" % (qi, j)]
            elif kind == "plus":
                it = ["item", ["bin", "mult", getv("cnt"), num(10)], "n%d_%d" % (qi, j), "n%d_%d" % (qi, j)]
            else:
                it = ["item", ["case", [[["cmp", "ge", getv("cnt"), num(2)], ["str", "many"]]], ["str", "few"], {"else": True}],
                      "n%d_%d" % (qi, j), "n%d_%d" % (qi, j)]
            sel.insert(pos, it)
    sel.append(item(col("id")))
    def for_model(x):
        if isinstance(x, list):
            if len(x) == 4 and x[0] == "func" and x[2] == "vf_slow":
                return for_model(x[3][1])
            return [for_model(y) for y in x]
        return x
    sel_model = for_model(sel)
    q = select(sel, table("t"))
    ops = []
    for r in rows:
        for it in items:
            if it[0] == "set":
                v = {"a": r["a"], "s": r["s"], "id": r["id"], "lit": "L", "expr": r["a"] + 100, "null": None,
                     "astext": str(r["a"]), "seven": 7, "seventext": "7", "true": True, "truetext": "true"}[it[2]]
                ops.append(["set", it[1], enc_val(v)])
            else:
                ops.append(["get", it[1]])
    # the same history through other statement forms: the select list is evaluated for every source row, in order,
    # wherever the SELECT sits (CTE body, derived table, union branch) and whatever window is cut afterwards
    form = rnd.choice(["flat", "flat", "flat", "cte", "derived", "limit", "union"])
    if nested and form == "derived":
        form = "cte"        # the derived form lists the output columns by name
    sql = query_sql(q)
    window, passes = None, 1
    if form == "cte":
        sql = "WITH c AS (" + sql + ") SELECT * FROM c"
    elif form == "derived":
        outs = [it[2] for it in items if it[0] == "get"] + ["id"]
        sql = "SELECT " + ", ".join("x.%s AS %s" % (o, o) for o in outs) + " FROM (" + sql + ") x"
    elif form == "limit":
        lim, off = rnd.randint(0, n + 1), rnd.choice([None, 0, 1, 2])
        sql += " LIMIT %d" % lim + ("" if off is None else " OFFSET %d" % off)
        window = (off or 0, lim)
    elif form == "union":
        sql = sql + " UNION ALL " + sql
        ops = ops + ops
        passes = 2
    return {"doc": {"t": rows}, "sql": sql, "items": items, "ops": ops, "form": form, "window": window, "passes": passes, "sel": sel_model, "nested": nested}


def explore(chk, rnd, tier):
    n = 600 if tier == "quick" else 8000
    nt = 0
    total = 0
    seqs = []
    for _ in range(n):
        init = {k: rnd.choice([0, "init", None]) for k in rnd.sample(sorted(set(KEYS)), rnd.randint(0, 2))}
        init["cnt"] = rnd.choice([0, 0, 5])
        seqs.append({"cur": enc_val(init), "lean": enc_val(init), "qs": [gen_query(rnd, qi) for qi in range(rnd.randint(1, 4))]})
    # round j runs the j-th query of every sequence in one batch, threading each sequence's shared map
    for rnd_i in range(4):
        live = [s for s in seqs if len(s["qs"]) > rnd_i]
        if not live or chk.violations:
            break
        gos = run_go([{"op": "query", "doc": enc_val(s["qs"][rnd_i]["doc"]), "sql": s["qs"][rnd_i]["sql"], "vars": s["cur"]} for s in live])
        leans = run_lean([{"op": "vars", "store": s["lean"], "ops": s["qs"][rnd_i]["ops"]} for s in live])
        # the query-level model (Model/VarsQuery): derives the history itself from the select list and the rows
        lqs = run_lean([{"op": "varsquery", "doc": enc_val(s["qs"][rnd_i]["doc"]), "store": s["lean"], "sel": s["qs"][rnd_i]["sel"],
                         "passes": s["qs"][rnd_i]["passes"]} for s in live])
        for s, g, l, lq in zip(live, gos, leans, lqs):
            qc = s["qs"][rnd_i]
            total += 1
            chk.count("query:" + str(g.get("r")))
            if g.get("r") != "ok":
                chk.add_violation("vars-query-failed", {"sql": qc["sql"], "doc": qc["doc"], "vars": s["cur"], "impl": g})
                break
            rows = dec_val(g["v"])
            cols = l["cols"]
            k = len(qc["items"])
            bad = None
            chk.count("form:" + qc["form"])
            # which (pass, source row) each output row stands for
            src = [(p, ri) for p in range(qc["passes"]) for ri in range(len(qc["doc"]["t"]))]
            if qc["window"] is not None:
                off, lim = qc["window"]
                src = src[off:off + lim]
            nrows = len(qc["doc"]["t"])
            if len(rows) != len(src):
                bad = "row count"
            elif qc.get("nested"):
                chk.count("nested-reads")      # the harness-made history has no values for nested reads: query-level model only
            else:
                for (ps, ri), row in zip(src, rows):
                    if "sv" in row:
                        bad = "SETVAR produced a column"
                    if row.get("id") != float(ri):
                        bad = "row order"
                    for ii, it in enumerate(qc["items"]):
                        c = cols[(ps * nrows + ri) * k + ii]
                        if it[0] == "get":
                            want = None if c is None else dec_val(c)
                            if it[2] not in row or canon(row[it[2]]) != canon(want):
                                bad = "row %d %s: impl %r model %r" % (ri, it[2], row.get(it[2]), want)
            if not qc.get("nested") and canon(dec_val(g.get("vars"))) != canon(dec_val(l["store"])):
                bad = "final variable map differs: impl %s model %s" % (g.get("vars"), l["store"])
            # … and against the query-level model: whole rows (every column) after the window, and the final map
            if lq.get("r") == "ok":
                chk.count("query-level-model:ok")
                mrows = dec_val(lq["v"])
                if qc["window"] is not None:
                    off, lim = qc["window"]
                    mrows = mrows[off:off + lim]
                if not bad and canon(mrows) != canon(rows):
                    bad = "rows differ from the query-level model: impl %r model %r" % (rows, mrows)
                if not bad and canon(dec_val(lq["store"])) != canon(dec_val(g.get("vars"))):
                    bad = "final variable map differs from the query-level model: impl %s model %s" % (g.get("vars"), lq["store"])
            else:
                chk.count("query-level-model:" + str(lq.get("r")))
                if lq.get("r") != "oom":
                    bad = "query-level model says %s, impl ok" % lq.get("r")
            if bad:
                chk.add_violation("vars-model-vs-impl", {"sql": qc["sql"], "doc": qc["doc"], "vars_before": s["cur"],
                                                        "query_index_in_sequence": rnd_i, "detail": bad, "impl": g, "model": l})
                break
            s["cur"] = g["vars"]
            if qc.get("nested") and lq.get("r") != "ok":
                # nested reads the query-level model declines (out of model): the harness history cannot supply the map, so the
                # sequence ends here
                chk.count("sequence-cut-at-out-of-model-query")
                s["qs"] = s["qs"][:rnd_i + 1]
                continue
            s["lean"] = lq["store"] if qc.get("nested") else l["store"]
            if (len(qc["doc"]["t"]) >= 2 or rnd_i > 0) and any(i[0] == "set" for i in qc["items"]) and any(i[0] == "get" for i in qc["items"]):
                nt += 1
    chk.cov["evaluations"] = total
    chk.cov["distinct_nontrivial"] = nt
    chk.samples.append({"sql": seqs[0]["qs"][0]["sql"], "ops": seqs[0]["qs"][0]["ops"][:8]})


LEVEL_TEXT = ("Lean theorems: the association-list store of GetVarFunc/SetVarFunc refines a register machine Key -> Option Val for every "
              "history (GETVAR returns the most recent SETVAR value in evaluation order, NULL if never set; SETVAR produces no column; "
              "the final map holds the last write per key; two queries sharing the map behave as the concatenated history). Query level "
              "(Model/VarsQuery, C20Query): the select list evaluated for every row in source order, item by item from left to right with "
              "the map threaded through, leaves the map in the state the register machine reaches on the row-major left-to-right history "
              "and its GETVAR columns hold the machine's outputs in that order (selVars_refines, query_vars_refine). Tied to "
              "/repo by running generated query sequences and comparing rows and the caller's map with the model's run.")
LEVEL_NOTE = "The mutex around the map is C13's obligation (vars_well_locked); here evaluation is sequential."
TECHNIQUE = "Lean 4 proof (refinement to a register machine by induction over the history) + differential correspondence on query sequences"
