"""C05 — ORDER BY sorts, LIMIT/OFFSET return the exact window and never fail."""
from ..sqlgen import *  # noqa
from ..qcheck import mk_case, run_cases
from ..common import dec_val

FACTS = True
MODULE = "Genql.Properties.C05"
LEAN_TARGETS = [MODULE, "Genql.Properties.Pipeline", "Genql.Properties.C05Model", "Genql.Obligations.C05"]
THEOREMS = ["Genql.C05." + t for t in [
    "lessKeys_eq_lessK", "less_irrefl", "less_trans", "less_incomp_trans", "lessK_swo", "nulls_last",
    "sort_perm", "sort_sorted", "window_exact", "window_never_fails"]] + \
    ["Genql.Pipeline." + t for t in ["select_pipeline", "select_filter_project", "select_distinct"]] + \
    ["Genql.C05." + t for t in ["keyedLess_eq", "keyedLess_swo", "sortRows_perm", "sortRows_sorted"]] + \
    ["Genql.Obligations.C05." + t for t in ["sort_comparator_lines", "window_lines", "exec_stage_order"]]
TRUSTED = ["Go sort.Slice returns a permutation without inversions for a strict weak order (it is not stable: tie order "
           "is never compared)", "sqlparser"]
RULE = ("random tables (0-10 rows) x key lists of 1-3 keys (ties, both directions; NULL keys only with a single key) compared by "
        "key-tuple sequence + permutation; 30% of the tables with their integral numbers stored as another Go number kind "
        "(int..uint8, float32, mixed); 25% as SELECT DISTINCT keys; windows enumerated exhaustively for len<=8 x offset,limit in 0..len+2 x both LIMIT "
        "spellings x with/without WHERE; non-trivial = >=2 distinct key tuples or a window that cuts the sequence")


def gen_sort_case(rnd):
    n = rnd.randint(0, 10)
    nkeys = rnd.randint(1, 3)
    nullable = nkeys == 1 and rnd.random() < 0.6
    rows = []
    kinds = {"k0": rnd.choice(["num", "str"]), "k1": rnd.choice(["num", "str"]), "k2": "num"}
    for i in range(n):
        r = {"id": i}
        for k, kd in kinds.items():
            if nullable and k == "k0" and rnd.random() < 0.3:
                if rnd.random() < 0.5:
                    r[k] = None
                continue
            r[k] = rnd.choice([1, 2, 3, 2.5, -1, 10, -3, -10, 0, 7, -7]) if kd == "num" else rnd.choice(["a", "b", "B", "ab", "", "10", "9"])
        rows.append(r)
    keys = ["k0", "k1", "k2"][:nkeys]
    if not nullable:
        rnd.shuffle(keys)
    order = [[[k], rnd.random() < 0.6] for k in keys]
    limit = offset = None
    if rnd.random() < 0.4:
        limit = rnd.randint(0, n + 2)
        if rnd.random() < 0.15:
            # "no upper bound" idioms: the arithmetic must not overflow
            limit = rnd.choice([9223372036854775807, 9223372036854775806, 4611686018427387904, 2147483648, 4294967296])
        if rnd.random() < 0.6:
            offset = rnd.randint(0, n + 2)
    # the engine accepts every Go number kind in its input (JSON decoding only produces float64):
    # the same table with its integral numbers stored as another kind must sort identically
    nk = rnd.choice(NUM_KINDS) if rnd.random() < 0.3 else None
    if not nullable and rnd.random() < 0.25:
        # DISTINCT (+ ORDER BY + window): duplicates are removed BEFORE the sort and the window
        items = [item(col(k)) for k in keys]
        src = [{k: r[k] for k in keys} for r in rows]
        q = select(items, table("t"), distinct=True, order=order, limit=limit, offset=offset,
                   limit_spelling=rnd.choice([0, 1]))
        # ("mixed" would store equal numbers as different Go kinds: such rows are not exact duplicates for DISTINCT)
        return mk_case({"t": rows}, q, mode="sorted" if limit is None else "keyseq", order_keys=[[k] for k in keys],
                       source_rows=src, tag="sort-distinct", num_kind=None if nk == "mixed" else nk)
    if not nullable and rnd.random() < 0.08:
        # the sort keys are computed by ASYNC calls (VF_SLOW(tag, x) returns x): ORDER BY and the window see their VALUES
        spell = rnd.choice([0, 1])
        q_go = select([item(["func", "async", "vf_slow", [["str", "s"], col(k)]], k) for k in keys] + [item(col("id"))], table("t"),
                      order=order, limit=limit, offset=offset, limit_spelling=spell)
        q_model = select([item(col(k), k) for k in keys] + [item(col("id"))], table("t"), order=order, limit=limit, offset=offset,
                         limit_spelling=spell)
        src = [dict({k: r[k] for k in keys}, id=r["id"]) for r in rows]
        return mk_case({"t": rows}, q_model, mode="sorted" if limit is None else "keyseq", order_keys=[[k] for k in keys],
                       source_rows=src, tag="sort-async-keys", sql=query_sql(q_go))
    q = select([["star"]], table("t"), order=order, limit=limit, offset=offset,
               limit_spelling=rnd.choice([0, 1]))
    mode = "sorted" if limit is None else "keyseq"
    return mk_case({"t": rows}, q, mode=mode, order_keys=[[k] for k in keys], source_rows=rows, tag="sort", num_kind=nk,
                   tables="maps" if rnd.random() < 0.15 else None)


NUM_KINDS = ["int", "int64", "int32", "int16", "int8", "uint", "uint64", "uint32", "uint16", "uint8", "float32", "mixed"]


def window_cases(max_len):
    cases = []
    for n in range(0, max_len + 1):
        rows = [{"id": i, "w": i % 3} for i in range(n)]
        for off in [None] + list(range(0, n + 3)):
            for lim in list(range(0, n + 3)) + [9223372036854775807, 9223372036854775807 - n]:
                for sp in (0, 1):
                    if off is None and sp == 1:
                        continue
                    for wh in (False, True):
                        q = select([["star"]], table("t"),
                                   wh=(["cmp", "ne", col("w"), num(1)] if wh else TRUE),
                                   limit=lim, offset=off, limit_spelling=sp)
                        cases.append(mk_case({"t": rows}, q, mode="seq", tag="window"))
                        if sp == 0 and n >= 2:
                            # the window cuts the OUTPUT: a whole-table aggregate inside an expression of the select list (share
                            # of total, distance to the maximum, above average) still sees every row that passed WHERE
                            sel = [item(col("id")),
                                   item(["bin", "minus", col("id"), ["aggr", "max", [col("id")]]], "d"),
                                   item(["case", [[["cmp", "ge", col("id"), ["aggr", "avg", [col("id")]]], num(1)]], num(0)], "hi"),
                                   item(["bin", "plus", col("w"), ["aggr", "count", []]], "c")]
                            q2 = select(sel, table("t"), wh=(["cmp", "ne", col("w"), num(1)] if wh else TRUE), limit=lim, offset=off)
                            cases.append(mk_case({"t": rows}, q2, mode="seq", tag="window"))
    return cases


def nontrivial(c, g, l):
    if g["r"] != "ok":
        return False
    rows = dec_val(g["v"])
    if c["tag"] == "window":
        return 0 < len(rows) < len(c["doc"]["t"])
    from ..qcheck import key_seq
    return len(set(key_seq(rows, c["order_keys"]))) >= 2


def explore(chk, rnd, tier):
    n = 2000 if tier == "quick" else 50000
    done = 0
    while done < n and not chk.violations:
        m = min(5000, n - done)
        run_cases(chk, [gen_sort_case(rnd) for _ in range(m)], nontrivial=nontrivial)
        done += m
    wc = window_cases(6 if tier == "quick" else 8)
    run_cases(chk, wc, nontrivial=nontrivial, label="window:")
    chk.cov["windows_enumerated"] = len(wc)
    chk.cov["exhaustive_windows"] = True


LEVEL_TEXT = ("Lean theorems: the sort.go comparator is a strict weak order on rows with single-kind keys (irreflexive, transitive, "
              "transitive incomparability; NULL last for a single key in both directions); the model sort is a permutation and "
              "sorted w.r.t. it; the LIMIT/OFFSET arithmetic of exec() equals (rows.drop m).take n for all lengths, offsets and "
              "limits and never fails. Stage order for the executable model (select_pipeline): a flat SELECT returns "
              "window(sort(dedup(project(filter rows)))) - each stage applied to the whole output of the previous one; and the "
              "sort stage the driver runs (sortRows: keys read once per row, insertion sort by lessKeys) is a permutation without "
              "inversions w.r.t. the sort.go comparator (sortRows_perm, sortRows_sorted). "
              "Correspondence by key-tuple sequence + exhaustive small windows.")
LEVEL_NOTE = ("Trusted: sort.Slice sorts correctly given a strict weak order (unstable; ties not compared). NULL placement is claimed "
              "for a single sort key only, as in the property.")
TECHNIQUE = "Lean 4 proof (order laws of the comparator, drop/take arithmetic by omega) + differential correspondence, exhaustive windows"

# the text of the functions this property's model mirrors is a regenerated fact (Obligations/PinC05: closed by rfl)
FACTS = True
LEAN_TARGETS = list(LEAN_TARGETS) + ["Genql.Obligations.PinC05"]
THEOREMS = list(THEOREMS) + ["Genql.Obligations.PinC05.pinned_text"]
