"""C12 — Results are plain self-contained data and evaluation is deterministic."""
from ..sqlgen import *  # noqa
from ..qcheck import mk_case, run_cases, go_req
from ..common import dec_val, run_go, canon, as_multiset, enc_val, load_findings
from . import c02, c03, c04, c05, c06, c07, c08

FACTS = True
MODULE = "Genql.Properties.C12"
LEAN_TARGETS = [MODULE, "Genql.Obligations.C08", "Genql.Obligations.C12"]
THEOREMS = ["Genql.C12." + t for t in [
    "valueOf_plain", "tuple_plain", "daterange_plain", "array_plain", "result_no_marker", "deterministic",
    "group_order_oracle_free", "join_multiset_deterministic", "subq_star_dual", "subq_star_dual_no_marker"]] + \
    ["Genql.Obligations.C12.value_of_cases", "Genql.Obligations.C12.select_item_lines"] + ["Genql.Obligations.C08." + t for t in ["copy_inherits_clauses", "copy_own_state", "copy_query_lines"]]
TRUSTED = ["Go reflection type walk in the runner (every value must be nil/bool/number/string/[]any/map[string]any)",
           "encoding of results as JSON by the runner (round trip)"]
RULE = ("every generator of C02-C08 (all expression forms, joins, groups, unions, CTEs, sub-queries, nested sources) plus probes "
        "placing tuples, DATERANGE, ARRAY, sub-queries, CASE and ASYNC calls directly in the select list; each result is type-walked, "
        "searched for the `<-` key, and the query is executed a second time on an equal input (multiset equality always; sequence "
        "equality when no grouping/join is involved or ORDER BY is total); non-trivial = result has >=1 computed (non-column) value")


def probes(rnd):
    rows = [{"a": rnd.choice([1, 2, 3]), "s": rnd.choice(["x", "y"]), "arr": [1, [2, 3]], "o": {"k": 1},
             "wide": {"k1": 1, "k2": "two", "k3": True, "k4": None, "k5": 5, "k6": "six"},
             "items": [{"x": 1}, {"x": 2}]} for _ in range(rnd.randint(0, 4))]
    doc = {"t": rows, "meta": [{"v": 1}], "grid": [[{"k": 1}, {"k": 2}], [], [{"k": 3}]]}
    forms = [
        ("tuple", "SELECT (1, 'a', a + 1) AS v FROM t"),
        ("tuple-col", "SELECT (a, s) AS v FROM t"),
        ("daterange", "SELECT DATERANGE(s, 'z') AS v FROM t"),
        ("daterange-null", "SELECT DATERANGE(NULL, a) AS v FROM t"),
        ("array", "SELECT ARRAY(a, s, a + 1, 'lit') AS v FROM t"),
        ("case-raw", "SELECT CASE WHEN a > 1 THEN 'big' ELSE s END AS v FROM t"),
        ("case-num", "SELECT CASE WHEN a > 1 THEN a * 2 ELSE 0 END AS v FROM t"),
        ("subq", "SELECT (SELECT x FROM items) AS v, a FROM t"),
        ("subq-root", "SELECT (SELECT v FROM `<-meta`) AS v, a FROM t"),
        ("subq-star", "SELECT (SELECT * FROM items) AS v, * FROM t"),
        ("async", "SELECT ASYNC.VF_SLOW('t', a) AS v, a FROM t"),
        ("async-expr", "SELECT ASYNC.VF_SLOW('t', a + 1) AS v FROM t"),
        ("once", "SELECT ONCE.VF_ID(a) AS v FROM t"),
        ("neg", "SELECT -a AS v, ~a AS w, !(a > 1) AS x FROM t"),
        ("external-function", "SELECT VF_EXT(a) AS v, ASYNC.VF_EXT(s) AS w, VF_EXT(o) AS obj FROM t"),
        ("if", "SELECT IF(a > 1, a + 1, s) AS v FROM t"),
        ("first", "SELECT FIRST(arr) AS f, LAST(arr) AS l, ELEMENTAT(arr, 1) AS e, UNWIND(arr) AS u FROM t"),
        ("changetype", "SELECT CHANGETYPE(a, 'string') AS s1, CHANGETYPE(s, 'array') AS a1, CHANGETYPE(a, 'integer') AS i1 FROM t"),
        ("concat", "SELECT CONCAT(s, a, 'x') AS v FROM t"),
        ("in-where", "SELECT a FROM t WHERE a IN (SELECT x FROM items)"),
        ("exists", "SELECT * FROM t WHERE EXISTS (SELECT * FROM items WHERE x = a)"),
        ("group-star", "SELECT * FROM t GROUP BY s"),
        ("count", "SELECT COUNT(*) AS n, s FROM t GROUP BY s"),
        ("distinct-subq", "SELECT DISTINCT (SELECT x FROM items) AS v, * FROM t"),
        ("fuse", "SELECT FUSE(o) AS f, a FROM t"),
        ("dual", "SELECT 1 + 1 AS v, 'x' AS s FROM dual"),
        ("subq-dual-star", "SELECT a, (SELECT * FROM dual) AS s FROM t"),
        ("subq-derived-dual", "SELECT a, (SELECT * FROM (SELECT * FROM dual) z) AS s FROM t"),
        ("subq-union-dual", "SELECT a, (SELECT * FROM dual UNION ALL SELECT * FROM dual) AS s FROM t"),
        ("subq-cte-dual", "SELECT a, (WITH w AS (SELECT * FROM dual) SELECT * FROM w) AS s FROM t"),
        ("subq-derived-items", "SELECT a, (SELECT * FROM (SELECT * FROM items) z) AS s FROM t"),
        ("exists-derived", "SELECT a FROM t WHERE EXISTS (SELECT * FROM (SELECT * FROM items) z)"),
        ("in-derived-dual", "SELECT a FROM t WHERE a IN (SELECT a FROM (SELECT * FROM dual) z)"),
        ("where-subq-star", "SELECT * FROM t WHERE a IN (SELECT x FROM items)"),
        ("in-two-columns", "SELECT a FROM t WHERE a IN (SELECT x, x + 1 AS y FROM items)"),
        ("in-star", "SELECT a FROM t WHERE a IN (SELECT * FROM `<-meta`)"),
        ("join-star-subq", "SELECT *, (SELECT * FROM dual) AS d FROM t x JOIN t y ON x.a = y.a"),
        # ASYNC select items in every statement position: the slot must be resolved wherever the row travels
        ("async-union", "SELECT ASYNC.VF_SLOW('t', a) AS v FROM t UNION ALL SELECT ASYNC.VF_SLOW('t', a + 1) AS v FROM t"),
        ("async-union-distinct", "SELECT ASYNC.VF_SLOW('t', a) AS v FROM t UNION SELECT a AS v FROM t"),
        ("async-union-cte", "WITH c AS (SELECT ASYNC.VF_SLOW('t', a) AS v FROM t UNION ALL SELECT a AS v FROM t) SELECT * FROM c"),
        ("async-derived", "SELECT x.v AS v FROM (SELECT ASYNC.VF_SLOW('t', a) AS v FROM t) x"),
        ("async-derived-star", "SELECT * FROM (SELECT ASYNC.VF_SLOW('t', a) AS v FROM t) x"),
        ("async-cte", "WITH c AS (SELECT ASYNC.VF_SLOW('t', a) AS v FROM t) SELECT v FROM c"),
        ("async-subq", "SELECT a, (SELECT ASYNC.VF_SLOW('t', x) AS v FROM items) AS s FROM t"),
        ("async-derived-join", "SELECT * FROM (SELECT ASYNC.VF_SLOW('t', a) AS v, a FROM t) x JOIN t y ON x.a = y.a"),
        ("async-derived-join-both", "SELECT * FROM (SELECT ASYNC.VF_SLOW('t', a) AS v, a FROM t) x JOIN "
                                    "(SELECT ASYNC.VF_SLOW('u', a) AS w, ASYNC.VF_SLOW('z', s) AS z, a FROM t) y ON x.a = y.a"),
        ("async-derived-join-right", "SELECT * FROM t x LEFT JOIN (SELECT ASYNC.VF_SLOW('u', a) AS w, a FROM t) y ON x.a = y.a"),
        ("async-derived-join-star-subq", "SELECT * FROM (SELECT *, (SELECT * FROM dual) AS d FROM t) x JOIN "
                                         "(SELECT a, (SELECT * FROM dual) AS d, ASYNC.VF_SLOW('u', a) AS w FROM t) y ON x.a = y.a"),
        ("async-nested-from", "SELECT ASYNC.VF_SLOW('t', k) AS v FROM grid"),
        ("subq-nested-from", "SELECT k, (SELECT v FROM `<-meta`) AS s FROM grid"),
        ("cte-name-as-column", "WITH c AS (SELECT a FROM t) SELECT c FROM dual"),
        # … and as an ARGUMENT (function call, tuple, CASE value, comparison operand): every position resolves the lazy CTE
        ("cte-name-as-argument", "WITH c AS (SELECT a FROM t) SELECT ARRAY(c) AS x, IF(1 = 1, c, 0) AS y FROM dual"),
        ("cte-name-as-argument-then-column", "WITH c AS (SELECT a FROM t) SELECT ARRAY(c, 1) AS x, c AS y FROM dual"),
        ("cte-name-in-first", "WITH c AS (SELECT a FROM t) SELECT FIRST(c) AS f, LAST(c) AS l FROM dual"),
        ("cte-name-in-case", "WITH c AS (SELECT a FROM t) SELECT CASE WHEN 1 = 1 THEN c ELSE 0 END AS x, (c, 1) AS tup FROM dual"),
        ("fuse-subq-dual", "SELECT FUSE((SELECT * FROM dual)) FROM t"),
        # digests / encodings are functions of their arguments only (not of what was hashed before in this process)
        ("hash", "SELECT HASH(s, 'sha256') AS h, HASH(a, 'md5') AS m, HASH(s, 'sha1') AS g FROM t"),
        ("encode", "SELECT ENCODE(s, 'base64') AS e, ENCODE(a, 'hex') AS x FROM t"),
        # … of objects and arrays: refused or not, the outcome is the same every time (a map has no order of its own)
        ("hash-object", "SELECT HASH(wide, 'sha256') AS h FROM t"),
        ("encode-object", "SELECT ENCODE(wide, 'hex') AS e FROM t"),
        ("hash-array", "SELECT HASH(arr, 'md5') AS h, HASH(items, 'sha1') AS g FROM t"),
        ("hash-object-where", "SELECT a FROM t WHERE HASH(wide, 'md5') = HASH(wide, 'md5')"),
        # ASYNC under DISTINCT / ORDER BY / UNION (repair D51), and nested in other calls (known finding KF-async-nested)
        ("async-distinct", "SELECT DISTINCT ASYNC.VF_SLOW('t', s) AS v FROM t"),
        ("async-order", "SELECT ASYNC.VF_SLOW('t', a) AS v, s FROM t ORDER BY v DESC"),
        # an ASYNC call whose own outcome is the (possibly still pending) slot of another ASYNC call: the row gets the VALUE
        ("async-over-async-derived", "SELECT ASYNC.IF(1 = 1, d.v, 0) AS w FROM (SELECT ASYNC.VF_SLOW('t', a) AS v FROM t) d"),
        ("async-over-async-subq", "SELECT ASYNC.DEFAULTKEY((SELECT ASYNC.VF_SLOW('t', a) AS v FROM dual)) AS w FROM t"),
        ("async-over-async-identity", "SELECT ASYNC.VF_SLOW('o', d.v) AS w, d.v AS v FROM (SELECT ASYNC.VF_SLOW('t', a) AS v FROM t) d"),
        ("async-nested-concat", "SELECT CONCAT(ASYNC.VF_SLOW('t', a), 'x') AS w FROM t"),
        ("async-nested-array", "SELECT ARRAY(ASYNC.VF_SLOW('t', a), 1) AS w FROM t"),
    ]
    out = []
    for tag, sql in forms:
        out.append({"doc": doc, "sql": sql, "tag": "probe:" + tag, "seq": tag not in ("group-star", "count", "join-star-subq", "async-derived-join", "async-derived-join-both",
                                                                "async-derived-join-right", "async-derived-join-star-subq"),
                    "wrapped": False, "pg": False, "arr": False, "consts": None, "mode": "seq", "q": None})
    # the statement AROUND a derived table / CTE sorts the column an ASYNC call fills, over enough rows that an order taken from
    # anything but the values (addresses of pending slots, completion order) differs from one evaluation to the next
    order = list(range(400))
    rnd.shuffle(order)
    big = {"big": [{"n": i, "m": i % 7} for i in order]}
    for tag, sql in [("async-derived-order-big", "SELECT d.v AS v FROM (SELECT ASYNC.VF_SLOW('t', n) AS v FROM big) d ORDER BY v DESC"),
                     ("async-cte-order-big", "WITH c AS (SELECT ASYNC.VF_SLOW('t', n) AS v, m FROM big) SELECT v FROM c ORDER BY v"),
                     ("async-derived-join-order-big", "SELECT z.v AS v FROM (SELECT d.v AS v FROM (SELECT n, ASYNC.VF_SLOW('t', n) AS v FROM big) d "
                                                      "JOIN big e ON d.n = e.n) z ORDER BY v DESC LIMIT 50")]:
        out.append({"doc": big, "sql": sql, "tag": "probe:" + tag, "seq": True, "wrapped": False, "pg": False, "arr": False, "consts": None,
                    "mode": "seq", "q": None})
    return out


def has_marker(v):
    if isinstance(v, dict):
        return "<-" in v or any(has_marker(x) for x in v.values())
    if isinstance(v, list):
        return any(has_marker(x) for x in v)
    return False


def known_probe(chk, c, kind, detail):
    """a probe listed under a `finding:` entry of KNOWN_FINDINGS.txt (probes=tag,tag) is reported as that finding"""
    tag = (c.get("tag") or "")
    if not tag.startswith("probe:"):
        return False
    for f in load_findings():
        if f.get("property") == "C12" and tag[len("probe:"):] in (f.get("probes") or "").split(","):
            chk.add_known(f.get("id", "?"), "%s on %s" % (kind, c["sql"]))
            return True
    return False


def explore(chk, rnd, tier):
    n = 1500 if tier == "quick" else 30000
    gens = [(c02.gen_case, lambda r: c02.gen_case(r, 3), True), (c03.gen_case, c03.gen_case, True),
            (c04.gen_case, c04.gen_case, False), (c05.gen_sort_case, c05.gen_sort_case, False),
            (c06.gen_distinct, c06.gen_distinct, True), (c06.gen_union, c06.gen_union, True),
            (c07.gen_cte_case, c07.gen_cte_case, True), (c07.gen_derived_case, c07.gen_derived_case, True),
            (c07.gen_subq_case, c07.gen_subq_case, True), (c08.gen_case, c08.gen_case, True)]
    done = 0
    nt = set()
    while done < n and not chk.violations:
        m = min(3000, n - done)
        cases = []
        for _ in range(m):
            _, g, seq = rnd.choice(gens)
            c = g(rnd)
            c["seq"] = seq and c["mode"] == "seq"
            cases.append(c)
        # model correspondence as well (the type walk is part of `classify`)
        run_cases(chk, cases)
        extra = probes(rnd) + probes(rnd)
        allc = cases + extra
        first = run_go([go_req(c) for c in allc])
        # the repetition runs in a fresh process and in the opposite order: whatever survives between calls inside
        # a process (memo, pooled buffer, cache) then differs between the two evaluations of a case
        # ... and there Exec is called a second time on the same *Query: what the first call left in the query object (memo,
        # filtered rows, slots) must not reach the second result
        second = list(reversed(run_go([dict(go_req(c), reExec=True) for c in reversed(allc)])))
        for c, a, b in zip(allc, first, second):
            chk.count("runs")
            if (c.get("tag") or "").startswith("probe:"):
                chk.count(c["tag"] + ":" + a.get("r", "?"))
            if a.get("r") in ("crash", "hang", "panic") or b.get("r") in ("crash", "hang", "panic"):
                chk.add_violation("crash", {"sql": c["sql"], "doc": c["doc"], "first": a, "second": b})
                break
            if a.get("r") != b.get("r"):
                if known_probe(chk, c, "nondeterministic-outcome", None):
                    continue
                chk.add_violation("nondeterministic-outcome", {"sql": c["sql"], "doc": c["doc"], "first": a, "second": b})
                break
            if a.get("r") != "ok":
                continue
            if a.get("nonPlain"):
                if known_probe(chk, c, "non-plain-value", None):
                    continue
                chk.add_violation("non-plain-value", {"sql": c["sql"], "doc": c["doc"], "types": a["nonPlain"], "result": a})
                break
            va, vb = dec_val(a["v"]), dec_val(b["v"])
            if has_marker(va):
                chk.add_violation("marker-key-in-result", {"sql": c["sql"], "doc": c["doc"], "result": a})
                break
            if as_multiset(va) != as_multiset(vb) or (c.get("seq") and canon(va) != canon(vb)):
                if known_probe(chk, c, "nondeterministic-result", None):
                    continue
                chk.add_violation("nondeterministic-result", {"sql": c["sql"], "doc": c["doc"], "first": a, "second": b})
                break
            if b.get("r2") is not None:
                chk.count("re-exec:" + str(b.get("r2")))
                v2 = dec_val(b["v2"]) if b.get("r2") == "ok" else None
                if b.get("r2") != "ok" or b.get("nonPlain2") or as_multiset(v2) != as_multiset(vb) or (c.get("seq") and canon(v2) != canon(vb)):
                    if known_probe(chk, c, "re-exec-differs", None):
                        continue
                    chk.add_violation("re-exec-differs", {"sql": c["sql"], "doc": c["doc"], "first_exec": {"r": b.get("r"), "v": b.get("v")},
                                                          "second_exec_same_query": {"r": b.get("r2"), "v": b.get("v2"), "msg": b.get("msg2"),
                                                                                     "nonPlain": b.get("nonPlain2")}})
                    break
            if (c.get("tag") or "").startswith("probe:") or "AS k" in c["sql"] or "calc" in c["sql"]:
                nt.add(c["sql"] + canon(c["doc"]))
        done += m
    chk.cov["distinct_nontrivial"] = max(chk.cov.get("distinct_nontrivial", 0), len(nt))
    chk.cov["evaluations"] = chk.cov.get("evaluations", 0) + chk.hist.get("runs", 0)


LEVEL_TEXT = ("Lean theorems about the model: ValueOf maps every engine-internal wrapper to a plain value, every value SelectExpr "
              "stores is plain and the marker key is removed from star projections, results of the pipeline contain no wrapper; the "
              "model pipeline is a function of (document, query) with no iteration-order oracle (groups in first-appearance order), so "
              "repeated evaluation is equal. Tied to /repo by a reflective type walk of every result, marker search and double "
              "execution over every generator.")
LEVEL_NOTE = ("ASYNC slot resolution is modelled in C14; here ASYNC select items are only type-walked. Go integers (COUNT before the "
              "repair) are accepted as JSON numbers by the walk.")
TECHNIQUE = "Lean 4 proof (plainness invariant by induction over select list / pipeline) + reflective type walk + double execution"
