"""C08 — A multi-dimensional FROM applies the query inside every inner array."""
from ..sqlgen import *  # noqa
from ..qcheck import mk_case, run_cases, go_req
from ..common import dec_val, run_go, canon, enc_val

FACTS = True
MODULE = "Genql.Properties.C08"
LEAN_TARGETS = [MODULE, "Genql.Properties.NestedModel", "Genql.Obligations.C08"]
THEOREMS = ["Genql.C08." + t for t in [
    "levelElem_arr", "nested_exec", "flat_is_base_case", "nested_exec_depth", "mix_concat", "mix_concat_all",
    "nested_flat_levels", "nested_select_model"]] + ["Genql.Obligations.C08." + t for t in ["copy_inherits_clauses", "copy_own_state", "copy_query_lines"]]
TRUSTED = ["sqlparser", "the `mix=>` top-level function is compared on the implementation (metamorphic) and modelled in C09"]
RULE = ("documents with arrays of arrays of objects (ragged, empty inner arrays, depth 2-3) x WHERE + select lists with "
        "non-idempotent projections (a+1 AS a) so that a double application is visible; model correspondence, plus on the "
        "implementation: nested result = per-inner-array executions, and `mix=>` flattening = concatenation of the inner results; "
        "non-trivial = >=2 inner arrays, one of them filtered")


def gen_rows(rnd, n=None):
    n = rnd.randint(0, 4) if n is None else n
    return [{"a": rnd.choice([1, 2, 3, 4]), "s": rnd.choice(["x", "y"]), "b": rnd.choice([0, 10])} for _ in range(n)]


def gen_nested(rnd, depth):
    if depth == 1:
        return gen_rows(rnd)
    return [gen_nested(rnd, depth - 1) for _ in range(rnd.randint(0, 3))]


def gen_query(rnd, tname):
    sel = []
    k = rnd.random()
    if k < 0.2:
        sel = [["star"]]
    else:
        sel = [item(["bin", "plus", col("a"), num(1)], rnd.choice(["a", "b", "c"]))]
        if rnd.random() < 0.6:
            sel.append(item(col("s")))
        if rnd.random() < 0.3:
            sel.append(item(["bin", "mult", col("b"), num(2)], "b"))
    wh = rnd.choice([TRUE, ["cmp", "ge", col("a"), num(2)], ["cmp", "eq", col("s"), ["str", "x"]],
                     ["and", ["cmp", "lt", col("a"), num(4)], ["cmp", "ne", col("b"), num(0)]],
                     # query options must reach the inner executions too: constants (modelled) and variables
                     # (out of model: compared on the implementation by the metamorphic runs)
                     ["cmp", "ge", col("a"), ["func", "", "constant", [["str", "min"]]]],
                     ["cmp", "ge", col("a"), ["func", "", "getvar", [["str", "min"]]]]])
    if rnd.random() < 0.15:
        sel = sel + [item(["func", "", "constant", [["str", "tag"]]], "tg")] if sel != [["star"]] else sel
    if rnd.random() < 0.1 and sel != [["star"]]:
        # a qualified call: out of model, compared by the metamorphic runs (every inner array resolves its own slots)
        sel = sel + [item(["func", "async", "vf_id", [col("a")]], "av")]
    if rnd.random() < 0.12 and sel != [["star"]]:
        # a column qualified by the bare name of the (un-aliased) table: whatever the engine makes of the qualifier, it makes the
        # same of it in a flat source and in every inner array of a nested one (model + the metamorphic runs)
        sel = sel + [item(col(tname, "a"), "qa")]
        if rnd.random() < 0.5:
            wh = rnd.choice([["cmp", "ge", col(tname, "a"), num(2)], ["is", "null", col(tname, "a")],
                             ["or", ["cmp", "ge", col(tname, "a"), num(2)], ["cmp", "eq", col("s"), ["str", "x"]]]])
    return select(sel, table(tname), wh=wh, distinct=rnd.random() < 0.1)


def gen_case(rnd):
    depth = rnd.choice([2, 2, 3])
    data = gen_nested(rnd, depth)
    if rnd.random() < 0.15:
        # the array of arrays is produced by the FROM selector itself (`each` over the rows' nested arrays)
        outer = [{"id": i, "items": gen_rows(rnd)} for i in range(rnd.randint(0, 3))]
        q = gen_query(rnd, "m")
        q[4] = tablesel(rnd.choice(["t[each].items", "t[(0:2)].items", "t.items"]))
        return mk_case({"t": outer}, q, mode="seq", tag="from-selector", consts={"min": rnd.choice([1, 2, 3]), "tag": "T"},
                       vars={"min": rnd.choice([2, 3])})
    q = gen_query(rnd, "m")
    if rnd.random() < 0.15:
        # an index selector in front of an array that is itself nested: it selects / flattens ONE level, the levels below it
        # stay a multi-dimensional source
        cube = gen_nested(rnd, 3)
        q[4] = tablesel(rnd.choice(["cube[each]", "cube[(0:end)]", "cube[0]", "cube[(0:1)]", "cube[keep=>each]", "cube[each:each]"]))
        return mk_case({"cube": cube}, q, mode="seq", tag="from-index-selector", consts={"min": rnd.choice([1, 2, 3]), "tag": "T"},
                       vars={"min": rnd.choice([2, 3])})
    c = mk_case({"m": data}, q, mode="seq", tag="depth%d" % depth, consts={"min": rnd.choice([1, 2, 3]), "tag": "T"},
                vars={"min": rnd.choice([2, 3])})
    return c


def leaves(x):
    if isinstance(x, list) and (not x or isinstance(x[0], list)) and all(isinstance(y, list) for y in x):
        out = []
        for y in x:
            out.extend(leaves(y))
        return out
    return [x]


def nontrivial(c, g, l):
    if g["r"] != "ok":
        return False
    if "m" not in c["doc"]:
        return len(c["doc"]["t"]) >= 2
    inner = [x for x in c["doc"]["m"] if x]
    return len(inner) >= 2 and canon(dec_val(g["v"])) != canon(dec_val(enc_val(c["doc"]["m"])))


def flat_arrays(x):
    """innermost arrays of objects, in order"""
    if isinstance(x, list) and x and all(isinstance(y, dict) for y in x):
        return [x]
    if isinstance(x, list) and all(isinstance(y, list) for y in x):
        out = []
        for y in x:
            out.extend(flat_arrays(y))
        return out
    return [x] if isinstance(x, list) else []


def metamorphic(chk, results):
    """on the implementation: (1) each inner array queried directly; (2) mix=> = concatenation"""
    reqs, meta = [], []
    for c, g, l, v in results:
        if g.get("r") != "ok":
            continue
        q = c["q"]
        if q[2] or "m" not in c["doc"] or " FROM m" not in c["sql"] or (c.get("tag") or "").startswith("ctx:"):
            continue  # DISTINCT does not distribute over concatenation; the metamorphic runs use the `m` documents
        arrays = flat_arrays(c["doc"]["m"])
        start = len(reqs)
        for arr in arrays:
            reqs.append(dict(go_req(c), doc=enc_val({"m": arr})))
        # the flattening form; every other time over the same data under a camelCase key (key names are data, not syntax)
        if (len(reqs) // 2) % 2 == 0:
            mixsql = c["sql"].replace(" FROM m", " FROM `mix=>m`")
            reqs.append(dict(go_req(c), sql=mixsql))
        else:
            mixsql = c["sql"].replace(" FROM m", " FROM `mix=>gridRows.Inner`")
            reqs.append(dict(go_req(c), sql=mixsql, doc=enc_val({"gridRows": {"Inner": c["doc"]["m"]}, "gridrows": {"inner": []}})))
        meta.append((c, g, start, len(arrays)))
    if not reqs:
        return
    outs = run_go(reqs)
    for c, g, start, n in meta:
        inner = outs[start:start + n]
        mix = outs[start + n]
        if g.get("nonPlain") or any(o.get("nonPlain") for o in inner) or mix.get("nonPlain"):
            chk.add_violation("nested-unresolved-slot", {"sql": c["sql"], "doc": c["doc"], "nested": g, "inner": inner, "mix": mix})
            return
        if any(o.get("r") != "ok" for o in inner) or mix.get("r") != "ok":
            chk.add_violation("metamorphic-error", {"sql": c["sql"], "doc": c["doc"], "inner": inner, "mix": mix})
            return
        concat = []
        for o in inner:
            concat.extend(dec_val(o["v"]))
        nested_flat = []
        def walk(x):
            if isinstance(x, list):
                for y in x:
                    walk(y)
            else:
                nested_flat.append(x)
        walk(dec_val(g["v"]))
        chk.count("metamorphic-pairs")
        if canon(concat) != canon(nested_flat):
            chk.add_violation("nested-vs-inner", {"sql": c["sql"], "doc": c["doc"], "nested": g, "inner": inner})
            return
        if canon(concat) != canon(dec_val(mix["v"])):
            chk.add_violation("mix-vs-inner", {"sql": c["sql"], "doc": c["doc"], "mix": mix, "inner": inner})
            return


def explore(chk, rnd, tier):
    n = 2000 if tier == "quick" else 40000
    done = 0
    while done < n and not chk.violations:
        m = min(4000, n - done)
        res = run_cases(chk, [gen_case(rnd) for _ in range(m)], nontrivial=nontrivial)
        metamorphic(chk, res if tier != "quick" else res[:800])
        done += m


LEVEL_TEXT = ("Lean theorems about the model of exec()'s `[]any` case + CopyQuery: executing over an array of arrays returns the "
              "array of the inner executions (same nesting, any depth) and on a flat array it is the ordinary pipeline; for WHERE + "
              "select-list queries flattening the source first returns the concatenation of the inner results. End to end "
              "(nested_select_model): execQuery over an array of arrays = the array of (rows.filter p).map proj per inner array, "
              "the select list seeing that inner array's kept rows. Tied to /repo by "
              "model correspondence and two metamorphic runs on the implementation (per-inner-array, mix=>).")
LEVEL_NOTE = "GROUP BY / ORDER BY / LIMIT over nested sources are outside the property (filter/projection queries)."
TECHNIQUE = "Lean 4 proof (mutual structural induction over the nested value) + model correspondence + metamorphic runs"
