"""C11 — Queries never modify the caller's input document."""
import copy
from ..sqlgen import *  # noqa
from ..qcheck import go_req
from ..common import run_go, dec_val, canon, enc_val
from . import c01, c02, c03, c04, c05, c06, c07, c08, c12, c19

FACTS = True
MODULE = "Genql.Properties.C11"
LEAN_TARGETS = [MODULE, "Genql.Obligations.C11"]
THEOREMS = ["Genql.C11." + t for t in ["step_frame", "input_frame", "input_frame_every_prefix", "no_new_reference"]] + \
    ["Genql.Obligations.C11.writes_target_fresh"]
TRUSTED = ["the go/ast write-site extractor: syntactic freshness (a target rooted in a value the function allocated: make, literal, "
           "maps.Clone, append, named engine constructors) and the justified allow-list of the remaining 16 sites",
           "aliasing through values returned by helpers is covered only by the deep comparison"]
RULE = ("every generator of C01-C08, the probes of C12 (sub-queries, EXISTS, CTEs, `<-`), joins, ORDER BY, aggregates, and the fault "
        "joins with no alias on either side (the rows are then the caller's own maps), documents using the keys `<-` `*` `root` "
        "themselves, WITH-bearing statements as siblings (union branches under one WITH; derived tables, join sides, union branches and "
        "IN sub-queries each with their own WITH), and the fault streams of C19 at EVERY failure point k, with and without Wrapped: a cycle-safe structural snapshot of the input taken by the "
        "runner before New+Exec is compared with the input afterwards; non-trivial = the query evaluates a marker site, a CTE, EXISTS "
        "or ORDER BY")


def wrap(c):
    """the same query under Wrapped(): FROM paths get the `root.` prefix"""
    c2 = dict(c)
    c2["wrapped"] = True
    c2["sql"] = c["sql"]
    return c2


def explore(chk, rnd, tier):
    n = 2500 if tier == "quick" else 40000
    gens = [lambda r: c01.gen_case(r, 3), lambda r: c02.gen_case(r, 3), c03.gen_case, c04.gen_case, c05.gen_sort_case,
            c06.gen_distinct, c06.gen_union, c07.gen_cte_case, c07.gen_cte_path_case, c07.gen_derived_case, c07.gen_subq_case,
            c07.gen_subq_case, c08.gen_case]
    reqs, tags = [], []
    for _ in range(n):
        c = rnd.choice(gens)(rnd)
        reqs.append(go_req(c))
        tags.append(c["sql"])
    for c in c12.probes(rnd):
        reqs.append(go_req(c))
        tags.append(c["sql"])
    # wrapped
    for _ in range(n // 10):
        rows = [{"a": rnd.choice([1, 2, 3]), "items": [{"x": 1}, {"x": 2}]} for _ in range(rnd.randint(0, 4))]
        sql = rnd.choice([
            "SELECT a FROM `root.t` WHERE a IN (SELECT x FROM items)",
            "SELECT a, (SELECT x FROM `<-root.meta`) AS m FROM `root.t`",
            "WITH c AS (SELECT a FROM `root.t` WHERE a > 1) SELECT a FROM c ORDER BY a DESC",
            "SELECT a FROM `root.t` WHERE EXISTS (SELECT * FROM items WHERE x = a)",
            "SELECT * FROM `root.t` x JOIN `root.t` y ON x.a = y.a",
        ])
        reqs.append({"op": "query", "doc": enc_val({"t": rows, "meta": [{"x": 9}]}), "sql": sql, "wrapped": True})
        tags.append(sql)
    # shapes in which the engine works on the caller's own maps rather than on its private wrappers: joins without
    # an alias on either side (hash and nested-loop paths, unmatched outer rows), and documents that themselves
    # use the reserved-looking keys `<-`, `*`, `root`
    for _ in range(n // 8):
        lrows = [{"id": rnd.choice([1, 2, 3, 4]), "nm": rnd.choice(["a", "b"])} for _ in range(rnd.randint(0, 4))]
        rrows = [{"uid": rnd.choice([1, 2, 5]), "amt": rnd.choice([10, 20])} for _ in range(rnd.randint(0, 4))]
        kind = rnd.choice(["LEFT JOIN", "RIGHT JOIN", "JOIN", "LEFT HASH_JOIN" if False else "LEFT JOIN", "PARALLEL LEFT JOIN", "PARALLEL RIGHT JOIN"])
        on = rnd.choice(["id = o.uid", "id = uid", "id < o.uid", "id = o.uid AND nm = 'a'", "l.id = uid"])
        lt = "users l" if on.startswith("l.") else "users"
        rt = "orders o" if "o.uid" in on else "orders"
        sql = "SELECT * FROM %s %s %s ON %s" % (lt, kind, rt, on)
        reqs.append({"op": "query", "doc": enc_val({"users": lrows, "orders": rrows}), "sql": sql})
        tags.append(sql)
    for _ in range(n // 8):
        def odd_row():
            r = {"a": rnd.choice([1, 2, 3]), "items": [{"x": rnd.choice([1, 2])} for _ in range(rnd.randint(0, 2))]}
            for k in rnd.sample(["<-", "*", "root", "dual"], rnd.randint(1, 2)):
                r[k] = rnd.choice([7, "kept", {"deep": 1}, [1, 2]])
            return r
        rows = [odd_row() for _ in range(rnd.randint(1, 4))]
        sql = rnd.choice([
            "SELECT a FROM t WHERE a >= 2",
            "SELECT a, (SELECT x FROM items) AS s FROM t",
            "SELECT a FROM t WHERE EXISTS (SELECT * FROM items WHERE x = a)",
            "SELECT a FROM t WHERE a IN (SELECT x FROM items)",
            "SELECT * FROM t ORDER BY a DESC",
            "SELECT a, COUNT(*) AS c FROM t GROUP BY a",
            "SELECT * FROM t x JOIN t y ON x.a = y.a",
        ])
        reqs.append({"op": "query", "doc": enc_val({"t": rows, "<-": "top", "*": [1]}), "sql": sql, "wrapped": rnd.random() < 0.3 and "FROM t" not in sql})
        tags.append(sql)
    # WITH-bearing statements as SIBLINGS (union branches under one WITH, two derived tables / join sides / union branches
    # each with its own WITH, WITH inside a sub-query next to a top-level WITH): each registers its CTEs in the map it was
    # handed — which must never be the caller's document
    for _ in range(n // 8):
        trows = [{"id": rnd.choice([1, 2, 3, 4]), "a": rnd.choice([1, 2, 3])} for _ in range(rnd.randint(0, 4))]
        urows = [{"id": rnd.choice([1, 2, 5]), "m": rnd.choice([10, 20])} for _ in range(rnd.randint(0, 4))]
        s1 = rnd.choice(["SELECT id FROM t", "SELECT id FROM t WHERE a > 1", "SELECT id, a FROM t ORDER BY id"])
        s2 = rnd.choice(["SELECT id FROM u", "SELECT id FROM u WHERE m = 10"])
        un = rnd.choice(["UNION", "UNION ALL"])
        sql = rnd.choice([
            "WITH c AS (%s) SELECT id FROM c %s SELECT id FROM u" % (s1, un),
            # a CTE named after the very table it reads (rejected as a self reference, or allowed: the caller's table stays as it was)
            "WITH t AS (%s) SELECT id FROM t" % s1,
            "WITH u AS (%s) SELECT id FROM u %s SELECT id FROM t" % (s2, un),
            "SELECT x.id AS id FROM (WITH t AS (%s) SELECT * FROM t) x" % s1,
            "WITH c AS (%s) SELECT id FROM c %s SELECT id FROM c" % (s1, un),
            "WITH c AS (%s), d AS (%s) SELECT id FROM c %s SELECT id FROM d" % (s1, s2, un),
            "SELECT x.id AS id FROM (WITH a AS (%s) SELECT * FROM a) x JOIN (WITH b AS (%s) SELECT * FROM b) y ON x.id = y.id" % (s1, s2),
            "SELECT x.id AS id FROM (WITH a AS (%s) SELECT * FROM a) x LEFT JOIN (WITH b AS (%s) SELECT * FROM b) y ON x.id < y.id" % (s1, s2),
            "SELECT x.id AS id FROM (WITH a AS (%s) SELECT id FROM a) x %s SELECT y.id AS id FROM (WITH b AS (%s) SELECT id FROM b) y" % (s1, un, s2),
            "WITH c AS (%s) SELECT id, (WITH e AS (%s) SELECT id FROM e) AS sub FROM c" % (s1, s2.replace("FROM u", "FROM `<-u`")),
            "WITH c AS (WITH e AS (%s) SELECT id FROM e) SELECT id FROM c %s SELECT z.id AS id FROM (WITH f AS (%s) SELECT id FROM f) z" % (s1, un, s2),
            "SELECT id FROM t WHERE id IN (WITH a AS (%s) SELECT id FROM a) %s SELECT id FROM u WHERE id IN (WITH b AS (%s) SELECT id FROM b)" % (
                s2.replace("FROM u", "FROM `<-u`"), un, s1.replace("FROM t", "FROM `<-t`")),
        ])
        reqs.append({"op": "query", "doc": enc_val({"t": trows, "u": urows}), "sql": sql, "wrapped": False})
        tags.append(sql)
    # top-level selector functions over arrays of the document itself (with duplicates, ragged, nested): they return new values
    for _ in range(n // 16):
        dd = {"tags": [rnd.choice(["a", "b", "c"]) for _ in range(rnd.randint(0, 6))],
              "t": [{"a": rnd.choice([1, 2]), "price": rnd.choice([1.5, 2, 0.25, "3.5", None]),
                     "xs": [rnd.choice([1, 2, 3]) for _ in range(rnd.randint(0, 4))]} for _ in range(rnd.randint(0, 4))],
              "grid": [[1, 1, 2], [2, 2], []]}
        sql = rnd.choice([
            "SELECT `distinct=>tags` AS d FROM dual", "SELECT `distinct=>tags[(0:end)]` AS d FROM dual", "SELECT * FROM `distinct=>t`",
            "SELECT a, `distinct=>xs` AS d FROM t", "SELECT `mix=>grid` AS m, `distinct=>grid[0]` AS g FROM dual",
            "SELECT * FROM `distinct=>root.t`", "SELECT FIRST(`distinct=>tags`) AS f, LAST(`mix=>grid`) AS l FROM dual",
            # pipes reshape and convert into a NEW object: `|string` / `|number` of fractional, integral and textual values
            "SELECT `{price|string, a}` AS p FROM t", "SELECT * FROM `t.{a|string, price|string}`", "SELECT `t.{price|number, a|string}` AS p FROM t",
            "SELECT a FROM t WHERE `{price|string}.price` = '1.500000'",
        ])
        reqs.append({"op": "query", "doc": enc_val(dd), "sql": sql, "wrapped": "root." in sql})
        tags.append(sql)
    # tables that hold NULL entries and scalars between their rows (skipped, rejected or tolerated — never compacted in place)
    for _ in range(n // 16):
        def holes():
            out = []
            for i in range(rnd.randint(1, 5)):
                out.append(rnd.choice([{"id": i, "a": rnd.choice([1, 2])}, {"id": i, "a": rnd.choice([1, 2])}, None, None, 7, "s"]))
            return out
        dd = {"orders": holes(), "users": holes(), "t": [{"id": 1, "items": holes()}, {"id": 2, "items": holes()}]}
        sql = rnd.choice([
            "SELECT id FROM orders", "SELECT id FROM orders WHERE a = 1 ORDER BY id DESC", "SELECT COUNT(*) AS n FROM orders",
            "SELECT * FROM orders JOIN users ON orders.id = users.id", "SELECT * FROM orders o LEFT JOIN users u ON o.id = u.id",
            "SELECT id FROM t WHERE EXISTS (SELECT * FROM items WHERE a = 1)", "SELECT id, (SELECT id FROM items) AS s FROM t",
            "SELECT id FROM orders UNION SELECT id FROM users", "SELECT DISTINCT a FROM orders", "SELECT a, COUNT(*) AS n FROM users GROUP BY a",
        ])
        reqs.append({"op": "query", "doc": enc_val(dd), "sql": sql, "wrapped": False})
        tags.append(sql)
    # every failure point of fault-injected queries
    fcases = []
    for _ in range(60 if tier == "quick" else 800):
        kind, q = c19.gen_query(rnd)
        fcases.append({"doc": c19.gen_doc(rnd), "sql": query_sql(q)})
    base = run_go([{"op": "query", "doc": enc_val(c["doc"]), "sql": c["sql"], "failAt": 0} for c in fcases])
    for c, b in zip(fcases, base):
        for k in range(0, b.get("calls", 0) + 1):
            reqs.append({"op": "query", "doc": enc_val(c["doc"]), "sql": c["sql"], "failAt": k})
            tags.append(c["sql"] + " /*failAt=%d*/" % k)
    for sql in [s for _, s in c19.OTHER_FAILS]:
        reqs.append({"op": "query", "doc": enc_val(c19.gen_doc(rnd)), "sql": sql})
        tags.append(sql)
    outs = run_go(reqs)
    nt = set()
    for r, t, o in zip(reqs, tags, outs):
        chk.count("run:" + str(o.get("r")))
        if o.get("r") in ("crash", "hang", "panic"):
            chk.add_violation("crash", {"sql": t, "doc": r.get("doc"), "impl": o})
            break
        if o.get("docChanged"):
            chk.add_violation("input-document-modified", {"sql": r["sql"], "doc_before": r["doc"], "doc_after": o.get("docAfter"),
                                                          "wrapped": r.get("wrapped", False), "failAt": r.get("failAt", 0),
                                                          "outcome": o.get("r")})
            break
        if any(w in t for w in ("WITH ", "EXISTS", "IN (SELECT", "(SELECT", "ORDER BY", "<-")):
            nt.add(t + canon(r["doc"]))
    chk.cov["evaluations"] = len(reqs)
    chk.cov["distinct_nontrivial"] = len(nt)
    chk.samples.extend([{"sql": t} for t in tags[:3]])


LEVEL_TEXT = ("Lean theorem (heap model with addresses): an evaluation all of whose writes target memory it allocated itself leaves every "
              "cell of the input unchanged after the run AND after every prefix (every failure point); no reference into fresh memory "
              "appears in the input. Obligation re-checked on the current source: every write site (element assignment, delete, copy, "
              "sort, pointer write, non-engine field write) targets a locally allocated value or is one of 16 justified sites. Tied "
              "to the running code by a before/after structural comparison over all generators, Wrapped, and every fault point.")
LEVEL_NOTE = ("Partial: freshness is established syntactically per function (no inter-procedural alias analysis); the allow-list "
              "entries are justified by hand. The variable map of SETVAR is by design written (C20).")
TECHNIQUE = "Lean 4 proof (frame invariant over a heap model) + go/ast write-site facts by decide + before/after deep comparison"
