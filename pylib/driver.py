"""The common flow of every check: build → proof obligations (Lean build, regenerated facts,
axiom audit) → correspondence / failing-input search → evidence."""
import json
import os
import random
import time

from . import common
from .common import Lock, log


def build_phase(chk, mod):
    """Returns (go_ok, lean_ok). Records obligations for the build products."""
    with Lock():
        t = time.time()
        go_ok, go_txt, _ = common.build_go()
        if not go_ok:
            log(go_txt[-3000:])
        chk.cov["go_build_s"] = round(time.time() - t, 1)
        facts_ok = True
        if getattr(mod, "FACTS", None):
            from . import facts
            t = time.time()
            facts_ok, ftxt = facts.regenerate()
            chk.cov["facts_s"] = round(time.time() - t, 1)
            if not facts_ok:
                log(ftxt[-3000:])
                chk.obligation("facts-extraction", False, ftxt[-2000:])
        t = time.time()
        targets = ["driver"] + list(getattr(mod, "LEAN_TARGETS", []))
        lean_ok, ltxt = common.lake_build(targets)
        chk.cov["lake_build_s"] = round(time.time() - t, 1)
        if not lean_ok:
            log(ltxt[-4000:])
            # which module failed?  Obligation modules are reported individually.
            chk.cov["lake_errors"] = [ln for ln in ltxt.splitlines() if "error" in ln][:20]
    return go_ok, lean_ok and facts_ok, (ltxt if not lean_ok else "")


def proof_phase(chk, mod, lean_ok, ltxt):
    theorems = list(getattr(mod, "THEOREMS", []))
    module = getattr(mod, "MODULE", None)
    if not theorems or not module:
        return
    if not lean_ok:
        # find out which of this property's modules are broken: build them one at a time
        broken = []
        with Lock():
            for t in getattr(mod, "LEAN_TARGETS", []):
                ok, txt = common.lake_build([t])
                if not ok:
                    broken.append((t, txt))
        for t, txt in broken:
            errs = "\n".join(ln for ln in txt.splitlines() if "error" in ln.lower())[:3000]
            chk.obligation("lean-module:" + t, False, errs)
        bad = {t for t, _ in broken}
        good = [t for t in [module] + list(getattr(mod, "LEAN_TARGETS", [])) if t not in bad]
        if not good:
            for th in theorems:
                chk.obligation(th, False, "module does not build")
            return
        mod = type("M", (), {"LEAN_TARGETS": good, "MODULE": good[0]})
        module = good[0]
    t = time.time()
    with Lock():
        res, out = common.audit([module] + [t for t in getattr(mod, 'LEAN_TARGETS', []) if t != module], theorems)
    chk.cov["audit_s"] = round(time.time() - t, 1)
    axioms_seen = set()
    for th in theorems:
        ax = res.get(th)
        if ax is None:
            chk.obligation(th, False, "theorem not found by the audit: " + out[-1500:])
            continue
        bad = [a for a in ax if a not in common.ALLOWED_AXIOMS]
        axioms_seen.update(ax)
        chk.obligation(th, not bad, "axioms: " + ", ".join(ax) if ax else "no axioms")
    if chk.tier != "quick":
        # the thorough tier has the compiled modules re-checked by leanchecker (an independent replay of every declaration
        # through the kernel, from the .olean files)
        t = time.time()
        with Lock():
            for m in [module] + [x for x in getattr(mod, "LEAN_TARGETS", []) if x != module]:
                ok, txt = common.leancheck(m)
                chk.obligation("leanchecker:" + m, ok, txt if not ok else "every declaration of the compiled module re-checked")
        chk.cov["leanchecker_s"] = round(time.time() - t, 1)
    hits = common.grep_forbidden()
    chk.obligation("no-sorry-admit-axiom-native_decide", not hits, "; ".join(hits[:10]))
    chk.cov["axioms_used"] = sorted(axioms_seen)


def run(chk, mod):
    go_ok, lean_ok, ltxt = build_phase(chk, mod)
    if not go_ok:
        chk.obligation("go-build-of-/repo-with-harness", False, "the repository no longer compiles with the harness")
        return chk.finish(level="proof", coverage=base_cov(chk, mod))
    proof_phase(chk, mod, lean_ok, ltxt)
    broken = any(not ok for _, ok, _ in chk.obligations)
    rnd = random.Random(chk.seed * 1000003 + sum(map(ord, chk.prop)))
    tier = chk.tier
    if broken and tier == "quick":
        # a proof obligation no longer checks: widen the failing-input search
        chk.cov["search_widened"] = True
        tier = "thorough"
    driver_ok = os.path.exists(os.path.join(common.LEAN_DIR, ".lake", "build", "bin", "driver"))
    if driver_ok:
        mod.explore(chk, rnd, tier)
    else:
        chk.obligation("lean-driver-builds", False, ltxt[-2000:])
    return chk.finish(level="proof", coverage=base_cov(chk, mod))


def base_cov(chk, mod):
    return {
        "checker_cmd": "cd /verif/lean && lake build %s && lake env lean <audit: #print axioms …>" % " ".join(
            getattr(mod, "LEAN_TARGETS", [])),
        "trusted_base": list(getattr(mod, "TRUSTED", [])) + [
            "Lean 4.33 kernel; axioms allowed: propext, Classical.choice, Quot.sound (audited per theorem)",
            "correspondence glue: Python generators/canonicalisation, Go runner, Lean driver (Float instance, JSON)",
        ],
        "rule": getattr(mod, "RULE", ""),
        "evaluations": chk.cov.get("evaluations", 0),
        "distinct_nontrivial": chk.cov.get("distinct_nontrivial", 0),
    }


def replay(chk, mod, path):
    """Re-runs exactly the recorded case against the current /repo and prints both sides."""
    go_ok, lean_ok, ltxt = build_phase(chk, mod)
    rec = json.load(open(path, encoding="utf-8"))
    rp = rec.get("replay", {})
    if hasattr(mod, "replay"):
        return mod.replay(chk, rp)
    print(json.dumps(rp, indent=1, ensure_ascii=False)[:4000])
    return 0
