"""Correspondence of whole queries: the real library (Go runner) against the Lean model (driver)."""
import json
from .common import run_go, run_lean, dec_val, canon, as_multiset, enc_val, load_findings
from .sqlgen import query_sql, item, respell


def mk_case(doc, q, mode="seq", wrapped=False, pg=False, arr=False, consts=None, sql=None, tag=None,
            order_keys=None, source_rows=None, num_kind=None, vars=None, tables=None):
    if sql is None and q is not None:
        # one case in five spells some of its numeric literals another way (leading zeros, trailing .0, e0): the value is the
        # same, so model and expectations are untouched; derived from the query itself, so a case is reproducible
        import copy, random, zlib
        r = random.Random(zlib.crc32(repr(q).encode()))
        if r.random() < 0.2:
            q = respell(copy.deepcopy(q), r, 0.2)
    return {"num_kind": num_kind, "vars": vars, "tables": tables, "doc": doc, "q": q, "mode": mode, "wrapped": wrapped, "pg": pg, "arr": arr, "consts": consts,
            "sql": sql if sql is not None else query_sql(q), "tag": tag, "order_keys": order_keys,
            "source_rows": source_rows}


def go_req(c):
    r = {"op": "query", "doc": enc_val(c["doc"]), "sql": c["sql"], "wrapped": c["wrapped"], "pg": c["pg"],
         "arr": c["arr"], "consts": enc_val(c["consts"]) if c["consts"] is not None else None}
    if c.get("num_kind"):
        r["numKind"] = c["num_kind"]
    if c.get("vars") is not None:
        r["vars"] = enc_val(c["vars"])
    if c.get("tables"):
        r["tables"] = c["tables"]
    return r


def lean_req(c, asis=False):
    return {"op": "query", "doc": enc_val(c["doc"]), "q": c["q"], "wrapped": c["wrapped"], "asis": asis,
            "consts": enc_val(c["consts"]) if c["consts"] is not None else None}


def key_seq(rows, paths):
    out = []
    for r in rows:
        ks = []
        for p in paths:
            v = r
            for k in p:
                v = v.get(k) if isinstance(v, dict) else None
            ks.append(v)
        out.append(canon(ks))
    return out


def same_result(c, gv, lv):
    """gv, lv: decoded row lists. Compared in the property's own notion of equality."""
    mode = c["mode"]
    if mode == "seq":
        return canon(gv) == canon(lv)
    if mode == "multiset":
        return as_multiset(gv) == as_multiset(lv)
    if mode == "sorted":   # ORDER BY with an unstable sort: same multiset and same key-tuple sequence
        return as_multiset(gv) == as_multiset(lv) and key_seq(gv, c["order_keys"]) == key_seq(lv, c["order_keys"])
    if mode == "keyseq":   # ORDER BY + window under ties: key-tuple sequence, and rows drawn from the source
        if key_seq(gv, c["order_keys"]) != key_seq(lv, c["order_keys"]):
            return False
        src = as_multiset(dec_val(enc_val(c["source_rows"])))
        for r in as_multiset(gv):
            if r in src:
                src.remove(r)
            else:
                return False
        return True
    raise ValueError(mode)


def _has_arith(n):
    """does the query AST hold an arithmetic node (binary / unary operator)?  Those refuse Go number kinds other than float64"""
    if isinstance(n, list):
        if n and n[0] in ("bin", "un") and len(n) >= 3 and isinstance(n[1], str):
            return True
        return any(_has_arith(x) for x in n)
    return False


def classify(c, g, l):
    """-> ('pass'|'skip'|'mismatch', detail)"""
    if l["r"] == "oom":
        return "skip", "out-of-model"
    if g["r"] == "aborted":
        return "skip", "aborted"
    if g["r"] in ("crash", "hang", "panic"):
        return "mismatch", "impl " + g["r"]
    if l["r"] in ("error", "panic"):
        if g["r"] == "error":
            return "pass", "error"
        return "mismatch", "model says error, impl says " + g["r"]
    # model ok
    if g["r"] != "ok":
        if g["r"] == "error" and c.get("num_kind") and "invalid cast" in str(g.get("msg")) and \
                (c.get("kind_lenient") or _has_arith(c.get("q"))):
            # the engine refuses arithmetic on a Go number kind other than float64 (AsType[float64]); the model has one
            # number type.  A refusal is accepted; an answer must be the model's answer.
            return "skip", "go-number-kind-refused"
        return "mismatch", "model says ok, impl says " + g["r"] + ": " + str(g.get("msg"))[:200]
    if g.get("nonPlain"):
        return "mismatch", "non-plain values in result: %s" % g["nonPlain"]
    gv, lv = dec_val(g["v"]), dec_val(l["v"])
    if same_result(c, gv, lv):
        return "pass", "ok"
    return "mismatch", "results differ"


def _wrap_tables(q):
    """the same query for the Wrapped() option: every document table `t` becomes `root.t` (CTE names, `dual` and
    backward-navigating tables make the query unsuitable -> None)"""
    import copy
    ctes = set()

    def collect(n):
        if isinstance(n, list):
            if n and n[0] in ("select", "union") and isinstance(n[1], list):
                for c in n[1]:
                    if isinstance(c, list) and len(c) == 2 and isinstance(c[0], str):
                        ctes.add(c[0])
            for x in n:
                collect(x)
    collect(q)
    q2 = copy.deepcopy(q)
    ok = [True]

    def walk(n):
        if not isinstance(n, list):
            return
        if n and n[0] == "table" and isinstance(n[1], list):
            path = n[1]
            if not path or path[0] in ("<-", "dual") or path[0] in ctes:
                if path and path[0] != "dual" and path[0] not in ctes:
                    ok[0] = False
                if path and path[0] == "dual":
                    ok[0] = False
                return
            alias = n[2]
            n[1] = ["root"] + path
            n[3] = alias if alias else "root"
            if isinstance(n[-1], dict):
                n[-1]["bt"] = True
            else:
                n.append({"bt": True})
            return
        if n and n[0] in ("tablesel", "selc"):
            ok[0] = False
            return
        if n and n[0] == "col" and isinstance(n[1], list) and n[1] and n[1][0] == "<-":
            ok[0] = False
            return
        for x in n:
            walk(x)
    walk(q2)
    return q2 if ok[0] else None


RENAME_POOL = ["key", "name", "value", "status", "date", "level", "code", "type", "user", "time", "data", "createdAt", "OrderId",
               "zipCode", "Index", "group2"]


def _rename_columns(c, rnd):
    """the same case with the keys of its ROWS (not the top-level table names) renamed consistently in the document and in the
    query: SQL keywords and camelCase names instead of the generators' own short names.  Column names are data.  -> (doc, q) or
    None when the query holds text the renaming cannot see into (selector texts)."""
    import copy
    doc, q = c["doc"], c["q"]
    top = set(doc.keys())
    reserved = set(top) | {"<-", "*", "root", "dual", "sv"}
    rowkeys = set()

    def keys_of(v, depth):
        if isinstance(v, dict):
            for k, x in v.items():
                if depth >= 1:
                    rowkeys.add(k)
                keys_of(x, depth + 1)
        elif isinstance(v, list):
            for x in v:
                keys_of(x, depth)
    keys_of(doc, 0)
    bad = [False]

    def scan(n):
        if not isinstance(n, list) or not n:
            return
        h = n[0]
        if h in ("tablesel", "selc"):
            bad[0] = True
        elif h == "table" and len(n) >= 4:
            reserved.update(x for x in (n[2], n[3]) if isinstance(x, str))
            if isinstance(n[1], list) and n[1]:
                reserved.add(n[1][0])
        elif h == "derived" and len(n) >= 3 and isinstance(n[2], str):
            reserved.add(n[2])
        elif h == "item" and len(n) >= 4 and isinstance(n[3], str):
            if n[3]:
                reserved.add(n[3])
            elif not (isinstance(n[1], list) and n[1] and n[1][0] == "col"):
                bad[0] = True      # an un-aliased call is keyed by the parser's printing of its text (which quotes keywords)
        elif h in ("select", "union") and isinstance(n[1], list):
            for ct in n[1]:
                if isinstance(ct, list) and len(ct) == 2 and isinstance(ct[0], str):
                    reserved.add(ct[0])
        for x in n:
            scan(x)
    scan(q)
    if bad[0]:
        return None
    cand = sorted(k for k in rowkeys if k not in reserved and isinstance(k, str) and k.isidentifier())
    if not cand:
        return None
    pool = [p for p in RENAME_POOL if p not in rowkeys and p not in reserved]
    rnd.shuffle(pool)
    mp = dict(zip(cand, pool))
    if not mp:
        return None

    def ren_doc(v, depth):
        if isinstance(v, dict):
            return {(mp.get(k, k) if depth >= 1 else k): ren_doc(x, depth + 1) for k, x in v.items()}
        if isinstance(v, list):
            return [ren_doc(x, depth) for x in v]
        return v

    def ren(n, in_select=None):
        if not isinstance(n, list) or not n:
            return n
        h = n[0]
        if h == "col" and len(n) >= 2 and isinstance(n[1], list):
            return ["col", [mp.get(p, p) for p in n[1]]] + [copy.deepcopy(x) for x in n[2:]]
        if h == "table" and len(n) >= 4 and isinstance(n[1], list):
            return ["table", n[1][:1] + [mp.get(p, p) for p in n[1][1:]]] + [copy.deepcopy(x) for x in n[2:]]
        if h == "item" and len(n) >= 4:
            e2 = ren(n[1])
            key = n[2] if n[3] else item(e2, "")[2]
            return ["item", e2, key, n[3]] + [copy.deepcopy(x) for x in n[4:]]
        if h == "select" and len(n) >= 11:
            m = [ren(x) for x in n]
            m[6] = [[".".join(mp.get(p, p) for p in g[1]), [mp.get(p, p) for p in g[1]]] for g in n[6]]
            m[8] = [[[mp.get(p, p) for p in o[0]]] + list(o[1:]) for o in n[8]]
            return m
        if h == "union" and len(n) >= 8:
            m = [ren(x) for x in n]
            m[5] = [[[mp.get(p, p) for p in o[0]]] + list(o[1:]) for o in n[5]]
            return m
        if h == "str":
            return list(n)
        return [ren(x) for x in n]
    return ren_doc(doc, 0), ren(q)


def context_variants(cases, seed):
    """Statement-position and repetition variants of a sample of the cases (about 1 in 10): the same query as a CTE body
    read through `SELECT *`, as both branches of a UNION ALL, and simply repeated later in the same process.  Defects that
    live in the machinery around a statement (query copies, option propagation, caches, memos) show only there."""
    import copy
    import random as _r
    rnd = _r.Random(seed)
    out = []
    for c in cases:
        if c.get("q") is None or c["mode"] not in ("seq", "multiset") or rnd.random() > 0.1:
            continue
        q = c["q"]
        kind = rnd.choice(["cte", "union", "repeat", "wrapped", "rename", "rename"])
        renamed = None
        if kind == "rename":
            renamed = None if (c.get("order_keys") or c.get("source_rows") or c.get("consts") or c.get("vars")) else _rename_columns(c, rnd)
            if renamed is None:
                kind = "repeat"
        if kind == "wrapped" and (c.get("wrapped") or _wrap_tables(q) is None):
            kind = "repeat"
        if kind == "union" and not (q[0] == "select" and not q[1] and not q[8] and q[9] is None and q[10] is None):
            kind = "cte"       # a UNION branch cannot carry its own WITH / ORDER BY / LIMIT without parentheses
        # only the generic fields: what a property attaches for its own post-processing (staged evaluation, textbook
        # reference, …) is about the original query
        c2 = {k: c.get(k) for k in ("doc", "q", "mode", "wrapped", "pg", "arr", "consts", "sql", "tag", "order_keys",
                                    "source_rows", "num_kind", "vars", "tables", "kind_lenient")}
        if kind == "cte":
            q2 = ["select", [["zz_ctx", copy.deepcopy(q)]], False, [["star"]], ["table", ["zz_ctx"], "", "zz_ctx"], ["bool", True],
                  [], ["bool", True], [], None, None, {}]
        elif kind == "union":
            q2 = ["union", [], copy.deepcopy(q), copy.deepcopy(q), False, [], None, None, {}]
        elif kind == "wrapped":
            q2 = _wrap_tables(q)
            c2["wrapped"] = True
        elif kind == "rename":
            c2["doc"], q2 = renamed
        else:
            q2 = q
        try:
            c2["q"] = q2
            c2["sql"] = query_sql(q2)
        except Exception:
            continue
        c2["tag"] = "ctx:" + kind
        out.append(c2)
    return out


def run_cases(chk, cases, nontrivial=None, known_switch_ids=None, label="", variants=True):
    """Runs all cases on both sides, records mismatches as violations (or known findings when the
    as-is model explains them and the finding is listed), fills the coverage counters."""
    if not cases:
        return []
    if variants:
        extra = context_variants(cases, len(cases) * 7919 + chk.seed)
        chk.cov["context_variants"] = chk.cov.get("context_variants", 0) + len(extra)
        chk.cov["context_variants_rule"] = ("about 1 in 10 generated queries is additionally run as a CTE body read through SELECT *, "
                                            "as both branches of a UNION ALL, under Wrapped() with every table addressed as root.<table>, "
                                            "with the keys of its rows renamed to SQL keywords / camelCase names in document and query, or simply a second time in the same process")
        cases = list(cases) + extra
    gos = run_go([go_req(c) for c in cases])
    leans = run_lean([lean_req(c) for c in cases])
    findings = [f for f in load_findings() if f.get("property") == chk.prop and f.get("switch")]
    results = []
    mism = []
    if not hasattr(chk, "_nt"):
        chk._nt = set()
    seen_nt = chk._nt
    for c, g, l in zip(cases, gos, leans):
        verdict, detail = classify(c, g, l)
        chk.count(label + verdict + ":" + detail.split(":")[0][:40])
        if c.get("tag"):
            chk.count(label + "tag:" + str(c["tag"]))
        if verdict == "mismatch":
            mism.append((c, g, l, detail))
        elif verdict == "pass" and nontrivial is not None:
            try:
                if nontrivial(c, g, l):
                    seen_nt.add(c["sql"] + "|" + canon(c["doc"]))
            except Exception:
                pass
        if g.get("docChanged"):
            chk.count(label + "input-document-modified")
        results.append((c, g, l, verdict))
    chk.cov["evaluations"] = chk.cov.get("evaluations", 0) + len(cases)
    chk.cov["distinct_nontrivial"] = len(seen_nt)
    if mism and findings:
        # does the as-is model (open findings switched on) explain the mismatch?
        asis = run_lean([lean_req(c, asis=True) for c, _, _, _ in mism])
        rest = []
        for (c, g, l, detail), a in zip(mism, asis):
            v2, _ = classify(c, g, a)
            if v2 == "pass" and canon(a) != canon(l):
                f = findings[0]
                chk.add_known(f.get("id", "?"), f.get("text", ""))
            else:
                rest.append((c, g, l, detail))
        mism = rest
    mism.sort(key=lambda m: len(m[0]['sql']) + len(canon(m[0]['doc'])))
    for c, g, l, detail in mism[:3]:
        chk.add_violation("correspondence", {
            "sql": c["sql"], "doc": c["doc"], "q": c["q"], "opts": {k: c[k] for k in ("wrapped", "pg", "arr")},
            "consts": c["consts"], "mode": c["mode"], "order_keys": c.get("order_keys"), "num_kind": c.get("num_kind"), "vars": c.get("vars"), "tables": c.get("tables"),
            "detail": detail, "impl": g, "model": l})
    if len(mism) > 3:
        chk.count(label + "further-mismatches", len(mism) - 3)
    if not chk.samples and cases:
        for c, g, l, v in results[:3]:
            chk.samples.append({"sql": c["sql"], "doc": c["doc"], "impl": g.get("v", g.get("r")), "verdict": v})
    return results
