"""Regenerates lean/Genql/Generated/Facts.lean from /repo's current sources (go/ast extractor)."""
import json
import os
from . import common


def regenerate():
    ok, txt, tool = common.build_tool("gofacts")
    if not ok:
        return False, "gofacts does not build: " + txt
    out_dir = os.path.join(common.LEAN_DIR, "Genql", "Generated")
    os.makedirs(out_dir, exist_ok=True)
    os.makedirs(common.SCRATCH, exist_ok=True)
    tmp_lean = os.path.join(common.SCRATCH, "Facts.lean.new")
    facts_json = os.path.join(common.SCRATCH, "facts.json")
    rc, out = common.sh([tool, common.REPO, tmp_lean, facts_json], timeout=120)
    if rc != 0:
        return False, "gofacts failed: " + out
    dst = os.path.join(out_dir, "Facts.lean")
    new = open(tmp_lean, encoding="utf-8").read()
    old = open(dst, encoding="utf-8").read() if os.path.exists(dst) else None
    if new != old:
        with open(dst, "w", encoding="utf-8") as f:
            f.write(new)
    os.unlink(tmp_lean)
    return True, ""


def load():
    p = os.path.join(common.SCRATCH, "facts.json")
    return json.load(open(p, encoding="utf-8")) if os.path.exists(p) else {}
