"""Query ASTs (nested lists in exactly the JSON shape the Lean driver decodes), their rendering to
SQL text for the Go side, and random generators.  Every random choice comes from the `rnd`
(random.Random) passed in, so one seed reproduces a run."""
import math
from .common import enc_num

TRUE = ["bool", True]

# ---------------------------------------------------------------- rendering

_SAFE_IDENT = set("abcdefghijklmnopqrstuvwxyzABCDEFGHIJKLMNOPQRSTUVWXYZ0123456789_")


def sql_str(s):
    """MySQL-dialect single-quoted literal"""
    out = []
    for ch in s:
        if ch == "'":
            out.append("''")
        elif ch == "\\":
            out.append("\\\\")
        else:
            out.append(ch)
    return "'" + "".join(out) + "'"


def sql_num(x):
    x = float(x)
    if x == math.floor(x) and abs(x) < 1e15:
        return str(int(x))
    return repr(x)


def spell_num(x, k):
    """the same number written another way (every spelling reads back as the same float64)"""
    base = sql_num(x)
    if not k:
        return base
    x = float(x)
    whole = x == math.floor(x) and 0 <= x < 1e15
    if whole:
        d = str(int(x))
        alt = {1: "0" + d, 2: "00" + d, 3: d + ".0", 4: d + ".00", 5: "0" + d + ".0", 6: d + "e0", 7: d + "E0", 8: d + "."}.get(k)
        if alt is not None and float(alt) == x:
            return alt
    if x >= 0 and k in (3, 4) and "e" not in base and "." in base:
        return base + "0"
    if 0 < x < 1 and k in (1, 2) and base.startswith("0."):
        return base[1:]
    return base


KEYWORDS = {"key", "name", "value", "status", "date", "level", "code", "type", "user", "time", "data", "index", "order", "group",
            "select", "from", "where", "count", "limit", "offset", "values", "table", "column", "desc", "asc", "by", "as", "on"}


def ident(name, force_bt=False):
    if force_bt or not name or not set(name) <= _SAFE_IDENT or name[0].isdigit() or name.lower() in KEYWORDS:
        return "`" + name + "`"
    return name


def col_sql(path, style=0):
    if len(path) == 1:
        return ident(path[0], force_bt=(style == 1))
    if len(path) == 2 and style == 0:
        return ident(path[0]) + "." + ident(path[1])
    return "`" + ".".join(path) + "`"


BINOPS = {"plus": "+", "minus": "-", "mult": "*", "div": "/", "intDiv": "DIV", "mod": "%",
          "bitAnd": "&", "bitOr": "|", "bitXor": "^", "shl": "<<", "shr": ">>"}
CMPOPS = {"eq": "=", "ne": "!=", "lt": "<", "le": "<=", "gt": ">", "ge": ">=", "like": "LIKE",
          "notLike": "NOT LIKE", "in": "IN", "notIn": "NOT IN"}
ISOPS = {"null": "IS NULL", "notNull": "IS NOT NULL", "true": "IS TRUE", "notFalse": "IS NOT FALSE",
         "notTrue": "IS NOT TRUE", "false": "IS FALSE"}
UNOPS = {"neg": "-", "tilda": "~", "bang": "!"}


def hint(node, key, default=None):
    if node and isinstance(node[-1], dict):
        return node[-1].get(key, default)
    return default


def expr_sql(e):
    t = e[0]
    if t == "null":
        return "NULL"
    if t == "bool":
        return "TRUE" if e[1] else "FALSE"
    if t == "num":
        v = e[1]
        from .common import dec_val
        return spell_num(dec_val(v), hint(e, "spell", 0))
    if t == "str":
        return sql_str(e[1])
    if t == "col":
        return col_sql(e[1], hint(e, "style", 0))
    if t == "selc":
        return "`" + e[1] + "`"
    if t in ("and", "or"):
        return "(%s %s %s)" % (expr_sql(e[1]), t.upper(), expr_sql(e[2]))
    if t == "not":
        return "(NOT %s)" % expr_sql(e[1])
    if t == "cmp":
        return "(%s %s %s)" % (expr_sql(e[2]), CMPOPS[e[1]], expr_sql(e[3]))
    if t == "between":
        return "(%s %sBETWEEN %s AND %s)" % (expr_sql(e[2]), "" if e[1] else "NOT ", expr_sql(e[3]), expr_sql(e[4]))
    if t == "bin":
        return "(%s %s %s)" % (expr_sql(e[2]), BINOPS[e[1]], expr_sql(e[3]))
    if t == "un":
        return "(%s%s)" % (UNOPS[e[1]], expr_sql(e[2]))
    if t == "is":
        return "(%s %s)" % (expr_sql(e[2]), ISOPS[e[1]])
    if t == "tuple":
        return "(" + ", ".join(expr_sql(x) for x in e[1]) + ")"
    if t == "case":
        s = "CASE"
        for c, v in e[1]:
            s += " WHEN %s THEN %s" % (expr_sql(c), expr_sql(v))
        if hint(e, "else", True):
            s += " ELSE " + expr_sql(e[2])
        return s + " END"
    if t == "func":
        q = (e[1].upper() + ".") if e[1] else ""
        return "%s%s(%s)" % (q, e[2].upper(), ", ".join(expr_sql(x) for x in e[3]))
    if t == "aggr":
        if not e[2]:
            return "%s(*)" % e[1].upper()
        return "%s(%s)" % (e[1].upper(), ", ".join(expr_sql(x) for x in e[2]))
    if t == "subq":
        return "(" + query_sql(e[1]) + ")"
    if t == "exists":
        return "EXISTS (" + query_sql(e[1]) + ")"
    raise ValueError(t)


def sel_sql(s):
    if s[0] == "star":
        return "*"
    e, key, alias = s[1], s[2], s[3]
    txt = expr_sql(e)
    if alias:
        txt += " AS " + ident(alias, force_bt=hint(s, "bt", False))
    return txt


JOIN_KINDS = {
    # spelling: (inner, left, straight, parallel) as sqlparser's JoinType predicates answer
    "JOIN": (True, True, False, False),
    "INNER JOIN": (True, True, False, False),
    "PARALLEL JOIN": (True, True, False, True),
    "HASH_JOIN": (True, True, False, False),
    "PARALLEL HASH_JOIN": (True, True, False, True),
    "STRAIGHT_JOIN": (True, True, True, False),
    "PARALLEL STRAIGHT_JOIN": (True, True, True, True),
    "LEFT JOIN": (False, True, False, False),
    "LEFT OUTER JOIN": (False, True, False, False),
    "PARALLEL LEFT JOIN": (False, True, False, True),
    "LEFT HASH_JOIN": (False, True, False, False),
    "PARALLEL LEFT HASH_JOIN": (False, True, False, True),
    "RIGHT JOIN": (False, False, False, False),
    "RIGHT OUTER JOIN": (False, False, False, False),
    "PARALLEL RIGHT JOIN": (False, False, False, True),
    "RIGHT HASH_JOIN": (False, False, False, False),
    "PARALLEL RIGHT HASH_JOIN": (False, False, False, True),
}


def join_type(spelling):
    i, l, s, p = JOIN_KINDS[spelling]
    return {"inner": i, "left": l, "straight": s, "parallel": p, "spelling": spelling}


def from_sql(f):
    t = f[0]
    if t == "table":
        path, alias = f[1], f[2]
        name = ".".join(path)
        if len(path) == 1 and set(name) <= _SAFE_IDENT and not hint(f, "bt", False):
            txt = name
        else:
            txt = "`" + name + "`"
        if alias:
            txt += " " + ("AS " if hint(f, "as", False) else "") + ident(alias)
        return txt
    if t == "tablesel":
        txt = "`" + f[1] + "`"
        if f[2]:
            txt += " " + ident(f[2])
        return txt
    if t == "derived":
        return "(" + query_sql(f[1]) + ") AS " + ident(f[2])
    if t == "join":
        return "%s %s %s ON %s" % (from_sql(f[2]), f[1]["spelling"], from_sql(f[3]), expr_sql(f[4]))
    raise ValueError(t)


def ctes_sql(ctes):
    if not ctes:
        return ""
    return "WITH " + ", ".join("%s AS (%s)" % (ident(n), query_sql(q)) for n, q in ctes) + " "


def tail_sql(order, limit, offset, spelling=0):
    s = ""
    if order:
        s += " ORDER BY " + ", ".join(col_sql(p) + (" ASC" if asc else " DESC") for p, asc in order)
    if limit is not None:
        if offset is not None:
            if spelling == 1:
                s += " LIMIT %d, %d" % (offset, limit)
            else:
                s += " LIMIT %d OFFSET %d" % (limit, offset)
        else:
            s += " LIMIT %d" % limit
    return s


def query_sql(q):
    if q[0] == "select":
        _, ctes, distinct, sel, frm, wh, gb, hv, order, limit, offset = q[:11]
        s = ctes_sql(ctes) + "SELECT " + ("DISTINCT " if distinct else "")
        s += ", ".join(sel_sql(x) for x in sel)
        s += " FROM " + from_sql(frm)
        if wh != TRUE or hint(q, "where_true", False):
            s += " WHERE " + expr_sql(wh)
        if gb:
            s += " GROUP BY " + ", ".join(col_sql(p) for _, p in gb)
        if hv != TRUE:
            s += " HAVING " + expr_sql(hv)
        s += tail_sql(order, limit, offset, hint(q, "limit_spelling", 0))
        return s
    if q[0] == "union":
        _, ctes, l, r, distinct, order, limit, offset = q[:8]
        ls = query_sql(l)
        if l[0] == "union" and (l[5] or l[6] is not None or l[7] is not None):
            # a nested union with its own ORDER BY / LIMIT / OFFSET is written in parentheses
            ls = "(" + ls + ")"
        s = ctes_sql(ctes) + ls + (" UNION " if distinct else " UNION ALL ") + query_sql(r)
        s += tail_sql(order, limit, offset, hint(q, "limit_spelling", 0))
        return s
    raise ValueError(q[0])


# ---------------------------------------------------------------- constructors

def num(x):
    return ["num", enc_num(x)]


def respell(node, rnd, p=0.1):
    """give some numeric literals of a query another spelling (leading zeros, trailing .0, e0): in place"""
    if isinstance(node, list):
        if len(node) == 2 and node[0] == "num" and (isinstance(node[1], int) or (isinstance(node[1], dict) and "#" in node[1])):
            if rnd.random() < p:
                node.append({"spell": rnd.randint(1, 8)})
            return node
        for x in node:
            respell(x, rnd, p)
    elif isinstance(node, dict):
        for x in node.values():
            respell(x, rnd, p)
    return node


def col(*path, style=0):
    return ["col", list(path), {"style": style}]


def selc(text):
    """column written as a selector text (more than a key path)"""
    return ["selc", text]


def tablesel(text, alias=""):
    """table named by a selector text; ident = alias, else the text up to the first dot (`strings.SplitN(name, ".", 2)[0]`)"""
    return ["tablesel", text, alias, alias if alias else text.split(".", 1)[0]]


def select(sel, frm, wh=TRUE, ctes=None, distinct=False, gb=None, hv=TRUE, order=None, limit=None,
           offset=None, **hints):
    return ["select", ctes or [], distinct, sel, frm, wh, gb or [], hv, order or [], limit, offset, hints]


def table(path, alias=""):
    if isinstance(path, str):
        path = [path]
    ident_ = alias if alias else path[0]
    return ["table", path, alias, ident_]


def item(e, alias=""):
    """select item; key = alias, else the column's last name, else (string literal) its value"""
    if alias:
        key = alias
    elif e[0] == "col":
        # `AliasedExpr.ColumnName()` = Name.String(): for a backticked dotted name the whole text
        key = e[1][-1] if (len(e[1]) <= 2 and hint(e, "style", 0) == 0) else ".".join(e[1])
        if len(e[1]) == 1:
            key = e[1][0]
    elif e[0] == "func" and e[2] == "fuse" and e[3] and e[3][0][0] == "col":
        # an un-aliased call is keyed by its SQL text (only visible when FUSE yields NULL)
        key = "FUSE(%s)" % ".".join(e[3][0][1])
    else:
        raise ValueError("non-column select items must be aliased")
    return ["item", e, key, alias]


# ---------------------------------------------------------------- random data

WORDS = ["a", "b", "ab", "B", "x", "y", "apple", "Apple", "ant", "bee", "10", "9", "z z", "", "1", "1.0", "007", "-2", "a\tb", "a b", "a\u00a0b", "x\r", " x"]


LOOKALIKES = [
    ["2024-01-01T12:00:00Z", "2024-01-01T12:00:00.5Z", "2024-01-01T13:30:00+02:00", "2024-01-01T11:00:00-01:00", "2024-01-01T12:00:00.25Z",
     "2023-12-31T23:59:59+00:00", "2024-01-01T00:00:00Z"],
    ["2024-01-02", "2024-1-10", "2024-01-10", "01/02/2024", "2024-01-02 10:00:00", "2024-01-02 9:00:00"],
    ["10", "9", "1e3", "1000", "0x10", "1_000", "+5", "5", "05", "5.0", ".5", "0.5", "1e+06", "1000000"],
    ["true", "TRUE", "false", "True", "t", "1", "0", "yes"],
    ["null", "NULL", "<nil>", "nil", "NaN", "Inf", "-Inf", "undefined"],
    ["1.2.10", "1.2.9", "1.10", "1.9", "v2", "v10"],
]


def gen_table(rnd, ncols=None, nrows=None, kinds=None, nullable=False, names=None):
    """rows with typed columns; values from small pools so ties and boundaries are common"""
    ncols = ncols or rnd.randint(2, 4)
    names = names or ["c%d" % i for i in range(ncols)]
    kinds = kinds or [rnd.choice(["num", "num", "str", "bool"]) for _ in names]
    nrows = rnd.randint(0, 10) if nrows is None else nrows
    pools = []
    for k in kinds:
        if k == "num":
            base = rnd.choice([[0, 1, 2, 3], [-2, -1, 0, 1, 2], [1, 1.5, 2, 2.5, 10], [5, 7, 9, 11, 100],
                               [0.1, 0.2, 0.3, 0.7, 1.1], [16777216, 16777217, 16777218, 123456.789]])
            pools.append(base)
        elif k == "str":
            if rnd.random() < 0.15:
                # strings that look like values of another type stay strings: whole columns (and the constants drawn from them)
                # of timestamps in several spellings, dates, numbers, booleans, NULL words
                pools.append(rnd.sample(rnd.choice(LOOKALIKES), rnd.randint(3, 5)))
            else:
                pools.append(rnd.sample(WORDS, rnd.randint(2, 5)))
        else:
            pools.append([True, False])
    rows = []
    for _ in range(nrows):
        r = {}
        for n, p in zip(names, pools):
            if nullable and rnd.random() < 0.15:
                if rnd.random() < 0.5:
                    r[n] = None
                # else: key missing
            else:
                r[n] = rnd.choice(p)
        rows.append(r)
    return names, kinds, pools, rows


def gen_const(rnd, kind, pool):
    if kind == "num":
        v = rnd.choice(pool)
        e = num(v + rnd.choice([0, 0, 0, 1, -1, 0.5]))
        if rnd.random() < 0.12:
            e.append({"spell": rnd.randint(1, 8)})
        return e
    if kind == "str":
        return ["str", rnd.choice(pool + ["m", "A"])]
    return ["bool", rnd.choice([True, False])]


def gen_pred(rnd, names, kinds, pools, depth, in_subq=None):
    """well-typed predicate over non-NULL columns (C01's domain)"""
    if depth > 0 and rnd.random() < 0.55:
        k = rnd.random()
        if k < 0.4:
            return ["and", gen_pred(rnd, names, kinds, pools, depth - 1, in_subq),
                    gen_pred(rnd, names, kinds, pools, depth - 1, in_subq)]
        if k < 0.8:
            return ["or", gen_pred(rnd, names, kinds, pools, depth - 1, in_subq),
                    gen_pred(rnd, names, kinds, pools, depth - 1, in_subq)]
        return ["not", gen_pred(rnd, names, kinds, pools, depth - 1, in_subq)]
    i = rnd.randrange(len(names))
    name, kind, pool = names[i], kinds[i], pools[i]
    c = col(name, style=rnd.choice([0, 0, 1]))
    if kind == "bool":
        k = rnd.random()
        if k < 0.6:
            return ["is", rnd.choice(["true", "false", "notTrue", "notFalse"]), c]
        return ["cmp", rnd.choice(["eq", "ne"]), c, ["bool", rnd.choice([True, False])]]
    k = rnd.random()
    if k < 0.40:
        op = rnd.choice(["eq", "ne", "lt", "le", "gt", "ge"])
        # second operand: constant, or another column of the same kind
        same = [j for j in range(len(names)) if kinds[j] == kind and j != i]
        if same and rnd.random() < 0.2:
            other = col(names[rnd.choice(same)])
        else:
            other = gen_const(rnd, kind, pool)
        if rnd.random() < 0.15:
            return ["cmp", op, other, c]
        return ["cmp", op, c, other]
    if k < 0.58:
        n = rnd.randint(1, 4)
        if in_subq is not None and rnd.random() < 0.3:
            sub = in_subq(rnd, kind)
            if sub is not None:
                return ["cmp", "in", c, ["subq", sub]]
        elems = [gen_const(rnd, kind, pool) for _ in range(n)]
        same = [j for j in range(len(names)) if kinds[j] == kind and j != i]
        if same and rnd.random() < 0.2:
            elems[rnd.randrange(len(elems))] = col(names[rnd.choice(same)])
        return ["cmp", rnd.choice(["in", "notIn"]), c, ["tuple", elems]]
    if k < 0.74:
        lo, hi = gen_const(rnd, kind, pool), gen_const(rnd, kind, pool)
        same = [j for j in range(len(names)) if kinds[j] == kind and j != i]
        if same and rnd.random() < 0.25:
            # a bound (or the point) may be another column of the same kind
            if rnd.random() < 0.5:
                lo = col(names[rnd.choice(same)])
            else:
                hi = col(names[rnd.choice(same)])
        return ["between", rnd.random() < 0.75, c, lo, hi]
    if k < 0.90 and kind == "str":
        return ["cmp", rnd.choice(["like", "like", "notLike"]), c, ["str", gen_like(rnd, pool)]]
    return ["is", rnd.choice(["null", "notNull"]), c]


def gen_like(rnd, pool):
    base = rnd.choice(pool) if pool else "ab"
    chars = list(base)
    out = []
    for ch in chars:
        r = rnd.random()
        if r < 0.2:
            out.append("_")
        elif r < 0.3:
            out.append("%")
        elif r < 0.35:
            out.append(ch.upper())
        else:
            out.append(ch)
    if rnd.random() < 0.4:
        out.append("%")
    if rnd.random() < 0.25:
        out.insert(0, "%")
    if rnd.random() < 0.1:
        out.insert(rnd.randint(0, len(out)), rnd.choice([".", "(", "[", "*", "+", "?", "^", "$", "|", "\\"]))
    return "".join(out)
