"""Shared machinery of the checks: builds, the two line-protocol peers (Go runner = the real
library, Lean driver = the model), canonical comparison, evidence, known findings, violations."""
import fcntl
import json
import math
import os
import re
import shutil
import struct
import subprocess
import sys
import tempfile
import time

ROOT = os.path.dirname(os.path.dirname(os.path.abspath(__file__)))
REPO = os.environ.get("VERIF_REPO", "/repo")
LEAN_DIR = os.path.join(ROOT, "lean")
HARNESS = os.path.join(ROOT, "harness")
SCRATCH = os.path.join(ROOT, "scratch")
# bin/seedtest and bin/seedall run the checks against a deliberately broken /repo: their evidence and replays go to scratch
# (VERIF_SEEDED=1), so that the committed evidence is always that of the unchanged tree
_SEEDED = os.environ.get("VERIF_SEEDED") == "1"
EVIDENCE = os.path.join(ROOT, "scratch", "seeded-evidence") if _SEEDED else os.path.join(ROOT, "evidence")
REPLAYS = os.path.join(ROOT, "scratch", "seeded-replays") if _SEEDED else os.path.join(ROOT, "replays")
ALLOWED_AXIOMS = {"propext", "Classical.choice", "Quot.sound"}

GOENV = dict(os.environ, GOFLAGS="-mod=mod", GOPROXY="off", GOSUMDB="off", GOTOOLCHAIN="local",
             CGO_ENABLED=os.environ.get("CGO_ENABLED", "0"))


def log(*a):
    print(*a, file=sys.stderr, flush=True)


class Lock:
    """One build at a time (checks may be started concurrently)."""

    def __init__(self, name="build"):
        os.makedirs(SCRATCH, exist_ok=True)
        self.path = os.path.join(SCRATCH, name + ".lock")

    def __enter__(self):
        self.f = open(self.path, "w")
        fcntl.flock(self.f, fcntl.LOCK_EX)
        return self

    def __exit__(self, *a):
        fcntl.flock(self.f, fcntl.LOCK_UN)
        self.f.close()


def sh(cmd, cwd=None, env=None, timeout=None):
    p = subprocess.run(cmd, cwd=cwd, env=env, stdout=subprocess.PIPE, stderr=subprocess.STDOUT,
                       text=True, timeout=timeout)
    return p.returncode, p.stdout


# ------------------------------------------------------------------ builds

def build_go(race=False):
    """Builds the runner against /repo's current working tree (tag `verif` enables the hooks)."""
    os.makedirs(os.path.join(HARNESS, "bin"), exist_ok=True)
    # go.sum of the repository is the source of truth for module hashes
    try:
        shutil.copyfile(os.path.join(REPO, "go.sum"), os.path.join(HARNESS, "go.sum"))
    except OSError:
        pass
    out = os.path.join(HARNESS, "bin", "runner-race" if race else "runner")
    env = dict(GOENV)
    cmd = ["go", "build", "-tags", "verif", "-o", out]
    if os.environ.get("VERIF_COVER") and not race:
        # coverage of the LIBRARY by the correspondence runs (bin/coverage); profiles go to $GOCOVERDIR
        cmd[2:2] = ["-cover", "-coverpkg=verif/harness/cmd/runner,github.com/vedadiyan/genql,"
                    "github.com/vedadiyan/genql/compare,github.com/vedadiyan/genql/sanitizer"]
    if race:
        env["CGO_ENABLED"] = "1"
        cmd.insert(2, "-race")
    cmd.append("./cmd/runner")
    rc, txt = sh(cmd, cwd=HARNESS, env=env, timeout=600)
    return rc == 0, txt, out


def build_tool(name):
    out = os.path.join(HARNESS, "bin", name)
    rc, txt = sh(["go", "build", "-o", out, "./cmd/" + name], cwd=HARNESS, env=GOENV, timeout=600)
    return rc == 0, txt, out


def lake_build(targets):
    rc, txt = sh(["lake", "build"] + list(targets), cwd=LEAN_DIR, timeout=3000)
    return rc == 0, txt


def lean_run_file(text, timeout=900):
    """Elaborates a scratch Lean file inside the project's environment and returns its output."""
    os.makedirs(SCRATCH, exist_ok=True)
    fd, path = tempfile.mkstemp(suffix=".lean", dir=SCRATCH)
    with os.fdopen(fd, "w") as f:
        f.write(text)
    try:
        rc, out = sh(["lake", "env", "lean", path], cwd=LEAN_DIR, timeout=timeout)
    finally:
        os.unlink(path)
    return rc, out


def leancheck(module, timeout=900):
    """Re-checks the compiled declarations of a module (and what it imports) with `leanchecker`, the toolchain's independent
    re-checker of .olean files.  It prints nothing when every declaration is accepted and exits 0 either way."""
    rc, out = sh(["lake", "env", "leanchecker", module], cwd=LEAN_DIR, timeout=timeout)
    bad = rc != 0 or re.search(r"exception|error|Could not find", out) is not None
    return (not bad), out[-1500:]


def audit(module, theorems):
    """`#print axioms` for every property theorem; returns {name: [axioms] | None (missing)}."""
    mods = module if isinstance(module, (list, tuple)) else [module]
    src = "".join("import %s\n" % m for m in mods) + "".join("#print axioms %s\n" % t for t in theorems)
    rc, out = lean_run_file(src)
    res = {}
    for t in theorems:
        short = t
        m = re.search(r"'%s' depends on axioms: \[([^\]]*)\]" % re.escape(short), out)
        if m:
            res[t] = [a.strip() for a in m.group(1).replace("\n", " ").split(",") if a.strip()]
            continue
        if re.search(r"'%s' does not depend on any axioms" % re.escape(short), out):
            res[t] = []
            continue
        res[t] = None
    return res, out


FORBIDDEN = re.compile(r"\b(sorry|admit|native_decide|bv_decide|implemented_by)\b|^\s*axiom\s|^\s*unsafe\s|maxHeartbeats\s+0",
                       re.M)


def grep_forbidden():
    """Scans the Lean sources (comments stripped) for constructs the trusted base excludes."""
    hits = []
    for dp, _, fns in os.walk(os.path.join(LEAN_DIR, "Genql")):
        for fn in fns:
            if not fn.endswith(".lean"):
                continue
            p = os.path.join(dp, fn)
            src = open(p, encoding="utf-8").read()
            src = re.sub(r"/-.*?-/", lambda m: "\n" * m.group(0).count("\n"), src, flags=re.S)
            src = re.sub(r"--.*", "", src)
            for m in FORBIDDEN.finditer(src):
                line = src.count("\n", 0, m.start()) + 1
                hits.append("%s:%d:%s" % (os.path.relpath(p, ROOT), line, m.group(0).strip()))
    return hits


# ------------------------------------------------------------------ line protocol peers

def _run_lines(cmd, lines, env=None, timeout=600, cwd=None):
    data = ("\n".join(lines) + "\n").encode()
    try:
        p = subprocess.run(cmd, input=data, stdout=subprocess.PIPE, stderr=subprocess.PIPE, env=env,
                           timeout=timeout, cwd=cwd)
        return p.returncode, p.stdout.decode("utf-8", "replace"), p.stderr.decode("utf-8", "replace"), False
    except subprocess.TimeoutExpired as e:
        so = (e.stdout or b"").decode("utf-8", "replace")
        se = (e.stderr or b"").decode("utf-8", "replace")
        return -9, so, se, True


def _run_lines_watch(cmd, lines, env=None, timeout=600, stall=20):
    """as _run_lines, but the child is also killed when it has produced no output for `stall` seconds (the
    runner answers every request with one flushed line, so silence = a request that does not return)"""
    import threading
    import time as _t
    data = ("\n".join(lines) + "\n").encode()
    p = subprocess.Popen(cmd, stdin=subprocess.PIPE, stdout=subprocess.PIPE, stderr=subprocess.PIPE, env=env)
    chunks, errs = [], []
    last = [_t.time()]

    def feed():
        try:
            p.stdin.write(data)
            p.stdin.close()
        except (BrokenPipeError, OSError):
            pass

    def rd(stream, sink, touch):
        while True:
            b = stream.read1(1 << 16) if hasattr(stream, "read1") else stream.read(1 << 16)
            if not b:
                break
            sink.append(b)
            if touch:
                last[0] = _t.time()

    ts = [threading.Thread(target=feed, daemon=True), threading.Thread(target=rd, args=(p.stdout, chunks, True), daemon=True),
          threading.Thread(target=rd, args=(p.stderr, errs, False), daemon=True)]
    for t in ts:
        t.start()
    t0 = _t.time()
    timed_out = False
    while p.poll() is None:
        _t.sleep(0.05)
        now = _t.time()
        if now - last[0] > stall or now - t0 > timeout:
            timed_out = True
            p.kill()
            break
    p.wait()
    for t in ts[1:]:
        t.join(5)
    so = b"".join(chunks).decode("utf-8", "replace")
    se = b"".join(errs).decode("utf-8", "replace")
    return (-9 if timed_out else p.returncode), so, se, timed_out


def run_go(reqs, runner=None, timeout=300, env_extra=None, per_req_timeout=20):
    """Runs requests through the Go runner. Returns a list aligned with `reqs`; a request on which
    the process died or hung is answered {'r': 'crash'|'hang', 'stderr': ...}."""
    runner = runner or os.path.join(HARNESS, "bin", "runner")
    env = dict(os.environ)
    env.setdefault("GOMEMLIMIT", "4GiB")
    if env_extra:
        env.update(env_extra)
    out = [None] * len(reqs)
    for i, r in enumerate(reqs):
        r["id"] = i
    pending = list(range(len(reqs)))
    first = True
    failures = 0
    while pending:
        lines = [json.dumps(reqs[i]) for i in pending]
        e = dict(env)
        e["RUNNER_FLUSH"] = "1"
        rc, so, se, timed_out = _run_lines_watch([runner], lines, env=e, timeout=timeout, stall=per_req_timeout)
        got = 0
        for ln in so.splitlines():
            if not ln.strip():
                continue
            try:
                o = json.loads(ln)
            except ValueError:
                continue
            if isinstance(o.get("id"), int) and 0 <= o["id"] < len(reqs):
                out[o["id"]] = o
                got += 1
        pending = [i for i in pending if out[i] is None]
        if not pending:
            break
        if first:
            first = False
            if got == 0 and rc == 0:
                raise RuntimeError("runner produced no output: " + se[-2000:])
        # every answer is flushed: the first unanswered request is the one that killed / hung the process
        culprit = pending[0]
        # confirm alone
        rc1, so1, se1, to1 = _run_lines_watch([runner], [json.dumps(reqs[culprit])], env=e, timeout=per_req_timeout + 10,
                                              stall=per_req_timeout)
        ans = None
        for ln in so1.splitlines():
            try:
                o = json.loads(ln)
                if o.get("id") == culprit:
                    ans = o
            except ValueError:
                pass
        if ans is not None:
            # answered when run alone: does it die / hang only AFTER earlier requests of the same process
            # (state that survives between calls: a leaked lock, a poisoned cache)?  Replayed, not assumed.
            hist = _history_failure(runner, reqs, culprit, e, per_req_timeout)
            if hist is not None:
                out[culprit] = hist
                failures += 1
            else:
                out[culprit] = ans
        else:
            out[culprit] = {"id": culprit, "r": "hang" if to1 else "crash", "stderr": se1[-3000:], "rc": rc1}
            failures += 1
        if failures >= 1:
            # every check stops at its first violation (the earliest failing request, which this is): the
            # remaining requests are not re-run
            for i in pending:
                if out[i] is None:
                    out[i] = {"id": i, "r": "aborted", "msg": "not run: an earlier request crashed or hung the runner"}
        pending = [i for i in pending if out[i] is None]
    return out


def _answered(runner, reqs, ids, env, timeout):
    rc, so, se, to = _run_lines_watch([runner], [json.dumps(reqs[i]) for i in ids], env=env, timeout=timeout + 60,
                                      stall=timeout)
    got = {}
    for ln in so.splitlines():
        try:
            o = json.loads(ln)
            got[o.get("id")] = o
        except ValueError:
            pass
    return got, rc, se, to


def _history_failure(runner, reqs, culprit, env, per_req_timeout):
    """`culprit` answers alone but was left unanswered inside its batch.  Re-run it after the (up to 300)
    requests that preceded it in a fresh process; if it is unanswered again, shrink to the shortest suffix
    of predecessors that still reproduces it and return a 'hang'/'crash' answer carrying that history."""
    window = list(range(max(0, culprit - 300), culprit + 1))
    got, rc, se, to = _answered(runner, reqs, window, env, per_req_timeout + 10)
    if culprit in got:
        return None                      # not reproducible: a spurious timeout of the batch
    lo, hi = 0, len(window) - 1          # window[lo:] fails; window[hi:] = [culprit] alone succeeds
    last = (rc, se, to)
    while hi - lo > 1:
        mid = (lo + hi) // 2
        g2, rc2, se2, to2 = _answered(runner, reqs, window[mid:], env, per_req_timeout + 10)
        if culprit in g2:
            hi = mid
        else:
            lo = mid
            last = (rc2, se2, to2)
    rc, se, to = last
    return {"id": culprit, "r": "hang" if to else "crash", "rc": rc, "stderr": se[-3000:],
            "after": [{k: v for k, v in reqs[i].items() if k != "id"} for i in window[lo:-1]],
            "msg": "answers alone, but not after the %d earlier request(s) listed under 'after' in the same process"
                   % (len(window) - 1 - lo)}


def run_lean(reqs, timeout=900):
    driver = os.path.join(LEAN_DIR, ".lake", "build", "bin", "driver")
    for i, r in enumerate(reqs):
        r["id"] = i
    lines = [json.dumps(r) for r in reqs]
    rc, so, se, to = _run_lines([driver], lines, timeout=timeout)
    out = [None] * len(reqs)
    for ln in so.splitlines():
        if not ln.strip():
            continue
        o = json.loads(ln)
        if isinstance(o.get("id"), int):
            out[o["id"]] = o
    if any(o is None for o in out):
        missing = [i for i, o in enumerate(out) if o is None][:3]
        raise RuntimeError("lean driver failed (rc=%s, timeout=%s) on %s: %s" % (rc, to, missing, se[-2000:]))
    return out


# ------------------------------------------------------------------ values

def f2bits(x):
    return struct.unpack("<Q", struct.pack("<d", float(x)))[0]


def bits2f(b):
    return struct.unpack("<d", struct.pack("<Q", int(b)))[0]


def enc_num(x):
    """protocol encoding of a double: plain integer when exact, {"#": bits} otherwise"""
    x = float(x)
    if x == math.floor(x) and abs(x) < 2 ** 53 and not (x == 0 and math.copysign(1, x) < 0) and math.isfinite(x):
        return int(x)
    return {"#": str(f2bits(x))}


def enc_val(v):
    if isinstance(v, bool) or v is None or isinstance(v, str):
        return v
    if isinstance(v, (int, float)):
        return enc_num(v)
    if isinstance(v, list):
        return [enc_val(x) for x in v]
    if isinstance(v, dict):
        return {k: enc_val(x) for k, x in v.items()}
    raise TypeError(type(v))


def dec_val(v):
    """protocol value -> python value with every number a float (-0.0 folded into 0.0)"""
    if isinstance(v, bool) or v is None or isinstance(v, str):
        return v
    if isinstance(v, (int, float)):
        return float(v) + 0.0
    if isinstance(v, list):
        return [dec_val(x) for x in v]
    if isinstance(v, dict):
        if len(v) == 1 and "#" in v and isinstance(v["#"], str):
            f = bits2f(v["#"])
            if math.isnan(f):
                return "#NaN"
            return f + 0.0
        return {k: dec_val(x) for k, x in v.items()}
    raise TypeError(type(v))


def canon(v):
    return json.dumps(v, sort_keys=True, ensure_ascii=False)


def as_multiset(rows):
    return sorted(canon(r) for r in rows)


# ------------------------------------------------------------------ known findings

def load_findings():
    """KNOWN_FINDINGS.txt: `finding: property=C18 id=KF-x switch=s :: text` / `fixed: ...`"""
    res = []
    p = os.path.join(ROOT, "KNOWN_FINDINGS.txt")
    if not os.path.exists(p):
        return res
    for ln in open(p, encoding="utf-8"):
        ln = ln.strip()
        if not ln.startswith("finding:"):
            continue
        head, _, text = ln[len("finding:"):].partition("::")
        kv = dict(t.split("=", 1) for t in head.split() if "=" in t)
        kv["text"] = text.strip()
        res.append(kv)
    return res


# ------------------------------------------------------------------ result of a check

class Check:
    def __init__(self, prop, tier, seed):
        self.prop, self.tier, self.seed = prop, tier, seed
        self.t0 = time.time()
        self.violations = []       # (kind, replay dict)
        self.known = {}            # finding id -> count
        self.known_text = {}
        self.cov = {}
        self.assumptions = []
        self.obligations = []      # (name, ok, detail)
        self.samples = []
        self.hist = {}

    def count(self, key, n=1):
        self.hist[key] = self.hist.get(key, 0) + n

    def add_violation(self, kind, replay, no_input=False):
        self.violations.append((kind, replay, no_input))

    def add_known(self, fid, text):
        self.known[fid] = self.known.get(fid, 0) + 1
        self.known_text[fid] = text

    def obligation(self, name, ok, detail=""):
        self.obligations.append((name, bool(ok), detail))

    def finish(self, level="proof", coverage=None):
        os.makedirs(EVIDENCE, exist_ok=True)
        os.makedirs(REPLAYS, exist_ok=True)
        cov = dict(coverage or {})
        cov.update(self.cov)
        nob = len(self.obligations)
        ndis = sum(1 for o in self.obligations if o[1])
        cov.setdefault("obligations", nob)
        cov.setdefault("discharged", ndis)
        cov.setdefault("obligation_list", [{"name": n, "ok": ok, "detail": d} for n, ok, d in self.obligations])
        cov.setdefault("samples", self.samples[:8] or ["(no samples)"])
        cov.setdefault("histogram", self.hist)
        cov["known_findings"] = self.known
        # an undischarged obligation is a violation: reported with the concrete failing input the search
        # found, or -- when it found none -- once, naming every obligation that no longer checks
        failed = [(n, d) for n, ok, d in self.obligations if not ok]
        concrete = [v for v in self.violations if not v[2]]
        if failed and not concrete:
            self.violations = [("obligations", {"unchecked": [{"obligation": n, "detail": d[-3000:]} for n, d in failed]}, True)]
        elif failed:
            for v in concrete:
                if isinstance(v[1], dict):
                    v[1]["obligations_no_longer_checked"] = [n for n, _ in failed]
            self.violations = concrete
        lines = []
        for fn in os.listdir(REPLAYS):
            if fn.startswith(self.prop + "-"):
                os.unlink(os.path.join(REPLAYS, fn))
        for i, (kind, replay, no_input) in enumerate(self.violations):
            path = os.path.join(REPLAYS, "%s-%s-%d-%d.json" % (self.prop, self.tier, self.seed, i))
            with open(path, "w", encoding="utf-8") as f:
                json.dump({"property": self.prop, "kind": kind, "seed": self.seed, "tier": self.tier,
                           "replay": replay}, f, indent=1, ensure_ascii=False, default=str)
            lines.append("VIOLATION property=%s replay=%s%s" % (self.prop, path,
                                                               " no-failing-input-found" if no_input else ""))
            if i >= 20:
                break
        ev = {
            "property_id": self.prop, "tier": self.tier, "seed": self.seed, "level": level,
            "coverage": cov, "assumptions": self.assumptions,
            "wall_s": round(time.time() - self.t0, 2), "violations": len(self.violations),
        }
        with open(os.path.join(EVIDENCE, self.prop + ".json"), "w", encoding="utf-8") as f:
            json.dump(ev, f, indent=1, ensure_ascii=False, default=str)
        for fid, n in sorted(self.known.items()):
            print("KNOWN-FINDING: property=%s %s (%d cases) %s" % (self.prop, fid, n, self.known_text.get(fid, "")))
        for ln in lines:
            print(ln)
        print("%s %s tier=%s seed=%d wall=%.1fs obligations=%d/%d violations=%d" % (
            "FAIL" if self.violations else "PASS", self.prop, self.tier, self.seed,
            time.time() - self.t0, ndis, nob, len(self.violations)))
        sys.stdout.flush()
        return 1 if self.violations else 0
