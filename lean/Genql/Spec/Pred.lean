/-
  Genql.Spec.Pred — the ordinary SQL meaning of WHERE predicates (C01), written directly on plain
  values with no engine wrappers, and the domain predicate `WT` of the property ("columns hold
  non-NULL values of one scalar kind; NULL only under IS [NOT] NULL").
-/
import Genql.Model.Syntax
import Genql.Model.Value
namespace Genql
variable {N : Type} [Num N]

inductive Kind where
  | num | str | bool
  deriving DecidableEq, Repr

def kindOf : Val N → Option Kind
  | .num _ => some .num
  | .str _ => some .str
  | .bool _ => some .bool
  | _ => none

/-- `a < b`: numeric order on numbers, lexicographic order on strings -/
def ltV : Val N → Val N → Bool
  | .num a, .num b => Num.lt a b
  | .str a, .str b => decide (a < b)
  | _, _ => false

/-- `a = b` on scalars of one kind -/
def eqV : Val N → Val N → Bool
  | .num a, .num b => Num.eq a b
  | .str a, .str b => a == b
  | .bool a, .bool b => a == b
  | _, _ => false

/-- the value a scalar operand denotes on a row -/
def operand (row : Row N) : Expr N → Val N
  | .col [k] => Val.get row k
  | .num n => .num n
  | .str s => .str s
  | .bool b => .bool b
  | _ => .null

/-- SQL LIKE as a relation: `%` matches any sequence, `_` any one character, every other
    character itself. -/
inductive Like : List Char → List Char → Prop where
  | nil : Like [] []
  | pctSkip {ps s} : Like ps s → Like ('%' :: ps) s
  | pctEat {ps c cs} : Like ('%' :: ps) cs → Like ('%' :: ps) (c :: cs)
  | under {ps c cs} : Like ps cs → Like ('_' :: ps) (c :: cs)
  | lit {p ps cs} : p ≠ '%' → p ≠ '_' → Like ps cs → Like (p :: ps) (p :: cs)

/-- LIKE is case-insensitive: both sides are lower-cased first -/
def LikeCI (s pat : String) : Prop := Like (lowerStr pat).toList (lowerStr s).toList

/-- a literal list of an IN: the values its elements denote -/
def tupleVals (row : Row N) (xs : List (Expr N)) : List (Val N) := xs.map (operand row)

/-- The meaning of a predicate on a row (total; `WT` says where it is *the* SQL meaning). -/
def sem (row : Row N) : Expr N → Bool
  | .bool b => b
  | .and a b => sem row a && sem row b
  | .or a b => sem row a || sem row b
  | .not a => !sem row a
  | .cmp .eq a b => eqV (operand row a) (operand row b)
  | .cmp .ne a b => !eqV (operand row a) (operand row b)
  | .cmp .lt a b => ltV (operand row a) (operand row b)
  | .cmp .le a b => ltV (operand row a) (operand row b) || eqV (operand row a) (operand row b)
  | .cmp .gt a b => ltV (operand row b) (operand row a)
  | .cmp .ge a b => ltV (operand row b) (operand row a) || eqV (operand row a) (operand row b)
  | .cmp .in_ a (.tuple xs) => (tupleVals row xs).any (eqV (operand row a))
  | .cmp .notIn a (.tuple xs) => !(tupleVals row xs).any (eqV (operand row a))
  | .cmp .like a b =>
    match operand row a, operand row b with
    | .str s, .str p => likeMatch (lowerStr p).toList (lowerStr s).toList
    | _, _ => false
  | .cmp .notLike a b =>
    match operand row a, operand row b with
    | .str s, .str p => !likeMatch (lowerStr p).toList (lowerStr s).toList
    | _, _ => false
  | .between isB x lo hi =>
    let inside := (ltV (operand row lo) (operand row x) || eqV (operand row x) (operand row lo)) &&
                  (ltV (operand row x) (operand row hi) || eqV (operand row x) (operand row hi))
    if isB then inside else !inside
  | .is .null a => (operand row a).isNull
  | .is .notNull a => !(operand row a).isNull
  | .is .true_ a | .is .notFalse a => (match operand row a with | .bool b => b | _ => false)
  | .is .notTrue a | .is .false_ a => (match operand row a with | .bool b => !b | _ => false)
  | _ => false

/-- a scalar operand of kind `κ` on this row: a literal of that kind, or a plain column that the
    row binds to a (non-NULL) value of that kind; the marker key `<-` is not a column -/
inductive Operand (row : Row N) : Kind → Expr N → Prop where
  | num (n : N) : Operand row .num (.num n)
  | str (s : String) : Operand row .str (.str s)
  | bool (b : Bool) : Operand row .bool (.bool b)
  | col (k : String) (κ : Kind) : k ≠ "<-" → kindOf (Val.get row k) = some κ → Operand row κ (.col [k])

/-- a plain column (any content) — the operand of IS [NOT] NULL -/
inductive AnyCol : Expr N → Prop where
  | col (k : String) : k ≠ "<-" → AnyCol (.col [k])

/-- The domain of C01: well-typed predicates over the row. -/
inductive WT (row : Row N) : Expr N → Prop where
  | lit (b : Bool) : WT row (.bool b)
  | and {a b} : WT row a → WT row b → WT row (.and a b)
  | or {a b} : WT row a → WT row b → WT row (.or a b)
  | not {a} : WT row a → WT row (.not a)
  | cmpNum {op a b} : op ∈ [CmpOp.eq, .ne, .lt, .le, .gt, .ge] →
      Operand row .num a → Operand row .num b → WT row (.cmp op a b)
  | cmpStr {op a b} : op ∈ [CmpOp.eq, .ne, .lt, .le, .gt, .ge] →
      Operand row .str a → Operand row .str b → WT row (.cmp op a b)
  | cmpBool {op a b} : op ∈ [CmpOp.eq, .ne] →
      Operand row .bool a → Operand row .bool b → WT row (.cmp op a b)
  | inList {κ a xs} : Operand row κ a → (∀ x ∈ xs, Operand row κ x) → WT row (.cmp .in_ a (.tuple xs))
  | notInList {κ a xs} : Operand row κ a → (∀ x ∈ xs, Operand row κ x) → WT row (.cmp .notIn a (.tuple xs))
  | like {a b} : Operand row .str a → Operand row .str b → WT row (.cmp .like a b)
  | notLike {a b} : Operand row .str a → Operand row .str b → WT row (.cmp .notLike a b)
  | between {κ isB x lo hi} : κ ≠ .bool → Operand row κ x → Operand row κ lo → Operand row κ hi →
      WT row (.between isB x lo hi)
  | isNull {op a} : op ∈ [IsOp.null, .notNull] → AnyCol a → WT row (.is op a)
  | isBool {op a} : Operand row .bool a → WT row (.is op a)

end Genql
