/-
  Genql.Proofs.KeyText — the join / catalogue key text `"<len>:<text>-"` per column (`ToCatalog`,
  model `rowKey`) is injective: two rows get the same key text iff their column texts are equal,
  column by column.  (That the SHA-256 of equal texts is equal is trivial; that different texts get
  different hashes is the trusted collision freedom of SHA-256.)
-/
import Genql.Properties.C04
import Std.Data.String.ToNat
namespace Genql.KeyText

/-- one column: byte length, a colon, the text, a dash -/
def tok (t : String) : String := toString t.utf8ByteSize ++ ":" ++ t ++ "-"

/-- the key text of a list of column texts -/
def enc : List String → String
  | [] => ""
  | t :: ts => tok t ++ enc ts

/-- `C04.encKey` (a left fold, as in the Go loop) is `enc` -/
theorem foldl_eq (ts : List String) (acc : String) :
    ts.foldl (fun acc t => acc ++ toString t.utf8ByteSize ++ ":" ++ t ++ "-") acc = acc ++ enc ts := by
  induction ts generalizing acc with
  | nil => simp [enc]
  | cons t ts ih =>
    rw [List.foldl_cons, ih]
    simp only [enc, tok, String.append_assoc]

theorem encKey_eq_enc (ts : List String) : Genql.C04.encKey ts = enc ts := by
  unfold Genql.C04.encKey
  rw [foldl_eq]; simp

/-- splitting at the first colon: a colon-free prefix is determined -/
theorem split_colon {ds ds' x x' : List Char} (h : ds ++ ':' :: x = ds' ++ ':' :: x')
    (hd : ':' ∉ ds) (hd' : ':' ∉ ds') : ds = ds' ∧ x = x' := by
  induction ds generalizing ds' with
  | nil =>
    cases ds' with
    | nil => simp at h; exact ⟨rfl, h⟩
    | cons c cs =>
      simp only [List.nil_append, List.cons_append, List.cons.injEq] at h
      exact absurd (h.1 ▸ List.mem_cons_self) hd'
  | cons d ds ih =>
    cases ds' with
    | nil =>
      simp only [List.nil_append, List.cons_append, List.cons.injEq] at h
      exact absurd (h.1 ▸ List.mem_cons_self) hd
    | cons c cs =>
      simp only [List.cons_append, List.cons.injEq] at h
      have hd2 : ':' ∉ ds := fun hm => hd (List.mem_cons_of_mem _ hm)
      have hd2' : ':' ∉ cs := fun hm => hd' (List.mem_cons_of_mem _ hm)
      obtain ⟨h1, h2⟩ := ih h.2 hd2 hd2'
      exact ⟨by rw [h.1, h1], h2⟩

theorem colon_not_in_digits (n : Nat) : ':' ∉ Nat.toDigits 10 n := by
  intro h
  have := Nat.isDigit_of_mem_toDigits (b := 10) (by omega) (by omega) h
  simp [Char.isDigit] at this

theorem toDigits_inj {m n : Nat} (h : Nat.toDigits 10 m = Nat.toDigits 10 n) : m = n := by
  have hm := Nat.ofDigitChars_ten_toDigits (n := m)
  have hn := Nat.ofDigitChars_ten_toDigits (n := n)
  rw [h] at hm
  rw [← hm, hn]

/-- two texts of the same byte length that are prefixes of one string are the same text -/
theorem same_size_prefix {t t' : String} {x x' : List Char}
    (h : t.toList ++ x = t'.toList ++ x') (hs : t.utf8ByteSize = t'.utf8ByteSize) : t = t' ∧ x = x' := by
  rcases List.append_eq_append_iff.mp h with ⟨a, ha, hx⟩ | ⟨a, ha, hx⟩
  · -- t'.toList = t.toList ++ a
    have ht' : t' = t ++ String.ofList a := by
      apply String.toList_injective
      rw [String.toList_append, String.toList_ofList, ha]
    have hsz : (String.ofList a).utf8ByteSize = 0 := by
      have := congrArg String.utf8ByteSize ht'
      rw [String.utf8ByteSize_append] at this
      omega
    have hnil : a = [] := String.ofList_eq_empty_iff.mp (String.utf8ByteSize_eq_zero_iff.mp hsz)
    subst hnil
    simp at ha hx
    exact ⟨String.toList_injective ha.symm, hx⟩
  · have ht : t = t' ++ String.ofList a := by
      apply String.toList_injective
      rw [String.toList_append, String.toList_ofList, ha]
    have hsz : (String.ofList a).utf8ByteSize = 0 := by
      have := congrArg String.utf8ByteSize ht
      rw [String.utf8ByteSize_append] at this
      omega
    have hnil : a = [] := String.ofList_eq_empty_iff.mp (String.utf8ByteSize_eq_zero_iff.mp hsz)
    subst hnil
    simp at ha hx
    exact ⟨String.toList_injective ha, hx.symm⟩

theorem tok_toList (t : String) (r : String) :
    (tok t ++ r).toList = Nat.toDigits 10 t.utf8ByteSize ++ ':' :: (t.toList ++ '-' :: r.toList) := by
  unfold tok
  simp only [String.toList_append, List.append_assoc]
  have h1 : (toString t.utf8ByteSize).toList = Nat.toDigits 10 t.utf8ByteSize := Nat.toList_repr
  have h2 : (":" : String).toList = [':'] := rfl
  have h3 : ("-" : String).toList = ['-'] := rfl
  rw [h1, h2, h3]
  simp

/-- **one column is uniquely decodable** -/
theorem tok_append_inj {t t' r r' : String} (h : tok t ++ r = tok t' ++ r') : t = t' ∧ r = r' := by
  have hl := congrArg String.toList h
  rw [tok_toList, tok_toList] at hl
  obtain ⟨hd, hx⟩ := split_colon hl (colon_not_in_digits _) (colon_not_in_digits _)
  have hsz := toDigits_inj hd
  obtain ⟨ht, hr⟩ := same_size_prefix hx hsz
  refine ⟨ht, ?_⟩
  simp only [List.cons.injEq, true_and] at hr
  exact String.toList_injective hr

theorem enc_nil_of_eq {ts : List String} (h : enc ts = "") : ts = [] := by
  cases ts with
  | nil => rfl
  | cons t ts =>
    exfalso
    have := congrArg String.toList h
    rw [enc, tok_toList] at this
    simp at this

/-- **the key text is injective**: equal key texts ⇒ equal column texts, column by column -/
theorem enc_injective : ∀ (ts us : List String), enc ts = enc us → ts = us
  | [], us, h => (enc_nil_of_eq h.symm).symm
  | ts, [], h => enc_nil_of_eq h
  | t :: ts, u :: us, h => by
    simp only [enc] at h
    obtain ⟨h1, h2⟩ := tok_append_inj h
    rw [h1, enc_injective ts us h2]

/-- the same for the fold the Go loop performs (`C04.encKey`) -/
theorem encKey_injective (ts us : List String) (h : Genql.C04.encKey ts = Genql.C04.encKey us) : ts = us := by
  rw [encKey_eq_enc, encKey_eq_enc] at h
  exact enc_injective ts us h

/-- non-vacuity: the collision of the un-prefixed format (`"a-" ++ "b"` vs `"a" ++ "-b"`) is gone -/
example : enc ["a-", "b"] ≠ enc ["a", "-b"] := fun h => by
  have := enc_injective _ _ h
  simp at this

end Genql.KeyText

/-! ### the model's `rowKey` produces `enc` of the column texts -/
namespace Genql.KeyText
open Genql
variable {N : Type} [Num N]

/-- the `%v` texts of the key columns of a row -/
def colTexts (cols : List (List String)) (row : Val N) : R (List String) :=
  mapE (fun col => do let v ← readPath col row; fmtR v) cols

/-- **the key text of a row is `enc` of its column texts** -/
theorem rowKey_key (row : Val N) : ∀ (cols : List (List String)) (acc : String) (m : Row N) (k : String) (km : Row N),
    (cols.foldlM (init := (acc, m)) fun (a : String × Row N) col => do
        let v ← readPath col row
        let t ← fmtR v
        pure (a.1 ++ toString t.utf8ByteSize ++ ":" ++ t ++ "-", setKey (".".intercalate col) v a.2)) = .ok (k, km) →
    ∃ ts, colTexts cols row = .ok ts ∧ k = acc ++ enc ts := by
  intro cols
  induction cols with
  | nil =>
    intro acc m k km h
    simp only [List.foldlM_nil, pure, Except.pure, Except.ok.injEq, Prod.mk.injEq] at h
    exact ⟨[], rfl, by simp [enc, h.1]⟩
  | cons c cs ih =>
    intro acc m k km h
    simp only [List.foldlM_cons, bind, Except.bind] at h
    cases hr : readPath c row with
    | error e => rw [hr] at h; cases h
    | ok v =>
      rw [hr] at h
      simp only [] at h
      cases hf : fmtR v with
      | error e => rw [hf] at h; cases h
      | ok t =>
        rw [hf] at h
        simp only [pure, Except.pure] at h
        obtain ⟨ts, hts, hk⟩ := ih _ _ k km h
        refine ⟨t :: ts, ?_, ?_⟩
        · simp only [colTexts, mapE, bind, Except.bind, hr, hf]
          simp only [colTexts, bind, Except.bind] at hts
          rw [hts]; rfl
        · rw [hk]; simp only [enc, tok, String.append_assoc]

theorem rowKey_enc (cols : List (List String)) (row : Val N) (k : String) (km : Row N)
    (h : rowKey cols row = .ok (k, km)) : ∃ ts, colTexts cols row = .ok ts ∧ k = enc ts := by
  obtain ⟨ts, h1, h2⟩ := rowKey_key row cols "" [] k km h
  exact ⟨ts, h1, by simpa using h2⟩

/-- **two rows fall into the same catalogue group iff their key column texts are equal** -/
theorem rowKey_eq_iff (cols : List (List String)) (r1 r2 : Val N) (k1 k2 : String) (m1 m2 : Row N)
    (h1 : rowKey cols r1 = .ok (k1, m1)) (h2 : rowKey cols r2 = .ok (k2, m2)) :
    k1 = k2 ↔ colTexts cols r1 = colTexts cols r2 := by
  obtain ⟨t1, ht1, hk1⟩ := rowKey_enc cols r1 k1 m1 h1
  obtain ⟨t2, ht2, hk2⟩ := rowKey_enc cols r2 k2 m2 h2
  rw [ht1, ht2, hk1, hk2]
  constructor
  · intro h; rw [enc_injective _ _ h]
  · intro h; cases h; rfl

end Genql.KeyText
