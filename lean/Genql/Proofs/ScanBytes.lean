/-
  Genql.Proofs.ScanBytes — the special bytes are pairwise distinct (simp set).
-/
import Genql.Model.Scan

namespace Genql.Scan

@[simp] theorem bSq_ne_bBt : (bSq = bBt) = False := by decide
@[simp] theorem bSq_ne_bDq : (bSq = bDq) = False := by decide
@[simp] theorem bSq_ne_bBs : (bSq = bBs) = False := by decide
@[simp] theorem bSq_ne_bLb : (bSq = bLb) = False := by decide
@[simp] theorem bSq_ne_bRb : (bSq = bRb) = False := by decide
@[simp] theorem bBt_ne_bSq : (bBt = bSq) = False := by decide
@[simp] theorem bBt_ne_bDq : (bBt = bDq) = False := by decide
@[simp] theorem bBt_ne_bBs : (bBt = bBs) = False := by decide
@[simp] theorem bBt_ne_bLb : (bBt = bLb) = False := by decide
@[simp] theorem bBt_ne_bRb : (bBt = bRb) = False := by decide
@[simp] theorem bDq_ne_bSq : (bDq = bSq) = False := by decide
@[simp] theorem bDq_ne_bBt : (bDq = bBt) = False := by decide
@[simp] theorem bDq_ne_bBs : (bDq = bBs) = False := by decide
@[simp] theorem bDq_ne_bLb : (bDq = bLb) = False := by decide
@[simp] theorem bDq_ne_bRb : (bDq = bRb) = False := by decide
@[simp] theorem bBs_ne_bSq : (bBs = bSq) = False := by decide
@[simp] theorem bBs_ne_bBt : (bBs = bBt) = False := by decide
@[simp] theorem bBs_ne_bDq : (bBs = bDq) = False := by decide
@[simp] theorem bBs_ne_bLb : (bBs = bLb) = False := by decide
@[simp] theorem bBs_ne_bRb : (bBs = bRb) = False := by decide
@[simp] theorem bLb_ne_bSq : (bLb = bSq) = False := by decide
@[simp] theorem bLb_ne_bBt : (bLb = bBt) = False := by decide
@[simp] theorem bLb_ne_bDq : (bLb = bDq) = False := by decide
@[simp] theorem bLb_ne_bBs : (bLb = bBs) = False := by decide
@[simp] theorem bLb_ne_bRb : (bLb = bRb) = False := by decide
@[simp] theorem bRb_ne_bSq : (bRb = bSq) = False := by decide
@[simp] theorem bRb_ne_bBt : (bRb = bBt) = False := by decide
@[simp] theorem bRb_ne_bDq : (bRb = bDq) = False := by decide
@[simp] theorem bRb_ne_bBs : (bRb = bBs) = False := by decide
@[simp] theorem bRb_ne_bLb : (bRb = bLb) = False := by decide

end Genql.Scan
