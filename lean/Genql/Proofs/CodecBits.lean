/-
  Genql.Proofs.CodecBits — the model (Genql.Model.Codec) writes Go's bit manipulation with `Nat`
  arithmetic (`*`, `/`, `%`, `+`).  This file proves, for the operand ranges that actually occur
  (bytes `< 256`, alphabet indices `< 64` / `< 32`), that those formulas are the literal Go
  expressions written with `<<<`, `>>>`, `&&&`, `|||` (and `% 256`, `% 2^32` for the truncation of
  `uint8` / `uint32` shifts).  Core Lean only.
-/
import Genql.Model.Codec
namespace Genql.Codec.Bits

/-- `a<<i | b = a*2^i + b` when `b` fits below bit `i`. -/
theorem shl_or (a i b : Nat) (h : b < 2 ^ i) : a <<< i ||| b = a * 2 ^ i + b := by
  rw [← Nat.shiftLeft_add_eq_or_of_lt h, Nat.shiftLeft_eq]

theorem and_mask (x : Nat) : x &&& 0x3F = x % 64 ∧ x &&& 0x1F = x % 32 ∧ x &&& 0x0F = x % 16 :=
  ⟨Nat.and_two_pow_sub_one_eq_mod x 6, Nat.and_two_pow_sub_one_eq_mod x 5,
    Nat.and_two_pow_sub_one_eq_mod x 4⟩

/-- base64 `Encode`: `val := a<<16 | b<<8 | c`. -/
theorem b64_val (a b c : Nat) (hb : b < 256) (hc : c < 256) :
    a <<< 16 ||| b <<< 8 ||| c = a * 65536 + b * 256 + c := by
  rw [Nat.or_assoc, shl_or b 8 c (by omega), shl_or a 16 _ (by omega)]; omega

/-- base64 `decodeQuantum`: `val := d0<<18 | d1<<12 | d2<<6 | d3`. -/
theorem b64_dval (d0 d1 d2 d3 : Nat) (h1 : d1 < 64) (h2 : d2 < 64) (h3 : d3 < 64) :
    d0 <<< 18 ||| d1 <<< 12 ||| d2 <<< 6 ||| d3 = d0 * 262144 + d1 * 4096 + d2 * 64 + d3 := by
  rw [Nat.or_assoc, Nat.or_assoc, shl_or d2 6 d3 (by omega), shl_or d1 12 _ (by omega),
    shl_or d0 18 _ (by omega)]; omega

/-- base32 `Encode`: `hi := a<<24 | b<<16 | c<<8 | d`. -/
theorem b32_hi (a b c d : Nat) (hb : b < 256) (hc : c < 256) (hd : d < 256) :
    a <<< 24 ||| b <<< 16 ||| c <<< 8 ||| d = a * 16777216 + b * 65536 + c * 256 + d := by
  rw [Nat.or_assoc, Nat.or_assoc, shl_or c 8 d (by omega), shl_or b 16 _ (by omega),
    shl_or a 24 _ (by omega)]; omega

/-- base32 `Encode`: `lo := hi<<8 | e` in `uint32`. -/
theorem b32_lo (hi e : Nat) (he : e < 256) :
    ((hi <<< 8) % 4294967296 ||| e) = (hi * 256 + e) % 4294967296 := by
  have h : (hi <<< 8) % 4294967296 = (hi % 16777216) <<< 8 := by
    rw [Nat.shiftLeft_eq, Nat.shiftLeft_eq]; omega
  rw [h, shl_or _ 8 e (by omega)]; omega

/-- shifts and masks as division and remainder -/
theorem shr_and (x k : Nat) : x >>> k &&& 0x3F = x / 2 ^ k % 64 ∧ x >>> k &&& 0x1F = x / 2 ^ k % 32 := by
  rw [(and_mask _).1, (and_mask _).2.1, Nat.shiftRight_eq_div_pow]; exact ⟨rfl, rfl⟩

/-- base32 `decode`, the five output bytes (`uint8` arithmetic: every shift is taken `% 256`). -/
theorem b32_dst0 (d0 d1 : Nat) (h0 : d0 < 32) (h1 : d1 < 32) :
    (d0 <<< 3) % 256 ||| d1 >>> 2 = d0 * 8 % 256 + d1 / 4 := by
  have e : (d0 <<< 3) % 256 = d0 <<< 3 := by rw [Nat.shiftLeft_eq]; omega
  rw [e, Nat.shiftRight_eq_div_pow, shl_or _ 3 _ (by omega)]; omega

theorem b32_dst1 (d1 d2 d3 : Nat) (h2 : d2 < 32) (h3 : d3 < 32) :
    (d1 <<< 6) % 256 ||| (d2 <<< 1) % 256 ||| d3 >>> 4 = d1 * 64 % 256 + d2 * 2 + d3 / 16 := by
  have e1 : (d1 <<< 6) % 256 = (d1 % 4) <<< 6 := by rw [Nat.shiftLeft_eq, Nat.shiftLeft_eq]; omega
  have e2 : (d2 <<< 1) % 256 = d2 <<< 1 := by rw [Nat.shiftLeft_eq]; omega
  rw [e1, e2, Nat.shiftRight_eq_div_pow, Nat.or_assoc, shl_or d2 1 _ (by omega),
    shl_or _ 6 _ (by omega)]; omega

theorem b32_dst2 (d3 d4 : Nat) (h4 : d4 < 32) :
    (d3 <<< 4) % 256 ||| d4 >>> 1 = d3 * 16 % 256 + d4 / 2 := by
  have e : (d3 <<< 4) % 256 = (d3 % 16) <<< 4 := by rw [Nat.shiftLeft_eq, Nat.shiftLeft_eq]; omega
  rw [e, Nat.shiftRight_eq_div_pow, shl_or _ 4 _ (by omega)]; omega

theorem b32_dst3 (d4 d5 d6 : Nat) (h5 : d5 < 32) (h6 : d6 < 32) :
    (d4 <<< 7) % 256 ||| (d5 <<< 2) % 256 ||| d6 >>> 3 = d4 * 128 % 256 + d5 * 4 + d6 / 8 := by
  have e1 : (d4 <<< 7) % 256 = (d4 % 2) <<< 7 := by rw [Nat.shiftLeft_eq, Nat.shiftLeft_eq]; omega
  have e2 : (d5 <<< 2) % 256 = d5 <<< 2 := by rw [Nat.shiftLeft_eq]; omega
  rw [e1, e2, Nat.shiftRight_eq_div_pow, Nat.or_assoc, shl_or d5 2 _ (by omega),
    shl_or _ 7 _ (by omega)]; omega

theorem b32_dst4 (d6 d7 : Nat) (h7 : d7 < 32) :
    (d6 <<< 5) % 256 ||| d7 = d6 * 32 % 256 + d7 := by
  have e : (d6 <<< 5) % 256 = (d6 % 8) <<< 5 := by rw [Nat.shiftLeft_eq, Nat.shiftLeft_eq]; omega
  rw [e, shl_or _ 5 _ (by omega)]; omega

/-- hex `Decode`: `(a << 4) | b`. -/
theorem hex_byte (a b : Nat) (hb : b < 16) : a <<< 4 ||| b = a * 16 + b := by
  rw [shl_or a 4 b (by omega)]


/-! ## The model's definitions, restated with Go's operators -/

/-- `hexDec`: `(a << 4) | b`. -/
theorem hexDec_bits (a b : Nat) (hb : b < 16) : (a * 16 + b).toUInt8 = (a <<< 4 ||| b).toUInt8 := by
  rw [hex_byte a b hb]

/-- `hexEnc`: `v >> 4`, `v & 0x0f`. -/
theorem hexEnc_bits (v : Nat) : v / 16 = v >>> 4 ∧ v % 16 = v &&& 0x0F := by
  rw [(and_mask v).2.2, Nat.shiftRight_eq_div_pow]; exact ⟨rfl, rfl⟩

/-- `b64uEnc`: the four alphabet indices of a quantum. -/
theorem b64uEnc_bits (a b c : Nat) (hb : b < 256) (hc : c < 256) :
    let val := a <<< 16 ||| b <<< 8 ||| c
    [val >>> 18 &&& 0x3F, val >>> 12 &&& 0x3F, val >>> 6 &&& 0x3F, val &&& 0x3F] =
      [(a * 65536 + b * 256 + c) / 262144 % 64, (a * 65536 + b * 256 + c) / 4096 % 64,
       (a * 65536 + b * 256 + c) / 64 % 64, (a * 65536 + b * 256 + c) % 64] := by
  simp only [b64_val a b c hb hc, (shr_and _ _).1, (and_mask _).1]

/-- `b64Bytes`: `val := d0<<18 | d1<<12 | d2<<6 | d3`, bytes `byte(val>>16)`, `byte(val>>8)`,
    `byte(val)`. -/
theorem b64Bytes_bits (d0 d1 d2 d3 : Nat) (h1 : d1 < 64) (h2 : d2 < 64) (h3 : d3 < 64) :
    let val := d0 <<< 18 ||| d1 <<< 12 ||| d2 <<< 6 ||| d3
    b64Bytes [d0, d1, d2, d3] =
      [(val >>> 16 % 256).toUInt8, (val >>> 8 % 256).toUInt8, (val % 256).toUInt8] := by
  simp only [b64_dval d0 d1 d2 d3 h1 h2 h3, Nat.shiftRight_eq_div_pow]
  rfl

/-- `b32Idx`: `hi`, `lo` and the eight alphabet indices of a full quantum. -/
theorem b32Idx_bits (a b c d e : Nat) (hb : b < 256) (hc : c < 256) (hd : d < 256) (he : e < 256) :
    let hi := a <<< 24 ||| b <<< 16 ||| c <<< 8 ||| d
    let lo := (hi <<< 8) % 4294967296 ||| e
    b32Idx a b c d e =
      [hi >>> 27 &&& 0x1F, hi >>> 22 &&& 0x1F, hi >>> 17 &&& 0x1F, hi >>> 12 &&& 0x1F,
       hi >>> 7 &&& 0x1F, hi >>> 2 &&& 0x1F, lo >>> 5 &&& 0x1F, lo &&& 0x1F] := by
  simp only [b32_hi a b c d hb hc hd, b32_lo _ e he, (shr_and _ _).2, (and_mask _).2.1]
  rfl

/-- The final block of `base32.Encode` (`remain = 4`; for `remain = 3, 2, 1` take `d`, `c`, `b` = 0
    and fewer characters): Go accumulates `val` from the last byte upwards and emits characters
    6, 5 | 4 | 3, 2 | 1, 0 in between.  These are the first seven entries of `b32Idx a b c d 0`. -/
theorem b32Idx_tail_bits (a b c d : Nat) (hb : b < 256) (hc : c < 256)
    (hd : d < 256) :
    let v4 := d
    let v3 := v4 ||| c <<< 8
    let v2 := v3 ||| b <<< 16
    let v1 := v2 ||| a <<< 24
    (b32Idx a b c d 0).take 7 =
      [v1 >>> 27 &&& 0x1F, v1 >>> 22 &&& 0x1F, v2 >>> 17 &&& 0x1F, v2 >>> 12 &&& 0x1F,
       v3 >>> 7 &&& 0x1F, v4 >>> 2 &&& 0x1F, (v4 <<< 3) % 4294967296 &&& 0x1F] := by
  have e3 : d ||| c <<< 8 = c * 256 + d := by
    rw [Nat.or_comm, shl_or c 8 d (by omega)]
  have e2 : c * 256 + d ||| b <<< 16 = b * 65536 + c * 256 + d := by
    rw [Nat.or_comm, shl_or b 16 _ (by omega)]; omega
  have e1 : b * 65536 + c * 256 + d ||| a <<< 24 = a * 16777216 + b * 65536 + c * 256 + d := by
    rw [Nat.or_comm, shl_or a 24 _ (by omega)]; omega
  simp only [e3, e2, e1]
  simp only [(shr_and _ _).2, (and_mask _).2.1, Nat.shiftLeft_eq, b32Idx, List.take_succ_cons,
    List.take_zero]
  have cc : ∀ {x y : Nat} {l m : List Nat}, x = y → l = m → x :: l = y :: m := by
    intro x y l m h h'; rw [h, h']
  refine cc (by omega) (cc (by omega) (cc (by omega) (cc (by omega) (cc (by omega)
    (cc (by omega) (cc (by omega) rfl))))))

/-- `b32Pack`: the five destination bytes. -/
theorem b32Pack_bits (d0 d1 d2 d3 d4 d5 d6 d7 : Nat) (h0 : d0 < 32) (h1 : d1 < 32) (h2 : d2 < 32)
    (h3 : d3 < 32) (h4 : d4 < 32) (h5 : d5 < 32) (h6 : d6 < 32) (h7 : d7 < 32) :
    b32Pack [d0, d1, d2, d3, d4, d5, d6, d7] =
      [((d0 <<< 3) % 256 ||| d1 >>> 2).toUInt8,
       ((d1 <<< 6) % 256 ||| (d2 <<< 1) % 256 ||| d3 >>> 4).toUInt8,
       ((d3 <<< 4) % 256 ||| d4 >>> 1).toUInt8,
       ((d4 <<< 7) % 256 ||| (d5 <<< 2) % 256 ||| d6 >>> 3).toUInt8,
       ((d6 <<< 5) % 256 ||| d7).toUInt8] := by
  rw [b32_dst0 d0 d1 h0 h1, b32_dst1 d1 d2 d3 h2 h3, b32_dst2 d3 d4 h4, b32_dst3 d4 d5 d6 h5 h6,
    b32_dst4 d6 d7 h7]
  rfl

end Genql.Codec.Bits
