/-
  Genql.Proofs.SelectorRoundTrip — a printer for selector ASTs and the proof that the parser of
  `Genql.Model.Selector` reads every well-formed AST back from its printed text.
-/
import Genql.Proofs.Selector
set_option linter.unusedSectionVars false
set_option linter.unusedSimpArgs false
namespace Genql.Sel
open Genql

/-! ## Printer -/

/-- `t₁ sep t₂ sep … tₙ` -/
def joinWith (sep : Char) : List (List Char) → List Char
  | [] => []
  | [w] => w
  | w :: w' :: ws => w ++ sep :: joinWith sep (w' :: ws)

def printNat (n : Nat) : List Char := Nat.toDigits 10 n

def printBound (kw : List Char) : Option Nat → List Char
  | none => kw
  | some n => printNat n

def printDim : Dim → List Char
  | .idx i => printNat i
  | .each => kwEach
  | .range b e => '(' :: (printBound kwBegin b ++ ':' :: (printBound kwEnd e ++ [')']))

def printDims (ds : List Dim) : List Char := joinWith ':' (ds.map printDim)

def printPipeItem (p : String × String) : List Char :=
  p.1.toList ++ (if p.2.toList = [] then [] else '|' :: p.2.toList)

/-- keys are always printed quoted (so any key without a quote is printable) -/
def printStep : Step → List Char
  | .key k => '\'' :: (k.toList ++ ['\''])
  | .dims ds => '[' :: (printDims ds ++ [']'])
  | .keep ds => '[' :: (kwKeep ++ (printDims ds ++ [']']))
  | .pipe ps => '{' :: (joinWith ',' (ps.map printPipeItem) ++ ['}'])

def printSteps (steps : List Step) : List Char := joinWith '.' (steps.map printStep)

def printSel (p : Parsed) : List Char :=
  match p.fn with
  | some f => f.toList ++ '=' :: '>' :: printSteps p.steps
  | none => printSteps p.steps

/-! ## Well-formed ASTs: what the parser can produce from *some* text -/

def Dim.WF : Dim → Prop
  | .idx i => i ≤ maxInt64
  | .each => True
  | .range b e => (∀ n ∈ b, n ≤ maxInt64) ∧ (∀ n ∈ e, n ≤ maxInt64)

def WordChars (s : String) : Prop := ∀ c ∈ s.toList, isWord c = true

instance (s : String) : Decidable (WordChars s) :=
  inferInstanceAs (Decidable (∀ c ∈ s.toList, isWord c = true))

def Step.WF : Step → Prop
  | .key k => ∀ c ∈ k.toList, c ≠ '\''
  | .dims ds => ∀ d ∈ ds, d.WF
  | .keep ds => ∀ d ∈ ds, d.WF
  | .pipe ps => ∀ p ∈ ps, (p.1.toList ≠ [] ∧ WordChars p.1) ∧ WordChars p.2

def Parsed.WF (p : Parsed) : Prop := (∀ f ∈ p.fn, WordChars f) ∧ ∀ s ∈ p.steps, s.WF

/-! ## Generic tokenizer lemma: tokens joined by a separator -/

/-- `rest` is empty or starts with a character from `S` -/
def Stops (S : Char → Prop) (rest : List Char) : Prop := ∀ c ∈ rest.head?, S c

theorem stops_nil (S : Char → Prop) : Stops S [] := by simp [Stops]
theorem stops_cons {S : Char → Prop} {c : Char} (h : S c) (r : List Char) : Stops S (c :: r) := by
  simp [Stops, h]

theorem findAll_join (m : List Char → Option Nat) (S : Char → Prop) (sep : Char) (hsep : S sep)
    (hS : ∀ c rest, S c → m (c :: rest) = none) :
    ∀ (toks : List (List Char)),
      (∀ t ∈ toks, t ≠ [] ∧ ∀ rest, Stops S rest → m (t ++ rest) = some t.length) →
      ∀ tail, Stops S tail → findAll m 0 (joinWith sep toks ++ tail) = toks ++ findAll m 0 tail
  | [], _, tail, _ => by simp [joinWith]
  | [t], h, tail, ht => by
    have := h t (by simp)
    simp only [joinWith]
    rw [findAll_match m this.1 tail (this.2 tail ht)]; rfl
  | t :: t' :: ts, h, tail, ht => by
    have hfirst := h t (by simp)
    have ih := findAll_join m S sep hsep hS (t' :: ts) (fun x hx => h x (by simp [hx])) tail ht
    simp only [joinWith, List.append_assoc, List.cons_append]
    rw [findAll_match m hfirst.1 _ (hfirst.2 _ (stops_cons hsep _)), findAll_nomatch m (hS sep _ hsep), ih]
    rfl

theorem joinWith_head {sep c : Char} {t : List Char} {ts : List (List Char)} :
    ∃ r, joinWith sep ((c :: t) :: ts) = c :: r := by
  cases ts with
  | nil => exact ⟨t, rfl⟩
  | cons t' ts => exact ⟨_, rfl⟩

theorem mem_joinWith {sep : Char} {ws : List (List Char)} {c : Char} (hc : c ∈ joinWith sep ws) :
    c = sep ∨ ∃ w ∈ ws, c ∈ w := by
  match ws, hc with
  | [], hc => simp [joinWith] at hc
  | [w], hc => exact .inr ⟨w, by simp, by simpa [joinWith] using hc⟩
  | w :: w' :: ws, hc =>
    simp only [joinWith, List.mem_append, List.mem_cons] at hc
    rcases hc with h | h | h
    · exact .inr ⟨w, by simp, h⟩
    · exact .inl h
    · rcases mem_joinWith h with h | ⟨x, hx, hcx⟩
      · exact .inl h
      · exact .inr ⟨x, List.mem_cons_of_mem _ hx, hcx⟩

/-! ## Numbers -/

theorem isWord_of_isDigit {c : Char} (h : c.isDigit = true) : isWord c = true := by
  simp [isWord, Char.isAlphanum, h]

theorem printNat_digits (n : Nat) : ∀ c ∈ printNat n, c.isDigit = true :=
  fun _ hc => Nat.isDigit_of_mem_toDigits (by decide) (by decide) hc

theorem printNat_ne_nil (n : Nat) : printNat n ≠ [] := Nat.toDigits_ne_nil

theorem digitsVal_eq {cs : List Char} (h : ∀ c ∈ cs, c.isDigit = true) (acc : Nat) :
    digitsVal cs acc = some (Nat.ofDigitChars 10 cs acc) := by
  induction cs generalizing acc with
  | nil => simp [digitsVal]
  | cons c cs ih =>
    have hc := h c (by simp)
    have e : '0'.toNat = 48 := by decide
    simp only [digitsVal, hc, if_true, Nat.ofDigitChars_cons, e]
    rw [ih (fun d hd => h d (by simp [hd])), Nat.mul_comm]

theorem splitSign_digit {c : Char} (hc : c.isDigit = true) (cs : List Char) :
    splitSign (c :: cs) = (false, c :: cs) := by
  have h1 : (c == '-') = false := by
    rw [beq_eq_false_iff_ne]; intro e; subst e; simp at hc
  have h2 : (c == '+') = false := by
    rw [beq_eq_false_iff_ne]; intro e; subst e; simp at hc
  simp [splitSign, h1, h2]

theorem readIndex_printNat {n : Nat} (h : n ≤ maxInt64) : readIndex (printNat n) = .ok n := by
  have hd := printNat_digits n
  have hv := digitsVal_eq hd 0
  have hn : Nat.ofDigitChars 10 (printNat n) 0 = n := Nat.ofDigitChars_ten_toDigits
  rw [hn] at hv
  cases hp : printNat n with
  | nil => exact absurd hp (printNat_ne_nil n)
  | cons c cs =>
    rw [hp] at hd hv
    simp [readIndex, splitSign_digit (hd c (by simp)), hv, h]

/-! ## Dimensions -/

theorem printNat_head (n : Nat) : ∃ c cs, printNat n = c :: cs ∧ c.isDigit = true := by
  cases hp : printNat n with
  | nil => exact absurd hp (printNat_ne_nil n)
  | cons c cs => exact ⟨c, cs, rfl, printNat_digits n c (by simp [hp])⟩

theorem printNat_ne_kw (n : Nat) {kw : List Char} (hk : ∀ c ∈ kw.head?, c.isDigit = false) (hne : kw ≠ []) :
    (printNat n == kw) = false := by
  obtain ⟨c, cs, hp, hc⟩ := printNat_head n
  rw [beq_eq_false_iff_ne, hp]
  intro e
  cases kw with
  | nil => exact hne rfl
  | cons d ds =>
    simp only [List.cons.injEq] at e
    have := hk d (by simp)
    rw [← e.1, hc] at this
    cases this

theorem readBound_print {kw : List Char} (hk : ∀ c ∈ kw.head?, c.isDigit = false) (hne : kw ≠ [])
    (b : Option Nat) (hb : ∀ n ∈ b, n ≤ maxInt64) : readBound kw (printBound kw b) = .ok b := by
  cases b with
  | none => simp [readBound, printBound]
  | some n =>
    simp [readBound, printBound, printNat_ne_kw n hk hne, readIndex_printNat (hb n rfl),
      Functor.map, Except.map]

theorem splitChar_none {sep : Char} {cs : List Char} (h : ∀ c ∈ cs, c ≠ sep) : splitChar sep cs = [cs] := by
  induction cs with
  | nil => rfl
  | cons c cs ih =>
    have hc : (c == sep) = false := by simpa using h c (by simp)
    simp [splitChar, hc, ih (fun d hd => h d (by simp [hd])), consHead]

theorem splitChar_two {sep : Char} {a b : List Char} (ha : ∀ c ∈ a, c ≠ sep) (hb : ∀ c ∈ b, c ≠ sep) :
    splitChar sep (a ++ sep :: b) = [a, b] := by
  induction a with
  | nil => simp [splitChar, splitChar_none hb]
  | cons c a ih =>
    have hc : (c == sep) = false := by simpa using ha c (by simp)
    simp [splitChar, hc, ih (fun d hd => ha d (by simp [hd])), consHead]

/-- the characters of a printed bound: digits or lower-case letters of the keyword -/
theorem printBound_chars {kw : List Char} (hkw : ∀ c ∈ kw, isWord c = true) (b : Option Nat) :
    ∀ c ∈ printBound kw b, isWord c = true := by
  cases b with
  | none => exact hkw
  | some n => exact fun c hc => isWord_of_isDigit (printNat_digits n c hc)

theorem kwBegin_word : ∀ c ∈ kwBegin, isWord c = true := by decide
theorem kwEnd_word : ∀ c ∈ kwEnd, isWord c = true := by decide
theorem kwEach_word : ∀ c ∈ kwEach, isWord c = true := by decide

theorem not_word_lpar : isWord '(' = false := by decide
theorem not_word_rpar : isWord ')' = false := by decide
theorem not_word_space : isWord ' ' = false := by decide
theorem not_word_rbra : isWord ']' = false := by decide
theorem not_word_rcur : isWord '}' = false := by decide
theorem not_word_comma : isWord ',' = false := by decide
theorem not_word_pipe : isWord '|' = false := by decide
theorem not_word_bang : isWord '!' = false := by decide

theorem printBound_ne_nil {kw : List Char} (hne : kw ≠ []) (b : Option Nat) : printBound kw b ≠ [] := by
  cases b with
  | none => exact hne
  | some n => exact printNat_ne_nil n

theorem readRange_print (b e : Option Nat) (hb : ∀ n ∈ b, n ≤ maxInt64) (he : ∀ n ∈ e, n ≤ maxInt64) :
    readRange (printDim (.range b e)) = .ok (.range b e) := by
  have hB := printBound_chars kwBegin_word b
  have hE := printBound_chars kwEnd_word e
  -- no blanks, so `strings.Trim(match, " ")` changes nothing
  have hsp : ∀ c ∈ printDim (.range b e), c ≠ ' ' := by
    intro c hc
    simp only [printDim, List.mem_cons, List.mem_append, List.not_mem_nil, or_false] at hc
    rcases hc with rfl | h | rfl | h | rfl
    · decide
    · exact isWord_ne (hB c h) not_word_space
    · decide
    · exact isWord_ne (hE c h) not_word_space
    · decide
  have h1 : trimBoth ' ' (printDim (.range b e)) = printDim (.range b e) := by
    simp [trimBoth, trimLeft_id hsp, trimRight_id hsp]
  -- strip the parentheses
  have hin : ∀ c ∈ printBound kwBegin b ++ ':' :: printBound kwEnd e, c ≠ '(' ∧ c ≠ ')' := by
    intro c hc
    simp only [List.mem_append, List.mem_cons] at hc
    rcases hc with h | rfl | h
    · exact ⟨isWord_ne (hB c h) not_word_lpar, isWord_ne (hB c h) not_word_rpar⟩
    · exact ⟨by decide, by decide⟩
    · exact ⟨isWord_ne (hE c h) not_word_lpar, isWord_ne (hE c h) not_word_rpar⟩
  have h2 : trimLeft '(' (printDim (.range b e))
      = (printBound kwBegin b ++ ':' :: printBound kwEnd e) ++ [')'] := by
    simp only [printDim, trimLeft_cons_self]
    rw [show printBound kwBegin b ++ ':' :: (printBound kwEnd e ++ [')'])
        = (printBound kwBegin b ++ ':' :: printBound kwEnd e) ++ [')'] by simp]
    apply trimLeft_id
    intro c hc
    simp only [List.mem_append, List.mem_singleton] at hc
    rcases hc with h | rfl
    · exact (hin c (by simpa using h)).1
    · decide
  have h3 : trimRight ')' ((printBound kwBegin b ++ ':' :: printBound kwEnd e) ++ [')'])
      = printBound kwBegin b ++ ':' :: printBound kwEnd e := by
    rw [trimRight_snoc, trimRight_id (fun c hc => (hin c hc).2)]
  have h4 : splitChar ':' (printBound kwBegin b ++ ':' :: printBound kwEnd e)
      = [printBound kwBegin b, printBound kwEnd e] :=
    splitChar_two (fun c hc => isWord_ne (hB c hc) not_word_colon)
      (fun c hc => isWord_ne (hE c hc) not_word_colon)
  simp only [readRange, h1, h2, h3, h4]
  rw [readBound_print (by decide) (by decide) b hb, readBound_print (by decide) (by decide) e he]
  rfl

theorem parseDim_print (d : Dim) (hd : d.WF) : parseDim (printDim d) = .ok d := by
  cases d with
  | idx i =>
    obtain ⟨c, cs, hp, hc⟩ := printNat_head i
    have h1 : (c == '(') = false := by
      rw [beq_eq_false_iff_ne]; intro e; subst e; simp at hc
    have h2 := printNat_ne_kw i (kw := kwEach) (by decide) (by decide)
    have h3 := readIndex_printNat (n := i) hd
    simp only [printDim] at *
    rw [hp] at h2 h3
    simp [parseDim, hp, h1, h2, h3, Functor.map, Except.map]
  | each => simp [parseDim, printDim, kwEach]
  | range b e =>
    have := readRange_print b e hd.1 hd.2
    simp only [printDim] at this
    simp [parseDim, printDim, this]

/-- every printed dimension is one token of `_ARRAYPATTERN` when followed by `:` or nothing -/
theorem matchArray_printDim (d : Dim) (rest : List Char) (hr : Stops (· = ':') rest) :
    matchArray (printDim d ++ rest) = some (printDim d).length := by
  have hrest : spanLen isWord rest = 0 := by
    cases rest with
    | nil => rfl
    | cons c r =>
      have : c = ':' := hr c (by simp)
      subst this; exact spanLen_stop not_word_colon _
  have hword : ∀ w : List Char, w ≠ [] → (∀ c ∈ w, isWord c = true) →
      matchArray (w ++ rest) = some w.length := by
    intro w hne hw
    cases w with
    | nil => exact absurd rfl hne
    | cons c w =>
      have hc : (c == '(') = false := by simpa using isWord_ne (hw c (by simp)) not_word_lpar
      have hs : spanLen isWord (c :: w ++ rest) = (c :: w).length := by
        rw [spanLen_append hw, hrest]; simp
      simp only [List.cons_append] at hs
      simp [matchArray, mParen, mWord, hc, hs]
  cases d with
  | idx i =>
    exact hword _ (printNat_ne_nil i) (fun c hc => isWord_of_isDigit (printNat_digits i c hc))
  | each => exact hword _ (by decide) kwEach_word
  | range b e =>
    have hB := printBound_chars kwBegin_word b
    have hE := printBound_chars kwEnd_word e
    have hin : ∀ c ∈ printBound kwBegin b ++ ':' :: printBound kwEnd e, (c != ')') = true := by
      intro c hc
      simp only [List.mem_append, List.mem_cons] at hc
      rcases hc with h | rfl | h
      · simpa using isWord_ne (hB c h) not_word_rpar
      · decide
      · simpa using isWord_ne (hE c h) not_word_rpar
    have hk : spanLen (· == ')') rest = 0 := by
      cases rest with
      | nil => rfl
      | cons c r =>
        have : c = ':' := hr c (by simp)
        subst this; rfl
    have e1 : printDim (.range b e) ++ rest
        = '(' :: ((printBound kwBegin b ++ ':' :: printBound kwEnd e) ++ ')' :: rest) := by
      simp [printDim]
    have e2 : (printDim (.range b e)).length
        = 1 + (printBound kwBegin b ++ ':' :: printBound kwEnd e).length + 1 := by
      simp [printDim]; omega
    rw [e1, e2]
    simp only [matchArray, mParen, beq_self_eq_true, if_true, spanLen_append hin]
    simp [spanLen, hk]

theorem matchArray_colon (rest : List Char) : matchArray (':' :: rest) = none := by
  simp [matchArray, mParen, mWord, spanLen, not_word_colon]

theorem printDim_ne_nil (d : Dim) : printDim d ≠ [] := by
  cases d with
  | idx i => exact printNat_ne_nil i
  | each => decide
  | range b e => simp [printDim]

theorem mapE_map_ok {α β : Type} {f : β → R α} {g : α → β} :
    ∀ {xs : List α}, (∀ x ∈ xs, f (g x) = .ok x) → mapE f (xs.map g) = .ok xs
  | [], _ => rfl
  | x :: xs, h => by
    have hx := h x (by simp)
    have ih := mapE_map_ok (f := f) (g := g) (xs := xs) (fun y hy => h y (by simp [hy]))
    simp [mapE, hx, ih, bind, Except.bind, pure, Except.pure]

theorem parseDims_print (ds : List Dim) (h : ∀ d ∈ ds, d.WF) :
    mapE parseDim (findAll matchArray 0 (printDims ds)) = .ok ds := by
  have := findAll_join matchArray (· = ':') ':' rfl (fun c rest hc => by subst hc; exact matchArray_colon rest)
    (ds.map printDim) (by
      intro t ht
      simp only [List.mem_map] at ht
      obtain ⟨d, _, rfl⟩ := ht
      exact ⟨printDim_ne_nil d, fun rest hr => matchArray_printDim d rest hr⟩) [] (stops_nil _)
  simp only [List.append_nil, findAll_nil] at this
  rw [printDims, this]
  exact mapE_map_ok fun d hd => parseDim_print d (h d hd)

/-! ## Array selectors -/

theorem printDim_chars (d : Dim) : ∀ c ∈ printDim d, isWord c = true ∨ c = '(' ∨ c = ')' ∨ c = ':' := by
  intro c hc
  cases d with
  | idx i => exact .inl (isWord_of_isDigit (printNat_digits i c hc))
  | each => exact .inl (kwEach_word c hc)
  | range b e =>
    simp only [printDim, List.mem_cons, List.mem_append, List.not_mem_nil, or_false] at hc
    rcases hc with rfl | h | rfl | h | rfl
    · exact .inr (.inl rfl)
    · exact .inl (printBound_chars kwBegin_word b c h)
    · exact .inr (.inr (.inr rfl))
    · exact .inl (printBound_chars kwEnd_word e c h)
    · exact .inr (.inr (.inl rfl))

theorem printDims_chars (ds : List Dim) :
    ∀ c ∈ printDims ds, isWord c = true ∨ c = '(' ∨ c = ')' ∨ c = ':' := by
  intro c hc
  rcases mem_joinWith hc with rfl | ⟨w, hw, hcw⟩
  · exact .inr (.inr (.inr rfl))
  · simp only [List.mem_map] at hw
    obtain ⟨d, _, rfl⟩ := hw
    exact printDim_chars d c hcw

/-- the characters of a printed array body are never `[`, `]`, a blank, `{`, `}` or a quote -/
theorem printDims_safe (ds : List Dim) (c : Char) (hc : c ∈ printDims ds) :
    c ≠ '[' ∧ c ≠ ']' ∧ c ≠ ' ' := by
  rcases printDims_chars ds c hc with h | rfl | rfl | rfl
  · exact ⟨isWord_ne h not_word_lbra, isWord_ne h not_word_rbra, isWord_ne h not_word_space⟩
  all_goals decide

/-- a printed array body does not start with `k` (so it is not mistaken for `keep=>`) -/
theorem printDims_head (ds : List Dim) : ∀ c ∈ (printDims ds).head?, c ≠ 'k' := by
  intro c hc
  cases ds with
  | nil => simp [printDims, joinWith] at hc
  | cons d ds =>
    have hd : ∀ x ∈ (printDim d).head?, x ≠ 'k' := by
      intro x hx
      cases d with
      | idx i =>
        obtain ⟨y, ys, hp, hy⟩ := printNat_head i
        simp only [printDim, hp, List.head?_cons, Option.mem_def, Option.some.injEq] at hx
        subst hx; intro e; subst e; simp at hy
      | each => simp [printDim, kwEach] at hx; subst hx; decide
      | range b e => simp [printDim] at hx; subst hx; decide
    cases hp : printDim d with
    | nil => exact absurd hp (printDim_ne_nil d)
    | cons y ys =>
      obtain ⟨r, hr⟩ := joinWith_head (sep := ':') (c := y) (t := ys) (ts := ds.map printDim)
      simp only [printDims, List.map_cons, hp, hr, List.head?_cons, Option.mem_def, Option.some.injEq] at hc
      subst hc
      exact hd y (by simp [hp])

theorem isPrefixOf_keep_false {body : List Char} (h : ∀ c ∈ body.head?, c ≠ 'k') :
    kwKeep.isPrefixOf body = false := by
  cases body with
  | nil => rfl
  | cons c cs =>
    have : ¬ ('k' = c) := fun e => h c (by simp) e.symm
    simp [kwKeep, List.isPrefixOf, this]

theorem isPrefixOf_append (p s : List Char) : p.isPrefixOf (p ++ s) = true := by
  induction p with
  | nil => simp [List.isPrefixOf]
  | cons c p ih => simp [List.isPrefixOf, ih]

theorem parseArray_dims (ds : List Dim) (h : ∀ d ∈ ds, d.WF) :
    parseArray ('[' :: (printDims ds ++ [']'])) = .ok (.dims ds) := by
  have hs := printDims_safe ds
  have h1 : trimLeft '[' ('[' :: (printDims ds ++ [']'])) = printDims ds ++ [']'] := by
    rw [trimLeft_cons_self]
    apply trimLeft_id
    intro c hc
    simp only [List.mem_append, List.mem_singleton] at hc
    rcases hc with h | rfl
    · exact (hs c h).1
    · decide
  have h2 : trimRight ']' (printDims ds ++ [']']) = printDims ds := by
    rw [trimRight_snoc, trimRight_id (fun c hc => (hs c hc).2.1)]
  simp only [parseArray, h1, h2, isPrefixOf_keep_false (printDims_head ds), Bool.false_eq_true,
    if_false, parseDims_print ds h]
  rfl

theorem parseArray_keep (ds : List Dim) (h : ∀ d ∈ ds, d.WF) :
    parseArray ('[' :: (kwKeep ++ (printDims ds ++ [']']))) = .ok (.keep ds) := by
  have hs := printDims_safe ds
  have hk : ∀ c ∈ kwKeep, c ≠ '[' ∧ c ≠ ']' ∧ c ≠ ' ' := by decide
  have h1 : trimLeft '[' ('[' :: (kwKeep ++ (printDims ds ++ [']']))) = (kwKeep ++ printDims ds) ++ [']'] := by
    rw [trimLeft_cons_self, ← List.append_assoc]
    apply trimLeft_id
    intro c hc
    simp only [List.mem_append, List.mem_singleton] at hc
    rcases hc with (h | h) | rfl
    · exact (hk c h).1
    · exact (hs c h).1
    · decide
  have h2 : trimRight ']' ((kwKeep ++ printDims ds) ++ [']']) = kwKeep ++ printDims ds := by
    rw [trimRight_snoc]
    apply trimRight_id
    intro c hc
    simp only [List.mem_append] at hc
    rcases hc with h | h
    · exact (hk c h).2.1
    · exact (hs c h).2.1
  simp only [parseArray, h1, h2, isPrefixOf_append, if_true, List.drop_left, parseDims_print ds h]
  rfl

/-! ## Pipe selectors -/

/-- the separators a pipe item may be followed by -/
def PipeStop (c : Char) : Prop := c = ',' ∨ c = '}'

theorem pipeStop_spanLen {rest : List Char} (hr : Stops PipeStop rest) : spanLen isWord rest = 0 := by
  cases rest with
  | nil => rfl
  | cons c r =>
    rcases hr c (by simp) with rfl | rfl
    · exact spanLen_stop not_word_comma _
    · exact spanLen_stop not_word_rcur _

theorem mPipeTail_stop {rest : List Char} (hr : Stops PipeStop rest) : mPipeTail rest = none := by
  cases rest with
  | nil => simp [mPipeTail]
  | cons c r =>
    rcases hr c (by simp) with rfl | rfl <;> simp [mPipeTail]

theorem matchPipe_item (p : String × String) (hk : p.1.toList ≠ [] ∧ WordChars p.1) (ht : WordChars p.2)
    (rest : List Char) (hr : Stops PipeStop rest) :
    matchPipe (printPipeItem p ++ rest) = some (printPipeItem p).length := by
  obtain ⟨hne, hw⟩ := hk
  have hrest := pipeStop_spanLen hr
  cases hkl : p.1.toList with
  | nil => exact absurd hkl hne
  | cons c k =>
    have hw' : ∀ d ∈ c :: k, isWord d = true := by
      intro d hd; exact hw d (by rw [hkl]; exact hd)
    have hq : (c == '\'') = false := by simpa using isWord_ne (hw' c (by simp)) not_word_quote
    by_cases hty : p.2.toList = []
    · -- no type: the first alternative fails at the separator, `\w+` matches the key
      have hs : spanLen isWord (c :: (k ++ rest)) = (c :: k).length := by
        rw [← List.cons_append, spanLen_append hw', hrest]; simp
      have hd : List.drop (k.length + 1) (c :: (k ++ rest)) = rest := by
        simp
      simp only [printPipeItem, hkl, hty, if_true, List.append_nil, List.cons_append]
      simp only [matchPipe, mQuoted, hq, Bool.false_eq_true, if_false, mWord, hs, List.length_cons]
      simp [hd, mPipeTail_stop hr]
    · -- `key|type`
      have htw : ∀ d ∈ p.2.toList, isWord d = true := ht
      have hs : spanLen isWord (c :: (k ++ '|' :: (p.2.toList ++ rest))) = (c :: k).length := by
        rw [← List.cons_append, spanLen_append hw', spanLen_stop not_word_pipe]; simp
      have hd : List.drop (k.length + 1) (c :: (k ++ '|' :: (p.2.toList ++ rest)))
          = '|' :: (p.2.toList ++ rest) := by simp
      have hs2 : spanLen isWord (p.2.toList ++ rest) = p.2.toList.length := by
        rw [spanLen_append htw, hrest]; simp
      have hpos : p.2.toList.length ≠ 0 := by
        intro e; exact hty (List.length_eq_zero_iff.mp e)
      simp only [printPipeItem, hkl, hty, if_false, List.cons_append, List.append_assoc]
      simp only [matchPipe, mQuoted, hq, Bool.false_eq_true, if_false, mWord, hs, List.length_cons]
      simp [hd, mPipeTail, hs2, hpos]
      omega

theorem matchPipe_stop (c : Char) (rest : List Char) (hc : PipeStop c ∨ c = '{') :
    matchPipe (c :: rest) = none := by
  rcases hc with (rfl | rfl) | rfl <;>
    simp [matchPipe, mQuoted, mWord, spanLen, not_word_comma, not_word_rcur, not_word_lcur]

theorem parsePipeItem_print (p : String × String) (hk : WordChars p.1) (ht : WordChars p.2) :
    parsePipeItem (printPipeItem p) = .ok p := by
  have hkp : ∀ c ∈ p.1.toList, c ≠ '|' := fun c hc => isWord_ne (hk c hc) not_word_pipe
  have htp : ∀ c ∈ p.2.toList, c ≠ '|' := fun c hc => isWord_ne (ht c hc) not_word_pipe
  have hkq : ∀ c ∈ p.1.toList, c ≠ '\'' := fun c hc => isWord_ne (hk c hc) not_word_quote
  by_cases hty : p.2.toList = []
  · have e : p.2 = "" := by
      rw [← String.toList_inj, hty]; rfl
    simp only [parsePipeItem, printPipeItem, hty, if_true, List.append_nil, splitChar_none hkp,
      trimQuotes_id hkq, String.ofList_toList]
    rw [← e]
  · simp only [parsePipeItem, printPipeItem, hty, if_false, splitChar_two hkp htp,
      trimQuotes_id hkq, String.ofList_toList]

theorem printPipeItem_ne_nil (p : String × String) (h : p.1.toList ≠ []) : printPipeItem p ≠ [] := by
  simp [printPipeItem, h]

theorem parsePipe_print (ps : List (String × String))
    (h : ∀ p ∈ ps, (p.1.toList ≠ [] ∧ WordChars p.1) ∧ WordChars p.2) :
    parsePipe ('{' :: (joinWith ',' (ps.map printPipeItem) ++ ['}'])) = .ok (.pipe ps) := by
  have hj := findAll_join matchPipe PipeStop ',' (.inl rfl)
    (fun c rest hc => matchPipe_stop c rest (.inl hc))
    (ps.map printPipeItem) (by
      intro t ht
      simp only [List.mem_map] at ht
      obtain ⟨p, hp, rfl⟩ := ht
      exact ⟨printPipeItem_ne_nil p (h p hp).1.1, fun rest hr => matchPipe_item p (h p hp).1 (h p hp).2 rest hr⟩)
    ['}'] (stops_cons (.inr rfl) _)
  have h1 : findAll matchPipe 0 ['}'] = [] := by
    rw [findAll_nomatch matchPipe (matchPipe_stop '}' [] (.inl (.inr rfl)))]; rfl
  simp only [parsePipe]
  rw [findAll_nomatch matchPipe (matchPipe_stop '{' _ (.inr rfl)), hj, h1, List.append_nil,
    mapE_map_ok fun p hp => parsePipeItem_print p (h p hp).1.2 (h p hp).2]
  rfl

/-! ## Steps as tokens of `_FULLPATTERN` -/

theorem dotStop_quote {rest : List Char} (hr : Stops (· = '.') rest) : spanLen (· == '\'') rest = 0 := by
  cases rest with
  | nil => rfl
  | cons c r =>
    have : c = '.' := hr c (by simp)
    subst this; rfl

theorem matchFull_quoted_rest {k : List Char} (hk : ∀ c ∈ k, c ≠ '\'') (rest : List Char)
    (hr : Stops (· = '.') rest) :
    matchFull ('\'' :: (k ++ '\'' :: rest)) = some (k.length + 2) := by
  have hk' : ∀ c ∈ k, (c != '\'') = true := fun c hc => by simpa using hk c hc
  have h1 : spanLen (· != '\'') (k ++ '\'' :: rest) = k.length := by
    rw [spanLen_append hk']; simp [spanLen]
  simp only [matchFull, mQuoted, beq_self_eq_true, if_true, h1]
  simp [spanLen, dotStop_quote hr]
  omega

theorem mBracket_ok (o c : Char) {body : List Char} (hb : ∀ y ∈ body, y ≠ o ∧ y ≠ c) (rest : List Char) :
    mBracket o c (o :: (body ++ c :: rest)) = some (body.length + 2) := by
  have hb' : ∀ y ∈ body, (y != o && y != c) = true := by
    intro y hy; simp [hb y hy]
  have h1 : spanLen (fun y => y != o && y != c) (body ++ c :: rest) = body.length := by
    rw [spanLen_append hb']; simp [spanLen]
  simp [mBracket, h1]

theorem matchFull_lbra {body : List Char} (hb : ∀ y ∈ body, y ≠ '[' ∧ y ≠ ']') (rest : List Char) :
    matchFull ('[' :: (body ++ ']' :: rest)) = some (body.length + 2) := by
  have e1 : ('[' == '\'') = false := by decide
  simp [matchFull, mQuoted, e1, mLit, List.isPrefixOf, mWord, spanLen, not_word_lbra, mBracket_ok '[' ']' hb]

theorem matchFull_lcur {body : List Char} (hb : ∀ y ∈ body, y ≠ '{' ∧ y ≠ '}') (rest : List Char) :
    matchFull ('{' :: (body ++ '}' :: rest)) = some (body.length + 2) := by
  have e1 : ('{' == '\'') = false := by decide
  have e2 : mBracket '[' ']' ('{' :: (body ++ '}' :: rest)) = none := by simp [mBracket]
  simp [matchFull, mQuoted, e1, mLit, List.isPrefixOf, mWord, spanLen, not_word_lcur, e2,
    mBracket_ok '{' '}' hb]

theorem printPipeItem_chars (p : String × String) (hk : WordChars p.1) (ht : WordChars p.2) :
    ∀ c ∈ printPipeItem p, isWord c = true ∨ c = '|' := by
  intro c hc
  simp only [printPipeItem, List.mem_append] at hc
  rcases hc with h | h
  · exact .inl (hk c h)
  · split at h
    · cases h
    · simp only [List.mem_cons] at h
      rcases h with rfl | h
      · exact .inr rfl
      · exact .inl (ht c h)

theorem pipeBody_safe (ps : List (String × String))
    (h : ∀ p ∈ ps, (p.1.toList ≠ [] ∧ WordChars p.1) ∧ WordChars p.2) :
    ∀ c ∈ joinWith ',' (ps.map printPipeItem), c ≠ '{' ∧ c ≠ '}' ∧ c ≠ ' ' := by
  intro c hc
  rcases mem_joinWith hc with rfl | ⟨w, hw, hcw⟩
  · decide
  · simp only [List.mem_map] at hw
    obtain ⟨p, hp, rfl⟩ := hw
    rcases printPipeItem_chars p (h p hp).1.2 (h p hp).2 c hcw with hcw | rfl
    · exact ⟨isWord_ne hcw not_word_lcur, isWord_ne hcw not_word_rcur, isWord_ne hcw not_word_space⟩
    · decide

theorem printStep_ne_nil (st : Step) : printStep st ≠ [] := by
  cases st <;> simp [printStep]

/-- a printed step is one token of `_FULLPATTERN` when followed by `.` or nothing -/
theorem matchFull_printStep (st : Step) (hst : st.WF) (rest : List Char) (hr : Stops (· = '.') rest) :
    matchFull (printStep st ++ rest) = some (printStep st).length := by
  cases st with
  | key k =>
    have := matchFull_quoted_rest hst rest hr
    simpa [printStep] using this
  | dims ds =>
    have := matchFull_lbra (body := printDims ds)
      (fun y hy => ⟨(printDims_safe ds y hy).1, (printDims_safe ds y hy).2.1⟩) rest
    simpa [printStep] using this
  | keep ds =>
    have hk : ∀ c ∈ kwKeep, c ≠ '[' ∧ c ≠ ']' := by decide
    have := matchFull_lbra (body := kwKeep ++ printDims ds)
      (fun y hy => by
        simp only [List.mem_append] at hy
        rcases hy with h | h
        · exact hk y h
        · exact ⟨(printDims_safe ds y h).1, (printDims_safe ds y h).2.1⟩) rest
    simp only [printStep, List.cons_append, List.append_assoc, List.length_cons, List.length_append,
      List.length_nil, List.nil_append] at this ⊢
    rw [this]; congr 1
  | pipe ps =>
    have := matchFull_lcur (body := joinWith ',' (ps.map printPipeItem))
      (fun y hy => ⟨(pipeBody_safe ps hst y hy).1, (pipeBody_safe ps hst y hy).2.1⟩) rest
    simpa [printStep] using this

theorem trimBoth_id {q : Char} {w : List Char} (h : ∀ c ∈ w, c ≠ q) : trimBoth q w = w := by
  simp [trimBoth, trimLeft_id h, trimRight_id h]

theorem parseTok_printStep (st : Step) (hst : st.WF) : parseTok (printStep st) = .ok st := by
  cases st with
  | key k =>
    have := parseTok_quoted hst
    simpa [printStep, String.ofList_toList] using this
  | dims ds =>
    have hsp : ∀ c ∈ '[' :: (printDims ds ++ [']']), c ≠ ' ' := by
      intro c hc
      simp only [List.mem_cons, List.mem_append, List.not_mem_nil, or_false] at hc
      rcases hc with rfl | h | rfl
      · decide
      · exact (printDims_safe ds c h).2.2
      · decide
    simp only [printStep, parseTok, beq_self_eq_true, if_true, trimBoth_id hsp]
    exact parseArray_dims ds hst
  | keep ds =>
    have hk : ∀ c ∈ kwKeep, c ≠ ' ' := by decide
    have hsp : ∀ c ∈ '[' :: (kwKeep ++ (printDims ds ++ [']'])), c ≠ ' ' := by
      intro c hc
      simp only [List.mem_cons, List.mem_append, List.not_mem_nil, or_false] at hc
      rcases hc with rfl | h | h | rfl
      · decide
      · exact hk c h
      · exact (printDims_safe ds c h).2.2
      · decide
    simp only [printStep, parseTok, beq_self_eq_true, if_true, trimBoth_id hsp]
    exact parseArray_keep ds hst
  | pipe ps =>
    have e : ('{' == '[') = false := by decide
    simp only [printStep, parseTok, e, Bool.false_eq_true, if_false, beq_self_eq_true, if_true]
    exact parsePipe_print ps hst

theorem parseSteps_print (steps : List Step) (h : ∀ s ∈ steps, s.WF) :
    mapE parseTok (findAll matchFull 0 (printSteps steps)) = .ok steps := by
  have := findAll_join matchFull (· = '.') '.' rfl (fun c rest hc => by subst hc; exact matchFull_dot rest)
    (steps.map printStep) (by
      intro t ht
      simp only [List.mem_map] at ht
      obtain ⟨st, hst, rfl⟩ := ht
      exact ⟨printStep_ne_nil st, fun rest hr => matchFull_printStep st (h st hst) rest hr⟩) [] (stops_nil _)
  simp only [List.append_nil, findAll_nil] at this
  rw [printSteps, this]
  exact mapE_map_ok fun st hst => parseTok_printStep st (h st hst)

/-! ## The head of the selector -/

theorem splitFn_nil : splitFn [] = (none, []) := rfl

theorem splitFn_nonword_head {c : Char} (cs : List Char) (hc : isWord c = false) (hne : c ≠ '=') :
    splitFn (c :: cs) = (none, c :: cs) := by
  unfold splitFn
  split
  · rename_i f rest h
    obtain ⟨f', rfl⟩ := splitArrow_head hne h
    simp [hc]
  · rfl

theorem printSteps_head (steps : List Step) :
    printSteps steps = [] ∨ ∃ c r, printSteps steps = c :: r ∧ isWord c = false ∧ c ≠ '=' := by
  cases steps with
  | nil => exact .inl rfl
  | cons st steps =>
    right
    have hh : ∃ c t, printStep st = c :: t ∧ isWord c = false ∧ c ≠ '=' := by
      cases st with
      | key k => exact ⟨_, _, rfl, by decide, by decide⟩
      | dims ds => exact ⟨_, _, rfl, by decide, by decide⟩
      | keep ds => exact ⟨_, _, rfl, by decide, by decide⟩
      | pipe ps => exact ⟨_, _, rfl, by decide, by decide⟩
    obtain ⟨c, t, ht, hc, hne⟩ := hh
    obtain ⟨r, hr⟩ := joinWith_head (sep := '.') (c := c) (t := t) (ts := steps.map printStep)
    exact ⟨c, r, by simp [printSteps, ht, hr], hc, hne⟩

/-- **print/parse round trip**: every well-formed selector AST is read back from its text -/
theorem parse_print (p : Parsed) (hp : p.WF) : parseSelectorL (printSel p) = .ok p := by
  obtain ⟨fn, steps⟩ := p
  obtain ⟨hf, hs⟩ := hp
  cases fn with
  | none =>
    have hsplit : splitFn (printSteps steps) = (none, printSteps steps) := by
      rcases printSteps_head steps with h | ⟨c, r, h, hc, hne⟩
      · rw [h]; rfl
      · rw [h]; exact splitFn_nonword_head r hc hne
    simp only [printSel, parseSelectorL, hsplit, parseSteps_print steps hs]
    rfl
  | some f =>
    have hfw : ∀ c ∈ f.toList, isWord c = true := hf f rfl
    simp only [printSel, parseSelectorL_fn hfw, parseSteps_print steps hs, String.ofList_toList]
    rfl

end Genql.Sel
