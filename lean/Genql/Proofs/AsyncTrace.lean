/-
  The per-call event order of the wait-group model: in every reachable state the events emitted
  so far on behalf of a waited call are a prefix — determined by the state — of
  `wgAdd, go, invoke, (store,) wgDone, wgWait, (post)`.
-/
import Genql.Proofs.AsyncInv

namespace Genql.Async
variable {A V : Type}

/-- States reachable together with the trace emitted on the way. -/
inductive ReachT (q : Query A V) : St V → List (Nat × Ev) → Prop
  | init : ReachT q init []
  | step {s s' tr t} : ReachT q s tr → step q s t = some s' → ReachT q s' (tr ++ emits q s t)

theorem ReachT.reach {q : Query A V} {s : St V} {tr : List (Nat × Ev)} (r : ReachT q s tr) :
    Reach q s := by
  induction r with
  | init => exact .init
  | step _ st ih => exact .step ih st

theorem reachT_run (q : Query A V) : ∀ (sched : List Nat) (s : St V) (tr : List (Nat × Ev)),
    ReachT q s tr → ReachT q (run q s sched) (tr ++ trace q s sched)
  | [], _, _, r => by simpa [run, trace] using r
  | t :: ts, s, tr, r => by
    unfold run trace
    split
    · rename_i s' hs
      have := reachT_run q ts s' _ (.step r hs)
      simpa [List.append_assoc] using this
    · exact reachT_run q ts s tr r

theorem proj_append (c : Nat) (a b : List (Nat × Ev)) : proj c (a ++ b) = proj c a ++ proj c b := by
  simp [proj]

/-- Events of the goroutine body executed so far. -/
def taskEvs (st : Strategy) : Task → List Ev
  | .unspawned => []
  | .pending => []
  | .ran => [.invoke]
  | .stored => [.invoke, .store]
  | .done => if st = .async then [.invoke, .store, .wgDone] else [.invoke, .wgDone]

/-- The events call `c` has performed, as a function of the state. -/
def expected (q : Query A V) (s : St V) (c : Nat) : List Ev :=
  if c < s.pc then
    [.wgAdd, .go] ++ taskEvs (q.strat c) (s.task c) ++ (if s.phase.past then [.wgWait] else []) ++
      (if s.phase.past && (q.strat c == .async) && !(pendingPosts s).contains c then [.post] else [])
  else if c = s.pc ∧ s.phase = .run true then [.wgAdd] else []

structure TraceInv (q : Query A V) (s : St V) (tr : List (Nat × Ev)) : Prop where
  pr : ∀ c, c < q.total → (q.strat c).waited = true → proj c tr = expected q s c
  nodup : (pendingPosts s).Nodup
  runposts : ∀ a, s.phase = .run a → ∀ c, c < s.pc → q.strat c = .async → c ∈ s.posts

theorem tinv_init (q : Query A V) : TraceInv q (init : St V) [] where
  pr := by intro c _ _; simp [proj, expected, init]
  nodup := by simp [pendingPosts, init]
  runposts := by simp [init]

/-- Generic step: the trace grows by `es`, and for every waited call the state-determined
    event list grows by the projection of `es`. -/
theorem tinv_of {q : Query A V} {s s' : St V} {tr es : List (Nat × Ev)} (hT : TraceInv q s tr)
    (hpr : ∀ c, c < q.total → (q.strat c).waited = true →
      expected q s' c = expected q s c ++ proj c es)
    (hnd : (pendingPosts s').Nodup)
    (hrp : ∀ a, s'.phase = .run a → ∀ c, c < s'.pc → q.strat c = .async → c ∈ s'.posts) :
    TraceInv q s' (tr ++ es) where
  pr := by intro c hc hw; rw [proj_append, hT.pr c hc hw, hpr c hc hw]
  nodup := hnd
  runposts := hrp

theorem pendingPosts_congr {s s' : St V} (hph : s'.phase = s.phase) (hposts : s'.posts = s.posts) :
    pendingPosts s' = pendingPosts s := by
  simp [pendingPosts, hph, hposts]

theorem expected_congr {q : Query A V} {s s' : St V} {c : Nat} (hpc : s'.pc = s.pc)
    (hph : s'.phase = s.phase) (hposts : s'.posts = s.posts) (htask : s'.task c = s.task c) :
    expected q s' c = expected q s c := by
  simp [expected, hpc, hph, htask, pendingPosts_congr hph hposts]

theorem proj_single_ne {c c0 : Nat} {e : Ev} (hne : c ≠ c0) (he : e ≠ .wgWait) :
    proj c [(c0, e)] = [] := by
  have : ¬ c0 = c := fun x => hne x.symm
  simp [proj, this, he]

theorem proj_single_same {c : Nat} {e : Ev} : proj c [(c, e)] = [e] := by
  simp [proj]

theorem proj_nil (c : Nat) : proj c [] = [] := rfl

/-- A goroutine step of call `c0` that emits `e`. -/
theorem tinv_task {q : Query A V} {s s' : St V} {tr : List (Nat × Ev)} {c0 : Nat} {x : Task} {e : Ev}
    (h : Inv q s) (hT : TraceInv q s tr) (hopen : (s.task c0).isOpen = true)
    (hpc : s'.pc = s.pc) (hph : s'.phase = s.phase) (hposts : s'.posts = s.posts)
    (htask : s'.task = upd s.task c0 x) (he : e ≠ .wgWait)
    (hev : (q.strat c0).waited = true →
      taskEvs (q.strat c0) x = taskEvs (q.strat c0) (s.task c0) ++ [e]) :
    TraceInv q s' (tr ++ [(c0, e)]) := by
  have hst : s.task c0 ≠ .unspawned := by intro e; rw [e] at hopen; cases hopen
  have hlt : c0 < s.pc := h.lt_of_started hst
  refine tinv_of hT ?_ (by rw [pendingPosts_congr hph hposts]; exact hT.nodup) ?_
  · intro c hc hw
    by_cases hne : c = c0
    · subst hne
      have hnp : s.phase.past = false := by
        cases hp : s.phase.past
        · rfl
        · have := h.alldone hp c hc hw; rw [this] at hopen; cases hopen
      rw [proj_single_same]
      simp [expected, hpc, hph, hlt, hnp, htask, hev hw]
    · rw [proj_single_ne hne he, List.append_nil]
      exact expected_congr hpc hph hposts (by rw [htask, upd_ne _ _ hne])
  · intro a ha c hc hs
    rw [hpc] at hc; rw [hph] at ha; rw [hposts]
    exact hT.runposts a ha c hc hs

/-- The SPIN goroutine finishing: no event. -/
theorem tinv_task_silent {q : Query A V} {s s' : St V} {tr : List (Nat × Ev)} {c0 : Nat} {x : Task}
    (hT : TraceInv q s tr) (hnw : (q.strat c0).waited = false)
    (hpc : s'.pc = s.pc) (hph : s'.phase = s.phase) (hposts : s'.posts = s.posts)
    (htask : s'.task = upd s.task c0 x) : TraceInv q s' (tr ++ []) := by
  refine tinv_of hT ?_ (by rw [pendingPosts_congr hph hposts]; exact hT.nodup) ?_
  · intro c hc hw
    have hne : c ≠ c0 := by intro e; subst e; rw [hnw] at hw; cases hw
    rw [proj_nil, List.append_nil]
    exact expected_congr hpc hph hposts (by rw [htask, upd_ne _ _ hne])
  · intro a ha c hc hs
    rw [hpc] at hc; rw [hph] at ha; rw [hposts]
    exact hT.runposts a ha c hc hs

theorem tinv_stepTask {q : Query A V} {s s' : St V} {tr : List (Nat × Ev)} {c : Nat}
    (h : Inv q s) (hT : TraceInv q s tr) (st : stepTask q s c = some s') :
    TraceInv q s' (tr ++ emits q s (c + 1)) := by
  unfold stepTask at st
  unfold emits
  split at st
  · rename_i ht
    cases st
    simp only [ht]
    exact tinv_task h hT (by rw [ht]; rfl) rfl rfl rfl rfl (by simp)
      (by intro _; simp [taskEvs, ht])
  · rename_i ht hs
    cases st
    simp only [ht, hs]
    exact tinv_task h hT (by rw [ht]; rfl) rfl rfl rfl rfl (by simp)
      (by intro _; simp [taskEvs, ht])
  · rename_i ht hs
    cases st
    simp only [ht, hs]
    exact tinv_task h hT (by rw [ht]; rfl) rfl rfl rfl rfl (by simp)
      (by intro _; simp [taskEvs, ht, hs])
  · rename_i ht hs
    cases st
    simp only [ht, hs]
    exact tinv_task_silent hT (by simp [hs, Strategy.waited]) rfl rfl rfl rfl
  · rename_i ht
    cases st
    have hst : s.task c ≠ .unspawned := by rw [ht]; simp
    have hok := h.tstate c (h.spawns_of_started hst)
    simp only [taskOk, ht] at hok
    simp only [ht]
    exact tinv_task h hT (by rw [ht]; rfl) rfl rfl rfl rfl (by simp)
      (by intro _; simp [taskEvs, ht, hok.2.1])
  · cases st

theorem proj_tagged_ne {c c0 : Nat} {es : List (Nat × Ev)}
    (hes : ∀ x, x ∈ es → x.1 = c0 ∧ x.2 ≠ .wgWait) (hne : c ≠ c0) : proj c es = [] := by
  simp only [proj, List.map_eq_nil_iff, List.filter_eq_nil_iff]
  intro x hx
  have := hes x hx
  have h1 : ¬ x.1 = c := by rw [this.1]; exact fun e => hne e.symm
  simp [h1, this.2]

/-- The main goroutine moves past the current call. -/
theorem tinv_advance {q : Query A V} {s s' : St V} {tr es : List (Nat × Ev)} {added : Bool}
    (_h : Inv q s) (hT : TraceInv q s tr) (hph : s.phase = .run added)
    (hpc : s'.pc = s.pc + 1) (hph' : s'.phase = .run false)
    (htask : ∀ c, c ≠ s.pc → s'.task c = s.task c)
    (hes : ∀ x, x ∈ es → x.1 = s.pc ∧ x.2 ≠ .wgWait)
    (hw : (q.strat s.pc).waited = true → added = true ∧ es = [(s.pc, .go)] ∧ s'.task s.pc = .pending)
    (hnd : s'.posts.Nodup) (hsub : ∀ c, c ∈ s.posts → c ∈ s'.posts)
    (hA : q.strat s.pc = .async → s.pc ∈ s'.posts) :
    TraceInv q s' (tr ++ es) := by
  refine tinv_of hT ?_ (by simpa [pendingPosts, hph'] using hnd) ?_
  · intro c hc hwc
    by_cases hne : c = s.pc
    · subst hne
      obtain ⟨ha, he, ht⟩ := hw hwc
      subst ha
      rw [he, proj_single_same]
      simp [expected, hpc, hph', hph, ht, taskEvs, Phase.past]
    · rw [proj_tagged_ne hes hne, List.append_nil]
      by_cases hlt : c < s.pc
      · have : c < s.pc + 1 := by omega
        simp [expected, hpc, hph', hph, hlt, this, htask c hne, Phase.past]
      · have h1 : ¬ c < s.pc + 1 := by omega
        simp [expected, hpc, hph', hlt, h1, hne]
  · intro a _ c hc hs
    rw [hpc] at hc
    by_cases hne : c = s.pc
    · subst hne; exact hA hs
    · exact hsub c (hT.runposts added hph c (by omega) hs)

theorem tinv_evalCall {q : Query A V} {s : St V} {tr : List (Nat × Ev)} {added : Bool} (h : Inv q s)
    (hT : TraceInv q s tr) (hph : s.phase = .run added) (hlt : s.pc < q.total) :
    TraceInv q (evalCall q s added) (tr ++ emits q s 0) := by
  have hnd : s.posts.Nodup := by simpa [pendingPosts, hph] using hT.nodup
  unfold emits evalCall
  simp only [hph, hlt, if_true]
  split
  · -- rejected
    rename_i hrej
    have hadd : added = false := by
      cases added
      · rfl
      · have := (h.added hph).2.2; rw [hrej] at this; cases this
    subst hadd
    refine tinv_of hT ?_ (by simpa [pendingPosts, hph] using hT.nodup) (by simp)
    intro c hc hw
    simp [expected, hph, proj_nil, pendingPosts, Phase.past]
  · rename_i hrej
    split
    · -- plain
      rename_i hs
      exact tinv_advance h hT hph rfl
        (by have := h.run_false_of_not_waited hph (by simp [hs, Strategy.waited]); simp [this])
        (fun _ _ => rfl) (by simp) (by simp [hs, Strategy.waited]) hnd (fun _ x => x)
        (by simp [hs])
    · -- once
      rename_i hs
      have hadd := h.run_false_of_not_waited hph (by simp [hs, Strategy.waited])
      split
      · exact tinv_advance h hT hph rfl (by simp [hadd])
          (fun _ _ => rfl) (by simp) (by simp [hs, Strategy.waited]) hnd (fun _ x => x)
          (by simp [hs])
      · exact tinv_advance h hT hph rfl (by simp [hadd])
          (fun _ _ => rfl) (by simp) (by simp [hs, Strategy.waited]) hnd (fun _ x => x)
          (by simp [hs])
    · -- spin
      rename_i hs
      have hadd := h.run_false_of_not_waited hph (by simp [hs, Strategy.waited])
      exact tinv_advance h hT hph rfl (by simp [hadd])
        (fun c hne => by simp [upd_ne _ _ hne]) (by simp) (by simp [hs, Strategy.waited]) hnd
        (fun _ x => x) (by simp [hs])
    · -- async
      rename_i hs
      cases added
      · -- wg.Add(1)
        simp only [Bool.false_eq_true, if_false]
        refine tinv_of hT ?_ (by simpa [pendingPosts, hph] using hT.nodup) ?_
        · intro c hc hw
          by_cases hne : c = s.pc
          · subst hne; simp [expected, hph, proj_single_same]
          · rw [proj_single_ne hne (by simp), List.append_nil]
            simp [expected, hph, hne, pendingPosts, Phase.past]
        · intro a _ c hc hs'; exact hT.runposts false hph c hc hs'
      · simp only [if_true]
        have hnot : s.pc ∉ s.posts := by
          intro hm
          have := (h.pend s.pc (by simpa [pendingPosts, hph] using hm)).1
          omega
        exact tinv_advance h hT hph rfl rfl (fun c hne => by simp [upd_ne _ _ hne]) (by simp)
          (fun _ => ⟨rfl, rfl, by simp⟩)
          (by simp only [List.nodup_append, hnd, true_and]; simp; intro a ha e; exact hnot (e ▸ ha))
          (fun c x => by simp [x]) (by simp)
    · -- spinasync
      rename_i hs
      cases added
      · simp only [Bool.false_eq_true, if_false]
        refine tinv_of hT ?_ (by simpa [pendingPosts, hph] using hT.nodup) ?_
        · intro c hc hw
          by_cases hne : c = s.pc
          · subst hne; simp [expected, hph, proj_single_same]
          · rw [proj_single_ne hne (by simp), List.append_nil]
            simp [expected, hph, hne, pendingPosts, Phase.past]
        · intro a _ c hc hs'; exact hT.runposts false hph c hc hs'
      · simp only [if_true]
        exact tinv_advance h hT hph rfl rfl (fun c hne => by simp [upd_ne _ _ hne]) (by simp)
          (fun _ => ⟨rfl, rfl, by simp⟩) hnd (fun _ x => x) (by simp [hs])

theorem tinv_stepMain {q : Query A V} {s s' : St V} {tr : List (Nat × Ev)} (h : Inv q s)
    (hT : TraceInv q s tr) (st : stepMain q s = some s') : TraceInv q s' (tr ++ emits q s 0) := by
  unfold stepMain at st
  split at st
  · rename_i added hph
    split at st
    · rename_i hlt; cases st; exact tinv_evalCall h hT hph hlt
    · rename_i hlt
      split at st
      · -- `wg.Wait()` returns
        rename_i hwg
        cases st
        have hadd : added = false := by
          cases added
          · rfl
          · exact absurd (h.added hph).1 hlt
        subst hadd
        have hpc : s.pc = q.total := by have := h.pc_le; omega
        unfold emits
        simp only [hph, hlt, hwg, if_true, if_false]
        refine tinv_of hT ?_ (by simpa [pendingPosts, hph] using hT.nodup) (by simp)
        intro c hc hw
        have hlt' : c < s.pc := by omega
        have hp : proj c [(0, Ev.wgWait)] = [.wgWait] := by simp [proj]
        rw [hp]
        by_cases ha : q.strat c = .async
        · have := hT.runposts false hph c hlt' ha
          simp [expected, hlt', hph, Phase.past, pendingPosts, ha, this]
        · simp [expected, hlt', hph, Phase.past, pendingPosts, ha]
      · cases st
  · -- a post-processor
    rename_i c0 rest hph
    cases st
    unfold emits
    simp only [hph]
    have hnd : (c0 :: rest).Nodup := by simpa [pendingPosts, hph] using hT.nodup
    have hc0 := h.pend c0 (by simp [pendingPosts, hph])
    refine tinv_of hT ?_ (by simpa [pendingPosts] using (List.nodup_cons.1 hnd).2) (by simp)
    intro c hc hw
    by_cases hne : c = c0
    · subst hne
      have hnot : c ∉ rest := (List.nodup_cons.1 hnd).1
      rw [proj_single_same]
      simp [expected, hc0.1, hph, Phase.past, pendingPosts, hc0.2, hnot]
    · rw [proj_single_ne hne (by simp), List.append_nil]
      simp [expected, hph, Phase.past, pendingPosts, hne]
  · -- return
    rename_i hph
    cases st
    unfold emits
    simp only [hph]
    refine tinv_of hT ?_ (by simp [pendingPosts]) (by simp)
    intro c hc hw
    simp [expected, hph, Phase.past, pendingPosts, proj_nil]
  · cases st
  · cases st

theorem tinv_reach {q : Query A V} {s : St V} {tr : List (Nat × Ev)} (r : ReachT q s tr) :
    TraceInv q s tr := by
  induction r with
  | init => exact tinv_init q
  | step r st ih =>
    rename_i s1 s2 tr1 t
    have h := inv_reach r.reach
    cases t with
    | zero => exact tinv_stepMain h ih st
    | succ c => exact tinv_stepTask h ih st

/-- In every state reachable with trace `tr`, the events of a waited call are exactly the
    state-determined prefix of the protocol order. -/
theorem trace_expected (q : Query A V) (sched : List Nat) (c : Nat) (hc : c < q.total)
    (hw : (q.strat c).waited = true) :
    proj c (trace q (init : St V) sched) = expected q (run q (init : St V) sched) c := by
  have r := reachT_run q sched init [] .init
  simp only [List.nil_append] at r
  exact (tinv_reach r).pr c hc hw

end Genql.Async
