/-
  Genql.Proofs.ScanArr — `FindArrayIndex` / `FixIdiomaticArray`: the index bookkeeping
  (FIFO pairing, successive string surgery with `offset += 5`) computes a plain byte-wise rewrite.
-/
import Genql.Model.Scan
import Genql.Proofs.ScanBytes

namespace Genql.Scan

/-! ### specification-side vocabulary -/

/-- what the lexer part of the loop (`lexStep`) says about every byte -/
def kinds : Bool → Option UInt8 → List UInt8 → List Kind
  | _, _, [] => []
  | skip, hold, c :: cs =>
    (lexStep skip hold c).2.2 :: kinds (lexStep skip hold c).1 (lexStep skip hold c).2.1 cs

/-- bracket depth after reading `ks` starting at depth `d`; `none` = a `]` at depth 0 -/
def depthAfter : Nat → List Kind → Option Nat
  | d, [] => some d
  | d, .lb :: ks => depthAfter (d + 1) ks
  | 0, .rb :: _ => none
  | d + 1, .rb :: ks => depthAfter d ks
  | d, .other :: ks => depthAfter d ks

/-- the byte-wise rewrite: `[` ↦ `ARRAY(`, `]` ↦ `)` on active brackets, everything else copied -/
def rewriteK : List Kind → List UInt8 → List UInt8
  | k :: ks, c :: cs =>
    (match k with
      | .lb => tokARRAY ++ [bLp]
      | .rb => [bRp]
      | .other => [c]) ++ rewriteK ks cs
  | _, _ => []

/-- positions (counted from `i`) of the active `[` -/
def opens : Nat → List Kind → List Nat
  | _, [] => []
  | i, .lb :: ks => i :: opens (i + 1) ks
  | i, _ :: ks => opens (i + 1) ks

/-- positions of the active `]` -/
def closes : Nat → List Kind → List Nat
  | _, [] => []
  | i, .rb :: ks => i :: closes (i + 1) ks
  | i, _ :: ks => closes (i + 1) ks

@[simp] theorem kinds_length (skip : Bool) (hold : Option UInt8) (s : List UInt8) :
    (kinds skip hold s).length = s.length := by
  induction s generalizing skip hold with
  | nil => rfl
  | cons c cs ih => simp [kinds, ih]

/-! ### `FindArrayIndex` = FIFO pairing -/

/-- the loop of `FindArrayIndex` on kinds, with the output split into the closed pairs and the
    still-open `[` positions (`none` = error) -/
def fbAbs : List Kind → Nat → List (Nat × Nat) → List Nat → Option (List (Nat × Nat))
  | [], _, closed, pending => some (closed ++ pending.map (·, 0))
  | .other :: ks, i, closed, pending => fbAbs ks (i + 1) closed pending
  | .lb :: ks, i, closed, pending => fbAbs ks (i + 1) closed (pending ++ [i])
  | .rb :: _, _, _, [] => none
  | .rb :: ks, i, closed, p :: ps => fbAbs ks (i + 1) (closed ++ [(p, i)]) ps

def ofOption {α : Type} : Option α → R α
  | some a => .ok a
  | none => .error .error

theorem fbLoop_eq_abs (cs : List UInt8) (skip : Bool) (hold : Option UInt8) (i : Nat)
    (closed : List (Nat × Nat)) (pending : List Nat) :
    fbLoop cs skip hold i (closed ++ pending.map (·, 0))
        (List.range' closed.length pending.length) (closed.length + pending.length)
      = ofOption (fbAbs (kinds skip hold cs) i closed pending) := by
  induction cs generalizing skip hold i closed pending with
  | nil => simp [fbLoop, kinds, fbAbs, ofOption]
  | cons c cs ih =>
    rcases hl : lexStep skip hold c with ⟨sk, ho, k⟩
    cases k with
    | other => simp only [fbLoop, kinds, hl, fbAbs]; exact ih ..
    | lb =>
      simp only [fbLoop, kinds, hl, fbAbs]
      have := ih sk ho (i + 1) closed (pending ++ [i])
      simp only [List.map_append, List.map_cons, List.map_nil, List.length_append,
        List.length_cons, List.length_nil, Nat.zero_add, ← List.append_assoc] at this
      rw [← this, List.range'_concat]; simp [Nat.add_assoc]
    | rb =>
      cases pending with
      | nil => simp [fbLoop, kinds, hl, fbAbs, ofOption]
      | cons p ps =>
        simp only [fbLoop, kinds, hl, fbAbs, List.length_cons, List.range'_succ, List.map_cons]
        have hs : setEnd (closed ++ (p, 0) :: ps.map (·, 0)) closed.length i
            = .ok ((closed ++ [(p, i)]) ++ ps.map (·, 0)) := by
          simp [setEnd]
        rw [hs]
        have := ih sk ho (i + 1) (closed ++ [(p, i)]) ps
        simp only [List.length_append, List.length_cons, List.length_nil, Nat.zero_add] at this
        rw [← this, show closed.length + (ps.length + 1) = closed.length + 1 + ps.length by omega]

/-- pair the `[` positions with the `]` positions in order; leftover `[` get end 0 -/
def zipPad : List Nat → List Nat → List (Nat × Nat)
  | [], _ => []
  | l :: L, [] => (l, 0) :: zipPad L []
  | l :: L, c :: C => (l, c) :: zipPad L C

theorem fbAbs_eq (ks : List Kind) (i : Nat) (closed : List (Nat × Nat)) (pending : List Nat) :
    fbAbs ks i closed pending =
      if (depthAfter pending.length ks).isSome
      then some (closed ++ zipPad (pending ++ opens i ks) (closes i ks)) else none := by
  induction ks generalizing i closed pending with
  | nil =>
    simp only [fbAbs, depthAfter, Option.isSome_some, if_true, opens, closes, List.append_nil]
    congr 2
    induction pending with
    | nil => rfl
    | cons p ps ihp => simp [zipPad, ihp]
  | cons k ks ih =>
    cases k with
    | other => simp only [fbAbs, depthAfter, opens, closes]; exact ih ..
    | lb =>
      simp only [fbAbs, depthAfter, opens, closes]
      rw [ih]
      simp only [List.length_append, List.length_cons, List.length_nil, List.append_assoc,
        List.cons_append, List.nil_append, Nat.zero_add]
      rfl
    | rb =>
      cases pending with
      | nil => simp [fbAbs, depthAfter]
      | cons p ps =>
        simp only [fbAbs, depthAfter, opens, closes, List.length_cons, List.cons_append, zipPad]
        rw [ih]; simp

theorem findBracketsE_eq (s : List UInt8) :
    findBracketsE s =
      if (depthAfter 0 (kinds false none s)).isSome
      then .ok (zipPad (opens 0 (kinds false none s)) (closes 0 (kinds false none s)))
      else .error .error := by
  have := fbLoop_eq_abs s false none 0 [] []
  simp only [List.map_nil, List.append_nil, List.length_nil, List.range'_zero, Nat.add_zero] at this
  rw [findBracketsE, this, fbAbs_eq]
  simp only [List.length_nil, List.nil_append]
  split <;> simp [ofOption]

/-! ### facts about the position lists -/

theorem opens_bounds (ks : List Kind) (i : Nat) : ∀ x ∈ opens i ks, i ≤ x ∧ x < i + ks.length := by
  induction ks generalizing i with
  | nil => simp [opens]
  | cons k ks ih =>
    intro x hx
    cases k <;> simp only [opens, List.mem_cons] at hx <;> simp only [List.length_cons]
    · rcases hx with rfl | hx
      · omega
      · have := ih _ _ hx; omega
    · have := ih _ _ hx; omega
    · have := ih _ _ hx; omega

theorem closes_bounds (ks : List Kind) (i : Nat) : ∀ x ∈ closes i ks, i ≤ x ∧ x < i + ks.length := by
  induction ks generalizing i with
  | nil => simp [closes]
  | cons k ks ih =>
    intro x hx
    cases k <;> simp only [closes, List.mem_cons] at hx <;> simp only [List.length_cons]
    · have := ih _ _ hx; omega
    · rcases hx with rfl | hx
      · omega
      · have := ih _ _ hx; omega
    · have := ih _ _ hx; omega

theorem opens_pairwise (ks : List Kind) (i : Nat) : (opens i ks).Pairwise (· < ·) := by
  induction ks generalizing i with
  | nil => simp [opens]
  | cons k ks ih =>
    cases k <;> simp only [opens, List.pairwise_cons] <;> try exact ih _
    exact ⟨fun x hx => by have := opens_bounds _ _ x hx; omega, ih _⟩

theorem closes_not_opens (ks : List Kind) (i : Nat) : ∀ x ∈ closes i ks, x ∉ opens i ks := by
  induction ks generalizing i with
  | nil => simp [closes]
  | cons k ks ih =>
    intro x hx
    cases k <;> simp only [closes, List.mem_cons] at hx <;> simp only [opens, List.mem_cons, not_or]
    · have := closes_bounds _ _ x hx
      exact ⟨by omega, ih _ _ hx⟩
    · rcases hx with rfl | hx
      · intro h; have := opens_bounds _ _ _ h; omega
      · exact ih _ _ hx
    · exact ih _ _ hx

/-- `L` and `C` have the same length and are pointwise `L[k] < C[k] < n` -/
inductive Paired (n : Nat) : List Nat → List Nat → Prop
  | nil : Paired n [] []
  | cons {l c : Nat} {L C : List Nat} : l < c → c < n → Paired n L C → Paired n (l :: L) (c :: C)

theorem Paired.length_eq {n : Nat} {L C : List Nat} (h : Paired n L C) : L.length = C.length := by
  induction h with
  | nil => rfl
  | cons _ _ _ ih => simp [ih]

/-- balanced prefix-wise: the k-th `]` comes after the k-th `[` -/
theorem forall2_of_balanced (ks : List Kind) (i d n : Nat) (pending : List Nat)
    (hb : depthAfter d ks = some 0) (hd : pending.length = d) (hp : ∀ p ∈ pending, p < i)
    (hn : i + ks.length = n) :
    Paired n (pending ++ opens i ks) (closes i ks) := by
  induction ks generalizing i d pending with
  | nil =>
    simp only [depthAfter, Option.some.injEq] at hb
    subst hb
    simp only [List.length_eq_zero_iff] at hd
    subst hd
    exact Paired.nil
  | cons k ks ih =>
    simp only [List.length_cons] at hn
    cases k with
    | other =>
      simp only [depthAfter, opens, closes] at hb ⊢
      exact ih (i + 1) d pending hb hd (fun p h => by have := hp p h; omega) (by omega)
    | lb =>
      simp only [depthAfter, opens, closes] at hb ⊢
      have := ih (i + 1) (d + 1) (pending ++ [i]) hb (by simp [hd])
        (fun p h => by
          simp only [List.mem_append, List.mem_singleton] at h
          rcases h with h | rfl
          · have := hp p h; omega
          · omega) (by omega)
      simpa using this
    | rb =>
      cases d with
      | zero => simp [depthAfter] at hb
      | succ d =>
        cases pending with
        | nil => simp at hd
        | cons p ps =>
          simp only [depthAfter, opens, closes, List.cons_append] at hb ⊢
          refine Paired.cons (hp p (by simp)) (by omega) ?_
          exact ih (i + 1) d ps hb (by simpa using hd)
            (fun q h => by have := hp q (by simp [h]); omega) (by omega)

theorem depthAfter_count (ks : List Kind) (i d m : Nat) (h : depthAfter d ks = some m) :
    (closes i ks).length + m = d + (opens i ks).length := by
  induction ks generalizing i d with
  | nil => simp only [depthAfter, Option.some.injEq] at h; simp [opens, closes, h]
  | cons k ks ih =>
    cases k with
    | other => simp only [depthAfter, opens, closes] at h ⊢; exact ih _ _ h
    | lb =>
      simp only [depthAfter, opens, closes, List.length_cons] at h ⊢
      have := ih (i + 1) _ h; omega
    | rb =>
      cases d with
      | zero => simp [depthAfter] at h
      | succ d =>
        simp only [depthAfter, opens, closes, List.length_cons] at h ⊢
        have := ih (i + 1) _ h; omega

theorem zipPad_short (L C : List Nat) (h : C.length < L.length) :
    (zipPad L C).any (fun p => decide (p.2 ≤ p.1)) = true := by
  induction L generalizing C with
  | nil => simp at h
  | cons l L ih =>
    cases C with
    | nil => simp [zipPad]
    | cons c C =>
      simp only [zipPad, List.any_cons, Bool.or_eq_true]
      exact Or.inr (ih C (by simpa using h))

theorem zipPad_eq_zip (L C : List Nat) (h : L.length = C.length) : zipPad L C = L.zip C := by
  induction L generalizing C with
  | nil => simp [zipPad]
  | cons l L ih =>
    cases C with
    | nil => simp at h
    | cons c C => simp [zipPad, ih C (by simpa using h)]

/-! ### the successive rewrites of `FixIdiomaticArray` -/

/-- what the list of index pairs must satisfy for the `offset += 5` bookkeeping to be right:
    starts increasing (from `a`), every end after its start and inside the string (of length `n`),
    and no later start equal to an earlier end -/
def Good (n : Nat) : Nat → List (Nat × Nat) → Prop
  | _, [] => True
  | a, (s, e) :: ps => a ≤ s ∧ s < e ∧ e < n ∧ (∀ p ∈ ps, p.1 ≠ e) ∧ Good n (s + 1) ps

theorem Good_mem {n : Nat} (ps : List (Nat × Nat)) (a : Nat) (h : Good n a ps) :
    ∀ p ∈ ps, a ≤ p.1 ∧ p.1 < p.2 := by
  induction ps generalizing a with
  | nil => simp
  | cons q qs ih =>
    obtain ⟨s, e⟩ := q
    obtain ⟨h1, h2, _, _, h5⟩ := h
    intro p hp
    rcases List.mem_cons.1 hp with rfl | hp
    · exact ⟨h1, h2⟩
    · have := ih _ h5 p hp; omega

theorem good_zip (n : Nat) (L C : List Nat) (a : Nat)
    (hf : Paired n L C) (hL : L.Pairwise (· < ·))
    (hd : ∀ c ∈ C, c ∉ L) (ha : ∀ l ∈ L, a ≤ l) : Good n a (L.zip C) := by
  induction hf generalizing a with
  | nil => simp [Good]
  | @cons l c L C hlc hcn _ ih =>
    simp only [List.zip_cons_cons, Good]
    rw [List.pairwise_cons] at hL
    refine ⟨ha l (by simp), hlc, hcn, ?_, ?_⟩
    · intro p hp hpe
      have h1 := (List.of_mem_zip (a := p.1) (b := p.2) hp).1
      exact hd c (by simp) (by simp [← hpe, h1])
    · exact ih _ hL.2 (fun c' hc' hm => hd c' (by simp [hc']) (by simp [hm]))
        (fun l' hl' => by have := hL.1 l' hl'; omega)

/-- position-based description of the result: the byte at absolute position `i` becomes `ARRAY(` if
    `i ∈ O`, `)` if `i ∈ C`, and is copied otherwise -/
def specPos (O C : List Nat) : Nat → List UInt8 → List UInt8
  | _, [] => []
  | i, b :: X =>
    (if i ∈ O then tokARRAY ++ [bLp] else if i ∈ C then [bRp] else [b]) ++ specPos O C (i + 1) X

theorem specPos_append (O C : List Nat) (i : Nat) (U V : List UInt8) :
    specPos O C i (U ++ V) = specPos O C i U ++ specPos O C (i + U.length) V := by
  induction U generalizing i with
  | nil => simp [specPos]
  | cons u U ih => simp [specPos, ih, Nat.add_assoc, Nat.add_comm 1]

theorem specPos_congr (O C O' C' : List Nat) (i : Nat) (U : List UInt8)
    (h : ∀ j, i ≤ j → j < i + U.length → (j ∈ O ↔ j ∈ O') ∧ (j ∈ C ↔ j ∈ C')) :
    specPos O C i U = specPos O' C' i U := by
  induction U generalizing i with
  | nil => simp [specPos]
  | cons u U ih =>
    simp only [specPos]
    have h0 := h i (Nat.le_refl _) (by simp)
    rw [ih (i + 1) (fun j h1 h2 => h j (by omega) (by simp only [List.length_cons]; omega))]
    simp only [h0.1, h0.2]

theorem specPos_nil (i : Nat) (U : List UInt8) : specPos [] [] i U = U := by
  induction U generalizing i with
  | nil => rfl
  | cons u U ih => simp [specPos, ih]

theorem specPos_id (O C : List Nat) (i : Nat) (U : List UInt8)
    (h : ∀ j, i ≤ j → j < i + U.length → j ∉ O ∧ j ∉ C) : specPos O C i U = U := by
  rw [specPos_congr O C [] [] i U (fun j h1 h2 => by have := h j h1 h2; simp [this]), specPos_nil]

theorem slice_prefix (U V : List UInt8) (k : Nat) (h : U.length = k) :
    slice (U ++ V) 0 k = .ok U := by
  subst h; simp [slice]

theorem slice_mid (U W V : List UInt8) (lo hi : Nat) (h1 : U.length = lo) (h2 : lo + W.length = hi) :
    slice (U ++ W ++ V) lo hi = .ok W := by
  subst h1 h2
  have : (U ++ W ++ V).take (U.length + W.length) = U ++ W := by
    rw [← List.length_append]; exact List.take_left' rfl
  unfold slice
  rw [if_pos ⟨by omega, by simp only [List.length_append]; omega⟩, this, List.drop_left' rfl]

theorem slice_suffix (U V : List UInt8) (lo : Nat) (h : U.length = lo) :
    slice (U ++ V) lo (U ++ V).length = .ok V := by
  subst h
  unfold slice
  rw [if_pos ⟨by simp, Nat.le_refl _⟩, List.take_length, List.drop_left' rfl]

theorem split_at (X : List UInt8) (k : Nat) (h : k < X.length) :
    ∃ A x Y, X = A ++ x :: Y ∧ A.length = k :=
  ⟨X.take k, X[k], X.drop (k + 1), by simp, by simp; omega⟩

/-- Main lemma on the second loop of `FixIdiomaticArray`.  `P` is the part of the current string
    that is already final (it corresponds to the first `a` bytes of the original string and is
    `off` bytes longer), `X` the rest; rewriting the remaining pairs (all of which lie in `X`) with
    Go's offset arithmetic leaves `P` alone and turns `X` into its position-wise rewrite. -/
theorem fixLoop_spec (n : Nat) (pairs : List (Nat × Nat)) (a off : Nat) (P X : List UInt8)
    (hg : Good n a pairs) (hP : P.length = a + off) (hX : a + X.length = n) :
    fixLoop pairs off (P ++ X)
      = .ok (P ++ specPos (pairs.map (·.1)) (pairs.map (·.2)) a X) := by
  induction pairs generalizing a off P X with
  | nil => simp [fixLoop, specPos_nil]
  | cons q ps ih =>
    obtain ⟨s, e⟩ := q
    obtain ⟨h1, h2, h3, h4, h5⟩ := hg
    have hmem := Good_mem ps _ h5
    -- cut `X` at the two brackets
    obtain ⟨A, x, Y, rfl, hA⟩ := split_at X (s - a) (by omega)
    simp only [List.length_append, List.length_cons] at hX
    obtain ⟨B, y, D, rfl, hB⟩ := split_at Y (e - s - 1) (by omega)
    simp only [List.length_append, List.length_cons] at hX
    -- the three slices
    have e1 : slice (P ++ (A ++ x :: (B ++ y :: D))) 0 (s + off) = .ok (P ++ A) := by
      rw [← List.append_assoc]; exact slice_prefix _ _ _ (by simp; omega)
    have e2 : slice (P ++ (A ++ x :: (B ++ y :: D))) (s + off + 1) (e + off) = .ok B := by
      rw [show P ++ (A ++ x :: (B ++ y :: D)) = (P ++ A ++ [x]) ++ B ++ (y :: D) by simp]
      exact slice_mid _ _ _ _ _ (by simp; omega) (by omega)
    have e3 : slice (P ++ (A ++ x :: (B ++ y :: D))) (e + off + 1)
        (P ++ (A ++ x :: (B ++ y :: D))).length = .ok D := by
      have : P ++ (A ++ x :: (B ++ y :: D)) = (P ++ A ++ [x] ++ B ++ [y]) ++ D := by simp
      rw [this]
      exact slice_suffix _ _ _ (by simp; omega)
    simp only [fixLoop, e1, e2, e3]
    rw [show P ++ A ++ tokARRAY ++ [bLp] ++ B ++ [bRp] ++ D
        = (P ++ A ++ tokARRAY ++ [bLp]) ++ (B ++ bRp :: D) by simp]
    rw [ih (s + 1) (off + tokARRAY.length) _ _ h5 (by simp; omega)
      (by simp only [List.length_append, List.length_cons]; omega)]
    -- the position-wise rewrite of the original `X`
    simp only [List.map_cons]
    have sA : specPos (s :: ps.map (·.1)) (e :: ps.map (·.2)) a A = A := by
      apply specPos_id
      intro j hj1 hj2
      simp only [List.mem_cons, List.mem_map, not_or, not_exists, not_and]
      exact ⟨⟨by omega, fun p hp hpe => by have := hmem p hp; omega⟩,
        ⟨by omega, fun p hp hpe => by have := hmem p hp; omega⟩⟩
    have sB : specPos (s :: ps.map (·.1)) (e :: ps.map (·.2)) (s + 1) B
        = specPos (ps.map (·.1)) (ps.map (·.2)) (s + 1) B := by
      apply specPos_congr
      intro j hj1 hj2
      exact ⟨by simp [show j ≠ s by omega], by simp [show j ≠ e by omega]⟩
    have sD : specPos (s :: ps.map (·.1)) (e :: ps.map (·.2)) (e + 1) D
        = specPos (ps.map (·.1)) (ps.map (·.2)) (e + 1) D := by
      apply specPos_congr
      intro j hj1 hj2
      exact ⟨by simp [show j ≠ s by omega], by simp [show j ≠ e by omega]⟩
    have heO : e ∉ ps.map (·.1) := by
      simp only [List.mem_map, not_exists, not_and]
      exact fun p hp => h4 p hp
    have hse : ¬ (e = s) := by omega
    have hsB : s + 1 + B.length = e := by omega
    have key : specPos (s :: ps.map (·.1)) (e :: ps.map (·.2)) a (A ++ x :: (B ++ y :: D))
        = A ++ tokARRAY ++ [bLp] ++ specPos (ps.map (·.1)) (ps.map (·.2)) (s + 1) (B ++ bRp :: D) := by
      rw [show x :: (B ++ y :: D) = [x] ++ (B ++ ([y] ++ D)) by simp]
      rw [show B ++ bRp :: D = B ++ ([bRp] ++ D) by simp]
      simp only [specPos_append, sA, show a + A.length = s by omega, List.length_singleton, hsB,
        sB, sD]
      simp [specPos, heO, hse]
    rw [key]; simp

theorem specPos_eq_rewriteK (ks : List Kind) (X : List UInt8) (i : Nat) (O C : List Nat)
    (hlen : ks.length = X.length)
    (h : ∀ j, i ≤ j → (j ∈ O ↔ j ∈ opens i ks) ∧ (j ∈ C ↔ j ∈ closes i ks)) :
    specPos O C i X = rewriteK ks X := by
  induction ks generalizing X i with
  | nil =>
    cases X with
    | nil => rfl
    | cons _ _ => simp at hlen
  | cons k ks ih =>
    cases X with
    | nil => simp at hlen
    | cons b X =>
      have hi := h i (Nat.le_refl _)
      have hno : i ∉ opens (i + 1) ks := fun hm => by have := opens_bounds _ _ _ hm; omega
      have hnc : i ∉ closes (i + 1) ks := fun hm => by have := closes_bounds _ _ _ hm; omega
      have htail : specPos O C (i + 1) X = rewriteK ks X := by
        apply ih X (i + 1) (by simpa using hlen)
        intro j hj
        have hj' := h j (by omega)
        have hne : j ≠ i := by omega
        cases k <;> simpa [opens, closes, hne] using hj'
      simp only [specPos, rewriteK, htail]
      cases k <;> simp_all [opens, closes]

/-- **`FixIdiomaticArray` completely characterised.**  It succeeds exactly on the strings whose
    active brackets are balanced, and then its result is the byte-wise rewrite; otherwise it returns
    an error.  In particular no slice/index expression is ever out of range. -/
theorem fixArrE_eq (s : List UInt8) :
    fixArrE s =
      if depthAfter 0 (kinds false none s) = some 0
      then .ok (rewriteK (kinds false none s) s) else .error .error := by
  unfold fixArrE
  rw [findBracketsE_eq]
  generalize hks : kinds false none s = ks
  have hlen : ks.length = s.length := by rw [← hks]; simp
  cases hd : depthAfter 0 ks with
  | none => simp
  | some m =>
    cases m with
    | succ m =>
      have hc := depthAfter_count ks 0 0 _ hd
      have := zipPad_short (opens 0 ks) (closes 0 ks) (by omega)
      simp [this]
    | zero =>
      have hp := forall2_of_balanced ks 0 0 s.length [] hd rfl (by simp) (by simp [hlen])
      simp only [List.nil_append] at hp
      have hz := zipPad_eq_zip _ _ hp.length_eq
      have hg : Good s.length 0 ((opens 0 ks).zip (closes 0 ks)) :=
        good_zip _ _ _ 0 hp (opens_pairwise _ _) (closes_not_opens _ _) (by simp)
      have hany : ((opens 0 ks).zip (closes 0 ks)).any (fun p => decide (p.2 ≤ p.1)) = false := by
        rw [List.any_eq_false]
        intro p hp'
        have := Good_mem _ _ hg p hp'
        simp; omega
      simp only [Option.isSome_some, if_true, hz, hany]
      have := fixLoop_spec s.length _ 0 0 [] s hg rfl (by simp)
      simp only [List.nil_append] at this
      have hle := hp.length_eq
      rw [List.map_fst_zip (by omega), List.map_snd_zip (by omega)] at this
      simp only [Bool.false_eq_true, if_false, this]
      rw [specPos_eq_rewriteK ks s 0 _ _ hlen (fun _ _ => ⟨Iff.rfl, Iff.rfl⟩)]

end Genql.Scan
