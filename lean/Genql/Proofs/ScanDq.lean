/-
  Genql.Proofs.ScanDq — token-level behaviour of the `DoubleQuotesToBackTick` state machine.
-/
import Genql.Model.Scan
import Genql.Proofs.ScanBytes

namespace Genql.Scan

/-- prefix a successful run with already-written bytes -/
def pre (p : List UInt8) (r : R (List UInt8)) : R (List UInt8) :=
  match r with
  | .ok out => .ok (p ++ out)
  | .error e => .error e

@[simp] theorem pre_nil (r : R (List UInt8)) : pre [] r = r := by cases r <;> rfl
@[simp] theorem pre_pre (p q : List UInt8) (r : R (List UInt8)) : pre p (pre q r) = pre (p ++ q) r := by
  cases r <;> simp [pre]
@[simp] theorem emit_eq_pre (b : UInt8) (r : R (List UInt8)) : emit b r = pre [b] r := by
  cases r <;> rfl
@[simp] theorem pre_ok (p out : List UInt8) : pre p (.ok out) = .ok (p ++ out) := rfl

/-! ### tokens -/

/-- one unit of the body of a single-quoted literal -/
inductive SqItem
  | ch (c : UInt8)    -- an ordinary byte (anything but `'` and `\`: so `"`, `[`, `` ` `` … are allowed)
  | esc (d : UInt8)   -- `\d`, any `d` (in particular `\'` and `\\`)
  | dbl               -- `''`
  deriving Repr

def SqItem.ok : SqItem → Bool
  | .ch c => c ≠ bSq ∧ c ≠ bBs
  | _ => true

def SqItem.render : SqItem → List UInt8
  | .ch c => [c]
  | .esc d => [bBs, d]
  | .dbl => [bSq, bSq]

inductive Tok
  | raw (txt : List UInt8)      -- text outside quotes
  | sqlit (body : List SqItem)  -- `'…'`
  | btid (body : List UInt8)    -- `` `…` ``
  | ident (body : List UInt8)   -- an identifier: `"…"` in the Postgres spelling, `` `…` `` otherwise
  deriving Repr

def Tok.ok : Tok → Bool
  | .raw txt => txt.all (fun c => c ≠ bSq ∧ c ≠ bBt ∧ c ≠ bDq)
  | .sqlit body => body.all SqItem.ok
  | .btid body => body.all (fun c => c ≠ bBt)
  | .ident body => body.all (fun c => c ≠ bDq ∧ c ≠ bBs ∧ c ≠ bBt)

/-- `dqStyle = true`: identifiers in double quotes; `false`: in backticks.  Only `ident` looks at it. -/
def Tok.render (dqStyle : Bool) : Tok → List UInt8
  | .raw txt => txt
  | .sqlit body => bSq :: (body.flatMap SqItem.render ++ [bSq])
  | .btid body => bBt :: (body ++ [bBt])
  | .ident body => if dqStyle then bDq :: (body ++ [bDq]) else bBt :: (body ++ [bBt])

def render (dqStyle : Bool) (ts : List Tok) : List UInt8 := ts.flatMap (Tok.render dqStyle)

/-- What the preprocessor does to one token: an identifier changes its quote character, every
    other token is copied byte for byte. -/
def conv : Tok → List UInt8
  | .ident body => bBt :: (body ++ [bBt])
  | t => t.render true

def Tok.isIdent : Tok → Bool
  | .ident _ => true
  | _ => false

theorem conv_eq (t : Tok) : conv t = t.render false := by
  cases t <;> simp [conv, Tok.render]

theorem flatMap_congr' {α β : Type} {f g : α → List β} {l : List α} (h : ∀ a ∈ l, f a = g a) :
    l.flatMap f = l.flatMap g := by
  induction l with
  | nil => rfl
  | cons a l ih =>
    simp only [List.flatMap_cons, h a (by simp)]
    rw [ih (fun b hb => h b (by simp [hb]))]

/-! ### the scanner on token bodies -/

theorem scan_raw_body (txt rest : List UInt8)
    (h : txt.all (fun c => c ≠ bSq ∧ c ≠ bBt ∧ c ≠ bDq) = true) :
    scan .raw (txt ++ rest) = pre txt (scan .raw rest) := by
  induction txt with
  | nil => simp
  | cons c cs ih =>
    simp only [List.all_cons, Bool.and_eq_true, decide_eq_true_eq] at h
    obtain ⟨⟨h1, h2, h3⟩, hcs⟩ := h
    simp [scan, h1, h2, h3, ih hcs]

theorem scan_dq_body (body rest : List UInt8)
    (h : body.all (fun c => c ≠ bDq ∧ c ≠ bBs ∧ c ≠ bBt) = true) :
    scan .dq (body ++ bDq :: rest) = pre (body ++ [bBt]) (scan .raw rest) := by
  induction body with
  | nil => simp [scan]
  | cons c cs ih =>
    simp only [List.all_cons, Bool.and_eq_true, decide_eq_true_eq] at h
    obtain ⟨⟨h1, h2, _⟩, hcs⟩ := h
    simp [scan, h1, h2, ih hcs]

theorem scan_bt_body (body rest : List UInt8) (h : body.all (fun c => c ≠ bBt) = true) :
    scan .bt (body ++ bBt :: rest) = pre (body ++ [bBt]) (scan .raw rest) := by
  induction body with
  | nil => simp [scan]
  | cons c cs ih =>
    simp only [List.all_cons, Bool.and_eq_true, decide_eq_true_eq] at h
    obtain ⟨h1, hcs⟩ := h
    simp [scan, h1, ih hcs]

/-- A doubled quote closes the literal and reopens it, so the body is scanned in state `sq`,
    possibly passing through `raw`; whatever the items are, every byte is copied. -/
theorem scan_sq_body (body : List SqItem) (rest : List UInt8) (h : body.all SqItem.ok = true) :
    scan .sq (body.flatMap SqItem.render ++ bSq :: rest)
      = pre (body.flatMap SqItem.render ++ [bSq]) (scan .raw rest) := by
  induction body with
  | nil => simp [scan]
  | cons it its ih =>
    simp only [List.all_cons, Bool.and_eq_true] at h
    obtain ⟨hit, hits⟩ := h
    cases it with
    | ch c =>
      simp only [SqItem.ok, Bool.and_eq_true, decide_eq_true_eq, Bool.decide_and] at hit
      simp [SqItem.render, scan, hit.1, hit.2, ih hits]
    | esc d => simp [SqItem.render, scan, ih hits]
    | dbl => simp [SqItem.render, scan, ih hits]

theorem scan_render_aux (ts : List Tok) (rest : List UInt8) (h : ts.all Tok.ok = true) :
    scan .raw (render true ts ++ rest) = pre (render false ts) (scan .raw rest) := by
  induction ts with
  | nil => simp [render]
  | cons t ts ih =>
    simp only [List.all_cons, Bool.and_eq_true] at h
    obtain ⟨ht, hts⟩ := h
    have ih' : scan .raw (List.flatMap (Tok.render true) ts ++ rest)
        = pre (List.flatMap (Tok.render false) ts) (scan .raw rest) := ih hts
    cases t with
    | raw txt =>
      simp only [render, List.flatMap_cons, Tok.render, List.append_assoc]
      rw [scan_raw_body _ _ ht, ih']; simp
    | sqlit body =>
      simp only [render, List.flatMap_cons, Tok.render, List.cons_append, List.append_assoc,
        List.nil_append]
      rw [show scan .raw (bSq :: (List.flatMap SqItem.render body ++
            bSq :: (List.flatMap (Tok.render true) ts ++ rest)))
          = emit bSq (scan .sq (List.flatMap SqItem.render body ++
            bSq :: (List.flatMap (Tok.render true) ts ++ rest))) by simp [scan]]
      rw [scan_sq_body _ _ ht, ih']; simp
    | btid body =>
      simp only [render, List.flatMap_cons, Tok.render, List.cons_append, List.append_assoc,
        List.nil_append]
      rw [show scan .raw (bBt :: (body ++ bBt :: (List.flatMap (Tok.render true) ts ++ rest)))
          = emit bBt (scan .bt (body ++ bBt :: (List.flatMap (Tok.render true) ts ++ rest))) by
        simp [scan]]
      rw [scan_bt_body _ _ ht, ih']; simp
    | ident body =>
      simp only [render, List.flatMap_cons, Tok.render, List.cons_append, List.append_assoc,
        List.nil_append, if_true, Bool.false_eq_true, if_false]
      rw [show scan .raw (bDq :: (body ++ bDq :: (List.flatMap (Tok.render true) ts ++ rest)))
          = emit bBt (scan .dq (body ++ bDq :: (List.flatMap (Tok.render true) ts ++ rest))) by
        simp [scan]]
      rw [scan_dq_body _ _ ht, ih']; simp

/-- the scanner never produces a panic outcome (there is no index expression left in it: every
    `str[k]` of the Go code is guarded by a loop condition or by the explicit `i+1 == len(str)` test,
    which the flattening turns into pattern matches) and no out-of-model outcome -/
theorem scan_error (st : DqSt) (s : List UInt8) (e : Err) (h : scan st s = .error e) : e = .error := by
  induction s generalizing st with
  | nil => cases st <;> simp_all [scan]
  | cons c cs ih =>
    have hp : ∀ (p : List UInt8) (r : R (List UInt8)), pre p r = .error e → r = .error e := by
      intro p r; cases r <;> simp [pre]
    cases st <;> simp only [scan, emit_eq_pre] at h <;> (repeat' split at h) <;>
      first
        | exact ih _ (hp _ _ (hp _ _ h))
        | exact ih _ (hp _ _ h)
        | exact ih _ h

end Genql.Scan
