/-
  Invariant of the wait-group protocol model (`Genql.Model.Async`) and its preservation by every
  step of every thread.  Used by `Genql.Properties.C14`.
-/
import Genql.Model.Async

namespace Genql.Async
variable {A V : Type}

/-! ### `upd` -/

@[simp] theorem upd_same {β : Type} (g : Nat → β) (i : Nat) (b : β) : upd g i b i = b := by simp [upd]
theorem upd_ne {β : Type} (g : Nat → β) {i j : Nat} (b : β) (h : j ≠ i) : upd g i b j = g j := by
  simp [upd, h]

/-! ### Counting open goroutines -/

def Task.isOpen : Task → Bool
  | .pending | .ran | .stored => true
  | _ => false

/-- `1` if call `c` is registered with the wait group and its goroutine has not called `Done`. -/
def wgt (q : Query A V) (task : Nat → Task) (c : Nat) : Nat :=
  if (q.strat c).waited && (task c).isOpen then 1 else 0

/-- Number of waited-for goroutines among calls `< k` that are started and not done. -/
def openC (q : Query A V) (task : Nat → Task) : Nat → Nat
  | 0 => 0
  | k + 1 => openC q task k + wgt q task k

theorem openC_upd_ge (q : Query A V) (task : Nat → Task) (c : Nat) (x : Task) :
    ∀ k, k ≤ c → openC q (upd task c x) k = openC q task k
  | 0, _ => rfl
  | k + 1, h => by
    have hk : k ≠ c := by omega
    simp [openC, openC_upd_ge q task c x k (by omega), wgt, upd_ne _ _ hk]

theorem openC_upd_lt (q : Query A V) (task : Nat → Task) (c : Nat) (x : Task) :
    ∀ k, c < k → openC q (upd task c x) k + wgt q task c = openC q task k + wgt q (upd task c x) c
  | 0, h => by omega
  | k + 1, h => by
    by_cases hk : k = c
    · subst hk
      simp only [openC, openC_upd_ge q task k x k (Nat.le_refl k)]
      omega
    · have ih := openC_upd_lt q task c x k (by omega)
      have : wgt q (upd task c x) k = wgt q task k := by simp [wgt, upd_ne _ _ hk]
      simp only [openC, this]
      omega

theorem openC_zero_done (q : Query A V) (task : Nat → Task) :
    ∀ k, openC q task k = 0 → ∀ c, c < k → (q.strat c).waited = true → (task c).isOpen = false
  | 0, _, c, hc, _ => by omega
  | k + 1, h, c, hc, hw => by
    simp only [openC] at h
    by_cases e : c = k
    · subst e
      have : wgt q task c = 0 := by omega
      simp only [wgt, hw, Bool.true_and] at this
      cases ho : (task c).isOpen
      · rfl
      · simp [ho] at this
    · exact openC_zero_done q task k (by omega) c (by omega) hw

/-! ### The invariant -/

/-- Post-processors that have been registered and have not run yet. -/
def pendingPosts (s : St V) : List Nat :=
  match s.phase with
  | .run _ => s.posts
  | .post rest => rest
  | .returned => []
  | .failed => s.posts

/-- Main goroutine is past `wg.Wait()`. -/
def Phase.past : Phase → Bool
  | .post _ | .returned => true
  | _ => false

/-- What the state of a goroutine says about the call counter and the captured variable. -/
def taskOk (q : Query A V) (s : St V) (c : Nat) : Prop :=
  match s.task c with
  | .unspawned => s.invoked c = 0 ∧ s.slot c = none
  | .pending => s.invoked c = 0 ∧ s.slot c = none
  | .ran => s.invoked c = 1 ∧ s.slot c = none
  | .stored => s.invoked c = 1 ∧ q.strat c = .async ∧ s.slot c = some (q.value c)
  | .done => s.invoked c = 1 ∧ (q.strat c = .async → s.slot c = some (q.value c))

/-- The ONCE memo of function `m`. -/
def memoOk (q : Query A V) (s : St V) (m : Nat) : Prop :=
  match s.onceFirst m with
  | none => s.memo m = none ∧ s.onceCount m = 0
  | some c0 => c0 < s.pc ∧ q.strat c0 = .once ∧ q.name c0 = m ∧
      s.memo m = some (q.value c0) ∧ s.onceCount m = 1

structure Inv (q : Query A V) (s : St V) : Prop where
  pc_le : s.pc ≤ q.total
  past_pc : s.phase.past = true → s.pc = q.total
  added : s.phase = .run true → s.pc < q.total ∧ (q.strat s.pc).waited = true ∧ q.rejected s.pc = false
  wgc : s.wg = openC q s.task s.pc + (if s.phase = .run true then 1 else 0)
  ahead : ∀ c, s.pc ≤ c → s.task c = .unspawned ∧ s.invoked c = 0 ∧ s.col c = .absent
  behind : ∀ c, c < s.pc → q.rejected c = false
  spawned : ∀ c, c < s.pc → (q.strat c).spawns = true → s.task c ≠ .unspawned
  inline : ∀ c, (q.strat c).spawns = false → s.task c = .unspawned ∧ s.slot c = none
  tstate : ∀ c, (q.strat c).spawns = true → taskOk q s c
  alldone : s.phase.past = true → ∀ c, c < q.total → (q.strat c).waited = true → s.task c = .done
  plainc : ∀ c, c < s.pc → q.strat c = .plain → s.invoked c = 1 ∧ s.col c = .val (some (q.value c))
  nocol : ∀ c, (q.strat c = .spin ∨ q.strat c = .spinasync) → s.col c = .absent
  acol : ∀ c, c < s.pc → q.strat c = .async → s.col c = .ptr ∨ s.col c = .val (some (q.value c))
  aptr : ∀ c, s.col c = .ptr → c ∈ pendingPosts s
  pend : ∀ c, c ∈ pendingPosts s → c < s.pc ∧ q.strat c = .async
  omemo : ∀ m, memoOk q s m
  ocall : ∀ c, c < s.pc → q.strat c = .once → ∃ c0, s.onceFirst (q.name c) = some c0 ∧ c0 ≤ c ∧
    s.col c = .val (some (q.value c0)) ∧ s.invoked c = (if c0 = c then 1 else 0)

theorem inv_init (q : Query A V) : Inv q (init : St V) where
  pc_le := Nat.zero_le _
  past_pc := by simp [init, Phase.past]
  added := by simp [init]
  wgc := by simp [init, openC]
  ahead := by simp [init]
  behind := by simp [init]
  spawned := by simp [init]
  inline := by simp [init]
  tstate := by simp [init, taskOk]
  alldone := by simp [init, Phase.past]
  plainc := by simp [init]
  nocol := by simp [init]
  acol := by simp [init]
  aptr := by simp [init]
  pend := by simp [init, pendingPosts]
  omemo := by simp [init, memoOk]
  ocall := by simp [init]

/-- A started goroutine belongs to a call the main goroutine has already passed. -/
theorem Inv.lt_of_started {q : Query A V} {s : St V} (h : Inv q s) {c : Nat}
    (hc : s.task c ≠ .unspawned) : c < s.pc := by
  apply Classical.byContradiction
  intro hn
  exact hc (h.ahead c (by omega)).1

theorem Inv.spawns_of_started {q : Query A V} {s : St V} (h : Inv q s) {c : Nat}
    (hc : s.task c ≠ .unspawned) : (q.strat c).spawns = true := by
  cases hs : (q.strat c).spawns
  · exact absurd (h.inline c hs).1 hc
  · rfl

theorem upd_self {β : Type} (g : Nat → β) (i : Nat) : upd g i (g i) = g := by
  funext j; by_cases h : j = i <;> simp [upd, h]

/-! ### Steps of a spawned goroutine -/

/-- The state after the goroutine of call `c` moved to `x`. -/
def tstep (s : St V) (c : Nat) (x : Task) (iv : Nat) (sl : Option V) (w : Nat) : St V :=
  { s with task := upd s.task c x, invoked := upd s.invoked c iv, slot := upd s.slot c sl, wg := w }

theorem inv_task {q : Query A V} {s : St V} (h : Inv q s) (c : Nat) (x : Task) (iv : Nat)
    (sl : Option V) (w : Nat)
    (hopen : (s.task c).isOpen = true) (hx : x ≠ .unspawned)
    (hok : taskOk q (tstep s c x iv sl w) c)
    (hw : w + wgt q s.task c = s.wg + wgt q (upd s.task c x) c) :
    Inv q (tstep s c x iv sl w) := by
  have hst : s.task c ≠ .unspawned := by intro e; rw [e] at hopen; cases hopen
  have hlt : c < s.pc := h.lt_of_started hst
  have hsp : (q.strat c).spawns = true := h.spawns_of_started hst
  have hnotpast : s.phase.past = true → (q.strat c).waited = false := by
    intro hp
    cases hwt : (q.strat c).waited
    · rfl
    · have := h.alldone hp c (by have := h.pc_le; omega) hwt
      rw [this] at hopen; cases hopen
  have hplain : q.strat c ≠ .plain := by intro e; rw [e] at hsp; cases hsp
  have honce : q.strat c ≠ .once := by intro e; rw [e] at hsp; cases hsp
  refine
    { pc_le := h.pc_le, past_pc := h.past_pc, added := h.added, wgc := ?_, ahead := ?_,
      behind := h.behind, spawned := ?_, inline := ?_, tstate := ?_, alldone := ?_, plainc := ?_,
      nocol := h.nocol, acol := h.acol, aptr := h.aptr, pend := h.pend, omemo := h.omemo,
      ocall := ?_ }
  · have e1 := openC_upd_lt q s.task c x s.pc hlt
    have e2 := h.wgc
    show w = openC q (upd s.task c x) s.pc + _
    show w = openC q (upd s.task c x) s.pc + (if s.phase = .run true then 1 else 0)
    omega
  · intro c' hc'
    have hc'' : s.pc ≤ c' := hc'
    have hne : c' ≠ c := by omega
    have := h.ahead c' hc''
    simpa [tstep, upd_ne _ _ hne] using this
  · intro c' hc' hs'
    by_cases hne : c' = c
    · subst hne; simpa [tstep] using hx
    · simpa [tstep, upd_ne _ _ hne] using h.spawned c' hc' hs'
  · intro c' hs'
    have hne : c' ≠ c := by intro e; subst e; rw [hsp] at hs'; cases hs'
    simpa [tstep, upd_ne _ _ hne] using h.inline c' hs'
  · intro c' hs'
    by_cases hne : c' = c
    · subst hne; exact hok
    · have := h.tstate c' hs'
      simpa [taskOk, tstep, upd_ne _ _ hne] using this
  · intro hp c' hc' hw'
    have hne : c' ≠ c := by
      intro e; subst e
      have := hnotpast hp; rw [this] at hw'; cases hw'
    simpa [tstep, upd_ne _ _ hne] using h.alldone hp c' hc' hw'
  · intro c' hc' hs'
    have hne : c' ≠ c := by intro e; subst e; exact hplain hs'
    simpa [tstep, upd_ne _ _ hne] using h.plainc c' hc' hs'
  · intro c' hc' hs'
    have hne : c' ≠ c := by intro e; subst e; exact honce hs'
    simpa [tstep, upd_ne _ _ hne] using h.ocall c' hc' hs'

theorem inv_stepTask {q : Query A V} {s s' : St V} {c : Nat} (h : Inv q s)
    (st : stepTask q s c = some s') : Inv q s' := by
  unfold stepTask at st
  split at st
  · -- pending → ran
    rename_i ht
    cases st
    have hst : s.task c ≠ .unspawned := by rw [ht]; exact Task.noConfusion
    have hok := h.tstate c (h.spawns_of_started hst)
    simp only [taskOk, ht] at hok
    have := inv_task h c .ran (s.invoked c + 1) (s.slot c) s.wg (by rw [ht]; rfl) Task.noConfusion
      (by simp [taskOk, tstep, hok.1, hok.2]) (by simp [wgt, ht, Task.isOpen])
    simpa [tstep, upd_self] using this
  · -- ran → stored (ASYNC)
    rename_i ht hs
    cases st
    have hst : s.task c ≠ .unspawned := by rw [ht]; exact Task.noConfusion
    have hok := h.tstate c (h.spawns_of_started hst)
    simp only [taskOk, ht] at hok
    have := inv_task h c .stored (s.invoked c) (some (q.value c)) s.wg (by rw [ht]; rfl)
      Task.noConfusion (by simp [taskOk, tstep, hok.1, hs]) (by simp [wgt, ht, Task.isOpen])
    simpa [tstep, upd_self] using this
  · -- ran → done (SPINASYNC), `wg.Done()`
    rename_i ht hs
    cases st
    have hst : s.task c ≠ .unspawned := by rw [ht]; exact Task.noConfusion
    have hok := h.tstate c (h.spawns_of_started hst)
    simp only [taskOk, ht] at hok
    have hpos : 0 < s.wg := by
      have e1 := openC_upd_lt q s.task c .done s.pc (h.lt_of_started hst)
      have e2 := h.wgc
      have : wgt q s.task c = 1 := by simp [wgt, ht, hs, Task.isOpen, Strategy.waited]
      have : wgt q (upd s.task c .done) c = 0 := by simp [wgt, Task.isOpen]
      omega
    have := inv_task h c .done (s.invoked c) (s.slot c) (s.wg - 1) (by rw [ht]; rfl)
      Task.noConfusion (by simp [taskOk, tstep, hok.1, hs])
      (by simp [wgt, ht, hs, Task.isOpen, Strategy.waited]; omega)
    simpa [tstep, upd_self] using this
  · -- ran → done (SPIN)
    rename_i ht hs
    cases st
    have hst : s.task c ≠ .unspawned := by rw [ht]; exact Task.noConfusion
    have hok := h.tstate c (h.spawns_of_started hst)
    simp only [taskOk, ht] at hok
    have := inv_task h c .done (s.invoked c) (s.slot c) s.wg (by rw [ht]; rfl)
      Task.noConfusion (by simp [taskOk, tstep, hok.1, hs])
      (by simp [wgt, hs, Strategy.waited])
    simpa [tstep, upd_self] using this
  · -- stored → done (ASYNC), `wg.Done()`
    rename_i ht
    cases st
    have hst : s.task c ≠ .unspawned := by rw [ht]; exact Task.noConfusion
    have hok := h.tstate c (h.spawns_of_started hst)
    simp only [taskOk, ht] at hok
    have hs := hok.2.1
    have hpos : 0 < s.wg := by
      have e1 := openC_upd_lt q s.task c .done s.pc (h.lt_of_started hst)
      have e2 := h.wgc
      have : wgt q s.task c = 1 := by simp [wgt, ht, hs, Task.isOpen, Strategy.waited]
      have : wgt q (upd s.task c .done) c = 0 := by simp [wgt, Task.isOpen]
      omega
    have := inv_task h c .done (s.invoked c) (s.slot c) (s.wg - 1) (by rw [ht]; rfl)
      Task.noConfusion (by simp [taskOk, tstep, hok.1, hok.2.2])
      (by simp [wgt, ht, hs, Task.isOpen, Strategy.waited]; omega)
    simpa [tstep, upd_self] using this
  · cases st

/-! ### Steps of the main goroutine -/

theorem spawns_of_waited {st : Strategy} (h : st.waited = true) : st.spawns = true := by
  cases st <;> simp_all [Strategy.waited, Strategy.spawns]

theorem memoOk_mono {q : Query A V} {s s' : St V} {m : Nat} (h : memoOk q s m)
    (h1 : s'.onceFirst m = s.onceFirst m) (h2 : s'.memo m = s.memo m)
    (h3 : s'.onceCount m = s.onceCount m) (h4 : s.pc ≤ s'.pc) : memoOk q s' m := by
  unfold memoOk at *
  rw [h1, h2, h3]
  cases hf : s.onceFirst m with
  | none => simpa [hf] using h
  | some c0 =>
    simp only [hf] at h ⊢
    exact ⟨by omega, h.2⟩

/-- `wg.Add(1)` of a waited call. -/
theorem inv_add {q : Query A V} {s : St V} (h : Inv q s) (hph : s.phase = .run false)
    (hlt : s.pc < q.total) (hrej : q.rejected s.pc = false) (hw : (q.strat s.pc).waited = true) :
    Inv q { s with phase := .run true, wg := s.wg + 1 } where
  pc_le := h.pc_le
  past_pc := by simp [Phase.past]
  added := fun _ => ⟨hlt, hw, hrej⟩
  wgc := by have := h.wgc; simp [hph] at this; simp [this]
  ahead := h.ahead
  behind := h.behind
  spawned := h.spawned
  inline := h.inline
  tstate := h.tstate
  alldone := by simp [Phase.past]
  plainc := h.plainc
  nocol := h.nocol
  acol := h.acol
  aptr := by have := h.aptr; simpa [pendingPosts, hph] using this
  pend := by have := h.pend; simpa [pendingPosts, hph] using this
  omemo := fun m => memoOk_mono (h.omemo m) rfl rfl rfl (Nat.le_refl _)
  ocall := h.ocall

/-- An immediate function with a goroutine qualifier: `Exec` fails. -/
theorem inv_reject {q : Query A V} {s : St V} (h : Inv q s) (hph : s.phase = .run false) :
    Inv q { s with phase := .failed } where
  pc_le := h.pc_le
  past_pc := by simp [Phase.past]
  added := by simp
  wgc := by have := h.wgc; simp [hph] at this; simp [this]
  ahead := h.ahead
  behind := h.behind
  spawned := h.spawned
  inline := h.inline
  tstate := h.tstate
  alldone := by simp [Phase.past]
  plainc := h.plainc
  nocol := h.nocol
  acol := h.acol
  aptr := by have := h.aptr; simpa [pendingPosts, hph] using this
  pend := by have := h.pend; simpa [pendingPosts, hph] using this
  omemo := fun m => memoOk_mono (h.omemo m) rfl rfl rfl (Nat.le_refl _)
  ocall := h.ocall

theorem done_of_not_open {t : Task} (h1 : t.isOpen = false) (h2 : t ≠ .unspawned) : t = .done := by
  cases t <;> simp_all [Task.isOpen]

/-- `wg.Wait()` returns. -/
theorem inv_wait {q : Query A V} {s : St V} (h : Inv q s) (hph : s.phase = .run false)
    (hpc : ¬ s.pc < q.total) (hwg : s.wg = 0) : Inv q { s with phase := .post s.posts } := by
  have hpc' : s.pc = q.total := by have := h.pc_le; omega
  have hopen : openC q s.task s.pc = 0 := by have := h.wgc; simp [hph] at this; omega
  exact
  { pc_le := h.pc_le
    past_pc := fun _ => hpc'
    added := by simp
    wgc := by simp [hwg, hopen]
    ahead := h.ahead
    behind := h.behind
    spawned := h.spawned
    inline := h.inline
    tstate := h.tstate
    alldone := by
      intro _ c hc hw
      have hc' : c < s.pc := by omega
      exact done_of_not_open (openC_zero_done q s.task s.pc hopen c hc' hw)
        (h.spawned c hc' (spawns_of_waited hw))
    plainc := h.plainc
    nocol := h.nocol
    acol := h.acol
    aptr := by have := h.aptr; simpa [pendingPosts, hph] using this
    pend := by have := h.pend; simpa [pendingPosts, hph] using this
    omemo := fun m => memoOk_mono (h.omemo m) rfl rfl rfl (Nat.le_refl _)
    ocall := h.ocall }

/-- The last post-processor has run: `Exec` returns. -/
theorem inv_return {q : Query A V} {s : St V} (h : Inv q s) (hph : s.phase = .post []) :
    Inv q { s with phase := .returned } where
  pc_le := h.pc_le
  past_pc := fun _ => h.past_pc (by simp [hph, Phase.past])
  added := by simp
  wgc := by have := h.wgc; simp [hph] at this; simp [this]
  ahead := h.ahead
  behind := h.behind
  spawned := h.spawned
  inline := h.inline
  tstate := h.tstate
  alldone := fun _ => h.alldone (by simp [hph, Phase.past])
  plainc := h.plainc
  nocol := h.nocol
  acol := h.acol
  aptr := by have := h.aptr; simpa [pendingPosts, hph] using this
  pend := by simp [pendingPosts]
  omemo := fun m => memoOk_mono (h.omemo m) rfl rfl rfl (Nat.le_refl _)
  ocall := h.ocall

/-- One post-processor copies the captured variable into the row. -/
theorem inv_post {q : Query A V} {s : St V} {c : Nat} {rest : List Nat} (h : Inv q s)
    (hph : s.phase = .post (c :: rest)) :
    Inv q { s with phase := .post rest, col := upd s.col c (.val (s.slot c)) } := by
  have hpast : s.phase.past = true := by simp [hph, Phase.past]
  have hc := h.pend c (by simp [pendingPosts, hph])
  have hpc := h.past_pc hpast
  have hdone := h.alldone hpast c (by omega) (by simp [hc.2, Strategy.waited])
  have hslot : s.slot c = some (q.value c) := by
    have := h.tstate c (by simp [hc.2, Strategy.spawns])
    simp only [taskOk, hdone] at this
    exact this.2 hc.2
  exact
  { pc_le := h.pc_le
    past_pc := fun _ => hpc
    added := by simp
    wgc := by have := h.wgc; simp [hph] at this; simp [this]
    ahead := by
      intro c' hc'
      have hc'' : s.pc ≤ c' := hc'
      have hne : c' ≠ c := by omega
      simpa [upd_ne _ _ hne] using h.ahead c' hc''
    behind := h.behind
    spawned := h.spawned
    inline := h.inline
    tstate := h.tstate
    alldone := fun _ => h.alldone hpast
    plainc := by
      intro c' hc' hs'
      have hne : c' ≠ c := by intro e; subst e; rw [hc.2] at hs'; cases hs'
      simpa [upd_ne _ _ hne] using h.plainc c' hc' hs'
    nocol := by
      intro c' hs'
      have hne : c' ≠ c := by intro e; subst e; rw [hc.2] at hs'; cases hs' <;> contradiction
      simpa [upd_ne _ _ hne] using h.nocol c' hs'
    acol := by
      intro c' hc' hs'
      by_cases hne : c' = c
      · subst hne; simp [hslot]
      · simpa [upd_ne _ _ hne] using h.acol c' hc' hs'
    aptr := by
      intro c' hp
      by_cases hne : c' = c
      · subst hne; simp at hp
      · have hp' : s.col c' = .ptr := by simpa [upd_ne _ _ hne] using hp
        have := h.aptr c' hp'
        simp [pendingPosts, hph, hne] at this
        simpa [pendingPosts] using this
    pend := by
      intro c' hm
      have hm' : c' ∈ rest := by simpa [pendingPosts] using hm
      exact h.pend c' (by simp [pendingPosts, hph, hm'])
    omemo := fun m => memoOk_mono (h.omemo m) rfl rfl rfl (Nat.le_refl _)
    ocall := by
      intro c' hc' hs'
      have hne : c' ≠ c := by intro e; subst e; rw [hc.2] at hs'; cases hs'
      simpa [upd_ne _ _ hne] using h.ocall c' hc' hs' }

/-- `go func(){…}()` for the current call (after `wg.Add(1)` when it is waited for); `cl`/`ps`
    are the new column and post-processor list. -/
theorem inv_spawn {q : Query A V} {s : St V} (h : Inv q s) (cl : Cell V) (ps : List Nat)
    (hph : s.phase = .run (q.strat s.pc).waited) (hlt : s.pc < q.total)
    (hrej : q.rejected s.pc = false) (hsp : (q.strat s.pc).spawns = true)
    (hA : q.strat s.pc = .async → cl = .ptr ∧ ps = s.posts ++ [s.pc])
    (hN : q.strat s.pc ≠ .async → cl = .absent ∧ ps = s.posts) :
    Inv q { s with pc := s.pc + 1, phase := .run false, task := upd s.task s.pc .pending,
                   col := upd s.col s.pc cl, posts := ps } := by
  have hah := h.ahead s.pc (Nat.le_refl _)
  have hps : ∀ c', c' ∈ ps → c' ∈ s.posts ∨ (c' = s.pc ∧ q.strat s.pc = .async) := by
    intro c' hm
    by_cases ha : q.strat s.pc = .async
    · rw [(hA ha).2] at hm
      simp at hm
      cases hm with
      | inl x => exact Or.inl x
      | inr x => exact Or.inr ⟨x, ha⟩
    · rw [(hN ha).2] at hm; exact Or.inl hm
  have hsub : ∀ c', c' ∈ s.posts → c' ∈ ps := by
    intro c' hm
    by_cases ha : q.strat s.pc = .async
    · rw [(hA ha).2]; simp [hm]
    · rw [(hN ha).2]; exact hm
  exact
  { pc_le := hlt
    past_pc := by simp [Phase.past]
    added := by simp
    wgc := by
      have e := h.wgc
      have e2 := openC_upd_ge q s.task s.pc .pending s.pc (Nat.le_refl _)
      simp only [openC, e2, upd_same, wgt, Task.isOpen, Bool.and_true]
      rw [hph] at e
      cases hw : (q.strat s.pc).waited <;> simp [hw] at e ⊢ <;> omega
    ahead := by
      intro c' hc'
      have hc'' : s.pc + 1 ≤ c' := hc'
      have hne : c' ≠ s.pc := by omega
      simpa [upd_ne _ _ hne] using h.ahead c' (by omega)
    behind := by
      intro c' hc'
      have hc'' : c' < s.pc + 1 := hc'
      by_cases hne : c' = s.pc
      · subst hne; exact hrej
      · exact h.behind c' (by omega)
    spawned := by
      intro c' hc' hs'
      have hc'' : c' < s.pc + 1 := hc'
      by_cases hne : c' = s.pc
      · subst hne; simp
      · simpa [upd_ne _ _ hne] using h.spawned c' (by omega) hs'
    inline := by
      intro c' hs'
      have hne : c' ≠ s.pc := by intro e; subst e; rw [hsp] at hs'; cases hs'
      simpa [upd_ne _ _ hne] using h.inline c' hs'
    tstate := by
      intro c' hs'
      by_cases hne : c' = s.pc
      · subst hne
        have := h.tstate _ hs'
        simp only [taskOk, hah.1] at this
        simpa [taskOk] using this
      · have := h.tstate c' hs'
        simpa [taskOk, upd_ne _ _ hne] using this
    alldone := by simp [Phase.past]
    plainc := by
      intro c' hc' hs'
      have hc'' : c' < s.pc + 1 := hc'
      have hne : c' ≠ s.pc := by intro e; subst e; rw [hs'] at hsp; cases hsp
      simpa [upd_ne _ _ hne] using h.plainc c' (by omega) hs'
    nocol := by
      intro c' hs'
      by_cases hne : c' = s.pc
      · subst hne
        have : q.strat s.pc ≠ .async := by intro e; rw [e] at hs'; cases hs' <;> contradiction
        simp [(hN this).1]
      · simpa [upd_ne _ _ hne] using h.nocol c' hs'
    acol := by
      intro c' hc' hs'
      have hc'' : c' < s.pc + 1 := hc'
      by_cases hne : c' = s.pc
      · subst hne; simp [(hA hs').1]
      · simpa [upd_ne _ _ hne] using h.acol c' (by omega) hs'
    aptr := by
      intro c' hp
      show c' ∈ ps
      by_cases hne : c' = s.pc
      · subst hne
        by_cases ha : q.strat s.pc = .async
        · rw [(hA ha).2]; simp
        · simp [(hN ha).1] at hp
      · have hp' : s.col c' = .ptr := by simpa [upd_ne _ _ hne] using hp
        have := h.aptr c' hp'
        simp only [pendingPosts, hph] at this
        exact hsub c' this
    pend := by
      intro c' hm
      have hm' : c' ∈ ps := hm
      show c' < s.pc + 1 ∧ _
      cases hps c' hm' with
      | inl x =>
        have := h.pend c' (by simpa [pendingPosts, hph] using x)
        exact ⟨by omega, this.2⟩
      | inr x => exact ⟨by omega, by rw [x.1]; exact x.2⟩
    omemo := fun m => memoOk_mono (h.omemo m) rfl rfl rfl (Nat.le_succ _)
    ocall := by
      intro c' hc' hs'
      have hc'' : c' < s.pc + 1 := hc'
      have hne : c' ≠ s.pc := by intro e; subst e; rw [hs'] at hsp; cases hsp
      simpa [upd_ne _ _ hne] using h.ocall c' (by omega) hs' }

/-- The state after the main goroutine evaluated the current call inline. -/
def istep (s : St V) (iv : Nat) (v : V) (memo : Nat → Option V) (oc : Nat → Nat)
    (ofi : Nat → Option Nat) : St V :=
  { s with pc := s.pc + 1, invoked := upd s.invoked s.pc iv, col := upd s.col s.pc (.val (some v)),
           memo := memo, onceCount := oc, onceFirst := ofi }

/-- Inline evaluation (unqualified or ONCE): everything except the three value clauses, which
    the caller supplies. -/
theorem inv_inline {q : Query A V} {s : St V} (h : Inv q s) (iv : Nat) (v : V)
    (memo : Nat → Option V) (oc : Nat → Nat) (ofi : Nat → Option Nat)
    (hph : s.phase = .run false) (hlt : s.pc < q.total)
    (hrej : q.rejected s.pc = false) (hsp : (q.strat s.pc).spawns = false)
    (hpl : q.strat s.pc = .plain → iv = 1 ∧ v = q.value s.pc)
    (hom : ∀ m, memoOk q (istep s iv v memo oc ofi) m)
    (hoc : ∀ c, c < s.pc + 1 → q.strat c = .once → ∃ c0, ofi (q.name c) = some c0 ∧ c0 ≤ c ∧
      upd s.col s.pc (.val (some v)) c = .val (some (q.value c0)) ∧
      upd s.invoked s.pc iv c = (if c0 = c then 1 else 0)) :
    Inv q (istep s iv v memo oc ofi) := by
  have hnw : (q.strat s.pc).waited = false := by
    cases hw : (q.strat s.pc).waited
    · rfl
    · rw [spawns_of_waited hw] at hsp; cases hsp
  exact
  { pc_le := hlt
    past_pc := by simp [istep, hph, Phase.past]
    added := by simp [istep, hph]
    wgc := by
      have e := h.wgc
      simp only [hph] at e
      simp [istep, hph, openC, wgt, hnw, e]
    ahead := by
      intro c' hc'
      have hc'' : s.pc + 1 ≤ c' := hc'
      have hne : c' ≠ s.pc := by omega
      simpa [istep, upd_ne _ _ hne] using h.ahead c' (by omega)
    behind := by
      intro c' hc'
      have hc'' : c' < s.pc + 1 := hc'
      by_cases hne : c' = s.pc
      · subst hne; exact hrej
      · exact h.behind c' (by omega)
    spawned := by
      intro c' hc' hs'
      have hc'' : c' < s.pc + 1 := hc'
      have hne : c' ≠ s.pc := by intro e; subst e; rw [hs'] at hsp; cases hsp
      exact h.spawned c' (by omega) hs'
    inline := h.inline
    tstate := by
      intro c' hs'
      have hne : c' ≠ s.pc := by intro e; subst e; rw [hs'] at hsp; cases hsp
      have := h.tstate c' hs'
      simpa [taskOk, istep, upd_ne _ _ hne] using this
    alldone := by simp [istep, hph, Phase.past]
    plainc := by
      intro c' hc' hs'
      have hc'' : c' < s.pc + 1 := hc'
      by_cases hne : c' = s.pc
      · subst hne
        have := hpl hs'
        simp [istep, this.1, this.2]
      · simpa [istep, upd_ne _ _ hne] using h.plainc c' (by omega) hs'
    nocol := by
      intro c' hs'
      have hne : c' ≠ s.pc := by
        intro e; subst e; cases hs' with
        | inl x => rw [x] at hsp; cases hsp
        | inr x => rw [x] at hsp; cases hsp
      simpa [istep, upd_ne _ _ hne] using h.nocol c' hs'
    acol := by
      intro c' hc' hs'
      have hc'' : c' < s.pc + 1 := hc'
      have hne : c' ≠ s.pc := by intro e; subst e; rw [hs'] at hsp; cases hsp
      simpa [istep, upd_ne _ _ hne] using h.acol c' (by omega) hs'
    aptr := by
      intro c' hp
      by_cases hne : c' = s.pc
      · subst hne; simp [istep] at hp
      · have hp' : s.col c' = .ptr := by simpa [istep, upd_ne _ _ hne] using hp
        have := h.aptr c' hp'
        simpa [pendingPosts, istep, hph] using this
    pend := by
      intro c' hm
      have hm' : c' ∈ pendingPosts s := by simpa [pendingPosts, istep, hph] using hm
      have := h.pend c' hm'
      exact ⟨by show c' < s.pc + 1; omega, this.2⟩
    omemo := hom
    ocall := hoc }

/-- Unqualified call. -/
theorem inv_plain {q : Query A V} {s : St V} (h : Inv q s)
    (hph : s.phase = .run false) (hlt : s.pc < q.total)
    (hrej : q.rejected s.pc = false) (hs : q.strat s.pc = .plain) :
    Inv q { s with pc := s.pc + 1, invoked := upd s.invoked s.pc (s.invoked s.pc + 1),
                   col := upd s.col s.pc (.val (some (q.value s.pc))) } := by
  have hah := h.ahead s.pc (Nat.le_refl _)
  refine inv_inline h (s.invoked s.pc + 1) (q.value s.pc) s.memo s.onceCount s.onceFirst hph hlt hrej
    (by simp [hs, Strategy.spawns]) (fun _ => ⟨by simp [hah.2.1], rfl⟩)
    (fun m => memoOk_mono (h.omemo m) rfl rfl rfl (Nat.le_succ _)) ?_
  intro c hc hso
  have hne : c ≠ s.pc := by intro e; subst e; rw [hs] at hso; cases hso
  simpa [upd_ne _ _ hne] using h.ocall c (by omega) hso

/-- ONCE, memo present. -/
theorem inv_once_hit {q : Query A V} {s : St V} {v : V} (h : Inv q s)
    (hph : s.phase = .run false) (hlt : s.pc < q.total)
    (hrej : q.rejected s.pc = false) (hs : q.strat s.pc = .once)
    (hm : s.memo (q.name s.pc) = some v) :
    Inv q { s with pc := s.pc + 1, col := upd s.col s.pc (.val (some v)) } := by
  have hah := h.ahead s.pc (Nat.le_refl _)
  have hmo := h.omemo (q.name s.pc)
  unfold memoOk at hmo
  cases hf : s.onceFirst (q.name s.pc) with
  | none => simp [hf, hm] at hmo
  | some c0 =>
    simp only [hf] at hmo
    have hv : v = q.value c0 := by
      have := hmo.2.2.2.1; rw [hm] at this; exact Option.some.inj this
    have := inv_inline h (s.invoked s.pc) v s.memo s.onceCount s.onceFirst hph hlt hrej
      (by simp [hs, Strategy.spawns]) (fun e => by rw [hs] at e; cases e)
      (fun m => memoOk_mono (h.omemo m) rfl rfl rfl (Nat.le_succ _)) (by
        intro c hc hso
        by_cases hne : c = s.pc
        · subst hne
          refine ⟨c0, hf, by omega, by simp [hv], ?_⟩
          have : c0 ≠ s.pc := by omega
          simp [hah.2.1, this]
        · simpa [upd_ne _ _ hne] using h.ocall c (by omega) hso)
    simpa [istep, upd_self] using this

/-- ONCE, first evaluation: invoke and memoise. -/
theorem inv_once_miss {q : Query A V} {s : St V} (h : Inv q s)
    (hph : s.phase = .run false) (hlt : s.pc < q.total)
    (hrej : q.rejected s.pc = false) (hs : q.strat s.pc = .once)
    (hm : s.memo (q.name s.pc) = none) :
    Inv q { s with pc := s.pc + 1, invoked := upd s.invoked s.pc (s.invoked s.pc + 1),
                   onceCount := upd s.onceCount (q.name s.pc) (s.onceCount (q.name s.pc) + 1),
                   onceFirst := upd s.onceFirst (q.name s.pc) (some s.pc),
                   memo := upd s.memo (q.name s.pc) (some (q.value s.pc)),
                   col := upd s.col s.pc (.val (some (q.value s.pc))) } := by
  have hah := h.ahead s.pc (Nat.le_refl _)
  have hmo := h.omemo (q.name s.pc)
  unfold memoOk at hmo
  cases hf : s.onceFirst (q.name s.pc) with
  | some c0 => simp [hf, hm] at hmo
  | none =>
    simp only [hf] at hmo
    refine inv_inline h (s.invoked s.pc + 1) (q.value s.pc) _ _ _ hph hlt hrej
      (by simp [hs, Strategy.spawns]) (fun e => by rw [hs] at e; cases e) ?_ ?_
    · intro m
      by_cases hmn : m = q.name s.pc
      · subst hmn
        simp [memoOk, istep, hs, hmo.2]
      · exact memoOk_mono (h.omemo m) (by simp [istep, upd_ne _ _ hmn])
          (by simp [istep, upd_ne _ _ hmn]) (by simp [istep, upd_ne _ _ hmn]) (Nat.le_succ _)
    · intro c hc hso
      by_cases hne : c = s.pc
      · subst hne
        exact ⟨s.pc, by simp, Nat.le_refl _, by simp, by simp [hah.2.1]⟩
      · obtain ⟨c0, h1, h2, h3, h4⟩ := h.ocall c (by omega) hso
        have hnn : q.name c ≠ q.name s.pc := by
          intro e; rw [e, hf] at h1; cases h1
        exact ⟨c0, by simp [upd_ne _ _ hnn, h1], h2, by simp [upd_ne _ _ hne, h3],
          by simp [upd_ne _ _ hne, h4]⟩

theorem Inv.run_false_of_not_waited {q : Query A V} {s : St V} (h : Inv q s) {added : Bool}
    (hph : s.phase = .run added) (hw : (q.strat s.pc).waited = false) : added = false := by
  cases added
  · rfl
  · have := (h.added hph).2.1; rw [hw] at this; cases this

theorem inv_evalCall {q : Query A V} {s : St V} {added : Bool} (h : Inv q s)
    (hph : s.phase = .run added) (hlt : s.pc < q.total) : Inv q (evalCall q s added) := by
  unfold evalCall
  simp only
  split
  · -- rejected
    rename_i hrej
    have : added = false := by
      cases added
      · rfl
      · have := (h.added hph).2.2; rw [hrej] at this; cases this
    subst this
    exact inv_reject h hph
  · rename_i hrej
    have hrej : q.rejected s.pc = false := by simpa using hrej
    split
    · rename_i hs
      have := h.run_false_of_not_waited hph (by simp [hs, Strategy.waited]); subst this
      exact inv_plain h hph hlt hrej hs
    · rename_i hs
      have := h.run_false_of_not_waited hph (by simp [hs, Strategy.waited]); subst this
      split
      · rename_i v hm; exact inv_once_hit h hph hlt hrej hs hm
      · rename_i hm; exact inv_once_miss h hph hlt hrej hs hm
    · rename_i hs
      have hadd := h.run_false_of_not_waited hph (by simp [hs, Strategy.waited]); subst hadd
      have := inv_spawn h .absent s.posts (by simp [hph, hs, Strategy.waited]) hlt hrej
        (by simp [hs, Strategy.spawns]) (by simp [hs]) (fun _ => ⟨rfl, rfl⟩)
      have e : s.col = upd s.col s.pc .absent := by
        rw [← (h.ahead s.pc (Nat.le_refl _)).2.2, upd_self]
      rw [← e] at this
      have e2 : s.phase = .run false := hph
      cases s
      simp only at e2
      subst e2
      exact this
    · rename_i hs
      cases added
      · exact inv_add h hph hlt hrej (by simp [hs, Strategy.waited])
      · exact inv_spawn h .ptr (s.posts ++ [s.pc]) (by simp [hph, hs, Strategy.waited]) hlt hrej
          (by simp [hs, Strategy.spawns]) (fun _ => ⟨rfl, rfl⟩) (fun c => absurd hs c)
    · rename_i hs
      cases added
      · exact inv_add h hph hlt hrej (by simp [hs, Strategy.waited])
      · have := inv_spawn h .absent s.posts (by simp [hph, hs, Strategy.waited]) hlt hrej
          (by simp [hs, Strategy.spawns]) (by simp [hs]) (fun _ => ⟨rfl, rfl⟩)
        have e : s.col = upd s.col s.pc .absent := by
          rw [← (h.ahead s.pc (Nat.le_refl _)).2.2, upd_self]
        rw [← e] at this
        exact this

theorem inv_stepMain {q : Query A V} {s s' : St V} (h : Inv q s)
    (st : stepMain q s = some s') : Inv q s' := by
  unfold stepMain at st
  split at st
  · rename_i added hph
    split at st
    · rename_i hlt; cases st; exact inv_evalCall h hph hlt
    · rename_i hlt
      split at st
      · rename_i hwg
        cases st
        have : added = false := by
          cases added
          · rfl
          · exact absurd (h.added hph).1 hlt
        subst this
        exact inv_wait h hph hlt hwg
      · cases st
  · rename_i c rest hph; cases st; exact inv_post h hph
  · rename_i hph; cases st; exact inv_return h hph
  · cases st
  · cases st

theorem inv_step {q : Query A V} {s s' : St V} {t : Nat} (h : Inv q s)
    (st : step q s t = some s') : Inv q s' := by
  cases t with
  | zero => exact inv_stepMain h st
  | succ c => exact inv_stepTask h st

theorem inv_reach {q : Query A V} {s : St V} (r : Reach q s) : Inv q s := by
  induction r with
  | init => exact inv_init q
  | step _ st ih => exact inv_step ih st

theorem run_reach (q : Query A V) : ∀ (sched : List Nat) (s : St V), Reach q s → Reach q (run q s sched)
  | [], _, r => r
  | t :: ts, s, r => by
    unfold run
    split
    · rename_i s' hs; exact run_reach q ts s' (.step r hs)
    · exact run_reach q ts s r

theorem run_append (q : Query A V) (s : St V) (a b : List Nat) :
    run q s (a ++ b) = run q (run q s a) b := by
  induction a generalizing s with
  | nil => rfl
  | cons t ts ih =>
    simp only [List.cons_append, run]
    split <;> exact ih _

/-- Every reachable state is the result of some schedule. -/
theorem reach_run {q : Query A V} {s : St V} (r : Reach q s) : ∃ sched, run q init sched = s := by
  induction r with
  | init => exact ⟨[], rfl⟩
  | step _ st ih =>
    rename_i s1 s2 t _
    obtain ⟨sched, hs⟩ := ih
    refine ⟨sched ++ [t], ?_⟩
    rw [run_append, hs]
    simp [run, st]

theorem inv_run (q : Query A V) (sched : List Nat) : Inv q (run q (init : St V) sched) :=
  inv_reach (run_reach q sched _ .init)

end Genql.Async
