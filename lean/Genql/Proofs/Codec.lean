/-
  Genql.Proofs.Codec — helper lemmas for C18 (ENCODE / DECODE / HASH codecs): one-step lemmas for
  the decoder loops of Genql.Model.Codec and the arithmetic facts "unpacking the packed bits gives
  the bytes back" (all by `omega` on `Nat`, with `x.toNat < 256`).  Core Lean only.
-/
import Genql.Model.Codec
namespace Genql.Codec

theorem toUInt8_of_eq {n : Nat} {a : UInt8} (h : n = a.toNat) : n.toUInt8 = a := by
  subst h; simp

/-! ## hex -/

set_option maxRecDepth 8192 in
theorem hexVal_hexDigit : ∀ n, n < 16 → hexVal (hexDigit n) = some n := by decide

theorem hexByte (b : UInt8) : (b.toNat / 16 * 16 + b.toNat % 16).toUInt8 = b :=
  toUInt8_of_eq (by omega)

/-! ## base64url -/

set_option maxRecDepth 8192 in
theorem b64uVal_b64uChar : ∀ n, n < 64 → b64uVal (b64uChar n) = some n := by decide

theorem b64uVal_pad : b64uVal '=' = none := by decide

/-- one step of the loop on a character of the alphabet -/
theorem b64uLoop_char (n : Nat) (h : n < 64) (src : List Char) (dbuf : List Nat) :
    b64uLoop (b64uChar n :: src) dbuf =
      if dbuf.length = 3 then (b64uLoop src []).map fun bs => b64Bytes (dbuf ++ [n]) ++ bs
      else b64uLoop src (dbuf ++ [n]) := by
  rw [b64uLoop.eq_def]; simp only [b64uVal_b64uChar n h]

theorem b64uLoop_pad (src : List Char) (dbuf : List Nat) :
    b64uLoop ('=' :: src) dbuf =
      if dbuf.length < 2 then none
      else if b64PadOk dbuf.length src then some ((b64Bytes dbuf).take (dbuf.length - 1))
      else none := by
  rw [b64uLoop.eq_def]; simp [b64uVal_pad, isNL]

theorem b64_quantum (a b c : UInt8) :
    b64Bytes [(a.toNat * 65536 + b.toNat * 256 + c.toNat) / 262144 % 64,
      (a.toNat * 65536 + b.toNat * 256 + c.toNat) / 4096 % 64,
      (a.toNat * 65536 + b.toNat * 256 + c.toNat) / 64 % 64,
      (a.toNat * 65536 + b.toNat * 256 + c.toNat) % 64] = [a, b, c] := by
  have ha := a.toNat_lt; have hb := b.toNat_lt; have hc := c.toNat_lt
  simp only [b64Bytes, List.getD_cons_zero, List.getD_cons_succ]
  congr 1
  · apply toUInt8_of_eq; omega
  congr 1
  · apply toUInt8_of_eq; omega
  congr 1
  · apply toUInt8_of_eq; omega

theorem b64_quantum2 (a b : UInt8) :
    (b64Bytes [(a.toNat * 65536 + b.toNat * 256) / 262144 % 64,
      (a.toNat * 65536 + b.toNat * 256) / 4096 % 64,
      (a.toNat * 65536 + b.toNat * 256) / 64 % 64]).take 2 = [a, b] := by
  have ha := a.toNat_lt; have hb := b.toNat_lt
  simp only [b64Bytes, List.getD_cons_zero, List.getD_cons_succ, List.getD_nil, List.take_succ_cons,
    List.take_zero]
  congr 1
  · apply toUInt8_of_eq; omega
  congr 1
  · apply toUInt8_of_eq; omega

theorem b64_quantum1 (a : UInt8) :
    (b64Bytes [a.toNat * 65536 / 262144 % 64, a.toNat * 65536 / 4096 % 64]).take 1 = [a] := by
  have ha := a.toNat_lt
  simp only [b64Bytes, List.getD_cons_zero, List.getD_cons_succ, List.getD_nil, List.take_succ_cons,
    List.take_zero]
  congr 1
  · apply toUInt8_of_eq; omega

theorem b64uLoop_char_mod (n : Nat) (src : List Char) (dbuf : List Nat) :
    b64uLoop (b64uChar (n % 64) :: src) dbuf =
      if dbuf.length = 3 then (b64uLoop src []).map fun bs => b64Bytes (dbuf ++ [n % 64]) ++ bs
      else b64uLoop src (dbuf ++ [n % 64]) :=
  b64uLoop_char _ (Nat.mod_lt _ (by decide)) _ _

theorem b64uLoop_enc (bs : List UInt8) : b64uLoop (b64uEnc bs) [] = some bs := by
  induction bs using b64uEnc.induct with
  | case1 => rfl
  | case2 a =>
    simp [b64uEnc, b64uLoop_char_mod, b64uLoop_pad, b64PadOk, isNL, b64_quantum1]
  | case3 a b =>
    simp [b64uEnc, b64uLoop_char_mod, b64uLoop_pad, b64PadOk, b64_quantum2]
  | case4 a b c rest ih =>
    simp [b64uEnc, b64uLoop_char_mod, ih, b64_quantum]

/-! ## base32 -/

set_option maxRecDepth 8192 in
theorem b32Val_b32Char : ∀ n, n < 32 → b32Val (b32Char n) = some n := by decide

set_option maxRecDepth 8192 in
theorem b32Char_ne_pad : ∀ n, n < 32 → b32Char n ≠ '=' := by decide

theorem b32Val_pad : b32Val '=' = none := by decide

theorem b32Loop_char (n : Nat) (h : n < 32) (src : List Char) (dbuf : List Nat) :
    b32Loop (b32Char n :: src) dbuf =
      if dbuf.length = 7 then (b32Loop src []).map fun bs => b32Pack (dbuf ++ [n]) ++ bs
      else b32Loop src (dbuf ++ [n]) := by
  rw [b32Loop.eq_def]; simp only [b32Char_ne_pad n h, false_and, if_false, b32Val_b32Char n h]

theorem b32Loop_vals (vs : List Nat) (hlt : ∀ v ∈ vs, v < 32) (src : List Char) (dbuf : List Nat)
    (h : dbuf.length + vs.length ≤ 7) :
    b32Loop (vs.map b32Char ++ src) dbuf = b32Loop src (dbuf ++ vs) := by
  induction vs generalizing dbuf with
  | nil => simp
  | cons v vs ih =>
    have hv : v < 32 := hlt v (by simp)
    have hne : dbuf.length ≠ 7 := by simp at h; omega
    simp only [List.map_cons, List.cons_append, b32Loop_char v hv, hne, if_false]
    rw [ih (fun w hw => hlt w (by simp [hw]))]
    · simp
    · simp at h ⊢; omega

theorem b32Loop_quantum (vs : List Nat) (hlt : ∀ v ∈ vs, v < 32) (src : List Char)
    (dbuf : List Nat) (h : dbuf.length + vs.length = 8) (h7 : dbuf.length ≤ 7) :
    b32Loop (vs.map b32Char ++ src) dbuf =
      (b32Loop src []).map fun bs => b32Pack (dbuf ++ vs) ++ bs := by
  induction vs generalizing dbuf with
  | nil => simp at h; omega
  | cons v vs ih =>
    have hv : v < 32 := hlt v (by simp)
    simp only [List.map_cons, List.cons_append, b32Loop_char v hv]
    split
    · next h7' =>
      have : vs = [] := by
        simp at h; exact List.eq_nil_of_length_eq_zero (by omega)
      subst this; simp
    · next h7' =>
      rw [ih (fun w hw => hlt w (by simp [hw]))]
      · simp
      · simp at h ⊢; omega
      · simp; omega

theorem utf8Len_replicate_pad (n : Nat) : utf8Len (List.replicate n '=') = n := by
  induction n with
  | zero => rfl
  | succ n ih =>
    have : Char.utf8Size '=' = 1 := by decide
    simp only [List.replicate_succ, utf8Len, List.foldr_cons] at ih ⊢
    rw [ih, this]; omega

theorem b32Loop_pad (n : Nat) (dbuf : List Nat) (h2 : 2 ≤ dbuf.length)
    (hn : n + 1 + dbuf.length = 8) (h3 : dbuf.length ≠ 3) (h6 : dbuf.length ≠ 6) :
    b32Loop (pad (n + 1)) dbuf = some (b32Pack dbuf) := by
  have h1 : n < 8 := by omega
  have h4 : ¬ (n + dbuf.length < 7) := by omega
  have h5 : dbuf.length ≠ 1 := by omega
  rw [pad, List.replicate_succ, b32Loop.eq_def]
  simp [utf8Len_replicate_pad, h2, h1, h4, h3, h6, h5]

theorem b32Idx_length (a b c d e : Nat) : (b32Idx a b c d e).length = 8 := rfl

theorem b32Idx_lt (a b c d e : Nat) : ∀ v ∈ b32Idx a b c d e, v < 32 := by
  intro v hv
  simp only [b32Idx, List.mem_cons, List.not_mem_nil, or_false] at hv
  omega

theorem b32Pack_idx5 (a b c d e : UInt8) :
    b32Pack (b32Idx a.toNat b.toNat c.toNat d.toNat e.toNat) = [a, b, c, d, e] := by
  have ha := a.toNat_lt; have hb := b.toNat_lt; have hc := c.toNat_lt
  have hd := d.toNat_lt; have he := e.toNat_lt
  simp only [b32Idx, b32Pack, b32B0, b32B1, b32B2, b32B3, b32B4]
  congr 1
  · apply toUInt8_of_eq; omega
  congr 1
  · apply toUInt8_of_eq; omega
  congr 1
  · apply toUInt8_of_eq; omega
  congr 1
  · apply toUInt8_of_eq; omega
  congr 1
  · apply toUInt8_of_eq; omega

theorem b32Pack_idx4 (a b c d : UInt8) :
    b32Pack ((b32Idx a.toNat b.toNat c.toNat d.toNat 0).take 7) = [a, b, c, d] := by
  have ha := a.toNat_lt; have hb := b.toNat_lt; have hc := c.toNat_lt
  have hd := d.toNat_lt
  simp only [b32Idx, List.take_succ_cons, List.take_zero, b32Pack, b32B0, b32B1, b32B2, b32B3]
  congr 1
  · apply toUInt8_of_eq; omega
  congr 1
  · apply toUInt8_of_eq; omega
  congr 1
  · apply toUInt8_of_eq; omega
  congr 1
  · apply toUInt8_of_eq; omega

theorem b32Pack_idx3 (a b c : UInt8) :
    b32Pack ((b32Idx a.toNat b.toNat c.toNat 0 0).take 5) = [a, b, c] := by
  have ha := a.toNat_lt; have hb := b.toNat_lt; have hc := c.toNat_lt
  simp only [b32Idx, List.take_succ_cons, List.take_zero, b32Pack, b32B0, b32B1, b32B2]
  congr 1
  · apply toUInt8_of_eq; omega
  congr 1
  · apply toUInt8_of_eq; omega
  congr 1
  · apply toUInt8_of_eq; omega

theorem b32Pack_idx2 (a b : UInt8) :
    b32Pack ((b32Idx a.toNat b.toNat 0 0 0).take 4) = [a, b] := by
  have ha := a.toNat_lt; have hb := b.toNat_lt
  simp only [b32Idx, List.take_succ_cons, List.take_zero, b32Pack, b32B0, b32B1]
  congr 1
  · apply toUInt8_of_eq; omega
  congr 1
  · apply toUInt8_of_eq; omega

theorem b32Pack_idx1 (a : UInt8) :
    b32Pack ((b32Idx a.toNat 0 0 0 0).take 2) = [a] := by
  have ha := a.toNat_lt
  simp only [b32Idx, List.take_succ_cons, List.take_zero, b32Pack, b32B0]
  congr 1
  · apply toUInt8_of_eq; omega

theorem b32Loop_tail (a b c d : Nat) (k n : Nat) (hk : k = 2 ∨ k = 4 ∨ k = 5 ∨ k = 7)
    (hn : n + 1 + k = 8) :
    b32Loop (((b32Idx a b c d 0).take k).map b32Char ++ pad (n + 1)) [] =
      some (b32Pack ((b32Idx a b c d 0).take k)) := by
  have hlen : ((b32Idx a b c d 0).take k).length = k := by
    rw [List.length_take, b32Idx_length]; omega
  rw [b32Loop_vals _ (fun v hv => b32Idx_lt _ _ _ _ _ v (List.mem_of_mem_take hv)) _ _
    (by rw [hlen]; simp; omega)]
  rw [List.nil_append, b32Loop_pad] <;> rw [hlen] <;> omega

theorem b32Loop_enc (bs : List UInt8) : b32Loop (b32Enc bs) [] = some bs := by
  induction bs using b32Enc.induct with
  | case1 => rfl
  | case2 a => rw [b32Enc, b32Loop_tail _ _ _ _ 2 5 (by simp) rfl, b32Pack_idx1]
  | case3 a b => rw [b32Enc, b32Loop_tail _ _ _ _ 4 3 (by simp) rfl, b32Pack_idx2]
  | case4 a b c => rw [b32Enc, b32Loop_tail _ _ _ _ 5 2 (by simp) rfl, b32Pack_idx3]
  | case5 a b c d => rw [b32Enc, b32Loop_tail _ _ _ _ 7 0 (by simp) rfl, b32Pack_idx4]
  | case6 a b c d e rest ih =>
    rw [b32Enc, b32Loop_quantum _ (b32Idx_lt _ _ _ _ _) _ _ (by simp [b32Idx_length]) (by simp),
      ih, List.nil_append, b32Pack_idx5]
    rfl

/-! ## output alphabets -/

theorem hexDigit_mem : ∀ n, n < 16 → hexDigit n ∈ hexAlpha := by decide

set_option maxRecDepth 8192 in
theorem b64uChar_mem : ∀ n, n < 64 → b64uChar n ∈ b64uAlpha := by decide

set_option maxRecDepth 8192 in
theorem b32Char_mem : ∀ n, n < 32 → b32Char n ∈ b32Alpha := by decide

set_option maxRecDepth 8192 in
theorem b64uChar_ne_pad : ∀ n, n < 64 → b64uChar n ≠ '=' := by decide

theorem b32Alpha_not_nl : ∀ c ∈ b32Alpha, isNL c = false := by decide

theorem b32_chunk_mem (a b c d e k n : Nat) :
    ∀ ch ∈ ((b32Idx a b c d e).take k).map b32Char ++ pad n, ch ∈ b32Alpha ∨ ch = '=' := by
  intro ch h
  rw [List.mem_append] at h
  rcases h with h | h
  · obtain ⟨v, hv, rfl⟩ := List.mem_map.1 h
    exact .inl (b32Char_mem v (b32Idx_lt _ _ _ _ _ v (List.mem_of_mem_take hv)))
  · exact .inr (List.eq_of_mem_replicate h)

/-! ## base64: newlines are skipped wherever they occur -/

theorem b64uVal_nl (c : Char) (h : isNL c = true) : b64uVal c = none := by
  simp only [isNL, Bool.or_eq_true, beq_iff_eq] at h
  rcases h with rfl | rfl <;> decide

theorem dropWhile_nl_filter (l : List Char) :
    (l.filter fun c => !isNL c).dropWhile isNL = (l.dropWhile isNL).filter fun c => !isNL c := by
  induction l with
  | nil => rfl
  | cons c l ih =>
    by_cases h : isNL c = true
    · simp [h, ih]
    · have h' : isNL c = false := by simpa using h
      simp [h']

theorem dropWhile_nl_isEmpty (l : List Char) :
    ((l.dropWhile isNL).filter fun c => !isNL c).isEmpty = (l.dropWhile isNL).isEmpty := by
  induction l with
  | nil => rfl
  | cons c l ih =>
    by_cases h : isNL c = true
    · simp [h, ih]
    · have h' : isNL c = false := by simpa using h
      simp [h']

theorem b64PadOk_filter (j : Nat) (src : List Char) :
    b64PadOk j (src.filter fun c => !isNL c) = b64PadOk j src := by
  unfold b64PadOk
  split
  · rw [dropWhile_nl_filter]
    induction src with
    | nil => rfl
    | cons c l ih =>
      by_cases h : isNL c = true
      · simp only [List.dropWhile_cons, h, if_true]; exact ih
      · have h' : isNL c = false := by simpa using h
        simp only [List.dropWhile_cons, h', Bool.false_eq_true, if_false]
        simp only [List.filter_cons, h', Bool.not_false, if_true, dropWhile_nl_filter,
          dropWhile_nl_isEmpty]
  · rw [dropWhile_nl_filter, dropWhile_nl_isEmpty]

theorem b64uLoop_filter (cs : List Char) (dbuf : List Nat) :
    b64uLoop (cs.filter fun c => !isNL c) dbuf = b64uLoop cs dbuf := by
  induction cs generalizing dbuf with
  | nil => rfl
  | cons c cs ih =>
    by_cases h : isNL c = true
    · rw [List.filter_cons, b64uLoop.eq_def (c :: cs)]
      simp only [h, Bool.not_true, Bool.false_eq_true, if_false, b64uVal_nl c h, if_true, ih]
    · have h' : isNL c = false := by simpa using h
      rw [List.filter_cons, b64uLoop.eq_def (c :: cs)]
      simp only [h', Bool.not_false, if_true]
      rw [b64uLoop.eq_def]
      simp only [ih, b64PadOk_filter, h']

end Genql.Codec
