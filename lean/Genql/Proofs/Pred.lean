/-
  Genql.Proofs.Pred — lemmas for C01: the evaluator's predicate fragment computes `sem`.
-/
import Genql.Spec.Pred
import Genql.Model.Eval
import Genql.Lawful
set_option linter.unusedSectionVars false
namespace Genql
variable {N : Type} [Num N]

/-! ### reading a plain column -/

omit [Num N] in
theorem readPath_single (k : String) (cur : Row N) :
    readPath [k] (.obj cur) = .ok (Val.get cur k) := by
  simp [readPath, keyStep]

omit [Num N] in
theorem get_withMarker {k : String} (h : k ≠ "<-") (row data : Row N) :
    Val.get (withMarker row data) k = Val.get row k := by
  unfold Val.get withMarker
  rw [lookup?_setKey_other h]

/-- the rows an operand may be evaluated against: the row itself or the row with the marker -/
def Scoped (row cur : Row N) : Prop := cur = row ∨ ∃ d, cur = withMarker row d

theorem get_scoped {k : String} (h : k ≠ "<-") {row cur : Row N} (hs : Scoped row cur) :
    Val.get cur k = Val.get row k := by
  rcases hs with rfl | ⟨d, rfl⟩
  · rfl
  · exact get_withMarker h row d

/-- an operand evaluates without error, and `ValueOf` of the result is its denotation -/
theorem operand_eval (env : Env N) (ctx : Ctx N) (hh : ctx.hard = false) {row cur : Row N}
    (hs : Scoped row cur) {κ : Kind} {e : Expr N} (h : Operand row κ e) :
    ∃ iv, evalExpr env ctx cur e = .ok iv ∧ valueOf cur iv = .ok (operand row e) ∧
      kindOf (operand row e) = some κ := by
  cases h with
  | num n => exact ⟨.v (.num n), by simp [evalExpr], by simp [valueOf, operand], rfl⟩
  | str s => exact ⟨.neutral s, by simp [evalExpr], by simp [valueOf, operand], rfl⟩
  | bool b => exact ⟨.v (.bool b), by simp [evalExpr], by simp [valueOf, operand], rfl⟩
  | col k κ hk hkind =>
    refine ⟨.col [k], by simp [evalExpr, hh], ?_, by simpa [operand] using hkind⟩
    simp [valueOf, readPath_single, operand, get_scoped hk hs]

/-! ### `compare.Compare` on same-kind scalars -/

theorem compareVal_num (a b : N) :
    compareVal (.num a : Val N) (.num b) =
      .ok (if Num.eq a b then 0 else if Num.lt b a then 1 else -1) := by
  simp [compareVal]

theorem compareVal_str (a b : String) :
    compareVal (.str a : Val N) (.str b) = .ok (cmpStr a b) := by
  simp [compareVal, fmtR, fmtV, bind, Except.bind, pure, Except.pure]

theorem compareVal_bool (a b : Bool) :
    compareVal (.bool a : Val N) (.bool b) = .ok (if a = b then 0 else if a then 1 else -1) := by
  cases a <;> cases b <;> simp [compareVal, fmtR, fmtV, bind, Except.bind, pure, Except.pure, cmpStr] <;> decide

theorem String.lt_or_eq_or_gt (a b : String) : a < b ∨ a = b ∨ b < a := by
  by_cases h1 : a < b
  · exact .inl h1
  · by_cases h2 : b < a
    · exact .inr (.inr h2)
    · exact .inr (.inl (String.le_antisymm h2 h1))

/-! ### the operator dispatch is the SQL comparison -/

section dispatch
variable [LawfulNum N]

/-- sign of `compare.Compare` on two scalars of one kind, in terms of `ltV`/`eqV` -/
theorem compare_same_kind {a b : Val N} {κ : Kind} (ha : kindOf a = some κ) (hb : kindOf b = some κ) :
    ∃ c : Int, compareVal a b = .ok c ∧
      (c = 0 ↔ eqV a b = true) ∧ (κ ≠ .bool → (c = -1 ↔ ltV a b = true)) ∧
      (κ ≠ .bool → (c = 1 ↔ ltV b a = true)) ∧ (c = 0 ∨ c = 1 ∨ c = -1) := by
  cases a <;> cases b <;> simp [kindOf] at ha hb <;> try (subst ha; simp at hb)
  case bool.bool x y =>
    refine ⟨_, compareVal_bool x y, ?_, by simp, by simp, ?_⟩
    · cases x <;> cases y <;> simp [eqV]
    · cases x <;> cases y <;> simp
  case num.num x y =>
    refine ⟨_, compareVal_num x y, ?_, fun _ => ?_, fun _ => ?_, ?_⟩
    · simp only [eqV]
      cases he : Num.eq x y <;> simp
      cases Num.lt y x <;> simp
    · simp only [ltV]
      have key := Num.not_eq_not_gt_iff_lt x y
      cases he : Num.eq x y <;> cases hl : Num.lt y x <;> simp_all
    · simp only [ltV]
      cases he : Num.eq x y <;> cases hl : Num.lt y x <;> simp
      have := (LawfulNum.eq_iff x y).1 he
      subst this
      rw [LawfulNum.lt_irrefl] at hl; cases hl
    · cases Num.eq x y <;> cases Num.lt y x <;> simp
  case str.str x y =>
    refine ⟨_, compareVal_str x y, ?_, fun _ => ?_, fun _ => ?_, ?_⟩
    · simp only [eqV, cmpStr, beq_iff_eq]
      by_cases h1 : x < y
      · simp [h1]; intro h; subst h; exact String.lt_irrefl _ h1
      · by_cases h2 : x = y <;> simp [h1, h2]
    · simp only [ltV, cmpStr, decide_eq_true_eq]
      by_cases h1 : x < y
      · simp [h1]
      · by_cases h2 : x = y <;> simp [h1, h2]
    · simp only [ltV, cmpStr, decide_eq_true_eq]
      by_cases h1 : x < y
      · simp [h1]; exact String.lt_asymm h1
      · by_cases h2 : x = y
        · subst h2; simp [String.lt_irrefl]
        · simp [h1, h2]
          rcases String.lt_or_eq_or_gt x y with h | h | h
          · exact absurd h h1
          · exact absurd h h2
          · exact h
    · simp only [cmpStr]
      by_cases h1 : x < y
      · simp [h1]
      · by_cases h2 : x = y <;> simp [h1, h2]

end dispatch

end Genql
