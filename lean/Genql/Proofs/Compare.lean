/-
  Genql.Proofs.Compare — helper lemmas for property C15 (the order computed by `compareGo`).
  Core Lean only.
-/
import Genql.Model.Compare
namespace Genql.Cmp

/-! ## cross-multiplied comparison of dyadic rationals -/

theorem pow2_pos (n : Nat) : 0 < pow2 n := by
  unfold pow2
  exact Int.ofNat_lt.mpr (Nat.two_pow_pos n)

theorem pow2_zero : pow2 0 = 1 := rfl

/-- `a/P < b/Q` and `b/Q ≤ c/R` give `a/P < c/R` (positive denominators, cross-multiplied). -/
theorem cross_lt_le {a b c P Q R : Int} (hP : 0 < P) (hQ : 0 < Q) (hR : 0 < R)
    (h1 : a * Q < b * P) (h2 : b * R ≤ c * Q) : a * R < c * P := by
  have e1 : a * Q * R < b * P * R := Int.mul_lt_mul_of_pos_right h1 hR
  have e2 : b * R * P ≤ c * Q * P := Int.mul_le_mul_of_nonneg_right h2 (Int.le_of_lt hP)
  have r1 : a * Q * R = a * R * Q := Int.mul_right_comm a Q R
  have r2 : b * P * R = b * R * P := Int.mul_right_comm b P R
  have r3 : c * Q * P = c * P * Q := Int.mul_right_comm c Q P
  rw [r1, r2] at e1
  rw [r3] at e2
  exact Int.lt_of_mul_lt_mul_right (Int.lt_of_lt_of_le e1 e2) (Int.le_of_lt hQ)

theorem cross_le_lt {a b c P Q R : Int} (hP : 0 < P) (hQ : 0 < Q) (hR : 0 < R)
    (h1 : a * Q ≤ b * P) (h2 : b * R < c * Q) : a * R < c * P := by
  have e1 : a * Q * R ≤ b * P * R := Int.mul_le_mul_of_nonneg_right h1 (Int.le_of_lt hR)
  have e2 : b * R * P < c * Q * P := Int.mul_lt_mul_of_pos_right h2 hP
  have r1 : a * Q * R = a * R * Q := Int.mul_right_comm a Q R
  have r2 : b * P * R = b * R * P := Int.mul_right_comm b P R
  have r3 : c * Q * P = c * P * Q := Int.mul_right_comm c Q P
  rw [r1, r2] at e1
  rw [r3] at e2
  exact Int.lt_of_mul_lt_mul_right (Int.lt_of_le_of_lt e1 e2) (Int.le_of_lt hQ)

theorem cross_le_le {a b c P Q R : Int} (hP : 0 < P) (hQ : 0 < Q) (hR : 0 < R)
    (h1 : a * Q ≤ b * P) (h2 : b * R ≤ c * Q) : a * R ≤ c * P := by
  have e1 : a * Q * R ≤ b * P * R := Int.mul_le_mul_of_nonneg_right h1 (Int.le_of_lt hR)
  have e2 : b * R * P ≤ c * Q * P := Int.mul_le_mul_of_nonneg_right h2 (Int.le_of_lt hP)
  have r1 : a * Q * R = a * R * Q := Int.mul_right_comm a Q R
  have r2 : b * P * R = b * R * P := Int.mul_right_comm b P R
  have r3 : c * Q * P = c * P * Q := Int.mul_right_comm c Q P
  rw [r1, r2] at e1
  rw [r3] at e2
  exact Int.le_of_mul_le_mul_right (Int.le_trans e1 e2) hQ

/-- `x < y` for the rationals denoted by two dyadics -/
def Dyadic.Lt (x y : Dyadic) : Prop := x.m * pow2 y.e < y.m * pow2 x.e
/-- `x ≤ y` -/
def Dyadic.Le (x y : Dyadic) : Prop := x.m * pow2 y.e ≤ y.m * pow2 x.e
/-- `x = y` as rationals -/
def Dyadic.Eqv (x y : Dyadic) : Prop := x.m * pow2 y.e = y.m * pow2 x.e

instance (x y : Dyadic) : Decidable (x.Lt y) := by unfold Dyadic.Lt; infer_instance
instance (x y : Dyadic) : Decidable (x.Le y) := by unfold Dyadic.Le; infer_instance
instance (x y : Dyadic) : Decidable (x.Eqv y) := by unfold Dyadic.Eqv; infer_instance

theorem Dyadic.lt_of_lt_of_le {x y z : Dyadic} (h1 : x.Lt y) (h2 : y.Le z) : x.Lt z :=
  cross_lt_le (pow2_pos x.e) (pow2_pos y.e) (pow2_pos z.e) h1 h2
theorem Dyadic.lt_of_le_of_lt {x y z : Dyadic} (h1 : x.Le y) (h2 : y.Lt z) : x.Lt z :=
  cross_le_lt (pow2_pos x.e) (pow2_pos y.e) (pow2_pos z.e) h1 h2
theorem Dyadic.le_trans {x y z : Dyadic} (h1 : x.Le y) (h2 : y.Le z) : x.Le z :=
  cross_le_le (pow2_pos x.e) (pow2_pos y.e) (pow2_pos z.e) h1 h2

/-- the float comparison at the end of `Cmp`: `0` if `x == y`, `1` if `x > y`, else `-1` -/
def dcmp (x y : Dyadic) : Int := if x.eq y then 0 else if x.gt y then 1 else -1

/-- `sign (x - y)` computed by cross-multiplication (denominators `2^e` are positive) -/
def dsign (x y : Dyadic) : Int := Int.sign (x.m * pow2 y.e - y.m * pow2 x.e)

theorem dcmp_eq_dsign (x y : Dyadic) : dcmp x y = dsign x y := by
  unfold dcmp dsign Dyadic.eq Dyadic.gt
  generalize x.m * pow2 y.e = p
  generalize y.m * pow2 x.e = q
  by_cases h1 : p = q
  · subst h1; simp
  · by_cases h2 : q < p
    · have : 0 < p - q := by omega
      simp [h1, h2, Int.sign_eq_one_iff_pos.mpr this]
    · have : p - q < 0 := by omega
      simp [h1, h2, Int.sign_eq_neg_one_iff_neg.mpr this]

theorem dsign_range (x y : Dyadic) : dsign x y = -1 ∨ dsign x y = 0 ∨ dsign x y = 1 := by
  unfold dsign
  generalize x.m * pow2 y.e - y.m * pow2 x.e = d
  rcases Int.lt_trichotomy d 0 with h | h | h
  · exact .inl (Int.sign_eq_neg_one_iff_neg.mpr h)
  · exact .inr (.inl (Int.sign_eq_zero_iff_zero.mpr h))
  · exact .inr (.inr (Int.sign_eq_one_iff_pos.mpr h))

theorem dsign_antisymm (x y : Dyadic) : dsign y x = -dsign x y := by
  unfold dsign
  rw [← Int.sign_neg]
  congr 1
  omega

theorem dsign_self (x : Dyadic) : dsign x x = 0 := by
  unfold dsign; simp

theorem dsign_eq_neg_one {x y : Dyadic} : dsign x y = -1 ↔ x.Lt y := by
  unfold dsign Dyadic.Lt
  rw [Int.sign_eq_neg_one_iff_neg]; omega

theorem dsign_eq_zero {x y : Dyadic} : dsign x y = 0 ↔ x.Eqv y := by
  unfold dsign Dyadic.Eqv
  rw [Int.sign_eq_zero_iff_zero]; omega

theorem dsign_eq_one {x y : Dyadic} : dsign x y = 1 ↔ y.Lt x := by
  unfold dsign Dyadic.Lt
  rw [Int.sign_eq_one_iff_pos]; omega

theorem dsign_nonpos {x y : Dyadic} : dsign x y ≤ 0 ↔ x.Le y := by
  constructor
  · intro h
    rcases dsign_range x y with h' | h' | h'
    · exact Int.le_of_lt (dsign_eq_neg_one.mp h')
    · exact Int.le_of_eq (dsign_eq_zero.mp h')
    · omega
  · intro h
    rcases dsign_range x y with h' | h' | h'
    · omega
    · omega
    · have := dsign_eq_one.mp h'
      unfold Dyadic.Le at h; unfold Dyadic.Lt at this; omega

/-- transitivity of the dyadic order in the form used by C15: for `x ≤ y ≤ z` the comparison of
    `x` with `z` is the smaller (more negative) of the two given results -/
theorem dsign_trans {x y z : Dyadic} (h1 : dsign x y ≤ 0) (h2 : dsign y z ≤ 0) :
    dsign x z = min (dsign x y) (dsign y z) := by
  rcases dsign_range x y with a | a | a <;> rcases dsign_range y z with b | b | b <;>
    try omega
  · -- <, <
    rw [a, b]
    exact dsign_eq_neg_one.mpr
      (Dyadic.lt_of_lt_of_le (dsign_eq_neg_one.mp a) (dsign_nonpos.mp h2))
  · -- <, =
    rw [a, b]
    exact dsign_eq_neg_one.mpr
      (Dyadic.lt_of_lt_of_le (dsign_eq_neg_one.mp a) (dsign_nonpos.mp h2))
  · -- =, <
    rw [a, b]
    exact dsign_eq_neg_one.mpr
      (Dyadic.lt_of_le_of_lt (dsign_nonpos.mp h1) (dsign_eq_neg_one.mp b))
  · -- =, =
    rw [a, b]
    have l : x.Le z := Dyadic.le_trans (dsign_nonpos.mp h1) (dsign_nonpos.mp h2)
    have h1' : dsign y x ≤ 0 := by rw [dsign_antisymm x y]; omega
    have h2' : dsign z y ≤ 0 := by rw [dsign_antisymm y z]; omega
    have g : z.Le x := Dyadic.le_trans (dsign_nonpos.mp h2') (dsign_nonpos.mp h1')
    apply dsign_eq_zero.mpr
    unfold Dyadic.Le at l g; unfold Dyadic.Eqv; omega

/-! ## `strings.Compare` -/

theorem strCompare_range (a b : String) :
    strCompare a b = -1 ∨ strCompare a b = 0 ∨ strCompare a b = 1 := by
  unfold strCompare; split
  · exact .inr (.inl rfl)
  · split
    · exact .inl rfl
    · exact .inr (.inr rfl)

theorem strCompare_self (a : String) : strCompare a a = 0 := by simp [strCompare]

theorem String.lt_of_not_lt_of_ne {a b : String} (h : ¬ a < b) (hne : a ≠ b) : b < a := by
  apply Decidable.byContradiction
  intro h'
  exact hne (String.le_antisymm (String.not_lt.mp h') (String.not_lt.mp h))

theorem strCompare_eq_neg_one {a b : String} : strCompare a b = -1 ↔ a < b := by
  unfold strCompare
  by_cases h : a = b
  · subst h; simp [String.lt_irrefl]
  · by_cases h' : a < b <;> simp [h, h']

theorem strCompare_eq_zero {a b : String} : strCompare a b = 0 ↔ a = b := by
  unfold strCompare
  by_cases h : a = b
  · simp [h]
  · by_cases h' : a < b <;> simp [h, h']

theorem strCompare_eq_one {a b : String} : strCompare a b = 1 ↔ b < a := by
  unfold strCompare
  by_cases h : a = b
  · subst h; simp [String.lt_irrefl]
  · by_cases h' : a < b
    · simp [h, h', String.lt_asymm h']
    · simp [h, h', String.lt_of_not_lt_of_ne h' h]

theorem strCompare_antisymm (a b : String) : strCompare b a = -strCompare a b := by
  rcases strCompare_range a b with h | h | h
  · rw [h]; exact strCompare_eq_one.mpr (strCompare_eq_neg_one.mp h)
  · rw [h]; exact strCompare_eq_zero.mpr (strCompare_eq_zero.mp h).symm
  · rw [h]; exact strCompare_eq_neg_one.mpr (strCompare_eq_one.mp h)

theorem strCompare_trans {a b c : String} (h1 : strCompare a b ≤ 0) (h2 : strCompare b c ≤ 0) :
    strCompare a c = min (strCompare a b) (strCompare b c) := by
  rcases strCompare_range a b with x | x | x <;> rcases strCompare_range b c with y | y | y <;>
    try omega
  · rw [x, y]
    exact strCompare_eq_neg_one.mpr
      (String.lt_trans (strCompare_eq_neg_one.mp x) (strCompare_eq_neg_one.mp y))
  · rw [x, y]
    have := strCompare_eq_zero.mp y; subst this
    exact strCompare_eq_neg_one.mpr (strCompare_eq_neg_one.mp x)
  · rw [x, y]
    have := strCompare_eq_zero.mp x; subst this
    exact strCompare_eq_neg_one.mpr (strCompare_eq_neg_one.mp y)
  · rw [x, y]
    have := strCompare_eq_zero.mp x; subst this
    exact strCompare_eq_zero.mpr (strCompare_eq_zero.mp y)

/-! ## `Cmp` -/

/-- the integer/integer branch of `Cmp` is the sign of the difference -/
theorem cmpNum_int (k k' : IntKind) (v w : Int) :
    cmpNum (.int k v) (.int k' w) = Int.sign (v - w) := by
  simp only [cmpNum, integer]
  rcases Int.lt_trichotomy v w with h | h | h
  · have s : (v - w).sign = -1 := Int.sign_eq_neg_one_iff_neg.mpr (by omega)
    rw [s]
    by_cases hv : v < 0 <;> by_cases hw : w < 0 <;> simp [hv, hw] <;> omega
  · subst h
    simp
  · have s : (v - w).sign = 1 := Int.sign_eq_one_iff_pos.mpr (by omega)
    rw [s]
    by_cases hv : v < 0 <;> by_cases hw : w < 0 <;> simp [hv, hw] <;> omega

/-- every other numeric pair is compared as `float64` -/
theorem cmpNum_float {a b : GoVal} (h : integer a = none ∨ integer b = none) :
    cmpNum a b = dsign (asF64 a) (asF64 b) := by
  rw [← dcmp_eq_dsign]
  unfold cmpNum dcmp
  rcases h with h | h
  · rw [h]
  · rw [h]; cases integer a <;> rfl

theorem integer_int (k : IntKind) (v : Int) : integer (.int k v) = some (decide (v < 0), v.natAbs) :=
  rfl

theorem integer_eq_none_iff {a : GoVal} : integer a = none ↔ ∀ k v, a ≠ .int k v := by
  cases a <;> simp [integer]

theorem cmpNum_range (a b : GoVal) : cmpNum a b = -1 ∨ cmpNum a b = 0 ∨ cmpNum a b = 1 := by
  cases ha : integer a with
  | none => rw [cmpNum_float (.inl ha)]; exact dsign_range _ _
  | some p =>
    cases hb : integer b with
    | none => rw [cmpNum_float (.inr hb)]; exact dsign_range _ _
    | some q =>
      cases a <;> simp [integer] at ha
      cases b <;> simp [integer] at hb
      rw [cmpNum_int]
      rename_i k v k' w
      rcases Int.lt_trichotomy (v - w) 0 with h | h | h
      · exact .inl (Int.sign_eq_neg_one_iff_neg.mpr h)
      · exact .inr (.inl (Int.sign_eq_zero_iff_zero.mpr h))
      · exact .inr (.inr (Int.sign_eq_one_iff_pos.mpr h))

theorem cmpNum_antisymm (a b : GoVal) : cmpNum b a = -cmpNum a b := by
  cases ha : integer a with
  | none => rw [cmpNum_float (.inl ha), cmpNum_float (.inr ha)]; exact dsign_antisymm _ _
  | some p =>
    cases hb : integer b with
    | none => rw [cmpNum_float (.inr hb), cmpNum_float (.inl hb)]; exact dsign_antisymm _ _
    | some q =>
      cases a <;> simp [integer] at ha
      cases b <;> simp [integer] at hb
      rw [cmpNum_int, cmpNum_int, ← Int.sign_neg]
      congr 1; omega

theorem cmpNum_self (a : GoVal) : cmpNum a a = 0 := by
  cases ha : integer a with
  | none => rw [cmpNum_float (.inl ha)]; exact dsign_self _
  | some p =>
    cases a <;> simp [integer] at ha
    rw [cmpNum_int]; simp

/-! ## exact conversion to `float64` -/

theorem roundNat53_exact {n : Nat} (h : n ≤ 2 ^ 53) : roundNat53 n = n := by
  by_cases h' : n < 2 ^ 53
  · simp [roundNat53, h']
  · have : n = 2 ^ 53 := by omega
    subst this; decide

theorem intToF64_exact {v : Int} (h : v.natAbs ≤ 2 ^ 53) : intToF64 v = ⟨v, 0⟩ := by
  unfold intToF64
  rw [roundNat53_exact h]
  congr 1
  simp only [Int.ofNat_eq_natCast]
  split <;> omega

/-! ## `cmpText`, `compareT`, `compareGo` -/

theorem cmpText_antisymm {a b : GoVal} {c : Int} (h : cmpText a b = some c) :
    cmpText b a = some (-c) := by
  unfold cmpText at *
  cases ha : fmtGo a <;> cases hb : fmtGo b <;> simp [ha, hb] at h ⊢
  rw [← h]; exact strCompare_antisymm _ _

theorem cmpText_range {a b : GoVal} {c : Int} (h : cmpText a b = some c) :
    c = -1 ∨ c = 0 ∨ c = 1 := by
  unfold cmpText at h
  cases ha : fmtGo a <;> cases hb : fmtGo b <;> simp [ha, hb] at h
  rw [← h]; exact strCompare_range _ _

theorem compareGo_num_num {a b : GoVal} (ha : a.isNum = true) (hb : b.isNum = true) :
    compareGo a b = some (cmpNum a b) := by
  simp [compareGo, compareT, ha, hb]

theorem compareGo_num_str {a : GoVal} (ha : a.isNum = true) (s : String) :
    compareGo a (.str s) = (fmtGo a).map fun sa => strCompare sa s := by
  have hs : (GoVal.str s).isNum = false := rfl
  simp only [compareGo, compareT, ha, hs, if_true]
  cases fmtGo a <;> simp

theorem compareGo_str_any (s : String) (b : GoVal) :
    compareGo (.str s) b = (fmtGo b).map fun sb => strCompare s sb := by
  have hs : (GoVal.str s).isNum = false := rfl
  have hf : fmtGo (.str s) = some s := rfl
  simp only [compareGo, hs, cmpText, hf]
  cases fmtGo b <;> simp

/-- whenever the numeric branch is not taken the result is the comparison of the two texts -/
theorem compareGo_text {a b : GoVal} (h : a.isNum = false ∨ b.isNum = false) :
    compareGo a b = cmpText a b := by
  by_cases ha : a.isNum = true
  · have hb : b.isNum = false := by rcases h with h | h <;> simp_all
    cases b with
    | str s =>
      rw [compareGo_num_str ha]
      have hf : fmtGo (.str s) = some s := rfl
      simp only [cmpText, hf]
      cases fmtGo a <;> rfl
    | bool _ => simp only [compareGo, compareT, ha, hb, if_true]; rfl
    | nil => simp only [compareGo, compareT, ha, hb, if_true]; rfl
    | int _ _ => simp [GoVal.isNum] at hb
    | f32 _ => simp [GoVal.isNum] at hb
    | f64 _ => simp [GoVal.isNum] at hb
  · simp [compareGo, ha]

end Genql.Cmp
