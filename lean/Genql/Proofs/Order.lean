/-
  Genql.Proofs.Order — `compare.Compare` restricted to scalars of one kind (numbers or strings) is a
  three-way comparison with the usual laws.  Used by C05 (sort comparator) and C04 (key equality).
-/
import Genql.Proofs.Pred
set_option linter.unusedSectionVars false
namespace Genql
variable {N : Type} [Num N] [LawfulNum N]

/-- total version of `compareVal` (0 where the model has no answer) -/
def cmpK (a b : Val N) : Int :=
  match compareVal a b with
  | .ok c => c
  | .error _ => 0

/-- kinds on which ORDER BY is claimed -/
def Sortable (κ : Kind) : Prop := κ = .num ∨ κ = .str

theorem cmpK_spec {a b : Val N} {κ : Kind} (hκ : Sortable κ) (ha : kindOf a = some κ) (hb : kindOf b = some κ) :
    compareVal a b = .ok (cmpK a b) ∧
    (cmpK a b = 0 ↔ eqV a b = true) ∧ (cmpK a b = -1 ↔ ltV a b = true) ∧ (cmpK a b = 1 ↔ ltV b a = true) ∧
    (cmpK a b = 0 ∨ cmpK a b = 1 ∨ cmpK a b = -1) := by
  have hnb : κ ≠ .bool := by rcases hκ with h | h <;> subst h <;> decide
  obtain ⟨c, hc, h0, hlt, hgt, hr⟩ := compare_same_kind ha hb
  have : cmpK a b = c := by simp [cmpK, hc]
  rw [this]
  exact ⟨hc, h0, hlt hnb, hgt hnb, hr⟩

theorem eqV_iff {a b : Val N} {κ : Kind} (hκ : Sortable κ) (ha : kindOf a = some κ) (hb : kindOf b = some κ) :
    eqV a b = true ↔ a = b := by
  rcases hκ with h | h <;> subst h <;> cases a <;> cases b <;> simp [kindOf] at ha hb <;>
    simp [eqV, LawfulNum.eq_iff]

theorem ltV_irrefl {a : Val N} : ltV a a = false := by
  cases a <;> simp [ltV, LawfulNum.lt_irrefl, String.lt_irrefl]

theorem ltV_trans {a b c : Val N} (h1 : ltV a b = true) (h2 : ltV b c = true) : ltV a c = true := by
  cases a <;> cases b <;> simp [ltV] at h1 <;> cases c <;> simp [ltV] at h2 ⊢
  · exact LawfulNum.lt_trans _ _ _ h1 h2
  · exact String.lt_trans h1 h2

theorem ltV_asymm {a b : Val N} (h1 : ltV a b = true) : ltV b a = false := by
  cases a <;> cases b <;> simp [ltV] at h1 ⊢
  · exact LawfulNum.lt_asymm _ _ h1
  · exact String.lt_asymm h1

theorem ltV_total {a b : Val N} {κ : Kind} (hκ : Sortable κ) (ha : kindOf a = some κ) (hb : kindOf b = some κ) :
    ltV a b = true ∨ a = b ∨ ltV b a = true := by
  rcases hκ with h | h <;> subst h <;> cases a <;> cases b <;> simp [kindOf] at ha hb
  · rename_i x y
    rcases LawfulNum.lt_total x y with h | h | h
    · exact .inl (by simpa [ltV] using h)
    · exact .inr (.inl (by rw [h]))
    · exact .inr (.inr (by simpa [ltV] using h))
  · rename_i x y
    rcases String.lt_or_eq_or_gt x y with h | h | h
    · exact .inl (by simpa [ltV] using h)
    · exact .inr (.inl (by rw [h]))
    · exact .inr (.inr (by simpa [ltV] using h))

/-- the laws of a three-way comparison, for values of one sortable kind -/
theorem cmpK_refl {a : Val N} {κ : Kind} (hκ : Sortable κ) (ha : kindOf a = some κ) : cmpK a a = 0 :=
  ((cmpK_spec hκ ha ha).2.1).2 ((eqV_iff hκ ha ha).2 rfl)

theorem cmpK_antisymm {a b : Val N} {κ : Kind} (hκ : Sortable κ) (ha : kindOf a = some κ) (hb : kindOf b = some κ) :
    cmpK a b = - cmpK b a := by
  obtain ⟨-, h0, hlt, hgt, hr⟩ := cmpK_spec hκ ha hb
  obtain ⟨-, h0', hlt', hgt', hr'⟩ := cmpK_spec hκ hb ha
  rcases hr with h | h | h
  · have : a = b := (eqV_iff hκ ha hb).1 (h0.1 h)
    subst this; omega
  · have := hlt'.2 (hgt.1 h); omega
  · have := hgt'.2 (hlt.1 h); omega

theorem cmpK_trans_lt {a b c : Val N} {κ : Kind} (hκ : Sortable κ) (ha : kindOf a = some κ)
    (hb : kindOf b = some κ) (hc : kindOf c = some κ) (h1 : cmpK a b = -1) (h2 : cmpK b c = -1) : cmpK a c = -1 := by
  have l1 := ((cmpK_spec hκ ha hb).2.2.1).1 h1
  have l2 := ((cmpK_spec hκ hb hc).2.2.1).1 h2
  exact ((cmpK_spec hκ ha hc).2.2.1).2 (ltV_trans l1 l2)

theorem cmpK_eq_left {a b c : Val N} {κ : Kind} (hκ : Sortable κ) (ha : kindOf a = some κ)
    (hb : kindOf b = some κ) (h : cmpK a b = 0) : cmpK a c = cmpK b c := by
  have : a = b := (eqV_iff hκ ha hb).1 (((cmpK_spec hκ ha hb).2.1).1 h)
  rw [this]

end Genql
