/-
  Genql.Proofs.ValEqEquiv — `valEq` (the relation the model's DISTINCT / UNION deduplicate by: structural
  equality with objects compared as maps, what the `%#v` fingerprint of `ExecDistinct` identifies) is an
  equivalence relation on well-formed values (objects with pairwise different keys — what Go maps are,
  and what `setKey` / `copyInto` build).  Without this, the theorems of C06, stated for any
  equivalence `same`, would say nothing about the relation the executable model actually uses.
-/
import Genql.Model.Eval
import Genql.Lawful
set_option linter.unusedSectionVars false
set_option linter.unusedVariables false
namespace Genql.ValEqEquiv
open Genql
variable {N : Type} [Num N] [LawfulNum N]

mutual
/-- every object inside the value has pairwise different keys -/
def WF : Val N → Prop
  | .arr xs => WFList xs
  | .obj fs => (fs.map (·.1)).Nodup ∧ WFFields fs
  | _ => True
def WFList : List (Val N) → Prop
  | [] => True
  | x :: xs => WF x ∧ WFList xs
def WFFields : List (String × Val N) → Prop
  | [] => True
  | (_, v) :: rest => WF v ∧ WFFields rest
end

theorem wf_of_mem_list {xs : List (Val N)} (h : WFList xs) {x : Val N} (hx : x ∈ xs) : WF x := by
  induction xs with
  | nil => cases hx
  | cons y ys ih =>
    simp only [WFList] at h
    rcases List.mem_cons.mp hx with rfl | hm
    · exact h.1
    · exact ih h.2 hm

theorem wf_of_mem_fields {fs : List (String × Val N)} (h : WFFields fs) {k : String} {v : Val N}
    (hx : (k, v) ∈ fs) : WF v := by
  induction fs with
  | nil => cases hx
  | cons f fs ih =>
    obtain ⟨k', v'⟩ := f
    simp only [WFFields] at h
    rcases List.mem_cons.mp hx with he | hm
    · cases he; exact h.1
    · exact ih h.2 hm

/-! ### association lists with different keys -/

theorem mem_of_lookup {α : Type} {k : String} {v : α} {fs : List (String × α)} (h : lookup? k fs = some v) :
    (k, v) ∈ fs := by
  induction fs with
  | nil => simp [lookup?] at h
  | cons f fs ih =>
    obtain ⟨k', v'⟩ := f
    simp only [lookup?] at h
    by_cases hk : k' = k
    · simp [hk] at h; subst hk; subst h; simp
    · simp [hk] at h; exact List.mem_cons_of_mem _ (ih h)

theorem lookup_of_mem {α : Type} {k : String} {v : α} {fs : List (String × α)} (hn : (fs.map (·.1)).Nodup)
    (h : (k, v) ∈ fs) : lookup? k fs = some v := by
  induction fs with
  | nil => cases h
  | cons f fs ih =>
    obtain ⟨k', v'⟩ := f
    simp only [List.map_cons, List.nodup_cons] at hn
    simp only [lookup?]
    rcases List.mem_cons.mp h with he | hm
    · cases he; simp
    · have : k' ≠ k := by
        intro e; subst e
        exact hn.1 (List.mem_map.mpr ⟨(k', v), hm, rfl⟩)
      simp [this, ih hn.2 hm]

theorem lookup_isSome_iff {α : Type} {k : String} {fs : List (String × α)} :
    (lookup? k fs).isSome = true ↔ k ∈ fs.map (·.1) := by
  induction fs with
  | nil => simp [lookup?]
  | cons f fs ih =>
    obtain ⟨k', v'⟩ := f
    simp only [lookup?, List.map_cons, List.mem_cons]
    by_cases hk : k' = k
    · simp [hk]
    · have : ¬ k = k' := fun e => hk e.symm
      simp [hk, this, ih]

/-- pigeonhole: a duplicate-free list contained in a duplicate-free list of the same length contains it -/
theorem subset_of_nodup_length : ∀ (ks ms : List String), ks.Nodup → ms.Nodup → ks.length = ms.length →
    (∀ k ∈ ks, k ∈ ms) → ∀ m ∈ ms, m ∈ ks
  | [], ms, _, _, hl, _, m, hm => by
    have : ms = [] := List.length_eq_zero_iff.mp hl.symm
    subst this; cases hm
  | k :: ks, ms, hk, hm, hl, hsub, m, hmm => by
    have hkm : k ∈ ms := hsub k (by simp)
    simp only [List.nodup_cons] at hk
    have hsub' : ∀ x ∈ ks, x ∈ ms.erase k := by
      intro x hx
      have hne : x ≠ k := fun e => hk.1 (e ▸ hx)
      exact (List.mem_erase_of_ne hne).mpr (hsub x (by simp [hx]))
    have hlen : ks.length = (ms.erase k).length := by
      rw [List.length_erase_of_mem hkm]; simp at hl; omega
    by_cases hmk : m = k
    · simp [hmk]
    · have := subset_of_nodup_length ks (ms.erase k) hk.2 (hm.erase k) hlen hsub' m
        ((List.mem_erase_of_ne hmk).mpr hmm)
      simp [this]

/-! ### the three laws -/

theorem objSub_iff (fs gs : List (String × Val N)) :
    objSub fs gs = true ↔ ∀ kv ∈ fs, ∃ w, lookup? kv.1 gs = some w ∧ valEq kv.2 w = true := by
  induction fs with
  | nil => simp [objSub]
  | cons f fs ih =>
    obtain ⟨k, v⟩ := f
    simp only [objSub, Bool.and_eq_true, ih, List.mem_cons, forall_eq_or_imp]
    constructor
    · rintro ⟨h1, h2⟩
      refine ⟨?_, h2⟩
      cases hl : lookup? k gs with
      | none => simp [hl] at h1
      | some w => simp [hl] at h1; exact ⟨w, rfl, h1⟩
    · rintro ⟨⟨w, hw, hv⟩, h2⟩
      exact ⟨by simp [hw, hv], h2⟩

theorem listEq_iff (xs ys : List (Val N)) :
    listEq xs ys = true ↔ xs.length = ys.length ∧ ∀ p ∈ xs.zip ys, valEq p.1 p.2 = true := by
  induction xs generalizing ys with
  | nil => cases ys <;> simp [listEq]
  | cons x xs ih =>
    cases ys with
    | nil => simp [listEq]
    | cons y ys =>
      simp only [listEq, Bool.and_eq_true, ih, List.length_cons, List.zip_cons_cons, List.mem_cons, forall_eq_or_imp]
      constructor
      · rintro ⟨h1, h2, h3⟩; exact ⟨by omega, h1, h3⟩
      · rintro ⟨h1, h2, h3⟩; exact ⟨h2, by omega, h3⟩

/-! ### a size measure for the induction -/

mutual
def sz : Val N → Nat
  | .arr xs => 1 + szList xs
  | .obj fs => 1 + szFields fs
  | _ => 1
def szList : List (Val N) → Nat
  | [] => 0
  | x :: xs => sz x + szList xs
def szFields : List (String × Val N) → Nat
  | [] => 0
  | (_, v) :: rest => sz v + szFields rest
end

theorem sz_le_fields {fs : List (String × Val N)} {k : String} {v : Val N} (h : (k, v) ∈ fs) : sz v ≤ szFields fs := by
  induction fs with
  | nil => cases h
  | cons f fs ih =>
    obtain ⟨k', v'⟩ := f
    simp only [szFields]
    rcases List.mem_cons.mp h with he | hm
    · cases he; omega
    · have := ih hm; omega

/-- reflexivity, by induction on the size bound -/
theorem valEq_refl_aux : ∀ (n : Nat) (a : Val N), sz a ≤ n → WF a → valEq a a = true := by
  intro n
  induction n with
  | zero => intro a h; cases a <;> simp [sz] at h
  | succ n ih =>
    intro a hsz hwf
    cases a with
    | null => simp [valEq]
    | bool b => simp [valEq]
    | num x => simp [valEq, (LawfulNum.eq_iff x x).mpr rfl]
    | str s => simp [valEq]
    | arr xs =>
      simp only [valEq]
      simp only [sz] at hsz
      simp only [WF] at hwf
      have : ∀ (ys : List (Val N)), szList ys ≤ n → WFList ys → listEq ys ys = true := by
        intro ys
        induction ys with
        | nil => intros; simp [listEq]
        | cons y ys ihy =>
          intro h1 h2
          simp only [szList] at h1
          simp only [WFList] at h2
          simp only [listEq, Bool.and_eq_true]
          exact ⟨ih y (by omega) h2.1, ihy (by omega) h2.2⟩
      exact this xs (by omega) hwf
    | obj fs =>
      simp only [valEq, Bool.and_eq_true, beq_self_eq_true, true_and]
      simp only [sz] at hsz
      simp only [WF] at hwf
      rw [objSub_iff]
      intro kv hkv
      refine ⟨kv.2, lookup_of_mem hwf.1 hkv, ?_⟩
      have := sz_le_fields (k := kv.1) (v := kv.2) hkv
      exact ih kv.2 (by omega) (wf_of_mem_fields hwf.2 (k := kv.1) hkv)

theorem valEq_refl (a : Val N) (h : WF a) : valEq a a = true := valEq_refl_aux (sz a) a (Nat.le_refl _) h

/-- transitivity, by induction on the size bound of the first value -/
theorem valEq_trans_aux : ∀ (n : Nat) (a b c : Val N), sz a ≤ n →
    valEq a b = true → valEq b c = true → valEq a c = true := by
  intro n
  induction n with
  | zero => intro a b c h; cases a <;> simp [sz] at h
  | succ n ih =>
    intro a b c hsz hab hbc
    cases a <;> cases b <;> simp [valEq] at hab <;> cases c <;> simp [valEq] at hbc ⊢
    case bool.bool.bool x y z => rw [hab, hbc]
    case num.num.num x y z =>
      rw [(LawfulNum.eq_iff x y).mp hab, (LawfulNum.eq_iff y z).mp hbc]
      exact (LawfulNum.eq_iff z z).mpr rfl
    case str.str.str x y z => rw [hab, hbc]
    case arr.arr.arr xs ys zs =>
      simp only [sz] at hsz
      have : ∀ (xs ys zs : List (Val N)), szList xs ≤ n → listEq xs ys = true → listEq ys zs = true →
          listEq xs zs = true := by
        intro xs
        induction xs with
        | nil => intro ys zs _ h1 h2; cases ys <;> simp [listEq] at h1; cases zs <;> simp [listEq] at h2 ⊢
        | cons x xs ihx =>
          intro ys zs h0 h1 h2
          cases ys with
          | nil => simp [listEq] at h1
          | cons y ys =>
            cases zs with
            | nil => simp [listEq] at h2
            | cons z zs =>
              simp only [listEq, Bool.and_eq_true] at h1 h2 ⊢
              simp only [szList] at h0
              exact ⟨ih x y z (by omega) h1.1 h2.1, ihx ys zs (by omega) h1.2 h2.2⟩
      exact this xs ys zs (by omega) hab hbc
    case obj.obj.obj fs gs hs =>
      simp only [sz] at hsz
      obtain ⟨hl1, hs1⟩ := hab
      obtain ⟨hl2, hs2⟩ := hbc
      refine ⟨by omega, ?_⟩
      rw [objSub_iff] at hs1 hs2 ⊢
      intro kv hkv
      obtain ⟨w, hw, hvw⟩ := hs1 kv hkv
      obtain ⟨u, hu, hwu⟩ := hs2 (kv.1, w) (mem_of_lookup hw)
      refine ⟨u, hu, ?_⟩
      have := sz_le_fields (k := kv.1) (v := kv.2) hkv
      exact ih kv.2 w u (by omega) hvw hwu

theorem valEq_trans (a b c : Val N) (h1 : valEq a b = true) (h2 : valEq b c = true) : valEq a c = true :=
  valEq_trans_aux (sz a) a b c (Nat.le_refl _) h1 h2

/-- symmetry (on well-formed values: both objects must have pairwise different keys) -/
theorem valEq_symm_aux : ∀ (n : Nat) (a b : Val N), sz a ≤ n → WF a → WF b →
    valEq a b = true → valEq b a = true := by
  intro n
  induction n with
  | zero => intro a b h; cases a <;> simp [sz] at h
  | succ n ih =>
    intro a b hsz hwa hwb hab
    cases a <;> cases b <;> simp [valEq] at hab ⊢
    case bool.bool x y => rw [hab]
    case num.num x y =>
      rw [(LawfulNum.eq_iff x y).mp hab]; exact (LawfulNum.eq_iff y y).mpr rfl
    case str.str x y => rw [hab]
    case arr.arr xs ys =>
      simp only [sz] at hsz
      simp only [WF] at hwa hwb
      have : ∀ (xs ys : List (Val N)), szList xs ≤ n → WFList xs → WFList ys → listEq xs ys = true →
          listEq ys xs = true := by
        intro xs
        induction xs with
        | nil => intro ys _ _ _ h1; cases ys <;> simp [listEq] at h1 ⊢
        | cons x xs ihx =>
          intro ys h0 w1 w2 h1
          cases ys with
          | nil => simp [listEq] at h1
          | cons y ys =>
            simp only [listEq, Bool.and_eq_true] at h1 ⊢
            simp only [szList] at h0
            simp only [WFList] at w1 w2
            exact ⟨ih x y (by omega) w1.1 w2.1 h1.1, ihx ys (by omega) w1.2 w2.2 h1.2⟩
      exact this xs ys (by omega) hwa hwb hab
    case obj.obj fs gs =>
      simp only [sz] at hsz
      simp only [WF] at hwa hwb
      obtain ⟨hl, hs⟩ := hab
      refine ⟨hl.symm, ?_⟩
      rw [objSub_iff] at hs ⊢
      have hkeys : ∀ k ∈ fs.map (·.1), k ∈ gs.map (·.1) := by
        intro k hk
        obtain ⟨kv, hkv, rfl⟩ := List.mem_map.mp hk
        obtain ⟨w, hw, _⟩ := hs kv hkv
        exact List.mem_map.mpr ⟨(kv.1, w), mem_of_lookup hw, rfl⟩
      have hback := subset_of_nodup_length (fs.map (·.1)) (gs.map (·.1)) hwa.1 hwb.1
        (by simp [hl]) hkeys
      intro kv' hkv'
      have hk' : kv'.1 ∈ fs.map (·.1) := hback kv'.1 (List.mem_map.mpr ⟨kv', hkv', rfl⟩)
      obtain ⟨kv, hkv, hke⟩ := List.mem_map.mp hk'
      obtain ⟨w, hw, hvw⟩ := hs kv hkv
      have hw' : lookup? kv.1 gs = some kv'.2 := by
        rw [hke]; exact lookup_of_mem hwb.1 hkv'
      rw [hw] at hw'
      cases hw'
      refine ⟨kv.2, ?_, ?_⟩
      · rw [← hke]; exact lookup_of_mem hwa.1 hkv
      · have := sz_le_fields (k := kv.1) (v := kv.2) hkv
        exact ih kv.2 kv'.2 (by omega) (wf_of_mem_fields hwa.2 (k := kv.1) hkv)
          (wf_of_mem_fields hwb.2 (k := kv'.1) hkv') hvw

theorem valEq_symm (a b : Val N) (ha : WF a) (hb : WF b) (h : valEq a b = true) : valEq b a = true :=
  valEq_symm_aux (sz a) a b (Nat.le_refl _) ha hb h

/-- as a Boolean identity -/
theorem valEq_comm (a b : Val N) (ha : WF a) (hb : WF b) : valEq a b = valEq b a := by
  cases h1 : valEq a b <;> cases h2 : valEq b a <;> try rfl
  · rw [valEq_symm b a hb ha h2] at h1; cases h1
  · rw [valEq_symm a b ha hb h1] at h2; cases h2

end Genql.ValEqEquiv
