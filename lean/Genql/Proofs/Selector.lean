/-
  Genql.Proofs.Selector — helper lemmas about the selector model (`Genql.Model.Selector`) used by
  `Genql.Properties.C09`: absence of panics, tokenizer facts, evaluation laws.
-/
import Genql.Model.Selector
import Genql.Proofs.ValEq
set_option linter.unusedSectionVars false
namespace Genql.Sel
open Genql
variable {N : Type} [Num N]

/-! ## "does not panic" -/

/-- the outcome is not a Go panic -/
def NoPanic {α : Type} (r : R α) : Prop := r ≠ .error .panic

@[simp] theorem noPanic_ok {α : Type} (a : α) : NoPanic (.ok a : R α) := by simp [NoPanic]
@[simp] theorem noPanic_error {α : Type} : NoPanic (.error .error : R α) := by simp [NoPanic]
@[simp] theorem noPanic_oom {α : Type} : NoPanic (.error .oom : R α) := by simp [NoPanic]

theorem noPanic_cast {α β : Type} {e : Err} (h : NoPanic (.error e : R α)) : NoPanic (.error e : R β) := by
  cases e <;> simp_all [NoPanic]

theorem noPanic_bind {α β : Type} {r : R α} {f : α → R β} (hr : NoPanic r) (hf : ∀ a, r = .ok a → NoPanic (f a)) :
    NoPanic (r >>= f) := by
  cases r with
  | ok a => exact hf a rfl
  | error e => exact noPanic_cast hr

theorem mapE_noPanic {α β : Type} {f : α → R β} :
    ∀ {xs : List α}, (∀ x ∈ xs, NoPanic (f x)) → NoPanic (mapE f xs)
  | [], _ => by simp [mapE]
  | x :: xs, h => by
    have hx := h x (by simp)
    have ih := mapE_noPanic (f := f) (xs := xs) (fun y hy => h y (by simp [hy]))
    simp only [mapE]
    refine noPanic_bind hx fun a _ => noPanic_bind ih fun b _ => ?_
    simp [pure, Except.pure]

/-! ### parsing -/

theorem findAll_ne_nil (m : List Char → Option Nat) :
    ∀ (cs : List Char) (k : Nat), ∀ t ∈ findAll m k cs, t ≠ []
  | [], k => by simp [findAll]
  | c :: cs, k + 1 => by
    simp only [findAll]; exact findAll_ne_nil m cs k
  | c :: cs, 0 => by
    simp only [findAll]
    split
    · rename_i n _
      intro t ht
      simp only [List.mem_cons] at ht
      rcases ht with rfl | ht
      · simp
      · exact findAll_ne_nil m cs n t ht
    · exact findAll_ne_nil m cs 0

theorem consHead_ne_nil (c : Char) (l : List (List Char)) : consHead c l ≠ [] := by
  cases l <;> simp [consHead]

theorem splitChar_ne_nil (sep : Char) : ∀ cs, splitChar sep cs ≠ []
  | [] => by simp [splitChar]
  | c :: cs => by
    simp only [splitChar]
    split
    · simp
    · exact consHead_ne_nil _ _

theorem splitCC_ne_nil : ∀ cs, splitCC cs ≠ []
  | [] => by simp [splitCC]
  | [c] => by simp [splitCC]
  | c :: d :: rest => by
    simp only [splitCC]
    split
    · simp
    · exact consHead_ne_nil _ _

theorem noPanic_map {α β : Type} {r : R α} {f : α → β} (hr : NoPanic r) : NoPanic (f <$> r) := by
  cases r with
  | ok a => simp [Functor.map, Except.map]
  | error e => exact noPanic_cast hr

theorem readIndex_noPanic (cs : List Char) : NoPanic (readIndex cs) := by
  unfold readIndex
  simp only
  generalize splitSign cs = sg
  repeat' split
  all_goals simp

theorem readBound_noPanic (kw cs : List Char) : NoPanic (readBound kw cs) := by
  unfold readBound
  split
  · simp
  · exact noPanic_map (readIndex_noPanic cs)

theorem readRange_noPanic (m : List Char) : NoPanic (readRange m) := by
  unfold readRange
  simp only
  split
  · refine noPanic_bind (readBound_noPanic _ _) fun a _ => noPanic_bind (readBound_noPanic _ _) fun b _ => ?_
    simp [pure, Except.pure]
  · simp

theorem parseDim_noPanic {m : List Char} (hm : m ≠ []) : NoPanic (parseDim m) := by
  unfold parseDim
  split
  · exact absurd rfl hm
  · split
    · exact readRange_noPanic _
    · split
      · simp
      · exact noPanic_map (readIndex_noPanic _)

theorem parseArray_noPanic (m : List Char) : NoPanic (parseArray m) := by
  unfold parseArray
  exact noPanic_map (mapE_noPanic fun x hx => parseDim_noPanic (findAll_ne_nil _ _ _ x hx))

theorem parsePipeItem_noPanic (m : List Char) : NoPanic (parsePipeItem m) := by
  unfold parsePipeItem
  split
  · rename_i h; exact absurd h (splitChar_ne_nil _ _)
  · simp
  · simp
  · simp

theorem parsePipe_noPanic (m : List Char) : NoPanic (parsePipe m) := by
  unfold parsePipe
  exact noPanic_map (mapE_noPanic fun x _ => parsePipeItem_noPanic x)

theorem parseTok_noPanic {m : List Char} (hm : m ≠ []) : NoPanic (parseTok m) := by
  unfold parseTok
  split
  · exact absurd rfl hm
  · split
    · exact parseArray_noPanic _
    · split
      · exact parsePipe_noPanic _
      · simp

theorem parseSelectorL_noPanic (s : List Char) : NoPanic (parseSelectorL s) := by
  unfold parseSelectorL
  exact noPanic_map (mapE_noPanic fun x hx => parseTok_noPanic (findAll_ne_nil _ _ _ x hx))

theorem parseAllL_noPanic (s : List Char) : NoPanic (parseAllL s) :=
  mapE_noPanic fun x _ => parseSelectorL_noPanic x

/-! ### an induction principle for the nested inductive `Val` -/

section induct
variable {P : Val N → Prop}
  (hnull : P .null) (hbool : ∀ b, P (.bool b)) (hnum : ∀ n, P (.num n)) (hstr : ∀ s, P (.str s))
  (harr : ∀ xs, (∀ x ∈ xs, P x) → P (.arr xs))
  (hobj : ∀ fs : List (String × Val N), (∀ p ∈ fs, P p.2) → P (.obj fs))
include hnull hbool hnum hstr harr hobj

mutual
theorem valInduct : ∀ v : Val N, P v
  | .null => hnull
  | .bool b => hbool b
  | .num n => hnum n
  | .str s => hstr s
  | .arr xs => harr xs (valInductList xs)
  | .obj fs => hobj fs (valInductFields fs)
theorem valInductList : ∀ xs : List (Val N), ∀ x ∈ xs, P x
  | [] => by simp
  | y :: ys => by
    intro x hx
    simp only [List.mem_cons] at hx
    rcases hx with rfl | h
    · exact valInduct x
    · exact valInductList ys x h
theorem valInductFields : ∀ fs : List (String × Val N), ∀ p ∈ fs, P p.2
  | [] => by simp
  | (k, v) :: rest => by
    intro p hp
    simp only [List.mem_cons] at hp
    rcases hp with rfl | h
    · exact valInduct v
    · exact valInductFields rest p h
end
end induct

/-! ### evaluation -/

theorem keyStepList_eq_mapE (k : String) (cont : Val N → R (Val N)) :
    ∀ xs, keyStepList k cont xs = mapE (keyStep k cont) xs
  | [] => by simp [keyStepList, mapE]
  | x :: xs => by simp [keyStepList, mapE, keyStepList_eq_mapE k cont xs]

theorem pipeStepList_eq_mapE (ps : List (String × String)) (cont : Val N → R (Val N)) :
    ∀ xs, pipeStepList ps cont xs = mapE (pipeStep ps cont) xs
  | [] => by simp [pipeStepList, mapE]
  | x :: xs => by simp [pipeStepList, mapE, pipeStepList_eq_mapE ps cont xs]

theorem goSlice_ok {α : Type} (xs : List α) {b e : Nat} (h : b ≤ e ∧ e ≤ xs.length) :
    goSlice xs b e = .ok ((xs.drop b).take (e - b)) := by
  simp [goSlice, h]

theorem goIndex_ok {α : Type} (xs : List α) {i : Nat} (h : i < xs.length) :
    goIndex xs i = .ok xs[i] := by
  simp [goIndex, h]

theorem selDim_noPanic : ∀ (ds : List Dim) (v : Val N), NoPanic (selDim ds v)
  | [], v => by simp [selDim]
  | d :: ds, v => by
    have ih := selDim_noPanic ds
    cases v with
    | arr xs =>
      cases d with
      | idx i =>
        simp only [selDim]
        split
        · simp
        · rw [goIndex_ok xs (by omega)]; exact ih _
      | each =>
        simp only [selDim]
        exact noPanic_map (mapE_noPanic fun x _ => ih x)
      | range b e =>
        simp only [selDim]
        split
        · simp
        · rw [goSlice_ok xs (by omega)]; exact ih _
    | _ => simp [selDim]

theorem selMany_noPanic (xs : List (Val N)) (ds : List Dim) : NoPanic (selMany xs ds) :=
  noPanic_map (selDim_noPanic ds _)

theorem keyStep_noPanic {k : String} {cont : Val N → R (Val N)} (hc : ∀ v, NoPanic (cont v)) :
    ∀ v, NoPanic (keyStep k cont v) := by
  apply valInduct
  · simp [keyStep]
  · simp [keyStep]
  · simp [keyStep]
  · simp [keyStep]
  · intro xs ih
    simp only [keyStep, keyStepList_eq_mapE]
    exact noPanic_bind (mapE_noPanic ih) fun _ _ => by simp [pure, Except.pure]
  · intro fs _
    simp only [keyStep]; exact hc _

theorem dimsStep_noPanic {ds : List Dim} {cont : Val N → R (Val N)} (hc : ∀ v, NoPanic (cont v)) :
    ∀ v, NoPanic (dimsStep ds cont v) := by
  intro v
  cases v <;> simp only [dimsStep, noPanic_ok, noPanic_error]
  exact noPanic_bind (selMany_noPanic _ _) fun a _ => hc a

theorem keepStep_noPanic {ds : List Dim} {cont : Val N → R (Val N)} (hc : ∀ v, NoPanic (cont v)) :
    ∀ v, NoPanic (keepStep ds cont v) := by
  intro v
  cases v <;> simp only [keepStep, noPanic_ok, noPanic_error]
  exact noPanic_bind (selDim_noPanic _ _) fun a _ => hc a

theorem pipeString_noPanic (v : Val N) : NoPanic (pipeString v) := by
  unfold pipeString
  repeat' split
  all_goals simp

theorem parseFloatModel_noPanic (cs : List Char) : NoPanic (parseFloatModel cs : R (Val N)) := by
  unfold parseFloatModel
  simp only
  generalize splitSign cs = sg
  repeat' split
  all_goals simp

theorem pipeNumber_noPanic (v : Val N) : NoPanic (pipeNumber v) := by
  unfold pipeNumber
  split
  · exact parseFloatModel_noPanic _
  · simp

theorem pipeConv_noPanic (ty : String) (v : Val N) : NoPanic (pipeConv ty v) := by
  unfold pipeConv
  repeat' split
  all_goals first | exact pipeString_noPanic _ | exact pipeNumber_noPanic _ | simp

theorem pipeObj_noPanic (fs : Row N) : ∀ ps acc, NoPanic (pipeObj fs ps acc)
  | [], acc => by simp [pipeObj]
  | p :: ps, acc => by
    simp only [pipeObj]
    exact noPanic_bind (pipeConv_noPanic _ _) fun v _ => pipeObj_noPanic fs ps _

theorem pipeStep_noPanic {ps : List (String × String)} {cont : Val N → R (Val N)}
    (hc : ∀ v, NoPanic (cont v)) : ∀ v, NoPanic (pipeStep ps cont v) := by
  apply valInduct
  · simp [pipeStep]
  · simp [pipeStep]
  · simp [pipeStep]
  · simp [pipeStep]
  · intro xs ih
    simp only [pipeStep, pipeStepList_eq_mapE]
    exact noPanic_bind (mapE_noPanic ih) fun _ _ => by simp [pure, Except.pure]
  · intro fs _
    simp only [pipeStep]
    exact noPanic_bind (pipeObj_noPanic _ _ _) fun c _ => hc _

theorem evalSteps_noPanic : ∀ (steps : List Step) (v : Val N), NoPanic (evalSteps steps v)
  | [], v => by simp [evalSteps]
  | st :: rest, v => by
    have ih := evalSteps_noPanic rest
    cases st <;> simp only [evalSteps]
    · exact keyStep_noPanic ih v
    · exact dimsStep_noPanic ih v
    · exact keepStep_noPanic ih v
    · exact pipeStep_noPanic ih v

theorem mix_noPanic (v : Val N) : NoPanic (mix v) := by
  unfold mix
  split
  · simp
  · simp only
    split <;> simp
  · simp

theorem distinctGo_noPanic : ∀ (xs : List (Val N)) seen, NoPanic (distinctGo xs seen)
  | [], _ => by simp [distinctGo]
  | x :: xs, seen => by
    simp only [distinctGo]
    split
    · simp
    · split
      · exact distinctGo_noPanic xs _
      · exact noPanic_map (distinctGo_noPanic xs _)

theorem distinct_noPanic (v : Val N) : NoPanic (distinct v) := by
  unfold distinct
  split
  · exact noPanic_map (distinctGo_noPanic _ _)
  · simp

/-- a registry none of whose functions panics (true of every function written in safe Go that
    recovers, and of the two built-in ones) -/
def SafeRegistry (reg : Registry N) : Prop := ∀ f g, reg f = some g → ∀ v, NoPanic (g v)

theorem builtins_safe : SafeRegistry (builtins : Registry N) := by
  intro f g h v
  unfold builtins at h
  split at h
  · cases h; exact mix_noPanic v
  · split at h
    · cases h; exact distinct_noPanic v
    · cases h

theorem readerExecutor_noPanic {reg : Registry N} (hr : SafeRegistry reg) (p : Parsed) (d : Val N) :
    NoPanic (readerExecutor reg p d) := by
  unfold readerExecutor
  split
  · exact evalSteps_noPanic _ _
  · refine noPanic_bind (evalSteps_noPanic _ _) fun rs _ => ?_
    split
    · rename_i g hg; exact hr _ g hg rs
    · simp

theorem runAll_noPanic {reg : Registry N} (hr : SafeRegistry reg) :
    ∀ (ps : List Parsed) (d : Val N), NoPanic (runAll reg ps d)
  | [], d => by simp [runAll]
  | p :: ps, d => by
    simp only [runAll]
    exact noPanic_bind (readerExecutor_noPanic hr p d) fun rs _ => runAll_noPanic hr ps rs

theorem execReaderWith_noPanic {reg : Registry N} (hr : SafeRegistry reg) (d : Val N) (s : String) :
    NoPanic (execReaderWith reg d s) :=
  noPanic_bind (parseAllL_noPanic _) fun ps _ => runAll_noPanic hr ps d

/-! ## Tokenizer facts -/

theorem spanLen_append {p : Char → Bool} {w : List Char} (hw : ∀ c ∈ w, p c = true) (rest : List Char) :
    spanLen p (w ++ rest) = w.length + spanLen p rest := by
  induction w with
  | nil => simp
  | cons c w ih =>
    have hc := hw c (by simp)
    simp only [List.cons_append, spanLen, hc, if_true, List.length_cons]
    rw [ih (fun d hd => hw d (by simp [hd]))]; omega

theorem spanLen_stop {p : Char → Bool} {c : Char} (hc : p c = false) (rest : List Char) :
    spanLen p (c :: rest) = 0 := by simp [spanLen, hc]

/-- skipping over the rest of a match -/
theorem findAll_skip (m : List Char → Option Nat) :
    ∀ (xs rest : List Char), findAll m xs.length (xs ++ rest) = findAll m 0 rest
  | [], rest => by
    cases rest <;> simp [findAll]
  | x :: xs, rest => by
    simp only [List.length_cons, List.cons_append, findAll]
    exact findAll_skip m xs rest

/-- a match at the head is emitted and scanning resumes behind it -/
theorem findAll_match (m : List Char → Option Nat) {t : List Char} (ht : t ≠ []) (rest : List Char)
    (hm : m (t ++ rest) = some t.length) : findAll m 0 (t ++ rest) = t :: findAll m 0 rest := by
  cases t with
  | nil => exact absurd rfl ht
  | cons c t =>
    simp only [List.cons_append, List.length_cons] at hm ⊢
    simp only [findAll, hm, List.take_succ_cons, List.cons.injEq, true_and]
    exact ⟨by rw [List.take_left' rfl], findAll_skip m t rest⟩

/-- an unmatched character is skipped -/
theorem findAll_nomatch (m : List Char → Option Nat) {c : Char} {rest : List Char}
    (hm : m (c :: rest) = none) : findAll m 0 (c :: rest) = findAll m 0 rest := by
  simp [findAll, hm]

theorem findAll_nil (m : List Char → Option Nat) (k : Nat) : findAll m k [] = [] := by
  cases k <;> simp [findAll]

/-- a non-empty string of `\w` characters -/
def WordStr (w : List Char) : Prop := w ≠ [] ∧ ∀ c ∈ w, isWord c = true

theorem isWord_ne {c d : Char} (hc : isWord c = true) (hd : isWord d = false) : c ≠ d := by
  intro h; subst h; simp [hc] at hd

theorem not_word_quote : isWord '\'' = false := by decide
theorem not_word_dot : isWord '.' = false := by decide
theorem not_word_lt : isWord '<' = false := by decide
theorem not_word_star : isWord '*' = false := by decide
theorem not_word_lbra : isWord '[' = false := by decide
theorem not_word_lcur : isWord '{' = false := by decide
theorem not_word_eq : isWord '=' = false := by decide
theorem not_word_colon : isWord ':' = false := by decide

/-- `\w+` followed by nothing or by a non-word character is one token of `_FULLPATTERN` -/
theorem matchFull_word {w : List Char} (hw : WordStr w) (rest : List Char)
    (hr : spanLen isWord rest = 0) : matchFull (w ++ rest) = some w.length := by
  obtain ⟨hne, hall⟩ := hw
  cases w with
  | nil => exact absurd rfl hne
  | cons c w =>
    have hc : isWord c = true := hall c (by simp)
    have h1 : (c == '\'') = false := by simpa using isWord_ne hc not_word_quote
    have h2 : ¬ ('<' = c) := fun e => isWord_ne hc not_word_lt e.symm
    have h3 : ¬ ('*' = c) := fun e => isWord_ne hc not_word_star e.symm
    have hs : spanLen isWord (c :: w ++ rest) = (c :: w).length := by
      rw [spanLen_append hall, hr]; simp
    simp only [List.cons_append] at hs ⊢
    simp [matchFull, mQuoted, mLit, mWord, h1, h2, h3, hs, List.isPrefixOf]

/-- a character that starts no alternative of `_FULLPATTERN` -/
theorem matchFull_dot (rest : List Char) : matchFull ('.' :: rest) = none := by
  simp [matchFull, mQuoted, mLit, mWord, mBracket, spanLen, not_word_dot, List.isPrefixOf]

/-- `w₁.w₂.….wₙ` -/
def dotted : List (List Char) → List Char
  | [] => []
  | [w] => w
  | w :: w' :: ws => w ++ '.' :: dotted (w' :: ws)

theorem findAll_dotted : ∀ (ws : List (List Char)), (∀ w ∈ ws, WordStr w) →
    findAll matchFull 0 (dotted ws) = ws
  | [], _ => by simp [dotted, findAll]
  | [w], h => by
    have hw := h w (by simp)
    have := findAll_match matchFull hw.1 [] (by simpa using matchFull_word hw [] (by simp [spanLen]))
    simpa [dotted, findAll_nil] using this
  | w :: w' :: ws, h => by
    have hw := h w (by simp)
    have ih := findAll_dotted (w' :: ws) (fun x hx => h x (by simp [hx]))
    simp only [dotted]
    rw [findAll_match matchFull hw.1 _ (matchFull_word hw _ (spanLen_stop not_word_dot _)),
      findAll_nomatch matchFull (matchFull_dot _), ih]

theorem trimLeft_id {q : Char} {w : List Char} (h : ∀ c ∈ w, c ≠ q) : trimLeft q w = w := by
  cases w with
  | nil => rfl
  | cons c w =>
    have hc : (c == q) = false := by simpa using h c (by simp)
    simp [trimLeft, List.dropWhile, hc]

theorem trimRight_id {q : Char} {w : List Char} (h : ∀ c ∈ w, c ≠ q) : trimRight q w = w := by
  have := trimLeft_id (q := q) (w := w.reverse) (fun c hc => h c (by simpa using hc))
  simp only [trimLeft] at this
  simp [trimRight, this]

theorem trimQuotes_id {w : List Char} (h : ∀ c ∈ w, c ≠ '\'') : trimQuotes w = w := by
  simp [trimQuotes, trimLeft_id h, trimRight_id h]

theorem parseTok_word {w : List Char} (hw : WordStr w) : parseTok w = .ok (.key (String.ofList w)) := by
  obtain ⟨hne, hall⟩ := hw
  cases w with
  | nil => exact absurd rfl hne
  | cons c w =>
    have hc : isWord c = true := hall c (by simp)
    have h1 : (c == '[') = false := by simpa using isWord_ne hc not_word_lbra
    have h2 : (c == '{') = false := by simpa using isWord_ne hc not_word_lcur
    have hq : ∀ d ∈ c :: w, d ≠ '\'' := fun d hd => isWord_ne (hall d hd) not_word_quote
    simp [parseTok, h1, h2, trimQuotes_id hq]

theorem splitArrow_none {cs : List Char} (h : ∀ c ∈ cs, c ≠ '=') : splitArrow cs = none := by
  induction cs with
  | nil => rfl
  | cons c cs ih =>
    have hc : (c == '=') = false := by simpa using h c (by simp)
    simp [splitArrow, hc, ih (fun d hd => h d (by simp [hd]))]

theorem mem_dotted {ws : List (List Char)} {c : Char} (hc : c ∈ dotted ws) :
    c = '.' ∨ ∃ w ∈ ws, c ∈ w := by
  match ws, hc with
  | [], hc => simp [dotted] at hc
  | [w], hc => exact .inr ⟨w, by simp, by simpa [dotted] using hc⟩
  | w :: w' :: ws, hc =>
    simp only [dotted, List.mem_append, List.mem_cons] at hc
    rcases hc with h | h | h
    · exact .inr ⟨w, by simp, h⟩
    · exact .inl h
    · rcases mem_dotted h with h | ⟨x, hx, hcx⟩
      · exact .inl h
      · exact .inr ⟨x, List.mem_cons_of_mem _ hx, hcx⟩

/-- dotted identifiers parse to key steps, with no top level function -/
theorem parseSelectorL_dotted (ws : List (List Char)) (h : ∀ w ∈ ws, WordStr w) :
    parseSelectorL (dotted ws) = .ok ⟨none, ws.map fun w => .key (String.ofList w)⟩ := by
  have hne : ∀ c ∈ dotted ws, c ≠ '=' := by
    intro c hc
    rcases mem_dotted hc with rfl | ⟨w, hw, hcw⟩
    · decide
    · exact isWord_ne ((h w hw).2 c hcw) not_word_eq
  simp only [parseSelectorL, splitFn, splitArrow_none hne, findAll_dotted ws h]
  rw [mapE_eq_map_of_ok (g := fun w => Step.key (String.ofList w)) (fun w hw => parseTok_word (h w hw))]
  rfl

theorem intercalate_dot_eq_dotted : ∀ (ws : List (List Char)), ['.'].intercalate ws = dotted ws
  | [] => by simp [dotted, List.intercalate]
  | [w] => by simp [dotted, List.intercalate]
  | w :: w' :: ws => by
    have ih := intercalate_dot_eq_dotted (w' :: ws)
    simp only [List.intercalate, List.intersperse_cons_cons, List.flatten_cons] at ih ⊢
    simp [dotted, ← ih]

/-! ### quoted keys -/

theorem spanLen_all {p : Char → Bool} {w : List Char} (hw : ∀ c ∈ w, p c = true) : spanLen p w = w.length := by
  have := spanLen_append hw []
  simpa [spanLen] using this

theorem matchFull_quoted {k : List Char} (hk : ∀ c ∈ k, c ≠ '\'') :
    matchFull ('\'' :: (k ++ ['\''])) = some (k.length + 2) := by
  have hk' : ∀ c ∈ k, (c != '\'') = true := fun c hc => by simpa using hk c hc
  have h1 : spanLen (· != '\'') (k ++ ['\'']) = k.length := by
    rw [spanLen_append hk']; simp [spanLen]
  simp only [matchFull, mQuoted, beq_self_eq_true, if_true, h1]
  simp [spanLen]
  omega

theorem trimRight_snoc (q : Char) (w : List Char) : trimRight q (w ++ [q]) = trimRight q w := by
  simp [trimRight]

theorem trimLeft_cons_self (q : Char) (w : List Char) : trimLeft q (q :: w) = trimLeft q w := by
  simp [trimLeft, List.dropWhile]

theorem trimQuotes_quoted {k : List Char} (hk : ∀ c ∈ k, c ≠ '\'') :
    trimQuotes ('\'' :: (k ++ ['\''])) = k := by
  unfold trimQuotes
  rw [trimLeft_cons_self]
  cases k with
  | nil => simp [trimLeft, trimRight, List.dropWhile]
  | cons c k =>
    have hc : (c == '\'') = false := by simpa using hk c (by simp)
    have h1 : trimLeft '\'' (c :: k ++ ['\'']) = (c :: k) ++ ['\''] := by
      simp [trimLeft, hc]
    rw [h1, trimRight_snoc, trimRight_id hk]

theorem splitArrow_head {c : Char} {cs f rest : List Char} (hc : c ≠ '=')
    (h : splitArrow (c :: cs) = some (f, rest)) : ∃ f', f = c :: f' := by
  have hc' : (c == '=') = false := by simpa using hc
  simp only [splitArrow, hc', Bool.false_and, Bool.false_eq_true, if_false, Option.map_eq_some_iff] at h
  obtain ⟨p, _, hp⟩ := h
  exact ⟨p.1, by cases hp; rfl⟩

theorem parseTok_quoted {k : List Char} (hk : ∀ c ∈ k, c ≠ '\'') :
    parseTok ('\'' :: (k ++ ['\''])) = .ok (.key (String.ofList k)) := by
  have e : ('\'' == '[') = false := by decide
  have e2 : ('\'' == '{') = false := by decide
  simp only [parseTok, e, e2, Bool.false_eq_true, if_false]
  rw [trimQuotes_quoted hk]

/-- a quoted key is one literal key step, whatever it contains (dots, brackets, arrows, …) -/
theorem parseSelectorL_quoted {k : List Char} (hk : ∀ c ∈ k, c ≠ '\'') :
    parseSelectorL ('\'' :: (k ++ ['\''])) = .ok ⟨none, [.key (String.ofList k)]⟩ := by
  have hsplit : splitFn ('\'' :: (k ++ ['\''])) = ((none : Option String), '\'' :: (k ++ ['\''])) := by
    unfold splitFn
    split
    · rename_i f rest h
      obtain ⟨f', rfl⟩ := splitArrow_head (by decide) h
      simp [not_word_quote]
    · rfl
  have htok : findAll matchFull 0 ('\'' :: (k ++ ['\''])) = ['\'' :: (k ++ ['\''])] := by
    have := findAll_match matchFull (t := '\'' :: (k ++ ['\''])) (by simp) []
      (by simpa using matchFull_quoted hk)
    simpa [findAll_nil] using this
  unfold parseSelectorL
  simp only [hsplit, htok, mapE, parseTok_quoted hk]
  rfl

/-! ### the top level function prefix -/

theorem splitArrow_fn {f : List Char} (hf : ∀ c ∈ f, isWord c = true) (rest : List Char) :
    splitArrow (f ++ '=' :: '>' :: rest) = some (f, rest) := by
  induction f with
  | nil => simp [splitArrow]
  | cons c f ih =>
    have hc : (c == '=') = false := by simpa using isWord_ne (hf c (by simp)) not_word_eq
    simp [splitArrow, hc, ih (fun d hd => hf d (by simp [hd]))]

theorem parseSelectorL_fn {f : List Char} (hf : ∀ c ∈ f, isWord c = true) (rest : List Char) :
    parseSelectorL (f ++ '=' :: '>' :: rest) =
      Parsed.mk (some (String.ofList f)) <$> mapE parseTok (findAll matchFull 0 rest) := by
  have : f.all isWord = true := by simpa using hf
  simp [parseSelectorL, splitFn, splitArrow_fn hf, this]

/-! ### `::` -/

theorem splitCC_cons {c : Char} (hc : c ≠ ':') (cs : List Char) :
    splitCC (c :: cs) = consHead c (splitCC cs) := by
  have hc' : (c == ':') = false := by simpa using hc
  cases cs with
  | nil => simp [splitCC, consHead]
  | cons d rest => simp [splitCC, hc']

theorem splitCC_single {cs : List Char} (h : ∀ c ∈ cs, c ≠ ':') : splitCC cs = [cs] := by
  induction cs with
  | nil => rfl
  | cons c cs ih =>
    rw [splitCC_cons (h c (by simp)), ih (fun d hd => h d (by simp [hd]))]; rfl

/-- a prefix without colons stays in the first part -/
theorem splitCC_prefix {p : List Char} (hp : ∀ c ∈ p, c ≠ ':') (cs : List Char) :
    ∃ h t, splitCC cs = h :: t ∧ splitCC (p ++ cs) = (p ++ h) :: t := by
  induction p with
  | nil =>
    cases h : splitCC cs with
    | nil => exact absurd h (splitCC_ne_nil cs)
    | cons a b => exact ⟨a, b, rfl, by simpa using h⟩
  | cons c p ih =>
    obtain ⟨a, b, h1, h2⟩ := ih (fun d hd => hp d (by simp [hd]))
    refine ⟨a, b, h1, ?_⟩
    rw [List.cons_append, splitCC_cons (hp c (by simp)), h2]; rfl

theorem splitCC_append : ∀ (a b : List Char), a.getLast? ≠ some ':' →
    splitCC (a ++ ':' :: ':' :: b) = splitCC a ++ splitCC b
  | [], b, _ => by simp [splitCC]
  | [c], b, h => by
    have hc : c ≠ ':' := by simpa using h
    have hc' : (c == ':') = false := by simpa using hc
    simp [splitCC, hc', consHead]
  | c :: d :: rest, b, h => by
    have hl : (d :: rest).getLast? ≠ some ':' := by simpa [List.getLast?_cons_cons] using h
    simp only [List.cons_append, splitCC]
    split
    · rename_i hcd
      have hr : rest.getLast? ≠ some ':' := by
        cases rest with
        | nil =>
          simp only [Bool.and_eq_true, beq_iff_eq] at hcd
          simp [hcd.2] at hl
        | cons e rest => simpa [List.getLast?_cons_cons] using hl
      rw [splitCC_append rest b hr]; simp
    · have ih := splitCC_append (d :: rest) b hl
      simp only [List.cons_append] at ih
      rw [ih]
      cases h' : splitCC (d :: rest) with
      | nil => exact absurd h' (splitCC_ne_nil _)
      | cons x y => simp [consHead]

theorem mapE_append {ε α β : Type} (f : α → Except ε β) (xs ys : List α) :
    mapE f (xs ++ ys) = (do let a ← mapE f xs; let b ← mapE f ys; pure (a ++ b)) := by
  induction xs with
  | nil =>
    simp only [List.nil_append, mapE, bind, Except.bind, pure, Except.pure]
    cases mapE f ys <;> rfl
  | cons x xs ih =>
    simp only [List.cons_append, mapE, ih, bind, Except.bind, pure, Except.pure]
    cases f x with
    | error e => rfl
    | ok y =>
      cases mapE f xs with
      | error e => rfl
      | ok a => cases mapE f ys <;> rfl

theorem runAll_append (reg : Registry N) : ∀ (ps qs : List Parsed) (d : Val N),
    runAll reg (ps ++ qs) d = runAll reg ps d >>= runAll reg qs
  | [], qs, d => by simp [runAll, bind, Except.bind]
  | p :: ps, qs, d => by
    simp only [List.cons_append, runAll, bind, Except.bind]
    cases h : readerExecutor reg p d with
    | error e => rfl
    | ok r =>
      have := runAll_append reg ps qs r
      simpa [bind, Except.bind] using this

/-! ## `Unwind`, `Mix` -/

theorem unwindItems_eq_flatMap (d : Int) : ∀ xs : List (Val N), unwindItems d xs = xs.flatMap (unwindItem d)
  | [] => by simp [unwindItems]
  | x :: xs => by simp [unwindItems, unwindItems_eq_flatMap d xs]

theorem unwindItem_arr (d : Int) (ys : List (Val N)) : unwindItem d (.arr ys) = unwind d ys := by
  simp [unwindItem, unwind]

theorem unwindItem_notArr (d : Int) {v : Val N} (h : ∀ ys, v ≠ .arr ys) : unwindItem d v = [v] := by
  cases v <;> simp_all [unwindItem]

theorem mixItems_eq_flatMap : ∀ xs : List (Val N), mixItems xs = xs.flatMap mixItem
  | [] => by simp [mixItems]
  | x :: xs => by simp [mixItems, mixItems_eq_flatMap xs]

def isArr : Val N → Bool
  | .arr _ => true
  | _ => false

def isObj : Val N → Bool
  | .obj _ => true
  | _ => false

theorem mixItem_notArr : ∀ v : Val N, ∀ y ∈ mixItem v, isArr y = false := by
  apply valInduct
  · simp [mixItem, isArr]
  · simp [mixItem, isArr]
  · simp [mixItem, isArr]
  · simp [mixItem, isArr]
  · intro xs ih y hy
    simp only [mixItem, mixItems_eq_flatMap, List.mem_flatMap] at hy
    obtain ⟨x, hx, hyx⟩ := hy
    exact ih x hx y hyx
  · simp [mixItem, isArr]

theorem mixItems_flat : ∀ {ys : List (Val N)}, (∀ y ∈ ys, isArr y = false) → mixItems ys = ys
  | [], _ => by simp [mixItems]
  | y :: ys, h => by
    have hy := h y (by simp)
    have ih := mixItems_flat (ys := ys) (fun z hz => h z (by simp [hz]))
    cases y <;> simp_all [mixItems, mixItem, isArr]

theorem mixItems_idem (xs : List (Val N)) : mixItems (mixItems xs) = mixItems xs := by
  apply mixItems_flat
  intro y hy
  simp only [mixItems_eq_flatMap, List.mem_flatMap] at hy
  obtain ⟨x, _, hyx⟩ := hy
  exact mixItem_notArr x y hyx

theorem mixFields_eq_flatMap : ∀ fs : List (String × Val N),
    mixFields fs = fs.flatMap fun p => mixField p.1 p.2
  | [] => by simp [mixFields]
  | (k, v) :: fs => by simp [mixFields, mixFields_eq_flatMap fs]

theorem mixField_notObj : ∀ (v : Val N) (k : String), ∀ p ∈ mixField k v, isObj p.2 = false := by
  apply valInduct
  · simp [mixField, isObj]
  · simp [mixField, isObj]
  · simp [mixField, isObj]
  · simp [mixField, isObj]
  · simp [mixField, isObj]
  · intro fs ih k p hp
    simp only [mixField, mixFields_eq_flatMap, List.mem_map, List.mem_flatMap] at hp
    obtain ⟨q, ⟨f, hf, hq⟩, rfl⟩ := hp
    exact ih f hf f.1 q hq

theorem mixFields_flat : ∀ {fs : List (String × Val N)}, (∀ p ∈ fs, isObj p.2 = false) → mixFields fs = fs
  | [], _ => by simp [mixFields]
  | (k, v) :: fs, h => by
    have hv := h (k, v) (by simp)
    have ih := mixFields_flat (fs := fs) (fun z hz => h z (by simp [hz]))
    cases v <;> simp_all [mixFields, mixField, isObj]

theorem mixFields_notObj (fs : List (String × Val N)) : ∀ p ∈ mixFields fs, isObj p.2 = false := by
  intro p hp
  simp only [mixFields_eq_flatMap, List.mem_flatMap] at hp
  obtain ⟨f, _, hpf⟩ := hp
  exact mixField_notObj f.2 f.1 p hpf

/-! ## the pipe loop -/

theorem hasKey_append {α : Type} (k : String) : ∀ (xs ys : List (String × α)),
    hasKey k (xs ++ ys) = (hasKey k xs || hasKey k ys)
  | [], ys => by simp [hasKey]
  | x :: xs, ys => by simp [hasKey, hasKey_append k xs ys, Bool.or_assoc]

theorem setKey_new {α : Type} {k : String} (v : α) : ∀ {acc : List (String × α)},
    hasKey k acc = false → setKey k v acc = acc ++ [(k, v)]
  | [], _ => by simp [setKey]
  | (k', v') :: acc, h => by
    simp only [hasKey, Bool.or_eq_false_iff, beq_eq_false_iff_ne] at h
    simp [setKey, h.1, setKey_new v h.2]

/-- one pipe selector: the pair it contributes to the new object -/
def pipePair (fs : Row N) (p : String × String) : R (String × Val N) :=
  (fun v => (p.1, v)) <$> pipeConv p.2 (Val.get fs p.1)

theorem pipeObj_nodup (fs : Row N) : ∀ (ps : List (String × String)) (acc : Row N),
    (ps.map (·.1)).Nodup → (∀ p ∈ ps, hasKey p.1 acc = false) →
    pipeObj fs ps acc = (acc ++ ·) <$> mapE (pipePair fs) ps
  | [], acc, _, _ => by simp [pipeObj, mapE, Functor.map, Except.map]
  | p :: ps, acc, hnd, hacc => by
    simp only [List.map_cons, List.nodup_cons, List.mem_map, not_exists, not_and] at hnd
    simp only [pipeObj, mapE, pipePair]
    cases hc : pipeConv p.2 (Val.get fs p.1) with
    | error e => simp [bind, Except.bind, Functor.map, Except.map]
    | ok v =>
      have hk : setKey p.1 v acc = acc ++ [(p.1, v)] := setKey_new v (hacc p (by simp))
      have hacc' : ∀ q ∈ ps, hasKey q.1 (acc ++ [(p.1, v)]) = false := by
        intro q hq
        have hne : ¬ (p.1 = q.1) := fun e => hnd.1 q hq e.symm
        simp [hasKey_append, hacc q (by simp [hq]), hasKey, hne]
      have ih := pipeObj_nodup fs ps (acc ++ [(p.1, v)]) hnd.2 hacc'
      simp only [bind, Except.bind, Functor.map, Except.map, hk, ih]
      cases mapE (pipePair fs) ps <;> simp [pure, Except.pure]

end Genql.Sel
