/-
  Genql.Proofs.ValEq — decidable equality of `Val N` (a nested inductive, for which `deriving`
  does not work), so that concrete evaluations of the model can be checked by `decide`.
-/
import Genql.Basic
namespace Genql
variable {N : Type} [DecidableEq N]

mutual
def Val.beq : Val N → Val N → Bool
  | .null, .null => true
  | .bool a, .bool b => a == b
  | .num a, .num b => decide (a = b)
  | .str a, .str b => a == b
  | .arr xs, .arr ys => Val.beqList xs ys
  | .obj fs, .obj gs => Val.beqFields fs gs
  | _, _ => false
def Val.beqList : List (Val N) → List (Val N) → Bool
  | [], [] => true
  | x :: xs, y :: ys => Val.beq x y && Val.beqList xs ys
  | _, _ => false
def Val.beqFields : List (String × Val N) → List (String × Val N) → Bool
  | [], [] => true
  | (k, x) :: xs, (l, y) :: ys => k == l && Val.beq x y && Val.beqFields xs ys
  | _, _ => false
end

mutual
theorem Val.beq_eq : ∀ (a b : Val N), Val.beq a b = true → a = b
  | .null, b => by cases b <;> simp [Val.beq]
  | .bool x, b => by cases b <;> simp [Val.beq]
  | .num x, b => by cases b <;> simp [Val.beq]
  | .str x, b => by cases b <;> simp [Val.beq]
  | .arr xs, b => by
    cases b <;> simp [Val.beq]
    exact Val.beqList_eq xs _
  | .obj fs, b => by
    cases b <;> simp [Val.beq]
    exact Val.beqFields_eq fs _
theorem Val.beqList_eq : ∀ (xs ys : List (Val N)), Val.beqList xs ys = true → xs = ys
  | [], ys => by cases ys <;> simp [Val.beqList]
  | x :: xs, ys => by
    cases ys with
    | nil => simp [Val.beqList]
    | cons y ys =>
      simp only [Val.beqList, Bool.and_eq_true, List.cons.injEq]
      exact fun h => ⟨Val.beq_eq x y h.1, Val.beqList_eq xs ys h.2⟩
theorem Val.beqFields_eq : ∀ (xs ys : List (String × Val N)), Val.beqFields xs ys = true → xs = ys
  | [], ys => by cases ys <;> simp [Val.beqFields]
  | (k, x) :: xs, ys => by
    cases ys with
    | nil => simp [Val.beqFields]
    | cons y ys =>
      obtain ⟨l, y⟩ := y
      simp only [Val.beqFields, Bool.and_eq_true, List.cons.injEq, Prod.mk.injEq, beq_iff_eq]
      exact fun h => ⟨⟨h.1.1, Val.beq_eq x y h.1.2⟩, Val.beqFields_eq xs ys h.2⟩
end

mutual
theorem Val.beq_refl : ∀ (a : Val N), Val.beq a a = true
  | .null => by simp [Val.beq]
  | .bool _ => by simp [Val.beq]
  | .num _ => by simp [Val.beq]
  | .str _ => by simp [Val.beq]
  | .arr xs => by simp [Val.beq, Val.beqList_refl xs]
  | .obj fs => by simp [Val.beq, Val.beqFields_refl fs]
theorem Val.beqList_refl : ∀ (xs : List (Val N)), Val.beqList xs xs = true
  | [] => by simp [Val.beqList]
  | x :: xs => by simp [Val.beqList, Val.beq_refl x, Val.beqList_refl xs]
theorem Val.beqFields_refl : ∀ (xs : List (String × Val N)), Val.beqFields xs xs = true
  | [] => by simp [Val.beqFields]
  | (k, x) :: xs => by simp [Val.beqFields, Val.beq_refl x, Val.beqFields_refl xs]
end

instance : DecidableEq (Val N) := fun a b =>
  if h : Val.beq a b = true then isTrue (Val.beq_eq a b h)
  else isFalse (fun e => h (e ▸ Val.beq_refl a))

instance instDecidableEqExcept {ε α : Type} [DecidableEq ε] [DecidableEq α] : DecidableEq (Except ε α)
  | .ok a, .ok b => if h : a = b then isTrue (by rw [h]) else isFalse (fun e => h (by cases e; rfl))
  | .error a, .error b => if h : a = b then isTrue (by rw [h]) else isFalse (fun e => h (by cases e; rfl))
  | .ok _, .error _ => isFalse (fun e => by cases e)
  | .error _, .ok _ => isFalse (fun e => by cases e)

end Genql
