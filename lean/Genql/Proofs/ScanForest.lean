/-
  Genql.Proofs.ScanForest — a grammar of bracket forests with quoted/unquoted leaves, and how the
  lexer of `FindArrayIndex` sees their renderings.
-/
import Genql.Proofs.ScanArr

namespace Genql.Scan

/-- one unit inside a quoted segment (as `FindArrayIndex` reads it: a backslash hides the next byte) -/
inductive QItem
  | ch (c : UInt8)     -- any byte except the segment's own quote and `\` (so `[`, `]`, other quotes are allowed)
  | esc (d : UInt8)    -- `\d`, any `d`
  deriving Repr

def QItem.ok (q : UInt8) : QItem → Bool
  | .ch c => c ≠ q ∧ c ≠ bBs
  | .esc _ => true

def QItem.render : QItem → List UInt8
  | .ch c => [c]
  | .esc d => [bBs, d]

inductive Leaf
  | raw (c : UInt8)                        -- a byte outside quotes: no quote, backslash or bracket
  | esc (d : UInt8)                        -- `\d` outside quotes (the byte after a backslash is skipped)
  | quoted (q : UInt8) (body : List QItem) -- `q…q` with `q` one of `'`, `"`, `` ` ``
  deriving Repr

def Leaf.ok : Leaf → Bool
  | .raw c => c ≠ bSq ∧ c ≠ bDq ∧ c ≠ bBt ∧ c ≠ bBs ∧ c ≠ bLb ∧ c ≠ bRb
  | .esc _ => true
  | .quoted q body => (q = bSq ∨ q = bDq ∨ q = bBt) ∧ body.all (QItem.ok q)

def Leaf.render : Leaf → List UInt8
  | .raw c => [c]
  | .esc d => [bBs, d]
  | .quoted q body => q :: (body.flatMap QItem.render ++ [q])

/-- `S → ε | leaf S | [ S ] S` -/
inductive Forest
  | nil
  | leaf (l : Leaf) (rest : Forest)
  | arr (inner rest : Forest)
  deriving Repr

def Forest.ok : Forest → Bool
  | .nil => true
  | .leaf l rest => l.ok && rest.ok
  | .arr inner rest => inner.ok && rest.ok

/-- `arrayStyle = false`: idiomatic `[…]`; `true`: `ARRAY(…)` -/
def Forest.render (arrayStyle : Bool) : Forest → List UInt8
  | .nil => []
  | .leaf l rest => l.render ++ rest.render arrayStyle
  | .arr inner rest =>
    (if arrayStyle then tokARRAY ++ [bLp] else [bLb]) ++ inner.render arrayStyle ++
    (if arrayStyle then [bRp] else [bRb]) ++ rest.render arrayStyle

def Forest.kinds : Forest → List Kind
  | .nil => []
  | .leaf l rest => List.replicate l.render.length .other ++ rest.kinds
  | .arr inner rest => .lb :: (inner.kinds ++ .rb :: rest.kinds)

/-! ### the lexer on leaves -/

theorem lexStep_in_quote (q c : UInt8) (h1 : c ≠ q) (h2 : c ≠ bBs) :
    lexStep false (some q) c = (false, some q, .other) := by
  simp only [lexStep, Bool.false_eq_true, if_false, h2]
  split
  · simp [Ne.symm h1]
  · rfl

theorem lexStep_close (q : UInt8) (hq : q = bSq ∨ q = bDq ∨ q = bBt) :
    lexStep false (some q) q = (false, none, .other) := by
  rcases hq with rfl | rfl | rfl <;> simp [lexStep]

theorem lexStep_open (q : UInt8) (hq : q = bSq ∨ q = bDq ∨ q = bBt) :
    lexStep false none q = (false, some q, .other) := by
  rcases hq with rfl | rfl | rfl <;> simp [lexStep]

theorem lexStep_bs (hold : Option UInt8) : lexStep false hold bBs = (true, hold, .other) := by
  simp [lexStep]

theorem lexStep_skip (hold : Option UInt8) (c : UInt8) : lexStep true hold c = (false, hold, .other) := by
  simp [lexStep]

theorem kinds_cons (skip : Bool) (hold : Option UInt8) (c : UInt8) (cs : List UInt8)
    (sk : Bool) (ho : Option UInt8) (k : Kind) (h : lexStep skip hold c = (sk, ho, k)) :
    kinds skip hold (c :: cs) = k :: kinds sk ho cs := by
  simp [kinds, h]

theorem kinds_qbody (q : UInt8) (body : List QItem) (tail : List UInt8)
    (h : body.all (QItem.ok q) = true) :
    kinds false (some q) (body.flatMap QItem.render ++ tail)
      = List.replicate (body.flatMap QItem.render).length .other ++ kinds false (some q) tail := by
  induction body with
  | nil => simp
  | cons it its ih =>
    simp only [List.all_cons, Bool.and_eq_true] at h
    cases it with
    | ch c =>
      have hc := h.1
      simp only [QItem.ok, Bool.decide_and, Bool.and_eq_true, decide_eq_true_eq] at hc
      simp only [List.flatMap_cons, QItem.render, List.cons_append, List.nil_append,
        List.length_cons, List.replicate_succ]
      rw [kinds_cons _ _ _ _ _ _ _ (lexStep_in_quote q c hc.1 hc.2), ih h.2]
    | esc d =>
      simp only [List.flatMap_cons, QItem.render, List.cons_append, List.nil_append,
        List.length_cons, List.replicate_succ]
      rw [kinds_cons _ _ _ _ _ _ _ (lexStep_bs _), kinds_cons _ _ _ _ _ _ _ (lexStep_skip _ _),
        ih h.2]

theorem replicate_append_cons {α : Type} (n : Nat) (x : α) (L : List α) :
    List.replicate n x ++ x :: L = x :: (List.replicate n x ++ L) := by
  induction n with
  | zero => rfl
  | succ n ih => simp [List.replicate_succ, ih]

theorem kinds_leaf (l : Leaf) (tail : List UInt8) (h : l.ok = true) :
    kinds false none (l.render ++ tail)
      = List.replicate l.render.length .other ++ kinds false none tail := by
  cases l with
  | raw c =>
    simp only [Leaf.ok, Bool.decide_and, Bool.and_eq_true, decide_eq_true_eq] at h
    obtain ⟨h1, h2, h3, h4, h5, h6⟩ := h
    have : lexStep false none c = (false, none, .other) := by simp [lexStep, h1, h2, h3, h4, h5, h6]
    simp only [Leaf.render, List.cons_append, List.nil_append]
    rw [kinds_cons _ _ _ _ _ _ _ this]; rfl
  | esc d =>
    simp only [Leaf.render, List.cons_append, List.nil_append]
    rw [kinds_cons _ _ _ _ _ _ _ (lexStep_bs _), kinds_cons _ _ _ _ _ _ _ (lexStep_skip _ _)]; rfl
  | quoted q body =>
    simp only [Leaf.ok, decide_eq_true_eq] at h
    simp only [Leaf.render, List.cons_append, List.append_assoc, List.nil_append, List.length_cons,
      List.length_append, List.length_nil, List.replicate_succ]
    rw [kinds_cons _ _ _ _ _ _ _ (lexStep_open q h.1), kinds_qbody q body _ h.2,
      kinds_cons _ _ _ _ _ _ _ (lexStep_close q h.1)]
    simp [replicate_append_cons]

theorem kinds_forest (t : Forest) (tail : List UInt8) (h : t.ok = true) :
    kinds false none (t.render false ++ tail) = t.kinds ++ kinds false none tail := by
  induction t generalizing tail with
  | nil => simp [Forest.render, Forest.kinds]
  | leaf l rest ih =>
    simp only [Forest.ok, Bool.and_eq_true] at h
    simp only [Forest.render, Forest.kinds, List.append_assoc]
    rw [kinds_leaf l _ h.1, ih _ h.2]
  | arr inner rest ih1 ih2 =>
    simp only [Forest.ok, Bool.and_eq_true] at h
    have hlb : lexStep false none bLb = (false, none, .lb) := by simp [lexStep]
    have hrb : lexStep false none bRb = (false, none, .rb) := by simp [lexStep]
    simp only [Forest.render, Forest.kinds, Bool.false_eq_true, if_false, List.append_assoc,
      List.cons_append, List.nil_append]
    rw [kinds_cons _ _ _ _ _ _ _ hlb, ih1 _ h.1, kinds_cons _ _ _ _ _ _ _ hrb, ih2 _ h.2]

theorem Forest.kinds_length (t : Forest) : t.kinds.length = (t.render false).length := by
  induction t with
  | nil => rfl
  | leaf l rest ih => simp [Forest.kinds, Forest.render, ih]
  | arr inner rest ih1 ih2 => simp [Forest.kinds, Forest.render, ih1, ih2]

/-! ### depth and rewrite on forests -/

theorem depthAfter_replicate (n d : Nat) (K : List Kind) :
    depthAfter d (List.replicate n .other ++ K) = depthAfter d K := by
  induction n with
  | zero => simp
  | succ n ih => simp [List.replicate_succ, depthAfter, ih]

theorem depthAfter_forest (t : Forest) (d : Nat) (K : List Kind) :
    depthAfter d (t.kinds ++ K) = depthAfter d K := by
  induction t generalizing d K with
  | nil => simp [Forest.kinds]
  | leaf l rest ih => simp [Forest.kinds, depthAfter_replicate, ih]
  | arr inner rest ih1 ih2 =>
    simp only [Forest.kinds, List.cons_append, List.append_assoc, depthAfter]
    rw [ih1, depthAfter, ih2]

theorem rewriteK_replicate (Y X : List UInt8) (K : List Kind) :
    rewriteK (List.replicate Y.length .other ++ K) (Y ++ X) = Y ++ rewriteK K X := by
  induction Y with
  | nil => simp
  | cons y Y ih => simp [List.replicate_succ, rewriteK, ih]

theorem rewriteK_forest (t : Forest) (K : List Kind) (X : List UInt8) :
    rewriteK (t.kinds ++ K) (t.render false ++ X) = t.render true ++ rewriteK K X := by
  induction t generalizing K X with
  | nil => simp [Forest.kinds, Forest.render]
  | leaf l rest ih =>
    simp only [Forest.kinds, Forest.render, List.append_assoc]
    rw [rewriteK_replicate, ih]
  | arr inner rest ih1 ih2 =>
    simp only [Forest.kinds, Forest.render, Bool.false_eq_true, if_false, if_true,
      List.cons_append, List.append_assoc, List.nil_append, rewriteK]
    rw [ih1, rewriteK, ih2]
    simp

end Genql.Scan
