/-
  Genql.Inst.FloatNum — `Float` (IEEE-754 binary64, the same operations as Go's `float64`) as the
  `Num` instance the correspondence driver runs the model with.  `Float` is opaque to the kernel:
  nothing here is used by a theorem; it is part of the trusted correspondence glue.
-/
import Genql.Basic
import Genql.Model.Compare
namespace Genql

/-- exact decomposition `|x| = m * 2^e` of a finite double from its bit pattern -/
def floatParts (x : Float) : Option (Bool × Nat × Int) :=
  let b : Nat := x.toBits.toNat
  let sign := b / 2 ^ 63 == 1
  let ex : Nat := (b / 2 ^ 52) % 2048
  let fr : Nat := b % 2 ^ 52
  if ex == 2047 then none
  else if ex == 0 then some (sign, fr, -1074)
  else some (sign, fr + 2 ^ 52, (ex : Int) - 1075)

/-- the exact integer value of an integral finite double -/
def floatToInt? (x : Float) : Option Int :=
  match floatParts x with
  | none => none
  | some (sign, m, e) =>
    let mag : Option Nat :=
      if m == 0 then some 0
      else if e ≥ 0 then some (m * 2 ^ e.toNat)
      else
        let d := 2 ^ (-e).toNat
        if m % d == 0 then some (m / d) else none
    mag.map fun n => if sign then -(n : Int) else n

/-- Go's `%v` of a float64, through the exact-dyadic printer of `Genql.Model.Compare` (positional
    for 1e-4 ≤ |x| < 1e6, exponent form up to 2^53, at most 15 significant digits; `none` = out of
    model).  Negative zero, NaN and ±Inf are out of model. -/
def floatFmt (x : Float) : Option String :=
  match Cmp.decodeFloat 11 52 x.toBits.toNat with
  | some d => Cmp.fmtGo (.f64 d)
  | none => none

/-- exact `math.Mod` on finite doubles: both operands are dyadic rationals; the remainder of the
    scaled integers is exactly representable (it has at most 53 significant bits) -/
def floatFmod (x y : Float) : Option Float :=
  match floatParts x, floatParts y with
  | some (sx, mx, ex), some (_, my, ey) =>
    if my == 0 then none
    else if mx == 0 then some x
    else
      let e := if ex ≤ ey then ex else ey
      let X := mx * 2 ^ (ex - e).toNat
      let Y := my * 2 ^ (ey - e).toNat
      let r := X % Y
      if r == 0 then some (if sx then -0.0 else 0.0)
      else
        let mag := (Float.ofNat r).scaleB e
        some (if sx then -mag else mag)
  | _, _ => none

instance : Num Float where
  add := (· + ·)
  sub := (· - ·)
  mul := (· * ·)
  div := (· / ·)
  neg := fun a => -a
  lt := fun a b => a < b
  eq := fun a b => a == b
  fmod := floatFmod
  ofInt := Float.ofInt
  toInt? := fun x =>
    match floatToInt? x with
    | some i => if -9223372036854775808 ≤ i ∧ i < 9223372036854775808 then some i else none
    | none => none
  fmt := floatFmt

end Genql
