/-
  Genql.Inst.FloatNum — `Float` (IEEE-754 binary64, the same operations as Go's `float64`) as the
  `Num` instance the correspondence driver runs the model with.  `Float` is opaque to the kernel:
  nothing here is used by a theorem; it is part of the trusted correspondence glue.
-/
import Genql.Basic
namespace Genql

/-- exact decomposition `|x| = m * 2^e` of a finite double from its bit pattern -/
def floatParts (x : Float) : Option (Bool × Nat × Int) :=
  let b : Nat := x.toBits.toNat
  let sign := b / 2 ^ 63 == 1
  let ex : Nat := (b / 2 ^ 52) % 2048
  let fr : Nat := b % 2 ^ 52
  if ex == 2047 then none
  else if ex == 0 then some (sign, fr, -1074)
  else some (sign, fr + 2 ^ 52, (ex : Int) - 1075)

/-- the exact integer value of an integral finite double -/
def floatToInt? (x : Float) : Option Int :=
  match floatParts x with
  | none => none
  | some (sign, m, e) =>
    let mag : Option Nat :=
      if m == 0 then some 0
      else if e ≥ 0 then some (m * 2 ^ e.toNat)
      else
        let d := 2 ^ (-e).toNat
        if m % d == 0 then some (m / d) else none
    mag.map fun n => if sign then -(n : Int) else n

def natToDigits (n : Nat) : String := toString n

/-- `|x| * 10^k` rounded half-even to a natural number, computed exactly -/
def scaledRound (m : Nat) (e : Int) (k : Nat) : Nat :=
  let num := m * 10 ^ k
  if e ≥ 0 then num * 2 ^ e.toNat
  else
    let d := 2 ^ (-e).toNat
    let q := num / d
    let r := num % d
    if 2 * r > d then q + 1 else if 2 * r < d then q else (if q % 2 == 0 then q else q + 1)

def padLeft (s : String) (n : Nat) : String :=
  String.ofList (List.replicate (n - s.length) '0') ++ s

def stripZeros (s : String) : String :=
  String.ofList (s.toList.reverse.dropWhile (· == '0')).reverse

/-- Go's `%v` of a float64 when 1e-4 ≤ |x| < 2^53 (printed without an exponent, digits exact) and the
    shortest round-tripping decimal has at most 17 fractional digits; `none` otherwise. -/
def floatFmt (x : Float) : Option String :=
  match floatParts x with
  | none => none
  | some (sign, m, e) =>
    if m == 0 then some (if sign then "-0" else "0")
    else
      let ax := Float.abs x
      if ax ≥ 9007199254740992.0 || ax < 1e-4 then none
      else
        let rec go (k : Nat) (fuel : Nat) : Option String :=
          match fuel with
          | 0 => none
          | fuel + 1 =>
            let n := scaledRound m e k
            if Float.ofScientific n true k == ax then
              let digits := padLeft (natToDigits n) (k + 1)
              let ip := (digits.toList.take (digits.length - k))
              let fp := (digits.toList.drop (digits.length - k))
              let body := if k == 0 then String.ofList ip else String.ofList ip ++ "." ++ String.ofList fp
              some ((if sign then "-" else "") ++ body)
            else go (k + 1) fuel
        go 0 19

instance : Num Float where
  add := (· + ·)
  sub := (· - ·)
  mul := (· * ·)
  div := (· / ·)
  neg := fun a => -a
  lt := fun a b => a < b
  eq := fun a b => a == b
  ofInt := Float.ofInt
  toInt? := fun x =>
    match floatToInt? x with
    | some i => if -9223372036854775808 ≤ i ∧ i < 9223372036854775808 then some i else none
    | none => none
  fmt := floatFmt

end Genql
