/-
  Genql.Inst.IntNum — `Int` as a lawful instance of `Num` (non-vacuity of every theorem that
  assumes `LawfulNum`, and the number type used for `decide`-evaluated witnesses).
-/
import Genql.Basic
namespace Genql

instance : Num Int where
  add := (· + ·)
  sub := (· - ·)
  mul := (· * ·)
  div := fun a b => Int.tdiv a b
  neg := fun a => -a
  lt := fun a b => decide (a < b)
  eq := fun a b => decide (a = b)
  fmod := fun a b => if b = 0 then none else some (Int.tmod a b)
  ofInt := id
  toInt? := some
  fmt := fun a => some (toString a)

end Genql
