/-
  Obligations of C10 on the regenerated facts: every explicit `panic(`, every single-value type
  assertion and every `go` statement in the non-test sources is listed here with the recover
  boundary that guards it; every exported entry point that runs query code recovers.
-/
import Genql.Generated.Facts
namespace Genql.Obligations.C10
open Genql.Generated

/-- `(*lr).(Map)` / `(*rr).(Map)` in the two match functions run at build time, inside `New`'s recover
    (sequential variants) or inside the recovered worker goroutine (parallel variants);
    `rs.([]any)` in `SelectMany` is preceded by a comma-ok test of the same value;
    `Sort` panics inside `sort.Slice` only to unwind to its own `defer recover` -/
theorem panic_sites_guarded :
    panicSites = ["Join.HashJoinMatchFunc:assert#3", "Join.JoinMatchFunc:assert#3", "SelectMany:assert#1", "Sort:panic#1"] := by
  decide

/-- every goroutine either recovers (user functions, join workers) or only forwards a wait group -/
theorem goroutines_guarded :
    goSites = ["BuildFromAliasedTable:go-forwarder#1", "ExistExpr:go-forwarder#1", "FunExpr:go-recovered#3",
               "Join.ParallelHashJoinFunc:go-recovered#1", "Join.ParallelJoinFunc:go-recovered#1",
               "Query.adopt:go-forwarder#1", "SubqueryExpr:go-forwarder#1"] := by decide

/-- the API entry points and the executor recover: `New` (build-time code incl. joins, unions, CTE
    registration), `Exec` (post-processors), `exec` (row evaluation), `Sort` -/
theorem recover_boundaries : recoverFuncs = ["New", "Query.Exec", "Query.exec", "Sort"] := by decide

end Genql.Obligations.C10
