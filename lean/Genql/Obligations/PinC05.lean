/-
  Obligation of C05 on the regenerated facts: the whole text of the functions of package genql that the model of C05
  mirrors and that no other regenerated fact covers line by line (BuildLimit, BuildOrder, ExecOrderBy, Sort) — signature, then
  every top-level statement in pieces of at most 160 characters.  The model was written after exactly this text; when it
  changes, the correspondence has to be re-established: the check widens its search for a failing input and, when it finds
  none, reports this obligation with no-failing-input-found.  (GENERATED from facts.json on the unchanged tree; closed by `rfl`:
  two closed literal lists.)
-/
import Genql.Generated.Facts
namespace Genql.Obligations.PinC05
open Genql.Generated

theorem pinned_text :
    decisionsPinC05 =
      ["Sort: func(slice []any, orderBy OrderByDefinition) (err error)",
       "Sort#0.0: defer func() { if r := recover(); r != nil { err = asError(r) } }()",
       "Sort#1.0: if len(orderBy) == 0 { return nil }",
       "Sort#2.0: sort.Slice(slice, func(i, j int) bool { rs, err := Compare(slice, i, j, orderBy) if err != nil { panic(err) } return rs })",
       "Sort#3.0: return nil",
       "ExecOrderBy: func(query *Query, current []any) ([]any, error)",
       "ExecOrderBy#0.0: if query.orderByDefinition == nil { return current, nil }",
       "ExecOrderBy#1.0: err := Sort(current, query.orderByDefinition)",
       "ExecOrderBy#2.0: if err != nil { return nil, err }",
       "ExecOrderBy#3.0: return current, nil",
       "BuildOrder: func(query *Query, orderBy *sqlparser.OrderBy) error",
       "BuildOrder#0.0: if orderBy == nil { return nil }",
       "BuildOrder#1.0: for _, ordeorderBy := range *orderBy { qualifier, columnName, err := BuildColumnName(ordeorderBy.Expr) if err != nil { return err } if len(qualifier) == 0 { que",
       "BuildOrder#1.1: ry.orderByDefinition = append(query.orderByDefinition, struct { Key string Value bool }{Key: columnName, Value: ordeorderBy.Direction == sqlparser.AscOrder}) co",
       "BuildOrder#1.2: ntinue } query.orderByDefinition = append(query.orderByDefinition, struct { Key string Value bool }{Key: fmt.Sprintf(\"%s.%s\", qualifier, columnName), Value: ord",
       "BuildOrder#1.3: eorderBy.Direction == sqlparser.AscOrder}) }",
       "BuildOrder#2.0: return nil",
       "BuildLimit: func(query *Query, limit *sqlparser.Limit) error",
       "BuildLimit#0.0: if limit == nil { return nil }",
       "BuildLimit#1.0: if limit.Offset != nil { _, offsetLiteral, err := BuildLiteral(limit.Offset) if err != nil { return err } offsetNumeric, err := strconv.Atoi(offsetLiteral) if e",
       "BuildLimit#1.1: rr != nil { return err } query.offsetDefinition = offsetNumeric }",
       "BuildLimit#2.0: _, limitLiteral, err := BuildLiteral(limit.Rowcount)",
       "BuildLimit#3.0: if err != nil { return err }",
       "BuildLimit#4.0: limitNumeric, err := strconv.Atoi(limitLiteral)",
       "BuildLimit#5.0: if err != nil { return err }",
       "BuildLimit#6.0: query.limitDefinition = limitNumeric",
       "BuildLimit#7.0: return nil"] := by rfl

end Genql.Obligations.PinC05
