/-
  Obligation of C16 on the regenerated facts: the text of package `sanitizer` (the lexer states, `NewQuery`, `Sanitize`, the
  quoting functions), function by function and statement by statement (long statements in pieces of 160 characters).
  `Model/Sanitize` is a function of (template, arguments) written after exactly this text; state that survives between calls (a
  pool, a package-level buffer) has no counterpart in it, so a change of this text has to be looked at again.
-/
import Genql.Generated.Facts
namespace Genql.Obligations.C16
open Genql.Generated

theorem sanitizer_package_text :
    decisionsPkgSanitizer =
      ["Command.Sanitize: func(args ...any) (string, error)",
       "Command.Sanitize#0.0: argUse := make([]bool, len(args))",
       "Command.Sanitize#1.0: buf := &bytes.Buffer{}",
       "Command.Sanitize#2.0: for _, part := range q.Parts { var str string switch part := part.(type) { case string: str = part case int: argIdx := part - 1 if argIdx < 0 { return \"\", fmt.E",
       "Command.Sanitize#2.1: rrorf(\"invalid placeholder: $%d\", part) } if argIdx >= len(args) { return \"\", fmt.Errorf(\"insufficient arguments\") } arg := args[argIdx] switch arg := arg.(type",
       "Command.Sanitize#2.2: ) { case nil: str = \"null\" case int64: str = strconv.FormatInt(arg, 10) case float64: str = strconv.FormatFloat(arg, 'f', -1, 64) case bool: str = strconv.Forma",
       "Command.Sanitize#2.3: tBool(arg) case []byte: str = QuoteBytes(arg) case string: str = QuoteString(arg) case time.Time: str = arg.Truncate(time.Microsecond).Format(\"'2006-01-02 15:04",
       "Command.Sanitize#2.4: :05.999999999Z07:00:00'\") default: return \"\", fmt.Errorf(\"invalid arg type: %T\", arg) } argUse[argIdx] = true default: return \"\", fmt.Errorf(\"invalid Part type:",
       "Command.Sanitize#2.5:  %T\", part) } buf.WriteString(str) }",
       "Command.Sanitize#3.0: for i, used := range argUse { if !used { return \"\", fmt.Errorf(\"unused argument: %d\", i) } }",
       "Command.Sanitize#4.0: return buf.String(), nil",
       "NewQuery: func(sql string) (*Command, error)",
       "NewQuery#0.0: l := &sqlLexer{src: sql, stateFn: rawState}",
       "NewQuery#1.0: for l.stateFn != nil { l.stateFn = l.stateFn(l) }",
       "NewQuery#2.0: query := &Command{Parts: l.parts}",
       "NewQuery#3.0: return query, nil",
       "QuoteBytes: func(buf []byte) string",
       "QuoteBytes#0.0: return `'\\x` + hex.EncodeToString(buf) + \"'\"",
       "QuoteString: func(str string) string",
       "QuoteString#0.0: str = strings.ReplaceAll(str, \"\\\\\", \"\\\\\\\\\")",
       "QuoteString#1.0: return \"'\" + strings.ReplaceAll(str, \"'\", \"''\") + \"'\"",
       "SanitizeSQL: func(cmd string, args ...any) (string, error)",
       "SanitizeSQL#0.0: query, err := NewQuery(cmd)",
       "SanitizeSQL#1.0: if err != nil { return \"\", err }",
       "SanitizeSQL#2.0: return query.Sanitize(args...)",
       "doubleQuoteState: func(l *sqlLexer) stateFn",
       "doubleQuoteState#0.0: for { r, width := utf8.DecodeRuneInString(l.src[l.pos:]) l.pos += width switch r { case '\"': nextRune, width := utf8.DecodeRuneInString(l.src[l.pos:]) if nextRu",
       "doubleQuoteState#0.1: ne != '\"' { return rawState } l.pos += width case utf8.RuneError: if width != replacementcharacterwidth { if l.pos-l.start > 0 { l.parts = append(l.parts, l.src",
       "doubleQuoteState#0.2: [l.start:l.pos]) l.start = l.pos } return nil } } }",
       "escapeStringState: func(l *sqlLexer) stateFn",
       "escapeStringState#0.0: for { r, width := utf8.DecodeRuneInString(l.src[l.pos:]) l.pos += width switch r { case '\\\\': _, width = utf8.DecodeRuneInString(l.src[l.pos:]) l.pos += width c",
       "escapeStringState#0.1: ase '\\'': nextRune, width := utf8.DecodeRuneInString(l.src[l.pos:]) if nextRune != '\\'' { return rawState } l.pos += width case utf8.RuneError: if width != repl",
       "escapeStringState#0.2: acementcharacterwidth { if l.pos-l.start > 0 { l.parts = append(l.parts, l.src[l.start:l.pos]) l.start = l.pos } return nil } } }",
       "multilineCommentState: func(l *sqlLexer) stateFn",
       "multilineCommentState#0.0: for { r, width := utf8.DecodeRuneInString(l.src[l.pos:]) l.pos += width switch r { case '/': nextRune, width := utf8.DecodeRuneInString(l.src[l.pos:]) if nextRu",
       "multilineCommentState#0.1: ne == '*' { l.pos += width l.nested++ } case '*': nextRune, width := utf8.DecodeRuneInString(l.src[l.pos:]) if nextRune != '/' { continue } l.pos += width if l.",
       "multilineCommentState#0.2: nested == 0 { return rawState } l.nested-- case utf8.RuneError: if width != replacementcharacterwidth { if l.pos-l.start > 0 { l.parts = append(l.parts, l.src[l",
       "multilineCommentState#0.3: .start:l.pos]) l.start = l.pos } return nil } } }",
       "oneLineCommentState: func(l *sqlLexer) stateFn",
       "oneLineCommentState#0.0: for { r, width := utf8.DecodeRuneInString(l.src[l.pos:]) l.pos += width switch r { case '\\\\': _, width = utf8.DecodeRuneInString(l.src[l.pos:]) l.pos += width c",
       "oneLineCommentState#0.1: ase '\\n', '\\r': return rawState case utf8.RuneError: if width != replacementcharacterwidth { if l.pos-l.start > 0 { l.parts = append(l.parts, l.src[l.start:l.po",
       "oneLineCommentState#0.2: s]) l.start = l.pos } return nil } } }",
       "placeholderState: func(l *sqlLexer) stateFn",
       "placeholderState#0.0: num := 0",
       "placeholderState#1.0: for { r, width := utf8.DecodeRuneInString(l.src[l.pos:]) l.pos += width if '0' <= r && r <= '9' { num *= 10 num += int(r - '0') } else { l.parts = append(l.part",
       "placeholderState#1.1: s, num) l.pos -= width l.start = l.pos return rawState } }",
       "rawState: func(l *sqlLexer) stateFn",
       "rawState#0.0: for { r, width := utf8.DecodeRuneInString(l.src[l.pos:]) l.pos += width switch r { case 'e', 'E': nextRune, width := utf8.DecodeRuneInString(l.src[l.pos:]) if n",
       "rawState#0.1: extRune == '\\'' { l.pos += width return escapeStringState } case '\\'': return singleQuoteState case '\"': return doubleQuoteState case '$': nextRune, _ := utf8.D",
       "rawState#0.2: ecodeRuneInString(l.src[l.pos:]) if '0' <= nextRune && nextRune <= '9' { if l.pos-l.start > 0 { l.parts = append(l.parts, l.src[l.start:l.pos-width]) } l.start ",
       "rawState#0.3: = l.pos return placeholderState } case '-': nextRune, width := utf8.DecodeRuneInString(l.src[l.pos:]) if nextRune == '-' { l.pos += width return oneLineCommentS",
       "rawState#0.4: tate } case '/': nextRune, width := utf8.DecodeRuneInString(l.src[l.pos:]) if nextRune == '*' { l.pos += width return multilineCommentState } case utf8.RuneErro",
       "rawState#0.5: r: if width != replacementcharacterwidth { if l.pos-l.start > 0 { l.parts = append(l.parts, l.src[l.start:l.pos]) l.start = l.pos } return nil } } }",
       "singleQuoteState: func(l *sqlLexer) stateFn",
       "singleQuoteState#0.0: for { r, width := utf8.DecodeRuneInString(l.src[l.pos:]) l.pos += width switch r { case '\\'': nextRune, width := utf8.DecodeRuneInString(l.src[l.pos:]) if nextR",
       "singleQuoteState#0.1: une != '\\'' { return rawState } l.pos += width case utf8.RuneError: if width != replacementcharacterwidth { if l.pos-l.start > 0 { l.parts = append(l.parts, l.s",
       "singleQuoteState#0.2: rc[l.start:l.pos]) l.start = l.pos } return nil } } }"] := by rfl

end Genql.Obligations.C16
