/-
  Obligation of C06 on the regenerated facts: the whole text of the functions of package genql that the model of C06
  mirrors and that no other regenerated fact covers line by line (BuildUnion, ExecDistinct) — signature, then
  every top-level statement in pieces of at most 160 characters.  The model was written after exactly this text; when it
  changes, the correspondence has to be re-established: the check widens its search for a failing input and, when it finds
  none, reports this obligation with no-failing-input-found.  (GENERATED from facts.json on the unchanged tree; closed by `rfl`:
  two closed literal lists.)
-/
import Genql.Generated.Facts
namespace Genql.Obligations.PinC06
open Genql.Generated

theorem pinned_text :
    decisionsPinC06 =
      ["BuildUnion: func(query *Query, expr *sqlparser.Union) error",
       "BuildUnion#0.0: leftDataArray, err := execUnionBranch(query, expr.Left, expr.With)",
       "BuildUnion#1.0: if err != nil { return err }",
       "BuildUnion#2.0: rightDataArray, err := execUnionBranch(query, expr.Right, expr.With)",
       "BuildUnion#3.0: if err != nil { return err }",
       "BuildUnion#4.0: slice := make([]any, 0)",
       "BuildUnion#5.0: slice = append(slice, leftDataArray...)",
       "BuildUnion#6.0: slice = append(slice, rightDataArray...)",
       "BuildUnion#7.0: query.from = slice",
       "BuildUnion#8.0: query.selectDefinition = sqlparser.SelectExprs{}",
       "BuildUnion#9.0: query.selectDefinition.Exprs = []sqlparser.SelectExpr{&sqlparser.StarExpr{}}",
       "BuildUnion#10.0: query.distinct = expr.Distinct",
       "BuildUnion#11.0: err = BuildOrder(query, &expr.OrderBy)",
       "BuildUnion#12.0: if err != nil { return err }",
       "BuildUnion#13.0: err = BuildLimit(query, expr.Limit)",
       "BuildUnion#14.0: if err != nil { return err }",
       "BuildUnion#15.0: return nil",
       "ExecDistinct: func(query *Query, current []any) ([]any, error)",
       "ExecDistinct#0.0: if !query.distinct { return current, nil }",
       "ExecDistinct#1.0: mapper := make(map[string]bool)",
       "ExecDistinct#2.0: slice := make([]any, 0)",
       "ExecDistinct#3.0: for _, item := range current { sha256 := sha256.New() _, err := sha256.Write([]byte(fmt.Sprintf(\"%#v\", item))) if err != nil { return nil, err } if _, ok := map",
       "ExecDistinct#3.1: per[hex.EncodeToString(sha256.Sum(nil))]; ok { continue } mapper[hex.EncodeToString(sha256.Sum(nil))] = true slice = append(slice, item) }",
       "ExecDistinct#4.0: return slice, nil"] := by rfl

end Genql.Obligations.PinC06
