/-
  Obligation of C04 on the regenerated decision lists of `join.go`: which loop a join runs (`Exec`), on which
  sides (the swap for RIGHT joins), and sequentially or in parallel.  The model's `execJoin` is written after
  exactly these lines: STRAIGHT_JOIN → nested loop, inner only, no swap; otherwise swap unless `IsLeftJoin`,
  hash join iff `hashJoinAnalyze`, else nested loop; the PARALLEL variants differ only in scheduling
  (`parallel_schedule_independent`).
-/
import Genql.Generated.Facts
namespace Genql.Obligations.C04
open Genql.Generated

theorem join_strategy_lines :
    decisionsJoin =
      ["Join.Exec: switch joinType := j.joinType; { case joinType.IsStraightJoin(): { return j.StraightJoin() } case hashJoinAnalyze(j.leftIdent, j.rightIdent, j.joinExpr): { return j.HashJoin() } default: { return j.Join() } }",
       "Join.StraightJoin: if !j.joinType.IsInner() { return nil, EXPECTATION_FAILED.Extend(\"straight join cannot be left or right joins\") }",
       "Join.StraightJoin: l, err := ToCatalog(j.left, j.leftIdent, j.rightIdent, j.joinExpr)",
       "Join.StraightJoin: if err != nil { return nil, err }",
       "Join.StraightJoin: r, err := ToCatalog(j.right, j.rightIdent, j.leftIdent, j.joinExpr)",
       "Join.StraightJoin: if err != nil { return nil, err }",
       "Join.StraightJoin: if !j.joinType.IsParallel() { return j.JoinFunc(l, r) }",
       "Join.StraightJoin: return j.ParallelJoinFunc(l, r)",
       "Join.Join: if !j.joinType.IsLeftJoin() { j.left, j.right = j.right, j.left j.leftIdent, j.rightIdent = j.rightIdent, j.leftIdent }",
       "Join.Join: l, err := ToCatalog(j.left, j.leftIdent, j.rightIdent, j.joinExpr)",
       "Join.Join: if err != nil { return nil, err }",
       "Join.Join: r, err := ToCatalog(j.right, j.rightIdent, j.leftIdent, j.joinExpr)",
       "Join.Join: if err != nil { return nil, err }",
       "Join.Join: if !j.joinType.IsParallel() { return j.JoinFunc(l, r) }",
       "Join.Join: return j.ParallelJoinFunc(l, r)",
       "Join.HashJoin: if !j.joinType.IsLeftJoin() { j.left, j.right = j.right, j.left j.leftIdent, j.rightIdent = j.rightIdent, j.leftIdent }",
       "Join.HashJoin: l, err := ToCatalog(j.left, j.leftIdent, j.rightIdent, j.joinExpr)",
       "Join.HashJoin: if err != nil { return nil, err }",
       "Join.HashJoin: r, err := ToCatalog(j.right, j.rightIdent, j.leftIdent, j.joinExpr)",
       "Join.HashJoin: if err != nil { return nil, err }",
       "Join.HashJoin: if !j.joinType.IsParallel() { return j.HashJoinFunc(l, r) }",
       "Join.HashJoin: return j.ParallelHashJoinFunc(l, r)"] := by decide +kernel

end Genql.Obligations.C04
