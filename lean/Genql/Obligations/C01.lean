/-
  Obligation of C01 / C02 on the regenerated operator tables (`switch expr.Operator` of `ComparisonExpr` and
  `BinaryExpr`, extracted by go/ast + go/printer): every comparison case of the Go source tests the result of
  `compare.Compare` exactly as the model's `cmpDispatch` does, and every arithmetic case computes what the
  model's `binArith` is written after.  A swapped or weakened test (`>= 0` for `== 1`, …) changes the table.
-/
import Genql.Generated.Facts
import Genql.Model.Eval
namespace Genql.Obligations.C01
open Genql Genql.Generated

/-- what the model does with the result `c` of the comparison, per operator -/
def modelCmp : CmpOp → Int → Bool
  | .eq, c => c = 0
  | .ne, c => c ≠ 0
  | .gt, c => c = 1
  | .ge, c => c ≥ 0
  | .lt, c => c = -1
  | .le, c => c ≤ 0
  | _, _ => false

variable {N : Type} [Num N]

/-- `cmpDispatch` is `modelCmp` of the comparison result, for the six ordering operators -/
theorem cmpDispatch_modelCmp (op : CmpOp) (hop : op ∈ [CmpOp.eq, .ne, .gt, .ge, .lt, .le])
    (lv : Val N) (r : IVal N) (rv : Val N) :
    cmpDispatch op lv r rv = (do let c ← compareVal lv rv; pure (modelCmp op c)) := by
  simp only [List.mem_cons, List.mem_singleton, List.not_mem_nil, or_false] at hop
  rcases hop with rfl | rfl | rfl | rfl | rfl | rfl <;> simp [cmpDispatch, modelCmp]

/-- the meaning of the test a Go case performs on `compare.Compare(leftValue, rightValue)` -/
def goTest (s : String) : Option (Int → Bool) :=
  if s = "compare.Compare(leftValue, rightValue) == 0" then some (fun c => c = 0)
  else if s = "compare.Compare(leftValue, rightValue) != 0" then some (fun c => c ≠ 0)
  else if s = "compare.Compare(leftValue, rightValue) == 1" then some (fun c => c = 1)
  else if s = "compare.Compare(leftValue, rightValue) >= 0" then some (fun c => c ≥ 0)
  else if s = "compare.Compare(leftValue, rightValue) == -1" then some (fun c => c = -1)
  else if s = "compare.Compare(leftValue, rightValue) <= 0" then some (fun c => c ≤ 0)
  else none

def opOfLabel (s : String) : Option CmpOp :=
  if s = "sqlparser.EqualOp" then some .eq else if s = "sqlparser.NotEqualOp" then some .ne
  else if s = "sqlparser.GreaterThanOp" then some .gt else if s = "sqlparser.GreaterEqualOp" then some .ge
  else if s = "sqlparser.LessThanOp" then some .lt else if s = "sqlparser.LessEqualOp" then some .le
  else none

/-- one table row agrees with the model on every possible comparison result -/
def rowAgrees (row : String × String) : Bool :=
  match opOfLabel row.1, goTest row.2 with
  | some op, some f => [(-1 : Int), 0, 1].all fun c => f c == modelCmp op c
  | _, _ => false

/-- **the six ordering cases of `ComparisonExpr` test the comparison result as the model does** -/
theorem comparison_cases_agree : (opTableComparisonExpr.take 6).all rowAgrees = true := by decide

/-- the case labels, in source order (LIKE / NOT LIKE / IN / NOT IN follow the six ordering operators) -/
theorem comparison_case_labels :
    opTableComparisonExpr.map (·.1) =
      ["sqlparser.EqualOp", "sqlparser.NotEqualOp", "sqlparser.GreaterThanOp", "sqlparser.GreaterEqualOp",
       "sqlparser.LessThanOp", "sqlparser.LessEqualOp", "sqlparser.LikeOp", "sqlparser.NotLikeOp", "sqlparser.InOp",
       "sqlparser.NotInOp"] := by decide

/-- the arithmetic cases of `BinaryExpr`: float arithmetic for + - * /, `math.Mod` for %, and the integer operators
    through `int64` (what `binArith` models, incl. the exact `fmod`) -/
theorem binary_cases :
    opTableBinaryExpr =
      [("sqlparser.PlusOp", "*leftValue + *rightValue"),
       ("sqlparser.MinusOp", "*leftValue - *rightValue"),
       ("sqlparser.MultOp", "*leftValue * *rightValue"),
       ("sqlparser.DivOp", "*leftValue / *rightValue"),
       ("sqlparser.IntDivOp", "float64(int64(*leftValue) / int64(*rightValue))"),
       ("sqlparser.ModOp", "math.Mod(*leftValue, *rightValue)"),
       ("sqlparser.BitAndOp", "float64(int64(*leftValue) & int64(*rightValue))"),
       ("sqlparser.BitOrOp", "float64(int64(*leftValue) | int64(*rightValue))"),
       ("sqlparser.BitXorOp", "float64(int64(*leftValue) ^ int64(*rightValue))"),
       ("sqlparser.ShiftLeftOp", "float64(int64(*leftValue) << int64(*rightValue))"),
       ("sqlparser.ShiftRightOp", "float64(int64(*leftValue) >> int64(*rightValue))")] := by decide

end Genql.Obligations.C01
