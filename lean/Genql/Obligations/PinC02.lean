/-
  Obligation of C02 on the regenerated facts: the whole text of the functions of package genql that the model of C02
  mirrors and that no other regenerated fact covers line by line (BuildColumnName, BuildLiteral, CaseExpr, FuncArgReader, LiteralExpr, ValueTupleExpr) — signature, then
  every top-level statement in pieces of at most 160 characters.  The model was written after exactly this text; when it
  changes, the correspondence has to be re-established: the check widens its search for a failing input and, when it finds
  none, reports this obligation with no-failing-input-found.  (GENERATED from facts.json on the unchanged tree; closed by `rfl`:
  two closed literal lists.)
-/
import Genql.Generated.Facts
namespace Genql.Obligations.PinC02
open Genql.Generated

theorem pinned_text :
    decisionsPinC02 =
      ["LiteralExpr: func(query *Query, current Map, expr *sqlparser.Literal, opts ...ExprOption) (any, error)",
       "LiteralExpr#0.0: literalType, literalValue, err := BuildLiteral(expr)",
       "LiteralExpr#1.0: if err != nil { return nil, err }",
       "LiteralExpr#2.0: switch literalType { case sqlparser.DecimalVal, sqlparser.FloatVal, sqlparser.IntVal: { n, err := strconv.ParseFloat(literalValue, 64) if err != nil { return ni",
       "LiteralExpr#2.1: l, err } return n, nil } case sqlparser.StrVal: { return NeutalString(literalValue), nil } default: { return nil, UNSUPPORTED_CASE } }",
       "CaseExpr: func(query *Query, current Map, expr *sqlparser.CaseExpr, opts ...ExprOption) (any, error)",
       "CaseExpr#0.0: for _, when := range expr.Whens { rs, err := Expr(query, current, when.Cond, opts...) if err != nil { return nil, err } value, ok := rs.(bool) if !ok { return n",
       "CaseExpr#0.1: il, INVALID_TYPE.Extend(fmt.Sprintf(\"failed to build `CASE` caluse. expected a boolean but found %T\", value)) } if value { return Expr(query, current, when.Val,",
       "CaseExpr#0.2:  opts...) } }",
       "CaseExpr#1.0: if expr.Else == nil { return Expr(query, current, &sqlparser.NullVal{}, opts...) }",
       "CaseExpr#2.0: return Expr(query, current, expr.Else, opts...)",
       "ValueTupleExpr: func(query *Query, current Map, expr *sqlparser.ValTuple, opts ...ExprOption) ([]any, error)",
       "ValueTupleExpr#0.0: if expr == nil { return nil, EXPECTATION_FAILED.Extend(\"failed to build `VALUE TUPLE` expreesion. the expression is nil\") }",
       "ValueTupleExpr#1.0: slice := make([]any, 0)",
       "ValueTupleExpr#2.0: for _, value := range *expr { value, err := Expr(query, current, value, opts...) if err != nil { return nil, err } value, err = ValueOf(query, current, value) i",
       "ValueTupleExpr#2.1: f err != nil { return nil, err } slice = append(slice, value) }",
       "ValueTupleExpr#3.0: return slice, nil",
       "FuncArgReader: func(query *Query, current Map, selectExprs []sqlparser.Expr, opts ...ExprOption) ([]any, error)",
       "FuncArgReader#0.0: slice := make([]any, 0)",
       "FuncArgReader#1.0: for _, expr := range selectExprs { rs, err := Expr(query, current, expr, opts...) if err != nil { return nil, err } value, err := ValueOf(query, current, rs) if",
       "FuncArgReader#1.1:  err != nil { return nil, err } slice = append(slice, value) }",
       "FuncArgReader#2.0: return slice, nil",
       "BuildLiteral: func(expr sqlparser.Expr) (sqlparser.ValType, string, error)",
       "BuildLiteral#0.0: literal, ok := expr.(*sqlparser.Literal)",
       "BuildLiteral#1.0: if !ok { return 0, \"\", INVALID_TYPE.Extend(fmt.Sprintf(\"failed to build `LITERAL` expression, expected Literal but found %T\", expr)) }",
       "BuildLiteral#2.0: return literal.Type, literal.Val, nil",
       "BuildColumnName: func(expr sqlparser.Expr) (string, string, error)",
       "BuildColumnName#0.0: columnName, ok := expr.(*sqlparser.ColName)",
       "BuildColumnName#1.0: if !ok { return \"\", \"\", INVALID_TYPE.Extend(fmt.Sprintf(\"failed to build `COLUMN` name. expected ColName but found %T\", expr)) }",
       "BuildColumnName#2.0: return columnName.Qualifier.Name.String(), columnName.Name.String(), nil"] := by rfl

end Genql.Obligations.PinC02
