/-
  Obligation of C20 on the regenerated statements of `GetVarFunc` / `SetVarFunc`: the key is the `%v` text of the first
  argument; GETVAR returns the stored value or NULL when the key is absent (`Vars.step (.get k) = lookup?`); SETVAR
  stores the second argument under the key unconditionally (`setKey`) and returns the omit marker (no column); both
  take the variable map's lock for the whole access (C13's `vars_well_locked` is about the same lines).
-/
import Genql.Generated.Facts
namespace Genql.Obligations.C20
open Genql.Generated

theorem vars_function_lines :
    decisionsVars =
      ["GetVarFunc: err := Guard(1, args)",
       "GetVarFunc: if err != nil { return nil, err }",
       "GetVarFunc: key := fmt.Sprintf(\"%v\", args[0])",
       "GetVarFunc: query.options.varsMut.RLock()",
       "GetVarFunc: defer query.options.varsMut.RUnlock()",
       "GetVarFunc: value, ok := query.options.vars[key]",
       "GetVarFunc: if !ok { return nil, nil }",
       "GetVarFunc: return value, nil",
       "SetVarFunc: err := Guard(2, args)",
       "SetVarFunc: if err != nil { return nil, err }",
       "SetVarFunc: key := fmt.Sprintf(\"%v\", args[0])",
       "SetVarFunc: value := args[1]",
       "SetVarFunc: query.options.varsMut.Lock()",
       "SetVarFunc: defer query.options.varsMut.Unlock()",
       "SetVarFunc: query.options.vars[key] = value",
       "SetVarFunc: return Ommit(true), nil"] := by decide +kernel

end Genql.Obligations.C20
