/-
  Obligation of C19 on the regenerated facts: no site of the shapes "`if err != nil { return …, nil }`",
  "error checked and dropped", "error overwritten before it is tested" exists in the non-test sources.
-/
import Genql.Generated.Facts
namespace Genql.Obligations.C19
open Genql.Generated

theorem errors_not_swallowed : swallowSites = [] := by decide

end Genql.Obligations.C19
