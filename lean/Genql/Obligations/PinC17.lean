/-
  Obligation of C17 on the regenerated facts: the whole text of the functions of package genql that the model of C17
  mirrors and that no other regenerated fact covers line by line (DoubleQuotesToBackTick, FindArrayIndex, FixIdiomaticArray) — signature, then
  every top-level statement in pieces of at most 160 characters.  The model was written after exactly this text; when it
  changes, the correspondence has to be re-established: the check widens its search for a failing input and, when it finds
  none, reports this obligation with no-failing-input-found.  (GENERATED from facts.json on the unchanged tree; closed by `rfl`:
  two closed literal lists.)
-/
import Genql.Generated.Facts
namespace Genql.Obligations.PinC17
open Genql.Generated

theorem pinned_text :
    decisionsPinC17 =
      ["DoubleQuotesToBackTick: func(str string) (string, error)",
       "DoubleQuotesToBackTick#0.0: buffer := bytes.NewBufferString(\"\")",
       "DoubleQuotesToBackTick#1.0: for i := 0; i < len(str); i++ { r := rune(str[i]) switch r { case '\\'': { buffer.WriteByte(byte(r)) i++ r = '0' for ; i < len(str) && r != '\\''; i++ { r = rune(",
       "DoubleQuotesToBackTick#1.1: str[i]) buffer.WriteByte(byte(r)) if r == '\\\\' { if i+1 == len(str) { return \"\", fmt.Errorf(\"index out of range\") } buffer.WriteByte(str[i+1]) i++ } } i-- } cas",
       "DoubleQuotesToBackTick#1.2: e '`': { buffer.WriteByte(byte(r)) i++ r = '0' for ; i < len(str) && r != '`'; i++ { r = rune(str[i]) buffer.WriteByte(byte(r)) } i-- } case '\"': { buffer.Write",
       "DoubleQuotesToBackTick#1.3: Byte('`') i++ r = '0' for ; i < len(str) && r != '\"'; i++ { r = rune(str[i]) if r == '\"' { buffer.WriteByte('`') continue } if r == '\\\\' { if i+1 == len(str) { ",
       "DoubleQuotesToBackTick#1.4: return \"\", fmt.Errorf(\"index out of range\") } next := str[i+1] if next == '\"' { buffer.WriteByte(next) i++ continue } } buffer.WriteByte(byte(r)) } i-- continue",
       "DoubleQuotesToBackTick#1.5:  } default: { buffer.WriteByte(byte(r)) } } }",
       "DoubleQuotesToBackTick#2.0: return buffer.String(), nil",
       "FindArrayIndex: func(str string) ([][]int, error)",
       "FindArrayIndex#0.0: var hold *rune",
       "FindArrayIndex#1.0: output := make([][]int, 0)",
       "FindArrayIndex#2.0: stack := make([]int, 0)",
       "FindArrayIndex#3.0: pos := 0",
       "FindArrayIndex#4.0: for i := 0; i < len(str); i++ { r := str[i] switch r { case '\\\\': { i++ } case '\"': { if hold == nil { r := '\"' hold = &r continue } if *hold == '\"' { hold = ni",
       "FindArrayIndex#4.1: l } } case '\\'': { if hold == nil { r := '\\'' hold = &r continue } if *hold == '\\'' { hold = nil } } case '`': { if hold == nil { r := '`' hold = &r continue } ",
       "FindArrayIndex#4.2: if *hold == '`' { hold = nil } } } if hold != nil { continue } switch r { case '[': { index := make([]int, 2) index[0] = i output = append(output, index) stack ",
       "FindArrayIndex#4.3: = append(stack, pos) pos++ } case ']': { if len(stack) == 0 { return nil, fmt.Errorf(\"index out of range\") } index := stack[0] output[index][1] = i stack = stac",
       "FindArrayIndex#4.4: k[1:] } } }",
       "FindArrayIndex#5.0: return output, nil",
       "FixIdiomaticArray: func(input string) (string, error)",
       "FixIdiomaticArray#0.0: const _TOKEN = \"ARRAY\"",
       "FixIdiomaticArray#1.0: indexes, err := FindArrayIndex(input)",
       "FixIdiomaticArray#2.0: if err != nil { return \"\", err }",
       "FixIdiomaticArray#3.0: for _, index := range indexes { if index[1] <= index[0] { return \"\", fmt.Errorf(\"unbalanced brackets\") } }",
       "FixIdiomaticArray#4.0: offset := 0",
       "FixIdiomaticArray#5.0: for _, index := range indexes { str := input[:index[0]+offset] str += _TOKEN str += \"(\" str += input[index[0]+offset+1 : index[1]+offset] str += \")\" str += inpu",
       "FixIdiomaticArray#5.1: t[index[1]+offset+1:] input = str offset += len(_TOKEN) }",
       "FixIdiomaticArray#6.0: return input, nil"] := by rfl

end Genql.Obligations.PinC17
