/-
  Obligation of C15 on the regenerated facts: the text of package `compare` (Compare, Cmp, integer, As, compare), function by
  function and statement by statement (long statements in pieces of 160 characters).  `Model/Compare` was written after exactly
  this text, and the exhaustive table of the check is a sample of its inputs: when the text changes, the correspondence has to
  be re-established (the check searches the table, the %v shape-change points and random kinds for a failing pair; when it
  finds none it reports the broken obligation with no-failing-input-found).
-/
import Genql.Generated.Facts
namespace Genql.Obligations.C15
open Genql.Generated

theorem compare_package_text :
    decisionsPkgCompare =
      ["As: func[T int | int32 | int64 | int16 | int8 | uint | uint32 | uint64 | uint16 | byte | float32 | float64](v any) T",
       "As#0.0: switch t := v.(type) { case int: { return T(t) } case int32: { return T(t) } case int64: { return T(t) } case int16: { return T(t) } case int8: { return T(t) } ",
       "As#0.1: case uint: { return T(t) } case uint64: { return T(t) } case uint32: { return T(t) } case uint16: { return T(t) } case byte: { return T(t) } case float32: { ret",
       "As#0.2: urn T(t) } case float64: { return T(t) } }",
       "As#1.0: return (*new(T))",
       "Cmp: func[T int | int32 | int64 | int16 | int8 | uint | uint32 | uint64 | uint16 | byte | float32 | float64](a T, b any) int",
       "Cmp#0.0: if an, am, ok := integer(a); ok { if bn, bm, ok := integer(b); ok { switch { case an != bn: if an { return -1 } return 1 case am == bm: return 0 case (am > bm) ",
       "Cmp#0.1: != an: return 1 default: return -1 } } }",
       "Cmp#1.0: x, y := As[float64](a), As[float64](b)",
       "Cmp#2.0: if x == y { return 0 }",
       "Cmp#3.0: if x > y { return 1 }",
       "Cmp#4.0: return -1",
       "Compare: func(a, b any) int",
       "Compare#0.0: switch t := a.(type) { case int: { return compare(t, b) } case int32: { return compare(t, b) } case int64: { return compare(t, b) } case int16: { return compare",
       "Compare#0.1: (t, b) } case int8: { return compare(t, b) } case uint: { return compare(t, b) } case uint64: { return compare(t, b) } case uint32: { return compare(t, b) } cas",
       "Compare#0.2: e uint16: { return compare(t, b) } case byte: { return compare(t, b) } case float32: { return compare(t, b) } case float64: { return compare(t, b) } default: { ",
       "Compare#0.3: return strings.Compare(fmt.Sprintf(\"%v\", a), fmt.Sprintf(\"%v\", b)) } }",
       "compare: func[T int | int32 | int64 | int16 | int8 | uint | uint32 | uint64 | uint16 | byte | float32 | float64](a T, v any) int",
       "compare#0.0: switch t := v.(type) { case int, int32, int64, int16, int8, uint, uint32, uint64, uint16, byte, float32, float64: { return Cmp(a, t) } case string: { return str",
       "compare#0.1: ings.Compare(fmt.Sprintf(\"%v\", a), t) } }",
       "compare#1.0: return strings.Compare(fmt.Sprintf(\"%v\", a), fmt.Sprintf(\"%v\", v))",
       "integer: func(v any) (negative bool, magnitude uint64, ok bool)",
       "integer#0.0: signed := func(i int64) (bool, uint64, bool) { if i < 0 { return true, uint64(-(i + 1)) + 1, true } return false, uint64(i), true }",
       "integer#1.0: switch t := v.(type) { case int: return signed(int64(t)) case int64: return signed(t) case int32: return signed(int64(t)) case int16: return signed(int64(t)) ca",
       "integer#1.1: se int8: return signed(int64(t)) case uint: return false, uint64(t), true case uint64: return false, t, true case uint32: return false, uint64(t), true case uin",
       "integer#1.2: t16: return false, uint64(t), true case uint8: return false, uint64(t), true }",
       "integer#2.0: return false, 0, false"] := by rfl

end Genql.Obligations.C15
