/-
  Obligations of C13 on the facts regenerated from /repo (Genql/Generated/Facts.lean):
  the generic theorems of Genql.Properties.C13 are instantiated on what the code says NOW.
-/
import Genql.Generated.Facts
import Genql.Properties.C13
namespace Genql.Obligations.C13
open Genql.Conc Genql.Generated

/-- every control-flow path of `ExecReader` touches `cache` only while holding `mut`, never
    re-locks, and releases the lock on exit (incl. the early return on a parse error) -/
theorem execReader_well_locked : WLpaths execReaderGuard execReaderPaths = true := by decide

/-- no other function touches the selector cache -/
theorem cache_only_in_execReader : cacheAccessors = ["ExecReader", "init"] := by decide

/-- hence (theorem `well_locked_race_free`): any number of goroutines each running some path of
    `ExecReader`, under every interleaving, never reach a data race on the cache -/
theorem execReader_race_free (prog : Nat → List Instr) (h : ∀ t, prog t ∈ execReaderPaths) :
    ∀ s, Reach (start prog) s → ¬ Race execReaderGuard s := by
  apply Genql.C13.well_locked_race_free
  intro t
  have := List.all_eq_true.mp execReader_well_locked (prog t) (h t)
  exact this

/-- the worker goroutines of the PARALLEL joins append to the shared result slice and record the
    first error only under the function-local mutex -/
theorem parallel_join_well_locked : WLpaths parallelJoinGuard Generated.parallelJoinWorkerPaths = true := by decide
theorem parallel_hash_join_well_locked : WLpaths parallelJoinGuard Generated.parallelHashJoinWorkerPaths = true := by decide

def varsGuard (x : String) : Option String := if x = "vars" then some "varsMut" else none

/-- GETVAR / SETVAR access the variable map only under `varsMut` -/
theorem vars_well_locked : WLpaths varsGuard (getVarFuncPaths ++ setVarFuncPaths) = true := by decide

/-- the process-wide registries are written only by the `Register*` functions (called from `init`),
    the cache only by `ExecReader`; no other package-level variable is written at all -/
theorem registries_init_only :
    packageVarWriters =
      [("cache", ["ExecReader", "init"]),
       ("functions", ["RegisterExternalFunction", "RegisterFunction"]),
       ("immediateFunctions", ["RegisterExternalFunction", "RegisterFunction", "RegisterImmediateFunction"]),
       ("topLevelFunctions", ["RegisterTopLevelFunction"])] := by decide

/-- every function that so much as mentions a package-level variable: the compiled tokenizer patterns
    (read-only after `init`), the registries (read by the evaluator, written by `Register*`), the
    selector cache and its mutex.  A new shared variable (a reused hasher, buffer, counter …) or a new
    user of an existing one changes this table. -/
theorem package_vars_users :
    packageVarUsers =
      [("arrayPattern", ["ParseArray"]),
       ("cache", ["ExecReader", "init"]),
       ("fullPattern", ["ParseSelector"]),
       ("functionNamePattern", ["ParseSelector"]),
       ("functions", ["AggrFunExpr", "FunExpr", "RegisterExternalFunction", "RegisterFunction"]),
       ("immediateFunctions", ["IsImmediateFunction", "RegisterExternalFunction", "RegisterFunction", "RegisterImmediateFunction"]),
       ("mut", ["ExecReader"]),
       ("pipePattern", ["ParsePipe"]),
       ("topLevelFunctions", ["ReaderExecutor", "RegisterTopLevelFunction"])] := by decide

/-- the sub-packages (`compare`, `sanitizer`) hold no package-level variable at all: everything they
    compute with is local to the call, so concurrent comparisons / sanitisations share nothing -/
theorem sub_packages_stateless : subPackageVars = [] := by decide

/-- the functions that evaluate a parsed selector (everything in `selector.go` below the parser) -/
def selectorEvaluators : List String :=
  ["SelectDimension", "SelectMany", "Unwind", "SelectObject", "ExecReader", "ReaderExecutor", "Reader", "Mix", "MixArray",
   "MixObject", "Distinct", "IndexSelector.GetIndex", "IndexSelector.GetRange", "IndexSelector.GetType",
   "PipeSelector.GetKey", "PipeSelector.GetType"]

/-- **a cached parse result is never written**: `cache_is_parse_graph` (the cache is a sub-graph of `parse`, so every
    interleaving returns the stand-alone result) needs the cached values to be immutable.  Of all write sites into memory a
    function did not allocate itself, the selector evaluators own exactly one — the insertion into the cache map, under the
    mutex; none of them assigns through a parsed selector (an `IndexSelector`'s range, a key list). -/
theorem cached_parse_results_never_written :
    ((writeSites.zip writeSiteFuncs).filter (fun p => selectorEvaluators.contains p.2)).map (·.1) =
      ["ExecReader:index:cache"] := by
  decide +kernel

end Genql.Obligations.C13
