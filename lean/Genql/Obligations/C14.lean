/-
  Obligations of C14 on the regenerated facts: the order of the wait-group events in `FunExpr`
  (async / spinasync) and `execAndPostProcess` has the shape the protocol theorem assumes.
-/
import Genql.Generated.Facts
import Genql.Properties.C14
namespace Genql.Obligations.C14
open Genql.Async Genql.Generated

/-- ASYNC: `wg.Add(1)` precedes `go`; the goroutine invokes, stores its slot and ends with
    `wg.Done()`; `wg.Wait()` precedes every post-processor -/
theorem async_shape : AsyncShape asyncEvents = true := by decide
theorem spinasync_shape : AsyncShape spinasyncEvents = true := by decide

/-- when the called function panics, the goroutine first recovers (ASYNC: stores the error its post
    processor will return; SPINASYNC: reports it) and only then signals the wait group — so the waiter,
    and every post processor after it, observes the stored outcome (`wg.Done` happens-before `Wait`
    returns; nothing the goroutine does after `Done` is ordered before the reader) -/
theorem unwind_done_last :
    asyncUnwind = ["recover", "wgDone"] ∧ spinasyncUnwind = ["recover", "wgDone"] ∧ spinUnwind = ["recover"] := by decide

/-- SPIN starts a goroutine without touching the wait group -/
theorem spin_not_waited : spinEvents.contains .wgAdd = false ∧ spinEvents.contains .wgDone = false := by decide

/-- sub-queries, derived tables, EXISTS, and the copies made for join sides / inner arrays
    (`Query.adopt`, repair D47) forward their wait to the enclosing query -/
theorem nested_wait_forwarded_sites :
    nestedForwarders = ["BuildFromAliasedTable", "ExistExpr", "Query.adopt", "SubqueryExpr"] := by decide

/-- the `immediate` flags of the registry: exactly these functions reject ASYNC / SPIN / SPINASYNC -/
theorem immediate_table :
    (registry.filter (·.2.1)).map (·.1) =
      ["avg", "constant", "count", "daterange", "fuse", "getvar", "max", "min", "raise", "raise_when",
       "report", "report_when", "setvar", "sum", "timestamp", "to_lower", "to_upper"] := by decide

/-- consequence of the shape (theorem `asyncShape_protocol`): the protocol hypotheses hold of the
    extracted event order -/
theorem async_protocol : Genql.C14.ProtocolHyps asyncEvents := Genql.C14.asyncShape_protocol _ async_shape
theorem spinasync_protocol : Genql.C14.ProtocolHyps spinasyncEvents := Genql.C14.asyncShape_protocol _ spinasync_shape

end Genql.Obligations.C14
