/-
  Obligation of C11 on the regenerated facts: every write site of the non-test sources (map / slice
  element assignment, `delete`, `copy`, `maps.Copy`, `sort.*`, `append` (which writes into the spare
  capacity of its first argument and returns a slice sharing its array), assignment through a pointer, field
  assignment on something that is not an engine struct) either targets a value allocated in the same
  function (not listed at all) or is one of the sites below, each with the reason why its target is
  not the caller's document.  A new in-place write makes the list differ and the obligation fail.
-/
import Genql.Generated.Facts
import Genql.Properties.C11
namespace Genql.Obligations.C11
open Genql.Generated

/-- write sites whose target is not locally allocated, with their justification -/
def allowedWriteSites : List String :=
  [ "AggrFunExpr:index:query.singletonExecutions"   -- the query's own memo (made by New/Prepare/CopyQuery)
  , "BuildCte:index:query.data"                     -- query.data was replaced by a private copy just above (BuildCte)
  , "BuildGroup:index:query.groupDefinition"        -- the query's own group definition (made by New/Prepare)
  , "BuildJoin:field:joinExpr.Condition.On"         -- the parser's AST (USING → ON), not the document
  , "Copy:copy:out", "Copy:index:out"               -- `out` is a map made by the only callers (JoinMatchFunc / HashJoinMatchFunc)
  , "ExecGroupBy:append:ref.items"                  -- a group record allocated in the same loop (`items: []any{item}`)
  , "ExecGroupBy:field:ref.items"                   -- a group record allocated in the same loop
  , "ExecReader:index:cache"                        -- the selector cache (C13)
  , "ExistExpr:field:q.from"                        -- `q` is a freshly prepared query; `from` is a new slice of merged copies
  , "FunExpr:index:query.singletonExecutions"       -- the query's own memo
  , "RegisterExternalFunction:index:functions", "RegisterFunction:index:functions"
  , "RegisterImmediateFunction:append:immediateFunctions"
  , "RegisterTopLevelFunction:index:topLevelFunctions"   -- registries (C13)
  , "SetVarFunc:index:query.options.vars"           -- the caller's VARIABLE map, which C20 requires to be written
  , "Sort:sort:slice"                               -- sorts the slice ExecSelect built (`copy := make(...)`), never `from`
  , "execUnionBranch:field:statement.With"          -- the parser's AST
  , "resolveAsyncSlots:index:row"                   -- rows ExecSelect has just built (fresh maps of SelectExpr); called from exec only (repair D51)
  ]

theorem writes_target_fresh : writeSites = allowedWriteSites := by decide

end Genql.Obligations.C11
