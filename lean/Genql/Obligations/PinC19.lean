/-
  Obligation of C19 on the regenerated facts: the whole text of the functions of package genql that the model of C19
  mirrors and that no other regenerated fact covers line by line (RaiseFunc, RaiseWhenFunc, Sort, ToFloat64) — signature, then
  every top-level statement in pieces of at most 160 characters.  The model was written after exactly this text; when it
  changes, the correspondence has to be re-established: the check widens its search for a failing input and, when it finds
  none, reports this obligation with no-failing-input-found.  (GENERATED from facts.json on the unchanged tree; closed by `rfl`:
  two closed literal lists.)
-/
import Genql.Generated.Facts
namespace Genql.Obligations.PinC19
open Genql.Generated

theorem pinned_text :
    decisionsPinC19 =
      ["RaiseWhenFunc: func(query *Query, current Map, functionOptions *FunctionOptions, args []any) (any, error)",
       "RaiseWhenFunc#0.0: err := Guard(2, args)",
       "RaiseWhenFunc#1.0: if err != nil { return nil, err }",
       "RaiseWhenFunc#2.0: cond, err := AsType[bool](args[0])",
       "RaiseWhenFunc#3.0: if err != nil { return nil, err }",
       "RaiseWhenFunc#4.0: if *cond { return nil, fmt.Errorf(\"%v\", args[1]) }",
       "RaiseWhenFunc#5.0: return Ommit(true), nil",
       "RaiseFunc: func(query *Query, current Map, functionOptions *FunctionOptions, args []any) (any, error)",
       "RaiseFunc#0.0: err := Guard(1, args)",
       "RaiseFunc#1.0: if err != nil { return nil, err }",
       "RaiseFunc#2.0: return nil, fmt.Errorf(\"%v\", args[0])",
       "ToFloat64: func(any any) (float64, error)",
       "ToFloat64#0.0: number, err := strconv.ParseFloat(fmt.Sprintf(\"%v\", any), 64)",
       "ToFloat64#1.0: if err != nil { return 0, err }",
       "ToFloat64#2.0: return number, nil",
       "Sort: func(slice []any, orderBy OrderByDefinition) (err error)",
       "Sort#0.0: defer func() { if r := recover(); r != nil { err = asError(r) } }()",
       "Sort#1.0: if len(orderBy) == 0 { return nil }",
       "Sort#2.0: sort.Slice(slice, func(i, j int) bool { rs, err := Compare(slice, i, j, orderBy) if err != nil { panic(err) } return rs })",
       "Sort#3.0: return nil"] := by rfl

end Genql.Obligations.PinC19
