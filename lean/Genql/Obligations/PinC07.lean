/-
  Obligation of C07 on the regenerated facts: the whole text of the functions of package genql that the model of C07
  mirrors and that no other regenerated fact covers line by line (BuildCte, BuildFromAliasedTable, ExistExpr, ProcessAlias, SubqueryExpr, WithBackwardNavigation) — signature, then
  every top-level statement in pieces of at most 160 characters.  The model was written after exactly this text; when it
  changes, the correspondence has to be re-established: the check widens its search for a failing input and, when it finds
  none, reports this obligation with no-failing-input-found.  (GENERATED from facts.json on the unchanged tree; closed by `rfl`:
  two closed literal lists.)
-/
import Genql.Generated.Facts
namespace Genql.Obligations.PinC07
open Genql.Generated

theorem pinned_text :
    decisionsPinC07 =
      ["BuildCte: func(query *Query, expr *sqlparser.With) error",
       "BuildCte#0.0: if expr == nil { return nil }",
       "BuildCte#1.0: data := make(Map, len(query.data)+len(expr.CTEs))",
       "BuildCte#2.0: for key, value := range query.data { data[key] = value }",
       "BuildCte#3.0: query.data = data",
       "BuildCte#4.0: for _, cte := range expr.CTEs { copy := *cte resolving := false query.data[copy.ID.String()] = CteEvaluation(func() (any, error) { if resolving { return nil, EX",
       "BuildCte#4.1: PECTATION_FAILED.Extend(fmt.Sprintf(\"common table expression %s references itself\", copy.ID.String())) } resolving = true defer func() { resolving = false }() q",
       "BuildCte#4.2: uery, err := Prepare(query.data, copy.Subquery, query.options) if err != nil { return nil, err } rs, err := query.execAndPostProcess() if err != nil { return ni",
       "BuildCte#4.3: l, err } query.data[copy.ID.String()] = rs return rs, nil }) }",
       "BuildCte#5.0: return nil",
       "SubqueryExpr: func(query *Query, current Map, expr *sqlparser.Subquery, opts ...ExprOption) (any, error)",
       "SubqueryExpr#0.0: current = WithBackwardNavigation(current, query.data)",
       "SubqueryExpr#1.0: subQuery, err := Prepare(current, expr.Select, query.options)",
       "SubqueryExpr#2.0: if err != nil { return nil, err }",
       "SubqueryExpr#3.0: rs, err := subQuery.exec()",
       "SubqueryExpr#4.0: if err != nil { return nil, err }",
       "SubqueryExpr#5.0: query.postProcessors = append(query.postProcessors, subQuery.postProcessors...)",
       "SubqueryExpr#6.0: query.wg.Add(1)",
       "SubqueryExpr#7.0: go func() { subQuery.wg.Wait() query.wg.Done() }()",
       "SubqueryExpr#8.0: return rs, nil",
       "ExistExpr: func(query *Query, current Map, expr *sqlparser.ExistsExpr, opts ...ExprOption) (bool, error)",
       "ExistExpr#0.0: current = WithBackwardNavigation(current, query.data)",
       "ExistExpr#1.0: q, err := Prepare(current, expr.Subquery.Select, query.options)",
       "ExistExpr#2.0: if err != nil { return false, err }",
       "ExistExpr#3.0: from := make([]any, len(q.from))",
       "ExistExpr#4.0: for i := 0; i < len(q.from); i++ { item, ok := q.from[i].(Map) if !ok { return false, INVALID_TYPE.Extend(fmt.Sprintf(\"failed to build `EXIST` expression. expec",
       "ExistExpr#4.1: ted an object but found %T\", item)) } merged := make(Map, len(item)+len(current)) for key, value := range item { merged[key] = value } for key, value := range c",
       "ExistExpr#4.2: urrent { merged[key] = value } from[i] = merged }",
       "ExistExpr#5.0: q.from = from",
       "ExistExpr#6.0: rs, err := q.exec()",
       "ExistExpr#7.0: array, ok := rs.([]any)",
       "ExistExpr#8.0: if !ok { return false, INVALID_TYPE.Extend(fmt.Sprintf(\"failed to build `EXIST` expression. expected an array but found %T\", array)) }",
       "ExistExpr#9.0: query.postProcessors = append(query.postProcessors, q.postProcessors...)",
       "ExistExpr#10.0: query.wg.Add(1)",
       "ExistExpr#11.0: go func() { q.wg.Wait() query.wg.Done() }()",
       "ExistExpr#12.0: return len(array) > 0, err",
       "WithBackwardNavigation: func(current Map, data Map) Map",
       "WithBackwardNavigation#0.0: scoped := make(Map, len(current)+1)",
       "WithBackwardNavigation#1.0: for key, value := range current { scoped[key] = value }",
       "WithBackwardNavigation#2.0: scoped[\"<-\"] = data",
       "WithBackwardNavigation#3.0: return scoped",
       "ProcessAlias: func(data []any, as string) []any",
       "ProcessAlias#0.0: if len(as) == 0 { return data }",
       "ProcessAlias#1.0: slice := make([]any, len(data))",
       "ProcessAlias#2.0: for i, j := range data { slice[i] = Map{as: j} }",
       "ProcessAlias#3.0: return slice",
       "BuildFromAliasedTable: func(query *Query, as string, expr sqlparser.SimpleTableExpr) error",
       "BuildFromAliasedTable#0.0: switch expr := expr.(type) { case sqlparser.TableName: { var tableName string qualifier := expr.Qualifier.String() name := expr.Name.String() if len(qualifier) ",
       "BuildFromAliasedTable#0.1: == 0 { tableName = name } else { tableName = fmt.Sprintf(\"%s.%s\", qualifier, name) } if len(as) == 0 { query.ident = strings.SplitN(tableName, \".\", 2)[0] } else",
       "BuildFromAliasedTable#0.2:  { query.ident = as } data, err := ExecReader(query.data, tableName) if err != nil { return err } switch data := data.(type) { case CteEvaluation: { data, err :",
       "BuildFromAliasedTable#0.3: = data() if err != nil { return err } array, err := AsArray(data) if err != nil { return err } alias := ProcessAlias(array, as) query.from = alias return nil } ",
       "BuildFromAliasedTable#0.4: case nil: { if qualifier == \"\" && tableName == \"dual\" { query.dual = true array, err := AsArray(query.data) if err != nil { return err } query.from = array retu",
       "BuildFromAliasedTable#0.5: rn nil } return nil } default: { array, err := AsArray(data) if err != nil { return err } alias := ProcessAlias(array, as) query.from = alias return nil } } } c",
       "BuildFromAliasedTable#0.6: ase *sqlparser.DerivedTable: { query.ident = as subquery, err := Prepare(query.data, expr.Select, query.options) if err != nil { return err } data, err := subqu",
       "BuildFromAliasedTable#0.7: ery.exec() if err != nil { return err } query.postProcessors = append(query.postProcessors, subquery.postProcessors...) query.wg.Add(1) go func() { subquery.wg.",
       "BuildFromAliasedTable#0.8: Wait() query.wg.Done() }() array, err := AsArray(data) if err != nil { return err } alias := ProcessAlias(array, as) query.from = alias return nil } default: { ",
       "BuildFromAliasedTable#0.9: return UNSUPPORTED_CASE.Extend(\"invalid from clause\") } }"] := by rfl

end Genql.Obligations.PinC07
