/-
  Obligations on the regenerated facts about query COPIES.  `exec()` runs every inner array of a
  multi-dimensional FROM — and `BuildJoin` each side of a join — in a copy made by `CopyQuery`; the
  model's `levelElem` applies the SAME WHERE and the SAME rest of the pipeline at every level, and
  `Query.adopt` hands what the copy deferred (post processors, pending ASYNC calls) to its origin.
  That is faithful exactly when a copy inherits every clause of the query verbatim and keeps only
  per-run state of its own.
-/
import Genql.Generated.Facts
namespace Genql.Obligations.C08
open Genql.Generated

/-- the fields of `Query` a copy must take over unchanged: the document, the source, every clause,
    the options, and the post processors registered so far (`adopt` takes over what lies beyond them) -/
def inherited : List String :=
  ["data", "distinct", "from", "groupDefinition", "havingDefinition", "limitDefinition", "offsetDefinition", "options",
   "orderByDefinition", "postProcessors", "selectDefinition", "whereDefinition"]

/-- every inherited field is copied verbatim (`f: query.f`) -/
theorem copy_inherits_clauses :
    inherited.all (fun f => decisionsCopyQuery.contains (f ++ " = query." ++ f)) = true := by decide +kernel

/-- the fields a copy does NOT inherit are exactly its per-run state: the `dual` / `ident` flags set by
    `BuildFrom`, the filtered rows, the ONCE memo (a fresh map) and its own wait group -/
theorem copy_own_state :
    decisionsQueryFields.filter (fun f => !inherited.contains f) = ["dual", "filtered", "ident", "singletonExecutions", "wg"] := by
  decide +kernel

/-- the whole of `CopyQuery` and `adopt`, as written -/
theorem copy_query_lines :
    decisionsCopyQuery =
      ["data = query.data", "distinct = query.distinct", "from = query.from", "groupDefinition = query.groupDefinition",
       "havingDefinition = query.havingDefinition", "limitDefinition = query.limitDefinition",
       "offsetDefinition = query.offsetDefinition", "options = query.options", "orderByDefinition = query.orderByDefinition",
       "postProcessors = query.postProcessors", "selectDefinition = query.selectDefinition",
       "singletonExecutions = make(map[string]any)", "whereDefinition = query.whereDefinition",
       "adopt: if n := len(query.postProcessors); len(copy.postProcessors) > n { query.postProcessors = append(query.postProcessors, copy.postProcessors[n:]...) }",
       "adopt: query.wg.Add(1)", "adopt: go func() { copy.wg.Wait() query.wg.Done() }()"] := by decide +kernel

end Genql.Obligations.C08
