/-
  Obligation of C05 on the regenerated decision lists: the statements of the `sort.go` comparator and of the
  LIMIT / OFFSET window at the end of `exec()`, as normalised source text in order.  The model's `lessKeys`
  and `window` are written after exactly these lines (mapping in the comments); any change to a guard, to the
  direction constants, to the tie rule or to the clamp makes the list differ.
-/
import Genql.Generated.Facts
namespace Genql.Obligations.C05
open Genql.Generated

/-- `Compare(slice, i, j, orderBy)`:
    no keys left ⇒ false (`lessKeys [] = false`); the flag of the first key chooses the expected comparison result
    (`-1` when `.Value`, i.e. ASC); first key NULL ⇒ false, second NULL ⇒ true (NULLs last in both directions);
    a tie recurses on the remaining keys; otherwise `res == direction`. -/
theorem sort_comparator_lines :
    decisionsSortCompare =
      ["if len(orderBy) == 0 { return false, nil }",
       "key := orderBy[0].Key",
       "direction := 1",
       "if orderBy[0].Value { direction = -1 }",
       "first, err := ExecReader(slice[i], key)",
       "if err != nil { return false, err }",
       "if first == nil { return false, nil }",
       "second, err := ExecReader(slice[j], key)",
       "if err != nil { return false, err }",
       "if second == nil { return true, nil }",
       "res := compare.Compare(first, second)",
       "if res == 0 { return Compare(slice, i, j, orderBy[1:]) }",
       "return res == direction, nil"] := by decide

/-- the window: `offset` defaults to 0 and `limit` to `len(rs)`; an offset at or past the end yields no rows; the
    limit is clamped by a SUBTRACTION (`len(rs)-offset`, never `offset+limit`, which could overflow) before the
    slice expression — the model's `window`, proved equal to `drop`/`take` in `window_exact`. -/
theorem window_lines :
    decisionsWindow =
      ["offset := 0",
       "if query.offsetDefinition != -1 { offset = query.offsetDefinition }",
       "limit := len(rs)",
       "if query.limitDefinition != -1 { limit = query.limitDefinition }",
       "if offset >= len(rs) { rs = nil goto FINALIZE }",
       "if limit > len(rs)-offset { limit = len(rs) - offset }",
       "rs = rs[offset : offset+limit : offset+limit]"] := by decide

/-- **the stage order of `exec()`** (engine-level calls in source order): the dual shortcut (`ExecSelect` on the single
    scoped row), then per element of the source either the recursion into an inner array (`copy.exec`, `query.adopt`) or
    `ExecWhere`; then `ExecGroupBy` → `ExecSelect` → (slot resolution) → `ExecDistinct` → `ExecOrderBy` → the window
    slice.  This is the order `Pipeline.select_pipeline` states for the model: WHERE → select list → DISTINCT → ORDER BY →
    window, each on the whole output of the previous stage. -/
theorem exec_stage_order :
    decisionsStages =
      ["ExecSelect", "copy.exec", "query.adopt", "ExecWhere", "ExecGroupBy", "ExecSelect", "resolveAsyncSlots",
       "ExecDistinct", "ExecOrderBy", "slice:rs[offset : offset+limit : offset+limit]"] := by decide

end Genql.Obligations.C05
