/-
  Obligation of C17 on the regenerated facts: the statements of `New` that rewrite the query text and parse it.
  `Scan.applyDialect` is written after exactly these lines: the quote rewrite reads the caller's text and replaces it
  (`query = rs`), the array rewrite reads THAT text and replaces it again, and the parser receives the result; each
  rewrite's error is returned as `New`'s error.
-/
import Genql.Generated.Facts
namespace Genql.Obligations.C17
open Genql.Generated

theorem dialect_rewrite_lines :
    decisionsDialect =
      ["if q.options.postgresEscapingDialect { rs, err := DoubleQuotesToBackTick(query) if err != nil { return nil, err } query = rs }",
       "if q.options.idomaticArrays { rs, err := FixIdiomaticArray(query) if err != nil { return nil, err } query = rs }",
       "statement, err := Parse(query)"] := by decide +kernel

end Genql.Obligations.C17
