/-
  Obligations of C12 on the regenerated facts: the statements that decide what reaches an output row.

  `value_of_cases` — the type switch of `ValueOf`: a `ColumnName` is read from the current row (and a lazy CTE it names is
  evaluated), a `NeutalString` becomes a string, a `*float64` its value (NULL for the typed nil), anything else passes
  through: the model's `valueOf`.

  `select_item_lines` — `SelectExpr`, statement by statement: `*` copies the row's entries and schedules the removal of the
  `<-` marker; for an item the value is evaluated, an `Ommit` contributes nothing, `ValueOf` unwraps, a `Fuse` is blended
  key by key (never the marker), the name is the alias or the column's name, an async slot (`*any`) is resolved by a post
  processor after the wait, and the value is stored under the name: the model's `evalSel`.
-/
import Genql.Generated.Facts
namespace Genql.Obligations.C12
open Genql.Generated

theorem value_of_cases :
    decisionsValueOf =
      ["case ColumnName: { rs, err := ExecReader(current, string(value)) if err != nil { return nil, err } if cte, ok := rs.(CteEvaluation); ok { return cte() } return rs, nil }",
       "case NeutalString: { return string(value), nil }",
       "case *float64: { if value == nil { return nil, nil } return *value, nil }",
       "case default: { return value, nil }"] := by decide +kernel

theorem select_item_lines :
    decisionsSelectExpr =
      ["*sqlparser.StarExpr: for key, value := range current { if _, ok := value.(CteEvaluation); ok { continue } query.postProcessors = append(query.postProcessors, func() error { delete(data, \"<-\") return nil }) data[key] = value }",
       "*sqlparser.AliasedExpr: value, err := Expr(query, current, expr.Expr, opts...)",
       "*sqlparser.AliasedExpr: if err != nil { return nil, err }",
       "*sqlparser.AliasedExpr: if _, ok := value.(Ommit); ok { continue }",
       "*sqlparser.AliasedExpr: valueRaw, err := ValueOf(query, current, value)",
       "*sqlparser.AliasedExpr: if err != nil { return nil, err }",
       "*sqlparser.AliasedExpr: if fuse, ok := valueRaw.(Fuse); ok { prefix := expr.As.String() for key, value := range fuse { if key == \"<-\" { continue } if len(prefix) > 0 { data[fmt.Sprintf(\"%s.%s\", prefix, key)] = value continue } data[key] = value } continue }",
       "*sqlparser.AliasedExpr: name := expr.ColumnName()",
       "*sqlparser.AliasedExpr: if len(expr.As.String()) > 0 { name = expr.As.String() }",
       "*sqlparser.AliasedExpr: if valueRaw, ok := valueRaw.(*any); ok { query.postProcessors = append(query.postProcessors, func() error { if err != nil { return err } value := *valueRaw for { x, ok := value.(*any) if !ok { break } value = *x } data[name] = value return nil }) }",
       "*sqlparser.AliasedExpr: data[name] = valueRaw"] := by decide +kernel

end Genql.Obligations.C12
