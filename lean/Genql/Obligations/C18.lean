/-
  Obligation of C18 on the regenerated registry (`init()` of functions.go): the arity the model's
  `Guard` table assigns to a function is the arity the Go body passes to `Guard(n, args)` as its first
  statement (and returns the error of).
-/
import Genql.Generated.Facts
import Genql.Model.Builtins
namespace Genql.Obligations.C18
open Genql Genql.Generated

/-- every function of the model's arity table is registered, with the same `Guard` count -/
theorem arity_table_matches_registry :
    arities.all (fun p => registry.any (fun r => r.1 == p.1 && r.2.2 == some p.2)) = true := by decide

/-- the functions registered in Go with a `Guard` that the model does not cover (gob/crypto/time/state) -/
theorem guarded_outside_model :
    (registry.filter (fun r => r.2.2.isSome && !(arities.any (fun p => p.1 == r.1)))).map (·.1) =
      ["constant", "decode", "encode", "getvar", "hash", "setvar", "timestamp"] := by decide

/-- the variadic / unguarded ones -/
theorem unguarded : (registry.filter (fun r => r.2.2.isNone)).map (·.1) = ["array", "concat", "count"] := by decide

end Genql.Obligations.C18
