/-
  Genql.Model.Compare — executable model of Go's `compare.Compare` (/repo/compare/compare.go),
  the comparison used by WHERE, ORDER BY, IN and joins.

  Core Lean only; every definition is structural (or non-recursive) so that `by decide` evaluates
  the model on concrete witnesses.

  What is modelled
  * `GoVal`      — the dynamic values `Compare` can receive: the ten Go integer kinds, `float32`,
                   `float64` (finite values, as exact dyadic rationals), `string`, `bool`, `nil`.
  * `fmtGo`      — `fmt.Sprintf("%v", x)`.  For floats the model prints the exact decimal expansion
                   of the dyadic value and declines (`none`, "out of model") whenever that expansion
                   is not guaranteed to be what Go's shortest-round-trip printer emits.
  * `compareGo`  — `Compare` → `compare[T]` → `Cmp` / `integer` / `As`, branch for branch.
  * `parseGoVal` — decoder of the correspondence protocol's typed values.

  Trusted facts (not provable inside the model, they relate it to Go):
  * `strings.Compare` is byte-wise lexicographic.  On valid UTF-8 this coincides with Lean's
    `String` `<`, which is code-point lexicographic (`String.lt_iff : s < t ↔ s.toList < t.toList`),
    because UTF-8 encoding is order preserving.  Go strings holding invalid UTF-8 are outside the
    model (a Lean `String` cannot represent them).
  * A finite IEEE-754 number is the dyadic rational decoded by `decodeFloat`; Go's `==`/`>` on
    finite `float64` is the order of those rationals (with `-0 == +0`).
  * For a binary64 (binary32) value whose exact decimal expansion has at most 15 (6) significant
    digits, that expansion is the shortest decimal that round-trips (DBL_DIG = 15, FLT_DIG = 6),
    hence it is the digit string `strconv` produces for `%v`.

  Deviation from the task text, forced by "model what the Go code DOES": Go's `%v` for floats is
  `%g` with the shortest precision, which switches to exponent notation when the decimal exponent
  is `< -4` or `>= 6` (the threshold 21 applies to JSON encoding, not to `fmt`):
  `fmt.Sprintf("%v", float64(1000000)) = "1e+06"`, `float64(2097152.5)` prints `2.0971525e+06`
  (checked with go1.23.5).  `fmtGo` therefore prints `d[.ddd]e+XX` for `1e6 ≤ |x| < 2^53` and the
  plain positional form only for `1e-4 ≤ |x| < 1e6`.
-/
namespace Genql.Cmp

/-! ## Values -/

/-- The ten Go integer types `Compare` switches on (`byte` = `uint8`; `int`/`uint` are 64-bit on
    every platform the library is tested on). -/
inductive IntKind where
  | int | int8 | int16 | int32 | int64 | uint | uint8 | uint16 | uint32 | uint64
  deriving DecidableEq, Repr, Inhabited

def IntKind.signed : IntKind → Bool
  | .int | .int8 | .int16 | .int32 | .int64 => true
  | _ => false

def IntKind.bits : IntKind → Nat
  | .int8 | .uint8 => 8
  | .int16 | .uint16 => 16
  | .int32 | .uint32 => 32
  | _ => 64

/-- `v` is a value of Go type `k`. -/
def IntKind.inRange (k : IntKind) (v : Int) : Bool :=
  if k.signed then
    decide (-(Int.ofNat (2 ^ (k.bits - 1))) ≤ v) && decide (v < Int.ofNat (2 ^ (k.bits - 1)))
  else
    decide (0 ≤ v) && decide (v < Int.ofNat (2 ^ k.bits))

/-- The exact rational `m / 2^e`.  Every finite binary floating-point number is one.  The
    representation is not required to be normalised (`⟨2,1⟩` and `⟨1,0⟩` are the same number). -/
structure Dyadic where
  m : Int
  e : Nat
  deriving DecidableEq, Repr, Inhabited

inductive GoVal where
  | int (k : IntKind) (v : Int)
  | f32 (d : Dyadic)
  | f64 (d : Dyadic)
  | str (s : String)
  | bool (b : Bool)
  | nil
  deriving DecidableEq, Repr, Inhabited

/-- Well-formedness of a `GoVal` as a Go value: integers lie in the range of their type.  (No
    theorem of C15 needs it; the protocol decoder `parseGoVal` only produces such values.) -/
def GoVal.WF : GoVal → Bool
  | .int k v => k.inRange v
  | _ => true

/-! ## Dyadic arithmetic -/

/-- `2^n` as an `Int` (through `Nat.pow`, which the kernel evaluates natively). -/
def pow2 (n : Nat) : Int := Int.ofNat (2 ^ n)

/-- `x == y` on finite floats: cross-multiplication, denominators are positive. -/
def Dyadic.eq (x y : Dyadic) : Bool := decide (x.m * pow2 y.e = y.m * pow2 x.e)

/-- `x > y` on finite floats. -/
def Dyadic.gt (x y : Dyadic) : Bool := decide (y.m * pow2 x.e < x.m * pow2 y.e)

/-- Remove common factors of two: `normalize n e = (n', e')` with `n / 2^e = n' / 2^e'` and
    `e' = 0 ∨ n'` odd. -/
def normalize (n : Nat) : Nat → Nat × Nat
  | 0 => (n, 0)
  | e + 1 => if n % 2 = 0 then normalize (n / 2) e else (n, e + 1)

def Dyadic.normalize (d : Dyadic) : Dyadic :=
  let r := Cmp.normalize d.m.natAbs d.e
  ⟨if d.m < 0 then -(Int.ofNat r.1) else Int.ofNat r.1, r.2⟩

/-! ## `fmt.Sprintf("%v", x)` -/

/-- decimal digits of a natural number, most significant first (`0 ↦ "0"`) -/
def natDigitsAux : (fuel : Nat) → Nat → List Char → List Char
  | 0, _, acc => acc
  | fuel + 1, n, acc =>
    if n < 10 then Nat.digitChar n :: acc
    else natDigitsAux fuel (n / 10) (Nat.digitChar (n % 10) :: acc)

def natDigits (n : Nat) : List Char := natDigitsAux (n + 1) n []

def fmtInt (v : Int) : String :=
  if v < 0 then String.ofList ('-' :: natDigits v.natAbs) else String.ofList (natDigits v.natAbs)

def dropTrailingZeros (ds : List Char) : List Char :=
  (ds.reverse.dropWhile (· == '0')).reverse

/-- Go's `%v` (= `%g`, shortest precision) of the finite non-zero float `±n / 2^e`, given the
    number `maxDigits` of significant decimal digits up to which an exact expansion is certainly
    the shortest round-tripping one (15 for binary64, 6 for binary32).

    With `(n', e') = normalize n e` the value is `N / 10^e'` for `N = n' * 5^e'`; the digit string
    of `N` is the exact expansion.  `dp` is the position of the decimal point (`x = 0.d₁d₂… × 10^dp`)
    and `dp - 1` the decimal exponent `strconv` tests: `%e` when `< -4` or `≥ 6` (`eprec = 6` for
    the shortest precision), `%f` otherwise. -/
def fmtFloatAbs (maxDigits : Nat) (n e : Nat) : Option (List Char) :=
  let r := normalize n e
  let n' := r.1
  let e' := r.2
  let ds := natDigits (n' * 5 ^ e')
  let sig := dropTrailingZeros ds
  -- out of model: |x| ≥ 2^53, too many significant digits, or |x| < 1e-4 (dp - 1 < -4)
  if n' ≥ 2 ^ 53 * 2 ^ e' then none
  else if sig.length > maxDigits then none
  else if ds.length + 3 < e' then none
  else if ds.length ≥ e' + 7 then
    -- %e : d[.ddd]e+XX with XX = dp - 1 = ds.length - e' - 1 ∈ [6, 15]
    let ex := natDigits (ds.length - e' - 1)
    let ex := if ex.length < 2 then '0' :: ex else ex
    let mant := match sig with
      | [] => []
      | [d] => [d]
      | d :: rest => d :: '.' :: rest
    some (mant ++ 'e' :: '+' :: ex)
  else
    -- %f with max(nd - dp, 0) = e' fractional digits
    let padded := List.replicate (e' + 1 - ds.length) '0' ++ ds
    let ip := padded.take (padded.length - e')
    let fp := padded.drop (padded.length - e')
    some (if e' = 0 then ip else ip ++ '.' :: fp)

def fmtFloat (maxDigits : Nat) (d : Dyadic) : Option String :=
  if d.m = 0 then some "0"   -- +0; negative zero is not representable, hence out of model
  else
    match fmtFloatAbs maxDigits d.m.natAbs d.e with
    | none => none
    | some cs => some (String.ofList (if d.m < 0 then '-' :: cs else cs))

def strTrue : String := "true"
def strFalse : String := "false"
def strNil : String := "<nil>"

/-- `fmt.Sprintf("%v", x)`; `none` = the model declines to predict the text. -/
def fmtGo : GoVal → Option String
  | .int _ v => some (fmtInt v)
  | .f32 d => fmtFloat 6 d
  | .f64 d => fmtFloat 15 d
  | .str s => some s
  | .bool b => some (if b then strTrue else strFalse)
  | .nil => some strNil

/-! ## `Compare` -/

/-- `strings.Compare` (byte-wise; see the trusted fact in the header). -/
def strCompare (a b : String) : Int :=
  if a = b then 0 else if a < b then -1 else 1

/-- The type switch `case int, int32, …, float32, float64` (the twelve numeric cases). -/
def GoVal.isNum : GoVal → Bool
  | .int _ _ | .f32 _ | .f64 _ => true
  | _ => false

/-- `integer(v)`: sign and magnitude of an integer of any kind, `none` for `ok = false`.  For an
    in-range value Go's `uint64(-(i+1)) + 1` is exactly `|i|` (also for `math.MinInt64`). -/
def integer : GoVal → Option (Bool × Nat)
  | .int _ v => some (decide (v < 0), v.natAbs)
  | _ => none

/-- `float64(n)` for a natural number: exact below `2^53`, otherwise round to nearest, ties to
    even, on a 53-bit significand (`n < 2^64` for every Go integer, so no overflow to `+Inf`). -/
def roundNat53 (n : Nat) : Nat :=
  if n < 2 ^ 53 then n
  else
    let k := n.log2 - 52          -- n has log2 n + 1 bits; drop k ≥ 1 of them
    let q := n / 2 ^ k
    let r := n % 2 ^ k
    let half := 2 ^ (k - 1)
    let q' := if r > half then q + 1 else if r < half then q else if q % 2 = 0 then q else q + 1
    q' * 2 ^ k

/-- `float64(v)` for an integer `v` (conversion rounds the magnitude, the sign is kept). -/
def intToF64 (v : Int) : Dyadic :=
  ⟨if v < 0 then -(Int.ofNat (roundNat53 v.natAbs)) else Int.ofNat (roundNat53 v.natAbs), 0⟩

/-- `As[float64](v)`: the numeric value converted to `float64`; the fall-through `*new(T)` is 0.
    A `float32` is already an exact dyadic, widening it is exact. -/
def asF64 : GoVal → Dyadic
  | .int _ v => intToF64 v
  | .f32 d => d
  | .f64 d => d
  | _ => ⟨0, 0⟩

/-- `Cmp(a, b)` for numeric `a`, `b`. -/
def cmpNum (a b : GoVal) : Int :=
  match integer a, integer b with
  | some (an, am), some (bn, bm) =>
    if an != bn then (if an then -1 else 1)
    else if am = bm then 0
    else if (decide (am > bm)) != an then 1
    else -1
  | _, _ =>
    let x := asF64 a
    let y := asF64 b
    if x.eq y then 0 else if x.gt y then 1 else -1

/-- `strings.Compare(fmt.Sprintf("%v", a), fmt.Sprintf("%v", b))` -/
def cmpText (a b : GoVal) : Option Int :=
  match fmtGo a, fmtGo b with
  | some sa, some sb => some (strCompare sa sb)
  | _, _ => none

/-- `compare[T](a, v)` for numeric `a`. -/
def compareT (a v : GoVal) : Option Int :=
  if v.isNum then some (cmpNum a v)
  else match v with
    | .str t =>
      match fmtGo a with
      | some sa => some (strCompare sa t)
      | none => none
    | _ => cmpText a v

/-- `Compare(a, b)`. -/
def compareGo (a b : GoVal) : Option Int :=
  if a.isNum then compareT a b else cmpText a b

/-! ## Protocol decoder -/

def digitVal? (c : Char) : Option Nat :=
  if c = '0' then some 0 else if c = '1' then some 1 else if c = '2' then some 2
  else if c = '3' then some 3 else if c = '4' then some 4 else if c = '5' then some 5
  else if c = '6' then some 6 else if c = '7' then some 7 else if c = '8' then some 8
  else if c = '9' then some 9 else none

def parseNatAux : List Char → Nat → Option Nat
  | [], acc => some acc
  | c :: cs, acc =>
    match digitVal? c with
    | some d => parseNatAux cs (acc * 10 + d)
    | none => none

/-- one or more decimal digits -/
def parseNat? (cs : List Char) : Option Nat :=
  match cs with
  | [] => none
  | _ => parseNatAux cs 0

/-- optional `-`, then one or more decimal digits -/
def parseInt? (s : String) : Option Int :=
  match s.toList with
  | '-' :: cs => (parseNat? cs).map fun n => -(Int.ofNat n)
  | cs => (parseNat? cs).map Int.ofNat

/-- Decode an IEEE-754 bit pattern with `ebits` exponent bits and `mbits` fraction bits into the
    exact dyadic it denotes (normalised).  `none` for NaN/±Inf, for a pattern that does not fit
    and for negative zero (a `Dyadic` cannot distinguish it from `+0`, but Go prints it `-0`). -/
def decodeFloat (ebits mbits : Nat) (b : Nat) : Option Dyadic :=
  if b ≥ 2 ^ (1 + ebits + mbits) then none
  else
    let sign := b / 2 ^ (ebits + mbits) == 1
    let ex := (b / 2 ^ mbits) % 2 ^ ebits
    let fr := b % 2 ^ mbits
    let bias := 2 ^ (ebits - 1) - 1
    if ex = 2 ^ ebits - 1 then none
    else if sign && ex = 0 && fr = 0 then none
    else
      -- value = mant * 2^(ex' - bias - mbits)
      let mant := if ex = 0 then fr else fr + 2 ^ mbits
      let ex' := if ex = 0 then 1 else ex
      let (n, e) :=
        if ex' ≥ bias + mbits then (mant * 2 ^ (ex' - (bias + mbits)), 0)
        else normalize mant (bias + mbits - ex')
      some ⟨if sign then -(Int.ofNat n) else Int.ofNat n, e⟩

def intKindOfName? (t : String) : Option IntKind :=
  if t = "int" then some .int else if t = "int8" then some .int8
  else if t = "int16" then some .int16 else if t = "int32" then some .int32
  else if t = "int64" then some .int64 else if t = "uint" then some .uint
  else if t = "uint8" then some .uint8 else if t = "uint16" then some .uint16
  else if t = "uint32" then some .uint32 else if t = "uint64" then some .uint64
  else none

/-- Decode a typed value `(t, v)` of the correspondence protocol. -/
def parseGoVal (t v : String) : Option GoVal :=
  match intKindOfName? t with
  | some k =>
    match parseInt? v with
    | some i => if k.inRange i then some (.int k i) else none
    | none => none
  | none =>
    if t = "float32" then
      match parseNat? v.toList with
      | some b => (decodeFloat 8 23 b).map .f32
      | none => none
    else if t = "float64" then
      match parseNat? v.toList with
      | some b => (decodeFloat 11 52 b).map .f64
      | none => none
    else if t = "string" then some (.str v)
    else if t = "bool" then
      if v = "true" then some (.bool true) else if v = "false" then some (.bool false) else none
    else if t = "nil" then some .nil
    else none

end Genql.Cmp
