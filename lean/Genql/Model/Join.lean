/-
  Genql.Model.Join — `join.go`: key-column extraction, catalogues, hash join, nested loop over
  key groups, side swap and strategy selection.  Go map iteration order is modelled as the
  catalogue's first-appearance order; results are compared as multisets.
-/
import Genql.Model.Algo
namespace Genql
variable {N : Type} [Num N]

/-- `extractColumnsFromExpr(ident, e)`: `(ident == first segment, column path)`; not a column ⇒ error -/
def colInfo (ident : String) : Expr N → R (Bool × List String)
  | .col path => .ok (path.head? == some ident, path)
  | _ => .error .error

/-- `extractJoinColumns(ident, identRight, on)`: one column per comparison, in order. -/
def extractCols (ident identRight : String) : Expr N → R (List (List String))
  | .cmp _ a b => do
    let (b1, c1) ← colInfo ident a
    if b1 then pure [c1] else do
      let (b2, c2) ← colInfo ident b
      if b2 then pure [c2] else do
        let (b3, c3) ← colInfo identRight a
        let (_, c4) ← colInfo identRight b
        if b3 then pure [c4] else pure [c3]
  | .and a b => do
    let l ← extractCols ident identRight a
    let r ← extractCols ident identRight b
    pure (l ++ r)
  | .or a b => do
    let l ← extractCols ident identRight a
    let r ← extractCols ident identRight b
    pure (l ++ r)
  | _ => .ok []

/-- `hashJoinAnalyze`: a conjunction of equalities. -/
def hashJoinAnalyze : Expr N → Bool
  | .cmp .eq _ _ => true
  | .and a b => hashJoinAnalyze a && hashJoinAnalyze b
  | _ => false

structure CatEntry (N : Type) where
  key : String
  keyMap : Row N
  rows : List (Val N)

/-- key text and key map of one row: `"<len>:<%v>-"` per column (length in bytes) -/
def rowKey (cols : List (List String)) (row : Val N) : R (String × Row N) :=
  cols.foldlM (init := ("", [])) fun (acc : String × Row N) col => do
    let v ← readPath col row
    let t ← fmtR v
    pure (acc.1 ++ toString t.utf8ByteSize ++ ":" ++ t ++ "-", setKey (".".intercalate col) v acc.2)

def catInsert (key : String) (km : Row N) (row : Val N) : List (CatEntry N) → List (CatEntry N)
  | [] => [{ key := key, keyMap := km, rows := [row] }]
  | e :: es => if e.key = key then { e with rows := e.rows ++ [row] } :: es
               else e :: catInsert key km row es

/-- `ToCatalog` -/
def toCatalog (cols : List (List String)) : List (Val N) → List (CatEntry N) → R (List (CatEntry N))
  | [], acc => .ok acc
  | row :: rest, acc => do
    let (k, km) ← rowKey cols row
    toCatalog cols rest (catInsert k km row acc)

def catLookup (key : String) : List (CatEntry N) → Option (CatEntry N)
  | [] => none
  | e :: es => if e.key = key then some e else catLookup key es

/-- `maps.Copy(mapper, (*lr).(Map)); maps.Copy(mapper, (*rr).(Map))` — a non-object row is a
    failed type assertion (a panic, recovered by the API boundary into an error). -/
def mergeRows (l r : Val N) : R (Val N) :=
  match l, r with
  | .obj a, .obj b => .ok (.obj (copyInto (copyInto [] a) b))
  | _, _ => .error .error

def nullExtend (l : Val N) (rightIdent : String) : R (Val N) :=
  match l with
  | .obj a => .ok (.obj (setKey rightIdent .null (copyInto [] a)))
  | _ => .error .error

/-- the two nested loops over `l.Rows[lk]` × `r.Rows[rk]` -/
def pairAll (ls rs : List (Val N)) : R (List (Val N)) := do
  let rows ← mapE (fun l => mapE (mergeRows l) rs) ls
  pure rows.flatten

def nullAll (ls : List (Val N)) (rightIdent : String) : R (List (Val N)) :=
  mapE (fun l => nullExtend l rightIdent) ls

/-- `HashJoinMatchFunc` for one left key group -/
def hashMatch (inner : Bool) (rightIdent : String) (r : List (CatEntry N)) (le : CatEntry N) : R (List (Val N)) :=
  match catLookup le.key r with
  | some re => if re.rows.isEmpty then nullAll le.rows rightIdent else pairAll le.rows re.rows
  | none => if inner then .ok [] else nullAll le.rows rightIdent

/-- `HashJoinFunc` -/
def hashJoinRun (inner : Bool) (rightIdent : String) (l r : List (CatEntry N)) : R (List (Val N)) := do
  let chunks ← mapE (hashMatch inner rightIdent r) l
  pure chunks.flatten

/-- ON evaluated on one (left group, right group): the pairs if it holds -/
def nestedPair (on : Row N → R Bool) (le re : CatEntry N) : R (Option (List (Val N))) := do
  let b ← on (copyInto (copyInto [] le.keyMap) re.keyMap)
  if b then do
    let ps ← pairAll le.rows re.rows
    pure (some ps)
  else pure none

/-- `JoinMatchFunc` for one left key group: ON is evaluated once per (left group, right group)
    on the union of the two key maps. -/
def nestedMatch (on : Row N → R Bool) (inner : Bool) (rightIdent : String)
    (le : CatEntry N) (r : List (CatEntry N)) : R (List (Val N)) := do
  let parts ← mapE (nestedPair on le) r
  let matched := parts.any Option.isSome
  let rows := (parts.map fun p => p.getD []).flatten
  if !matched && !inner then do
    let ns ← nullAll le.rows rightIdent
    pure (rows ++ ns)
  else pure rows

/-- `JoinFunc` -/
def nestedRun (on : Row N → R Bool) (inner : Bool) (rightIdent : String)
    (l r : List (CatEntry N)) : R (List (Val N)) := do
  let chunks ← mapE (fun le => nestedMatch on inner rightIdent le r) l
  pure chunks.flatten

/-- `(*Join).Exec` with `StraightJoin`, `HashJoin`, `Join`. `on` evaluates the ON expression on a
    key-map row (hard-coded reads); `onExpr` is its syntax (for column extraction / analysis). -/
def execJoin (jt : JoinType) (on : Row N → R Bool) (onExpr : Expr N)
    (left right : List (Val N)) (leftIdent rightIdent : String) : R (List (Val N)) :=
  if jt.straight then
    if !jt.inner then .error .error
    else do
      let lc ← extractCols leftIdent rightIdent onExpr
      let l ← toCatalog lc left []
      let rc ← extractCols rightIdent leftIdent onExpr
      let r ← toCatalog rc right []
      nestedRun on jt.inner rightIdent l r
  else
    let (left, right, leftIdent, rightIdent) :=
      if !jt.left then (right, left, rightIdent, leftIdent) else (left, right, leftIdent, rightIdent)
    do
      let lc ← extractCols leftIdent rightIdent onExpr
      let l ← toCatalog lc left []
      let rc ← extractCols rightIdent leftIdent onExpr
      let r ← toCatalog rc right []
      if hashJoinAnalyze onExpr then hashJoinRun jt.inner rightIdent l r
      else nestedRun on jt.inner rightIdent l r

end Genql
