/-
  Genql.Model.Scan — the two query-text preprocessors of /repo/processors.go, over bytes.

  * `dq2bt`        = `DoubleQuotesToBackTick`   (option `PostgresEscapingDialect`)
  * `findBrackets` = `FindArrayIndex`
  * `fixArr`       = `FixIdiomaticArray`        (option `IdiomaticArrays`)

  Go strings are byte strings and all three functions index them byte-wise (`str[i]`), so the model
  works on `List UInt8`.  The nested `for` loops of the Go code are flattened into one structural
  recursion over the byte list with an explicit scanner state.  Outcomes: `.ok` = the Go function
  returns `nil` error, `.error .error` = it returns an error, `.error .panic` = a Go index/slice
  expression would be out of range (run-time panic).

  Core Lean only (this file is linked into the driver).
-/
import Genql.Basic

namespace Genql.Scan

/-! ## byte constants -/

/-- `'` -/ abbrev bSq : UInt8 := 39
/-- `` ` `` -/ abbrev bBt : UInt8 := 96
/-- `"` -/ abbrev bDq : UInt8 := 34
/-- `\` -/ abbrev bBs : UInt8 := 92
/-- `[` -/ abbrev bLb : UInt8 := 91
/-- `]` -/ abbrev bRb : UInt8 := 93
/-- `(` -/ abbrev bLp : UInt8 := 40
/-- `)` -/ abbrev bRp : UInt8 := 41
/-- the bytes of `"ARRAY"` (`_TOKEN`) -/
abbrev tokARRAY : List UInt8 := [65, 82, 82, 65, 89]

def toOption {α : Type} : R α → Option α
  | .ok a => some a
  | .error _ => none

/-! ## `DoubleQuotesToBackTick`

Position of the Go program counter, one state per loop (plus one per "pending backslash"):

* `raw`   — outer `for`, `switch r`;
* `sq`    — inner loop of `case '\''` (the opening quote has been copied);
* `sqEsc` — same loop, just after a `\` was copied: the Go code tests `i+1 == len(str)` (error),
            otherwise copies `str[i+1]` blindly and skips it;
* `bt`    — inner loop of ``case '`'``;
* `dq`    — inner loop of `case '"'` (a backtick has been written for the opening quote);
* `dqEsc` — same loop, the current byte is a `\` whose successor is being inspected: error at end of
            input; `\"` writes `"` and skips both; otherwise the `\` is written and the successor
            is processed as an ordinary byte of the `dq` loop (so a second `\` is inspected again).

Every inner loop ends either on its closing quote (which has been copied/translated) or at the end
of input; the `i--` after the loop cancels the outer `i++`, so scanning resumes in `raw` with the
byte after the closing quote.  An unterminated quote therefore just ends the output (no error). -/

inductive DqSt | raw | sq | sqEsc | bt | dq | dqEsc
  deriving DecidableEq, Repr

/-- `buffer.WriteByte(b)` followed by the rest of the run. -/
def emit (b : UInt8) (r : R (List UInt8)) : R (List UInt8) :=
  match r with
  | .ok out => .ok (b :: out)
  | .error e => .error e

def scan : DqSt → List UInt8 → R (List UInt8)
  | .sqEsc, [] => .error .error          -- `if i+1 == len(str) { return "", fmt.Errorf(...) }`
  | .dqEsc, [] => .error .error          -- idem, in the `"` loop
  | _, [] => .ok []                      -- `return buffer.String(), nil`
  | .raw, c :: cs =>
    if c = bSq then emit c (scan .sq cs)
    else if c = bBt then emit c (scan .bt cs)
    else if c = bDq then emit bBt (scan .dq cs)
    else emit c (scan .raw cs)
  | .sq, c :: cs =>
    if c = bSq then emit c (scan .raw cs)          -- loop condition `r != '\''` fails
    else if c = bBs then emit c (scan .sqEsc cs)
    else emit c (scan .sq cs)
  | .sqEsc, c :: cs => emit c (scan .sq cs)        -- `buffer.WriteByte(str[i+1]); i++` (r stays `\`)
  | .bt, c :: cs =>
    if c = bBt then emit c (scan .raw cs)
    else emit c (scan .bt cs)
  | .dq, c :: cs =>
    if c = bDq then emit bBt (scan .raw cs)        -- closing quote
    else if c = bBs then scan .dqEsc cs            -- nothing written yet: depends on `next`
    else emit c (scan .dq cs)
  | .dqEsc, c :: cs =>
    if c = bDq then emit bDq (scan .dq cs)         -- `\"` → `"`, both consumed, r stays `\`
    else if c = bBs then emit bBs (scan .dqEsc cs) -- the first `\` is written, the second inspected
    else emit bBs (emit c (scan .dq cs))           -- `\` written, then `c` as an ordinary byte
termination_by structural _ s => s

/-- `DoubleQuotesToBackTick`, all outcomes. -/
def dq2btE (s : List UInt8) : R (List UInt8) := scan .raw s

/-- `DoubleQuotesToBackTick`; `none` = the Go function returns an error. -/
def dq2bt (s : List UInt8) : Option (List UInt8) := toOption (dq2btE s)

/-! ## `FindArrayIndex` -/

/-- What the second `switch r` of the loop body sees. -/
inductive Kind | lb | rb | other
  deriving DecidableEq, Repr

/-- The first `switch r` plus the `if hold != nil { continue }` test of one loop iteration.
    `skip = true` means the previous iteration executed `i++` in `case '\\'`, i.e. this byte is never
    looked at.  Result: new `skip`, new `hold`, and what the second `switch` will do with the byte
    (`other` also covers "the second switch is not reached"). -/
def lexStep (skip : Bool) (hold : Option UInt8) (c : UInt8) : Bool × Option UInt8 × Kind :=
  if skip then (false, hold, .other)
  else if c = bBs then (true, hold, .other)        -- `i++`; then `continue` or a no-op second switch
  else if c = bDq ∨ c = bSq ∨ c = bBt then
    match hold with
    | none => (false, some c, .other)               -- `hold = &r; continue`
    | some h => if h = c then (false, none, .other)  -- `hold = nil`; second switch: no case matches
                else (false, hold, .other)           -- other quote inside a quote; `continue`
  else
    match hold with
    | some _ => (false, hold, .other)               -- `continue`
    | none =>
      if c = bLb then (false, none, .lb)
      else if c = bRb then (false, none, .rb)
      else (false, none, .other)

/-- `output[index][1] = i` with Go's bounds check. -/
def setEnd (out : List (Nat × Nat)) (index i : Nat) : R (List (Nat × Nat)) :=
  match out[index]? with
  | some p => .ok (out.set index (p.1, i))
  | none => .error .panic

/-- The loop of `FindArrayIndex`; `i` is the Go loop variable, `out`/`stack`/`pos` the Go variables
    of the same names (`output`). -/
def fbLoop : List UInt8 → Bool → Option UInt8 → Nat → List (Nat × Nat) → List Nat → Nat →
    R (List (Nat × Nat))
  | [], _, _, _, out, _, _ => .ok out
  | c :: cs, skip, hold, i, out, stack, pos =>
    match lexStep skip hold c with
    | (skip', hold', .other) => fbLoop cs skip' hold' (i + 1) out stack pos
    | (skip', hold', .lb) =>
      fbLoop cs skip' hold' (i + 1) (out ++ [(i, 0)]) (stack ++ [pos]) (pos + 1)
    | (skip', hold', .rb) =>
      match stack with
      | [] => .error .error                         -- `len(stack) == 0`
      | index :: stack' =>                          -- `stack[0]`, `stack[1:]`
        match setEnd out index i with
        | .ok out' => fbLoop cs skip' hold' (i + 1) out' stack' pos
        | .error e => .error e
termination_by structural s => s

/-- `FindArrayIndex`, all outcomes. -/
def findBracketsE (s : List UInt8) : R (List (Nat × Nat)) := fbLoop s false none 0 [] [] 0

/-- `FindArrayIndex`; `none` = error. -/
def findBrackets (s : List UInt8) : Option (List (Nat × Nat)) := toOption (findBracketsE s)

/-! ## `FixIdiomaticArray` -/

/-- Go's `s[lo:hi]` on a string: panics unless `lo ≤ hi ≤ len(s)`. -/
def slice (s : List UInt8) (lo hi : Nat) : R (List UInt8) :=
  if lo ≤ hi ∧ hi ≤ s.length then .ok ((s.take hi).drop lo) else .error .panic

/-- The second loop of `FixIdiomaticArray` (`off` = `offset`). -/
def fixLoop : List (Nat × Nat) → Nat → List UInt8 → R (List UInt8)
  | [], _, input => .ok input
  | (st, en) :: rest, off, input =>
    match slice input 0 (st + off) with                      -- input[:index[0]+offset]
    | .error e => .error e
    | .ok a =>
      match slice input (st + off + 1) (en + off) with       -- input[index[0]+offset+1 : index[1]+offset]
      | .error e => .error e
      | .ok b =>
        match slice input (en + off + 1) input.length with   -- input[index[1]+offset+1:]
        | .error e => .error e
        | .ok c => fixLoop rest (off + tokARRAY.length) (a ++ tokARRAY ++ [bLp] ++ b ++ [bRp] ++ c)
termination_by structural ps => ps

/-- `FixIdiomaticArray`, all outcomes. -/
def fixArrE (input : List UInt8) : R (List UInt8) :=
  match findBracketsE input with
  | .error e => .error e
  | .ok indexes =>
    if indexes.any (fun p => p.2 ≤ p.1) then .error .error    -- "unbalanced brackets"
    else fixLoop indexes 0 input

/-- `FixIdiomaticArray`; `none` = error. -/
def fixArr (input : List UInt8) : Option (List UInt8) := toOption (fixArrE input)

/-! ## string-level wrappers (driver) -/

def bytesToString? (bs : List UInt8) : Option String :=
  String.fromUTF8? (ByteArray.mk bs.toArray)

def dq2btStr (s : String) : Option String :=
  match dq2bt s.toUTF8.toList with
  | some out => bytesToString? out
  | none => none

def fixArrStr (s : String) : Option String :=
  match fixArr s.toUTF8.toList with
  | some out => bytesToString? out
  | none => none

/-- the text `New` hands to the parser: the dialect rewrites in the order `New` applies them — the quote rewrite first,
    the array rewrite on ITS result (`query = rs` between the two) — each only when its option is set -/
def applyDialect (pg arr : Bool) (s : List UInt8) : R (List UInt8) := do
  let s1 ← if pg then dq2btE s else pure s
  if arr then fixArrE s1 else pure s1

end Genql.Scan
