/-
  Genql.Model.Sanitize — model of the SQL parameter sanitizer `/repo/sanitizer/sanitizer.go`
  (`SanitizeSQL` = `NewQuery` lexer + `(*Command).Sanitize`, `QuoteString`) and of the way the
  consumer reads the text it produces: the single-quoted-string scanner of the MySQL-dialect
  tokenizer the library parses with (`github.com/vedadiyan/sqlparser/v2@v2.0.3`, `token.go`,
  `scanString` / `scanStringSlow`, escape table `sqltypes.SQLDecodeMap`).

  Core Lean only (this file is linked into the `driver` executable).

  Scope / conventions
  * Texts are `List Char`.  Inputs are assumed to be valid UTF-8, so Go's
    `utf8.DecodeRuneInString` yields exactly the successive `Char`s and, at the end of the
    input, `(utf8.RuneError, 0)`.  The branches of the Go lexer that fire on an *invalid* byte
    (`RuneError` of width 1: flush the pending text and stop) are OUT OF SCOPE.  The character
    U+FFFD itself (`RuneError` of width 3) is an ordinary character in Go and here.
  * The tokenizer works on bytes.  Every byte it treats specially (`'`, `\`, `%`, `_` and the keys
    of the decode table) is ASCII and no byte of a multi-byte UTF-8 sequence is ASCII; after a
    backslash a non-ASCII lead byte is `DontEscape` in the table and is copied, its continuation
    bytes are copied as ordinary bytes.  Hence on valid UTF-8 the byte-level scanner and the
    character-level `scanStr` below agree.
  * Argument kinds modelled: NULL, int64, float64 (the caller supplies Go's
    `strconv.FormatFloat(f,'f',-1,64)` text; formatting floats is not modelled), bool, string.
    `[]byte`, `time.Time` and the "invalid arg type" error are out of scope.
-/
import Genql.Basic
namespace Genql.San

/-! ## Arguments and their SQL text -/

inductive Arg where
  | null
  | int (i : Int)
  | float (text : String)
  | bool (b : Bool)
  | str (s : String)
  deriving DecidableEq, Repr, Inhabited

/-- `strings.ReplaceAll(str, "\\", "\\\\")` followed by `strings.ReplaceAll(·, "'", "''")`,
    fused into one pass (the two replacements touch disjoint characters and the first one never
    produces a quote, so doing them one after the other or together is the same). -/
def quoteBody : List Char → List Char
  | [] => []
  | c :: cs =>
    if c = '\\' then '\\' :: '\\' :: quoteBody cs
    else if c = '\'' then '\'' :: '\'' :: quoteBody cs
    else c :: quoteBody cs

/-- `QuoteString` as it is now: backslashes doubled, single quotes doubled, wrapped in quotes. -/
def quoteString (s : List Char) : List Char := '\'' :: (quoteBody s ++ ['\''])

/-- the two `ReplaceAll` passes written separately (the literal Go text); `quoteString_eq_passes`
    in `Genql/Properties/C16.lean` proves the fused version equal to this one. -/
def replaceChar (x : Char) (by_ : List Char) : List Char → List Char
  | [] => []
  | c :: cs => if c = x then by_ ++ replaceChar x by_ cs else c :: replaceChar x by_ cs

def quoteStringPasses (s : List Char) : List Char :=
  '\'' :: (replaceChar '\'' ['\'', '\''] (replaceChar '\\' ['\\', '\\'] s) ++ ['\''])

def digitChar (d : Nat) : Char := Char.ofNat (48 + d)

/-- decimal digits of a natural number, most significant first (`fuel` > number of digits). -/
def natDigitsAux : Nat → Nat → List Char → List Char
  | 0, _, acc => acc
  | fuel + 1, n, acc =>
    if n / 10 = 0 then digitChar (n % 10) :: acc
    else natDigitsAux fuel (n / 10) (digitChar (n % 10) :: acc)

def natDigits (n : Nat) : List Char := natDigitsAux (n + 1) n []

/-- `strconv.FormatInt(i, 10)` -/
def fmtInt (i : Int) : List Char :=
  if i < 0 then '-' :: natDigits i.natAbs else natDigits i.natAbs

def kwNull : List Char := ['n', 'u', 'l', 'l']
def kwTrue : List Char := ['t', 'r', 'u', 'e']
def kwFalse : List Char := ['f', 'a', 'l', 's', 'e']

/-- the `switch arg := arg.(type)` of `Sanitize` -/
def fmtArg : Arg → List Char
  | .null => kwNull
  | .int i => fmtInt i
  | .float t => t.toList
  | .bool b => if b then kwTrue else kwFalse
  | .str s => quoteString s.toList

/-! ## The lexer (`NewQuery`) -/

/-- `Part`: raw SQL text or a placeholder number.  The number is a Go `int` (64-bit): it is
    computed with wrap-around by `placeholderState`, so it is an `Int` here, possibly negative. -/
inductive Part where
  | raw (s : List Char)
  | ph (n : Int)
  deriving DecidableEq, Repr, Inhabited

/-- which state function is running.  `mlc nested` carries `l.nested` (it is 0 whenever the Go
    lexer is in any other state: `multilineCommentState` returns to `rawState` only at
    `nested == 0`).  `ph num` carries the local `num` of `placeholderState` as the unsigned
    64-bit pattern of the Go `int` (see `toInt64`). -/
inductive St where
  | raw | sq | dq | esc | olc
  | mlc (nested : Nat)
  | ph (num : Nat)
  deriving DecidableEq, Repr, Inhabited

def isDigit (c : Char) : Bool := decide ('0' ≤ c) && decide (c ≤ '9')

def two64 : Nat := 18446744073709551616
def two63 : Nat := 9223372036854775808

/-- `num *= 10; num += int(r - '0')` on a 64-bit Go `int` (two's complement wrap-around). -/
def pushDigit (num : Nat) (c : Char) : Nat := (num * 10 + (c.toNat - 48)) % two64

/-- the signed value of a 64-bit pattern -/
def toInt64 (num : Nat) : Int := if num < two63 then (num : Int) else (num : Int) - (two64 : Int)

/-- What one iteration of a state function's `for` loop does with the rune just read. -/
inductive Act where
  /-- the rune stays in the pending raw text; continue in state `st` -/
  | next (st : St)
  /-- as `next`, and the following rune (if there is one) is consumed as well
      (`l.pos += width` after a look-ahead, or the rune after a backslash) -/
  | next2 (st : St)
  /-- `$` in front of a digit: the pending text (without the `$`) becomes a raw part,
      `l.start = l.pos`, go to `placeholderState` -/
  | startPh
  /-- a digit inside `placeholderState` (not part of any raw text), `num` updated -/
  | digit (num : Nat)
  deriving Repr, Inhabited

/-- `rawState`: `c` is the rune read, `nx` the look-ahead rune (`none` at end of input, where Go
    sees `RuneError`, which is none of the runes tested for). -/
def rawStep (c : Char) (nx : Option Char) : Act :=
  if c = 'e' ∨ c = 'E' then (if nx = some '\'' then .next2 .esc else .next .raw)
  else if c = '\'' then .next .sq
  else if c = '"' then .next .dq
  else if c = '$' then
    (match nx with
     | some d => if isDigit d then .startPh else .next .raw
     | none => .next .raw)
  else if c = '-' then (if nx = some '-' then .next2 .olc else .next .raw)
  else if c = '/' then (if nx = some '*' then .next2 (.mlc 0) else .next .raw)
  else .next .raw

/-- `singleQuoteState`.  NB: a backslash is an ordinary character here. -/
def sqStep (c : Char) (nx : Option Char) : Act :=
  if c = '\'' then (if nx = some '\'' then .next2 .sq else .next .raw) else .next .sq

/-- `doubleQuoteState` -/
def dqStep (c : Char) (nx : Option Char) : Act :=
  if c = '"' then (if nx = some '"' then .next2 .dq else .next .raw) else .next .dq

/-- `escapeStringState` (`e'…'`): a backslash swallows the next rune. -/
def escStep (c : Char) (nx : Option Char) : Act :=
  if c = '\\' then .next2 .esc
  else if c = '\'' then (if nx = some '\'' then .next2 .esc else .next .raw)
  else .next .esc

/-- `oneLineCommentState`: a backslash swallows the next rune (even a newline). -/
def olcStep (c : Char) : Act :=
  if c = '\\' then .next2 .olc
  else if c = '\n' ∨ c = '\r' then .next .raw
  else .next .olc

/-- `multilineCommentState` with nesting counter `n` -/
def mlcStep (n : Nat) (c : Char) (nx : Option Char) : Act :=
  if c = '/' then (if nx = some '*' then .next2 (.mlc (n + 1)) else .next (.mlc n))
  else if c = '*' then
    (if nx = some '/' then (if n = 0 then .next2 .raw else .next2 (.mlc (n - 1)))
     else .next (.mlc n))
  else .next (.mlc n)

/-- one loop iteration of the state function `st` (for `st ≠ ph _`; `placeholderState` on a
    non-digit is handled by `go`, which un-reads the rune and runs `rawState` on it). -/
def step (st : St) (c : Char) (nx : Option Char) : Act :=
  match st with
  | .raw => rawStep c nx
  | .sq => sqStep c nx
  | .dq => dqStep c nx
  | .esc => escStep c nx
  | .olc => olcStep c
  | .mlc n => mlcStep n c nx
  | .ph num => if isDigit c then .digit (pushDigit num c) else rawStep c nx

/-- End of input: `DecodeRuneInString("")` is `(RuneError, 0)`.  Every state function except
    `placeholderState` then appends the pending text `l.src[l.start:l.pos]` if it is non-empty
    and stops.  `placeholderState` appends its number, sets `l.start = l.pos` and returns to
    `rawState`, which finds nothing pending and stops. -/
def atEnd (st : St) (acc : List Char) : List Part :=
  match st with
  | .ph num => [.ph (toInt64 num)]
  | _ => if acc.isEmpty then [] else [.raw acc.reverse]

/-- `placeholderState` reading a non-digit: `l.parts = append(l.parts, num)`, un-read
    (`l.pos -= width; l.start = l.pos`), back to `rawState`. -/
def leavesPh (st : St) (c : Char) : Bool :=
  match st with
  | .ph _ => !isDigit c
  | _ => false

/-- The lexer loop.  `st` = running state function, `acc` = the pending raw text
    `l.src[l.start:l.pos]`, most recent character first; the argument list is `l.src[l.pos:]`.
    The result is the list of parts appended from here on. -/
def go (st : St) (acc : List Char) : List Char → List Part
  | [] => atEnd st acc
  | c :: cs =>
    let lv := leavesPh st c
    let pre : List Part := match st with
      | .ph num => if lv then [.ph (toInt64 num)] else []
      | _ => []
    let acc := if lv then [] else acc
    pre ++
      (match step st c cs.head? with
       | .next st' => go st' (c :: acc) cs
       | .next2 st' =>
         (match cs with
          | d :: cs' => go st' (d :: c :: acc) cs'
          | [] => atEnd st' (c :: acc))
       | .startPh =>
         -- `if l.pos-l.start > 0` is always true here (the `$` has just been consumed), so a
         -- raw part is appended even when it is the empty string.
         .raw acc.reverse :: go (.ph 0) [] cs
       | .digit num => go (.ph num) [] cs)

/-- `NewQuery(sql).Parts` -/
def lex (src : List Char) : List Part := go .raw [] src

/-! ## `(*Command).Sanitize` -/

/-- the `for _, part := range q.Parts` loop: the text written to `buf`, or the first error.
    `argIdx := part - 1`; `argIdx < 0` → "invalid placeholder", `argIdx >= len(args)` →
    "insufficient arguments".  (For `part = math.MinInt64` the Go subtraction wraps to
    `MaxInt64` and the *second* error is returned instead of the first; error messages are not
    modelled, both are `.error`.)  `args[argIdx]` is guarded by these two tests, so the index
    expression cannot panic; the model still routes an out-of-range index to `.panic` so that
    "never panics" is a statement. -/
def subst (args : List Arg) : List Part → Except Err (List Char)
  | [] => .ok []
  | .raw s :: ps =>
    match subst args ps with
    | .ok out => .ok (s ++ out)
    | .error e => .error e
  | .ph n :: ps =>
    if n - 1 < 0 then .error .error
    else if (n - 1).toNat ≥ args.length then .error .error
    else
      match args[(n - 1).toNat]? with
      | none => .error .panic
      | some a =>
        match subst args ps with
        | .ok out => .ok (fmtArg a ++ out)
        | .error e => .error e

/-- `argUse[i]` after the loop has run to completion -/
def argUsed (parts : List Part) (i : Nat) : Bool := parts.any (fun p => p == .ph ((i : Int) + 1))

/-- `Sanitize`: substitute, then report the first unused argument. -/
def sanitizeParts (parts : List Part) (args : List Arg) : Except Err (List Char) :=
  match subst args parts with
  | .error e => .error e
  | .ok out => if (List.range args.length).all (argUsed parts) then .ok out else .error .error

/-- `SanitizeSQL(cmd, args...)` (`NewQuery` never returns an error). -/
def sanitize (t : List Char) (args : List Arg) : Except Err (List Char) :=
  sanitizeParts (lex t) args

/-- for the driver: `some text` on success, `none` on a returned error. -/
def sanitizeStr (t : String) (args : List Arg) : Option String :=
  match sanitize t.toList args with
  | .ok out => some (String.ofList out)
  | .error _ => none

/-! ## The consumer: how the tokenizer reads a `'…'` literal -/

/-- `sqltypes.SQLDecodeMap` applied to the character after a backslash, together with the two
    special cases of `scanStringSlow`: `\%` and `\_` keep their backslash; a character that is
    `DontEscape` in the table stands for itself.  Table (from `decodeRef` in
    `sqltypes/value.go`): `\0`→NUL, `\'`→`'`, `\"`→`"`, `\b`→BS, `\n`→LF, `\r`→CR, `\t`→TAB,
    `\Z`→0x1A, `\\`→`\`. -/
def decodeEsc (d : Char) : List Char :=
  if d = '%' ∨ d = '_' then ['\\', d]
  else if d = '0' then [Char.ofNat 0]
  else if d = 'b' then [Char.ofNat 8]
  else if d = 'n' then ['\n']
  else if d = 'r' then ['\r']
  else if d = 't' then ['\t']
  else if d = 'Z' then [Char.ofNat 26]
  else [d]          -- `'`, `"`, `\` map to themselves; everything else is DontEscape

def consOut (pre : List Char) : Option (List Char × List Char) → Option (List Char × List Char)
  | some (t, r) => some (pre ++ t, r)
  | none => none

/-- `scanString('\'', STRING)` (fast path + `scanStringSlow`): the argument is the text AFTER the
    opening quote; the result is the decoded value of the STRING token and the text after the
    closing quote, or `none` for LEX_ERROR (unterminated literal / ends inside an escape). -/
def scanStr : List Char → Option (List Char × List Char)
  | [] => none
  | c :: cs =>
    if c = '\'' then
      (match cs with
       | d :: cs' => if d = '\'' then consOut ['\''] (scanStr cs') else some ([], cs)
       | [] => some ([], []))
    else if c = '\\' then
      (match cs with
       | d :: cs' => consOut (decodeEsc d) (scanStr cs')
       | [] => none)
    else consOut [c] (scanStr cs)

end Genql.San
