/-
  Genql.Model.Codec — the three byte↔text codecs behind the built-ins ENCODE / DECODE / HASH
  (`EncodeFunc`, `DecodeFunc`, `HashFunc` in functions.go):

    * `hex.EncodeToString` / `hex.DecodeString`                       (encoding/hex)
    * `base32.StdEncoding.EncodeToString` / `.DecodeString`           (encoding/base32)
    * `base64.URLEncoding.EncodeToString` / `.DecodeString`           (encoding/base64)

  as found in the Go 1.23 standard library.  Core Lean only, all recursion structural.

  Conventions
  * Binary data is `List UInt8`; text is `List Char` (`String` wrappers at the end).  Go strings
    are byte strings; every decoder below rejects (or, for base32's trailing garbage, merely
    counts) non-ASCII characters, and the one place where Go's *byte* length of the remaining
    input matters (base32 padding) uses `utf8Len`, so the `List Char` model agrees with Go on
    every valid-UTF-8 string.
  * Only success/failure is modelled (`Option`): `DecodeFunc` discards the partial output of a
    failing decoder and the error text is never modelled.
  * Bit manipulation is written with `Nat` arithmetic so that `omega` can reason about it:
    `x << k` is `x * 2^k`, `x >> k` is `x / 2^k`, `x & (2^k-1)` is `x % 2^k`, truncation to `byte` /
    `uint32` is `% 256` / `% 4294967296`, and `x | y` is `x + y` — used only where the operands
    occupy disjoint bit ranges (noted at each use).
-/
namespace Genql.Codec

/-! ## hex -/

/-- Go's `hextable`. -/
def hexAlpha : List Char := "0123456789abcdef".toList

def hexDigit (n : Nat) : Char := hexAlpha.getD n '0'

/-- Go's `reverseHexTable` (`none` = 0xff): both cases accepted. -/
def hexVal (c : Char) : Option Nat :=
  let n := c.toNat
  if 48 ≤ n ∧ n ≤ 57 then some (n - 48)
  else if 97 ≤ n ∧ n ≤ 102 then some (n - 87)
  else if 65 ≤ n ∧ n ≤ 70 then some (n - 55)
  else none

/-- `hex.EncodeToString`: `hextable[v>>4]`, `hextable[v&0x0f]` per byte. -/
def hexEnc : List UInt8 → List Char
  | [] => []
  | b :: bs => hexDigit (b.toNat / 16) :: hexDigit (b.toNat % 16) :: hexEnc bs
termination_by structural bs => bs

/-- `hex.DecodeString`: pairs of hex digits (`(a << 4) | b`, `a, b < 16`); an odd length or a
    non-hex character is an error (Go reports whichever it meets first; both are `none`). -/
def hexDec : List Char → Option (List UInt8)
  | [] => some []
  | [_] => none
  | p :: q :: rest =>
    match hexVal p, hexVal q with
    | some a, some b => (hexDec rest).map fun bs => (a * 16 + b).toUInt8 :: bs
    | _, _ => none
termination_by structural cs => cs

/-! ## shared helpers -/

/-- `\n` and `\r`, which both Go decoders skip. -/
def isNL (c : Char) : Bool := c == '\n' || c == '\r'

/-- Number of bytes of the UTF-8 encoding of a text (Go's `len` of the string). -/
def utf8Len (cs : List Char) : Nat := cs.foldr (fun c n => c.utf8Size + n) 0

/-! ## base64, URL alphabet, `=` padding (`base64.URLEncoding`) -/

def b64uAlpha : List Char :=
  "ABCDEFGHIJKLMNOPQRSTUVWXYZabcdefghijklmnopqrstuvwxyz0123456789-_".toList

/-- `enc.encode[n]`. -/
def b64uChar (n : Nat) : Char := b64uAlpha.getD n 'A'

/-- `enc.decodeMap[c]` (`none` = 0xff). -/
def b64uVal (c : Char) : Option Nat :=
  let n := c.toNat
  if 65 ≤ n ∧ n ≤ 90 then some (n - 65)
  else if 97 ≤ n ∧ n ≤ 122 then some (n - 71)
  else if 48 ≤ n ∧ n ≤ 57 then some (n + 4)
  else if n = 45 then some 62
  else if n = 95 then some 63
  else none

/-- `Encoding.Encode`: `val = a<<16 | b<<8 | c` (disjoint), characters `val>>18&0x3F`,
    `val>>12&0x3F`, `val>>6&0x3F`, `val&0x3F`; a final block of 1 (2) bytes gives 2 (3) characters
    and `==` (`=`). -/
def b64uEnc : List UInt8 → List Char
  | [] => []
  | [a] =>
    let val := a.toNat * 65536
    [b64uChar (val / 262144 % 64), b64uChar (val / 4096 % 64), '=', '=']
  | [a, b] =>
    let val := a.toNat * 65536 + b.toNat * 256
    [b64uChar (val / 262144 % 64), b64uChar (val / 4096 % 64), b64uChar (val / 64 % 64), '=']
  | a :: b :: c :: rest =>
    let val := a.toNat * 65536 + b.toNat * 256 + c.toNat
    b64uChar (val / 262144 % 64) :: b64uChar (val / 4096 % 64) :: b64uChar (val / 64 % 64)
      :: b64uChar (val % 64) :: b64uEnc rest
termination_by structural bs => bs

/-- The tail of `decodeQuantum`.  `dbuf` is Go's zero-initialised `[4]byte` (entries not yet read
    are 0): `val = d0<<18 | d1<<12 | d2<<6 | d3` (all `dᵢ < 64`, disjoint bits), bytes
    `byte(val>>16)`, `byte(val>>8)`, `byte(val)`. -/
def b64Bytes (dbuf : List Nat) : List UInt8 :=
  let val := dbuf.getD 0 0 * 262144 + dbuf.getD 1 0 * 4096 + dbuf.getD 2 0 * 64 + dbuf.getD 3 0
  [(val / 65536 % 256).toUInt8, (val / 256 % 256).toUInt8, (val % 256).toUInt8]

/-- What must follow an `=` met at position `j` (2 or 3) of a quantum: for `j = 2` a second `=`
    (newlines skipped), then in both cases nothing but newlines (else "trailing garbage"). -/
def b64PadOk (j : Nat) (src : List Char) : Bool :=
  if j = 2 then
    match src.dropWhile isNL with
    | [] => false
    | p :: src' => p == '=' && (src'.dropWhile isNL).isEmpty
  else (src.dropWhile isNL).isEmpty

/-- `Encoding.Decode` as a loop over the input, `dbuf` = the 6-bit values of the current quantum
    read so far (`j = dbuf.length ≤ 3`).  Mirrors `decodeQuantum`; the 8- and 4-character fast
    paths of `Decode` compute the same bytes for quanta of valid characters and fall back to
    `decodeQuantum` otherwise.
    * end of input: fine between quanta, error inside one (padding is mandatory);
    * a character of the alphabet is stored, the 4th one emits 3 bytes;
    * `\n`, `\r` are skipped wherever they occur;
    * `=` is legal only at `j = 2` or `3`, i.e. as `xx==` / `xxx=` (see `b64PadOk`), and emits
      `j - 1` bytes; `URLEncoding` is not strict: the unused low bits are not checked;
    * anything else is an error. -/
def b64uLoop : List Char → List Nat → Option (List UInt8)
  | [], dbuf => if dbuf.isEmpty then some [] else none
  | c :: src, dbuf =>
    match b64uVal c with
    | some v =>
      if dbuf.length = 3 then (b64uLoop src []).map fun bs => b64Bytes (dbuf ++ [v]) ++ bs
      else b64uLoop src (dbuf ++ [v])
    | none =>
      if isNL c then b64uLoop src dbuf
      else if c ≠ '=' then none
      else if dbuf.length < 2 then none
      else if b64PadOk dbuf.length src then some ((b64Bytes dbuf).take (dbuf.length - 1))
      else none
termination_by structural src => src

/-- `base64.URLEncoding.DecodeString`. -/
def b64uDec (cs : List Char) : Option (List UInt8) := b64uLoop cs []

/-! ## base32, standard alphabet, `=` padding (`base32.StdEncoding`) -/

def b32Alpha : List Char := "ABCDEFGHIJKLMNOPQRSTUVWXYZ234567".toList

def b32Char (n : Nat) : Char := b32Alpha.getD n 'A'

/-- `enc.decodeMap[c]`: upper case only. -/
def b32Val (c : Char) : Option Nat :=
  let n := c.toNat
  if 65 ≤ n ∧ n ≤ 90 then some (n - 65)
  else if 50 ≤ n ∧ n ≤ 55 then some (n - 24)
  else none

/-- The eight characters of a (possibly partial) quantum whose bytes are `a b c d e`, absent bytes
    being 0.  For a full quantum Go computes `hi = a<<24|b<<16|c<<8|d`, `lo = hi<<8 | e` (both
    `uint32`, so `hi<<8` drops `a`) and the indices `(hi>>27)&31 … (hi>>2)&31, (lo>>5)&31, lo&31`;
    for a final block it builds `val` from the bytes present and uses the same shifts for
    characters 0–5 and `val<<3 & 31` for character 6 — which are the same numbers. -/
def b32Idx (a b c d e : Nat) : List Nat :=
  let hi := a * 16777216 + b * 65536 + c * 256 + d
  let lo := (hi * 256 + e) % 4294967296
  [hi / 134217728 % 32, hi / 4194304 % 32, hi / 131072 % 32, hi / 4096 % 32, hi / 128 % 32,
   hi / 4 % 32, lo / 32 % 32, lo % 32]

def pad (n : Nat) : List Char := List.replicate n '='

/-- `Encoding.Encode`: 5 bytes → 8 characters; a final block of 1, 2, 3, 4 bytes gives
    `nPad = remain*8/5 + 1` = 2, 4, 5, 7 characters followed by `=` up to 8. -/
def b32Enc : List UInt8 → List Char
  | [] => []
  | [a] => ((b32Idx a.toNat 0 0 0 0).take 2).map b32Char ++ pad 6
  | [a, b] => ((b32Idx a.toNat b.toNat 0 0 0).take 4).map b32Char ++ pad 4
  | [a, b, c] => ((b32Idx a.toNat b.toNat c.toNat 0 0).take 5).map b32Char ++ pad 3
  | [a, b, c, d] => ((b32Idx a.toNat b.toNat c.toNat d.toNat 0).take 7).map b32Char ++ pad 1
  | a :: b :: c :: d :: e :: rest =>
    (b32Idx a.toNat b.toNat c.toNat d.toNat e.toNat).map b32Char ++ b32Enc rest
termination_by structural bs => bs

/-- The `switch dlen` with fall-through at the end of a quantum (`dᵢ < 32`; the shifted operands
    of each `|` occupy disjoint bits after truncation to `byte`):
    `dst0 = d0<<3 | d1>>2`, `dst1 = d1<<6 | d2<<1 | d3>>4`, `dst2 = d3<<4 | d4>>1`,
    `dst3 = d4<<7 | d5<<2 | d6>>3`, `dst4 = d6<<5 | d7`.  Trailing bits are not checked. -/
def b32B0 (d0 d1 : Nat) : UInt8 := (d0 * 8 % 256 + d1 / 4).toUInt8
def b32B1 (d1 d2 d3 : Nat) : UInt8 := (d1 * 64 % 256 + d2 * 2 + d3 / 16).toUInt8
def b32B2 (d3 d4 : Nat) : UInt8 := (d3 * 16 % 256 + d4 / 2).toUInt8
def b32B3 (d4 d5 d6 : Nat) : UInt8 := (d4 * 128 % 256 + d5 * 4 + d6 / 8).toUInt8
def b32B4 (d6 d7 : Nat) : UInt8 := (d6 * 32 % 256 + d7).toUInt8

def b32Pack : List Nat → List UInt8
  | [d0, d1] => [b32B0 d0 d1]
  | [d0, d1, d2, d3] => [b32B0 d0 d1, b32B1 d1 d2 d3]
  | [d0, d1, d2, d3, d4] => [b32B0 d0 d1, b32B1 d1 d2 d3, b32B2 d3 d4]
  | [d0, d1, d2, d3, d4, d5, d6] =>
    [b32B0 d0 d1, b32B1 d1 d2 d3, b32B2 d3 d4, b32B3 d4 d5 d6]
  | [d0, d1, d2, d3, d4, d5, d6, d7] =>
    [b32B0 d0 d1, b32B1 d1 d2 d3, b32B2 d3 d4, b32B3 d4 d5 d6, b32B4 d6 d7]
  | _ => []

/-- `Encoding.decode` (after `stripNewlines`) as a loop over the input, `dbuf` = the 5-bit values
    of the current quantum (`j = dbuf.length`).
    * end of input: fine between quanta, error inside one ("missing padding");
    * `=` with `j ≥ 2` and fewer than 8 bytes left after it starts the padding: there must be at
      least `7 - j` more bytes, the next `7 - j` must be `=`, and `j ∉ {1, 3, 6}`; the quantum is
      then packed and decoding ENDS — whatever follows those `7 - j` characters (at most `j` bytes)
      is ignored by Go, so e.g. `"AA======XY"` decodes successfully;
    * otherwise the character must be in the alphabet (so `=` elsewhere is an error); the 8th one
      emits 5 bytes. -/
def b32Loop : List Char → List Nat → Option (List UInt8)
  | [], dbuf => if dbuf.isEmpty then some [] else none
  | c :: src, dbuf =>
    if c = '=' ∧ 2 ≤ dbuf.length ∧ utf8Len src < 8 then
      if utf8Len src + dbuf.length < 7 then none
      else if !(src.take (7 - dbuf.length)).all (· == '=') then none
      else if dbuf.length = 1 ∨ dbuf.length = 3 ∨ dbuf.length = 6 then none
      else some (b32Pack dbuf)
    else
      match b32Val c with
      | none => none
      | some v =>
        if dbuf.length = 7 then (b32Loop src []).map fun bs => b32Pack (dbuf ++ [v]) ++ bs
        else b32Loop src (dbuf ++ [v])
termination_by structural src => src

/-- `base32.StdEncoding.DecodeString`: strip `\r` and `\n`, then `decode`. -/
def b32Dec (cs : List Char) : Option (List UInt8) := b32Loop (cs.filter fun c => !isNL c) []

/-! ## ENCODE / DECODE / HASH: the compositions performed by functions.go -/

inductive Base where
  | hex | base32 | base64
  deriving DecidableEq, Repr

/-- ASCII lower-casing.  Go uses `strings.ToLower` (Unicode); the two agree on whether the result
    is one of the names below, because the only non-ASCII characters whose Go lower case is an
    ASCII character are U+212A (→ `k`) and U+0130 (→ `i`), and neither letter occurs in a name. -/
def lower (s : String) : String := String.ofList (s.toList.map Char.toLower)

/-- The `switch strings.ToLower(*base)` of `EncodeFunc` / `DecodeFunc`. -/
def parseBase (name : String) : Option Base :=
  let l := lower name
  if l = "base64" then some .base64
  else if l = "base32" then some .base32
  else if l = "hex" then some .hex
  else none

def encBytes : Base → List UInt8 → List Char
  | .hex => hexEnc
  | .base32 => b32Enc
  | .base64 => b64uEnc

def decBytes : Base → List Char → Option (List UInt8)
  | .hex => hexDec
  | .base32 => b32Dec
  | .base64 => b64uDec

/-- `EncodeFunc`: gob-encode `struct{Data any}{v}` (`gobEnc`, NOT modelled — a parameter; it fails
    e.g. for maps and slices, whose types genql never registers with gob), then the base named by
    `base`, lower-cased; unknown base → error. -/
def encodeWith {V : Type} (base : String) (gobEnc : V → Option (List UInt8)) (v : V) :
    Option String :=
  match gobEnc v, parseBase base with
  | some bs, some b => some (String.ofList (encBytes b bs))
  | _, _ => none

/-- `DecodeFunc`: decode the text in the named base, then gob-decode (`gobDec`, a parameter). -/
def decodeWith {V : Type} (base : String) (gobDec : List UInt8 → Option V) (text : String) :
    Option V :=
  match parseBase base with
  | none => none
  | some b =>
    match decBytes b text.toList with
    | none => none
    | some bs => gobDec bs

inductive HashAlg where
  | sha1 | sha256 | sha512 | md5
  deriving DecidableEq, Repr

def parseHash (name : String) : Option HashAlg :=
  let l := lower name
  if l = "sha1" then some .sha1
  else if l = "sha256" then some .sha256
  else if l = "sha512" then some .sha512
  else if l = "md5" then some .md5
  else none

/-- `HashFunc`: gob-encode, digest (`digest`, a parameter — the hash functions are not modelled),
    lower-case hex. -/
def hashWith {V : Type} (name : String) (gobEnc : V → Option (List UInt8))
    (digest : HashAlg → List UInt8 → List UInt8) (v : V) : Option String :=
  match gobEnc v, parseHash name with
  | some bs, some h => some (String.ofList (hexEnc (digest h bs)))
  | _, _ => none

/-! ## `String` wrappers -/

def hexEncS (bs : List UInt8) : String := String.ofList (hexEnc bs)
def hexDecS (s : String) : Option (List UInt8) := hexDec s.toList
def b32EncS (bs : List UInt8) : String := String.ofList (b32Enc bs)
def b32DecS (s : String) : Option (List UInt8) := b32Dec s.toList
def b64uEncS (bs : List UInt8) : String := String.ofList (b64uEnc bs)
def b64uDecS (s : String) : Option (List UInt8) := b64uDec s.toList

end Genql.Codec
