/-
  Genql.Model.Algo — the row-level algorithms of the engine, written generically over the row
  type so that the theorems about them (Genql/Proofs, Genql/Properties) are plain list lemmas:

  * `execLevel`   – the filter loop of `(*Query).exec` incl. the recursion into inner arrays
  * `groupLoop`   – the linear scan of `ExecGroupBy`
  * `dedupBy`     – the seen-set scan of `ExecDistinct`
  * `insertSort`  – a comparator sort standing in for `sort.Slice`
  * `window`      – the LIMIT/OFFSET arithmetic of `exec`
-/
import Genql.Model.Value
namespace Genql
variable {N : Type}

/-- The accumulating filter loop of `exec()` on a flat list:
    `for current in from { ok, err := ExecWhere(current); if err → return; if ok → append }`. -/
def filterLoop {α : Type} (p : α → R Bool) : List α → R (List α)
  | [] => .ok []
  | x :: xs => do
    let b ← p x
    let rest ← filterLoop p xs
    pure (if b then x :: rest else rest)

mutual
/-- One element of `query.from` in `exec()`: an inner array is executed recursively with a copy
    of the query (filter loop, then `post`; its result is one element of the output), an object is
    filtered by WHERE, a value of any other kind is skipped (`none`).  `wh` and `post` receive the
    level's own source list (it is `query.from` of the copy). -/
def levelElem (wh : List (Val N) → Row N → R Bool)
    (post : List (Val N) → List (Val N) → R (List (Val N))) (src : List (Val N)) :
    Val N → R (Option (Val N))
  | .arr ys => do
    let kept ← levelLoop wh post ys ys
    let r ← post ys kept
    pure (some (.arr r))
  | .obj fs => do
    let b ← wh src fs
    pure (if b then some (.obj fs) else none)
  | _ => .ok none
termination_by structural x => x
/-- the filter loop of `exec()` -/
def levelLoop (wh : List (Val N) → Row N → R Bool)
    (post : List (Val N) → List (Val N) → R (List (Val N))) (src : List (Val N)) :
    List (Val N) → R (List (Val N))
  | [] => .ok []
  | x :: xs => do
    let e ← levelElem wh post src x
    let rest ← levelLoop wh post src xs
    pure (match e with | some v => v :: rest | none => rest)
termination_by structural x => x
end

/-- `exec()` on one level: the filter loop, then the rest of the pipeline on what was kept. -/
def execLevel (wh : List (Val N) → Row N → R Bool)
    (post : List (Val N) → List (Val N) → R (List (Val N))) (src : List (Val N)) : R (List (Val N)) := do
  let kept ← levelLoop wh post src src
  post src kept

/-! ### SELECT -/

/-- `ExecSelect`: when the select list is all aggregates (and there is no GROUP BY) a single row
    computed once (`whole`); otherwise one output row per input row: objects are projected by `one`,
    inner arrays (already projected by their own `exec`) pass through, anything else is an error. -/
def selectRowsWith (one : Row N → R (Row N)) (whole : Option (R (Row N))) (rs : List (Val N)) :
    R (List (Val N)) :=
  match whole with
  | some r => do
    let row ← r
    pure [.obj row]
  | none => mapE (fun r =>
      match r with
      | .arr xs => (.ok (.arr xs) : R (Val N))
      | .obj fs => do
        let row ← one fs
        pure (.obj row)
      | _ => .error .error) rs

/-! ### GROUP BY -/

/-- Find the first group whose key matches (`eq` may fail: Go `==` on uncomparable values). -/
def addToGroup {κ α : Type} (eq : κ → κ → R Bool) (k : κ) (x : α) :
    List (κ × List α) → R (List (κ × List α))
  | [] => .ok [(k, [x])]
  | (k', xs) :: gs => do
    let b ← eq k' k
    if b then pure ((k', xs ++ [x]) :: gs)
    else do
      let gs' ← addToGroup eq k x gs
      pure ((k', xs) :: gs')

/-- The scan of `ExecGroupBy`: groups in order of first appearance, members in source order. -/
def groupLoop {κ α : Type} (keyOf : α → R κ) (eq : κ → κ → R Bool) :
    List α → List (κ × List α) → R (List (κ × List α))
  | [], acc => .ok acc
  | x :: xs, acc => do
    let k ← keyOf x
    let acc' ← addToGroup eq k x acc
    groupLoop keyOf eq xs acc'

/-! ### DISTINCT -/

/-- The seen-set scan of `ExecDistinct`, with the fingerprint comparison abstracted as `same`:
    an element is kept iff no element kept before it is `same`. `seen` is in reverse order. -/
def dedupLoop {α : Type} (same : α → α → Bool) : List α → List α → List α
  | [], _ => []
  | x :: xs, seen =>
    if seen.any (same x) then dedupLoop same xs seen
    else x :: dedupLoop same xs (x :: seen)

def dedupBy {α : Type} (same : α → α → Bool) (xs : List α) : List α := dedupLoop same xs []

/-! ### ORDER BY -/

def insertBy {α : Type} (less : α → α → Bool) (x : α) : List α → List α
  | [] => [x]
  | y :: ys => if less x y then x :: y :: ys else y :: insertBy less x ys

/-- A comparator sort (insertion sort, stable).  Go uses `sort.Slice`, which is not stable; the
    correspondence therefore compares key sequences and multisets, never tie order. -/
def insertSort {α : Type} (less : α → α → Bool) : List α → List α
  | [] => []
  | x :: xs => insertBy less x (insertSort less xs)

/-- `sort.go Compare` on the two rows' key lists (already read), with each key's ASC flag:
    first NULL ⇒ false, second NULL ⇒ true, tie ⇒ next key, otherwise the direction decides. -/
def lessKeys [Num N] : List (Val N × Val N × Bool) → R Bool
  | [] => .ok false
  | (a, b, asc) :: rest =>
    match a with
    | .null => .ok false
    | a =>
      match b with
      | .null => .ok true
      | b => do
        let c ← compareVal a b
        if c = 0 then lessKeys rest
        else pure (c = (if asc then -1 else 1))

/-! ### LIMIT / OFFSET -/

/-- The slicing at the end of `exec`, with Go's slice-bounds checks explicit:
    `offset ≥ len ⇒ nil`, `limit` clamped to `len - offset`, then `rs[offset : offset+limit]`. -/
def window {α : Type} (rs : List α) (offsetDef limitDef : Option Nat) : R (List α) :=
  let offset := offsetDef.getD 0
  let limit := limitDef.getD rs.length
  if offset ≥ rs.length then .ok []
  else
    let limit := if limit > rs.length - offset then rs.length - offset else limit
    if offset + limit > rs.length then .error .panic   -- slice bounds out of range
    else .ok ((rs.drop offset).take limit)

end Genql
