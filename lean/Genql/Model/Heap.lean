/-
  Genql.Model.Heap — a small effect model for "queries never modify the caller's input": maps and
  slices live at addresses; the evaluator performs allocations, reads and writes.  The input document
  occupies the addresses that exist before the query starts.
-/
namespace Genql.Heap


/-- the content of one heap cell: an object (key → cell reference or scalar) or an array -/
inductive Cell where
  | scalar (s : String)
  | ref (a : Nat)
  deriving DecidableEq, Repr

inductive Obj where
  | map (fs : List (String × Cell))
  | arr (xs : List Cell)
  deriving DecidableEq, Repr

structure Heap where
  next : Nat
  objs : Nat → Option Obj

/-- the write operations that occur in the Go sources (`data[k] = v`, `delete(m, k)`, `slice[i] = v`,
    `sort.Slice(slice, …)`, `copy(dst, …)`, `maps.Copy(dst, …)`) and allocation -/
inductive HOp where
  | alloc (o : Obj)                          -- `make`, a literal, `maps.Clone`, …: a fresh address
  | setKey (a : Nat) (k : String) (c : Cell)
  | delKey (a : Nat) (k : String)
  | setIdx (a : Nat) (i : Nat) (c : Cell)
  | permute (a : Nat) (xs : List Cell)      -- in-place sort / reslice / copy into
  | read (a : Nat)
  deriving Repr

def HOp.target : HOp → Option Nat
  | .alloc _ => none
  | .setKey a _ _ => some a
  | .delKey a _ => some a
  | .setIdx a _ _ => some a
  | .permute a _ => some a
  | .read _ => none

def upd (f : Nat → Option Obj) (a : Nat) (o : Option Obj) : Nat → Option Obj :=
  fun b => if b = a then o else f b

def setAssoc (k : String) (c : Cell) : List (String × Cell) → List (String × Cell)
  | [] => [(k, c)]
  | (k', c') :: r => if k' = k then (k, c) :: r else (k', c') :: setAssoc k c r

def step (h : Heap) : HOp → Heap
  | .alloc o => { next := h.next + 1, objs := upd h.objs h.next (some o) }
  | .setKey a k c =>
    match h.objs a with
    | some (.map fs) => { h with objs := upd h.objs a (some (.map (setAssoc k c fs))) }
    | _ => h
  | .delKey a k =>
    match h.objs a with
    | some (.map fs) => { h with objs := upd h.objs a (some (.map (fs.filter (·.1 != k)))) }
    | _ => h
  | .setIdx a i c =>
    match h.objs a with
    | some (.arr xs) => { h with objs := upd h.objs a (some (.arr (xs.set i c))) }
    | _ => h
  | .permute a xs =>
    match h.objs a with
    | some (.arr _) => { h with objs := upd h.objs a (some (.arr xs)) }
    | _ => h
  | .read _ => h

def run (h : Heap) : List HOp → Heap
  | [] => h
  | op :: ops => run (step h op) ops

/-- the discipline the write-site facts establish: every write targets an address the query itself
    allocated (addresses `≥ base`, where `base` is the first free address when the query starts) -/
def Disciplined (base : Nat) (ops : List HOp) : Bool :=
  ops.all fun op => match op.target with
    | some a => decide (base ≤ a)
    | none => true

end Genql.Heap
