/-
  Genql.Model.Builtins — the pure built-in functions of `functions.go` (everything except the
  gob/crypto based HASH/ENCODE/DECODE, TIMESTAMP, and the stateful GETVAR/SETVAR/REPORT family,
  which live in their own models).
-/
import Genql.Model.Value
namespace Genql
variable {N : Type} [Num N]

/-- `Guard(n, args)` -/
def guard (n : Nat) (args : List α) : R Unit :=
  if args.length = n then .ok () else .error .error

/-- `AsType[[]any](v)` followed by `*slice`: a NULL argument is a nil dereference, i.e. a panic
    that the enclosing `exec` recovers into an error. -/
def asSlice : Val N → R (List (Val N))
  | .arr xs => .ok xs
  | .null => .error .error
  | _ => .error .error

/-- `ToFloat64` through `%v` and `ParseFloat`: numbers are themselves; texts that might parse
    are out of the model; everything else fails. -/
def toFloat64 : Val N → R N
  | .num n => .ok n
  | .str _ => .error .oom
  | _ => .error .error

/-- the shared loop of SUM / AVG: sum of the non-NULL members, `none` if all are NULL -/
def sumLoop : List (Val N) → Option N → R (Option N)
  | [], acc => .ok acc
  | .null :: xs, acc => sumLoop xs acc
  | x :: xs, acc => do
    let n ← toFloat64 x
    sumLoop xs (some (match acc with | some s => Num.add s n | none => Num.add (Num.ofInt 0) n))

def minLoop (better : N → N → Bool) : List (Val N) → Option N → R (Option N)
  | [], acc => .ok acc
  | .null :: xs, acc => minLoop better xs acc
  | x :: xs, acc => do
    let n ← toFloat64 x
    minLoop better xs (some (match acc with | some m => if better n m then n else m | none => n))

def optNum : Option N → Val N
  | some n => .num n
  | none => .null

/-- `UnwindFunc`: flattens exactly one level. -/
def unwindOne : List (Val N) → List (Val N)
  | [] => []
  | .arr ys :: xs => ys ++ unwindOne xs
  | x :: xs => x :: unwindOne xs

def upperStr (s : String) : String := String.ofList (s.toList.map Char.toUpper)

/-- the strings whose Go `strings.ToLower/ToUpper` the model predicts: ASCII letters are mapped, other
    ASCII and CJK ideographs (no case) are kept.  Any other character (`ö`, `ß`, `İ`, …) goes through
    Go's Unicode case tables, which are not modelled: out of model, counted by the correspondence. -/
def caseModelled (s : String) : Bool :=
  s.toList.all fun c => c.toNat < 128 || (0x4E00 ≤ c.toNat && c.toNat ≤ 0x9FFF)

/-- CONCAT as the property states it (non-NULL arguments only); the Go code prints `<nil>` for a
    NULL argument — known finding KF-concat-null, switch `concatNilText`. -/
def concatVals (nilText : Bool) : List (Val N) → R String
  | [] => .ok ""
  | .null :: xs => do
    let rest ← concatVals nilText xs
    pure ((if nilText then "<nil>" else "") ++ rest)
  | x :: xs => do
    let s ← fmtR x
    let rest ← concatVals nilText xs
    pure (s ++ rest)

/-- the fixed-arity functions and the count each passes to `Guard(n, args)` as its first statement;
    the registry of the Go code is compared with this table on every run (regenerated facts) -/
def arities : List (String × Nat) :=
  [("sum", 1), ("avg", 1), ("min", 1), ("max", 1), ("first", 1), ("last", 1), ("elementat", 2), ("unwind", 1),
   ("if", 3), ("to_lower", 1), ("to_upper", 1), ("daterange", 2), ("changetype", 2), ("fuse", 1),
   ("defaultkey", 1), ("raise", 1), ("raise_when", 2), ("report", 1), ("report_when", 2)]

def arityOf (name : String) : Option Nat :=
  match arities.find? (fun p => p.1 == name) with
  | some p => some p.2
  | none => none

/-- the bodies of the built-ins, after the arity guard -/
def callBody (concatNilText : Bool) (name : String) (star : Option (List (Val N)))
    (fromLen : Nat) (args : List (Val N)) : R (IVal N) :=
  match name, args with
  | "sum", [a] => do
    let xs ← asSlice a
    let r ← sumLoop xs none
    pure (.v (optNum r))
  | "avg", [a] => do
    let xs ← asSlice a
    let r ← sumLoop xs none
    pure (.v (match r with
      | some s => .num (Num.div s (Num.ofInt xs.length))
      | none => .null))
  | "min", [a] => do
    let xs ← asSlice a
    let r ← minLoop (fun n m => Num.lt n m) xs none
    pure (.v (optNum r))
  | "max", [a] => do
    let xs ← asSlice a
    let r ← minLoop (fun n m => Num.lt m n) xs none
    pure (.v (optNum r))
  | "count", [] =>
    match star with
    | some xs => .ok (.v (.num (Num.ofInt xs.length)))
    | none => .ok (.v (.num (Num.ofInt fromLen)))
  | "count", a :: _ => do
    let xs ← asSlice a
    pure (.v (.num (Num.ofInt xs.length)))
  | "concat", xs => do
    let s ← concatVals concatNilText xs
    pure (.v (.str s))
  | "first", [.null] => .ok (.v .null)
  | "first", [a] => do
    let xs ← asSlice a
    pure (.v (xs.head?.getD .null))
  | "last", [.null] => .ok (.v .null)
  | "last", [a] => do
    let xs ← asSlice a
    pure (.v (xs.getLast?.getD .null))
  | "elementat", [.null, _] => .ok (.v .null)
  | "elementat", [a, i] => do
    let xs ← asSlice a
    match i with
    | .num n =>
      match Num.toInt? n with
      | some k =>
        if k < 0 then .error .error      -- negative index: runtime panic recovered into an error
        else match xs[k.toNat]? with
          | some x => .ok (.v x)
          | none => .error .error
      | none => .error .oom              -- `int(float)` truncation of a fraction: not modelled
    | .null => .error .error
    | _ => .error .error
  | "unwind", [.null] => .ok (.v .null)
  | "unwind", [a] => do
    let xs ← asSlice a
    pure (.v (.arr (unwindOne xs)))
  | "if", [c, x, y] =>
    match c with
    | .bool true => .ok (.v x)
    | .bool false => .ok (.v y)
    | _ => .error .error
  | "array", xs => .ok (.v (.arr xs))
  | "to_lower", [a] =>
    match a with
    | .str s => if caseModelled s then .ok (.v (.str (lowerStr s))) else .error .oom
    | _ => .error .error
  | "to_upper", [a] =>
    match a with
    | .str s => if caseModelled s then .ok (.v (.str (upperStr s))) else .error .oom
    | _ => .error .error
  | "daterange", [f, t] => do
    let fs ← (match f with | .null => pure "" | x => fmtR x)
    let ts ← (match t with | .null => pure "" | x => fmtR x)
    pure (.v (.arr [.str fs, .str ts]))
  | "changetype", [x, t] =>
    match x, t with
    | .null, _ => .ok (.v .null)
    | x, .str ty =>
      match lowerStr ty with
      | "array" => .ok (.v (.arr [x]))
      | "string" => do
        let s ← fmtR x
        pure (.v (.str s))
      | "double" =>
        match x with
        | .num n => .ok (.v (.num n))
        | .str _ => .error .oom
        | _ => .error .error
      | "integer" =>
        match x with
        | .num n =>
          match Num.toInt? n with
          | some k => if -1000000000000000 < k ∧ k < 1000000000000000 then .ok (.v (.num (Num.ofInt k))) else .error .oom
          | none => .error .error    -- `Atoi` of a fractional / exponent / out-of-range text fails
        | .str _ => .error .oom
        | _ => .error .error
      | _ => .error .error
    | _, _ => .error .error
  | "fuse", [.null] => .ok (.v .null)
  | "fuse", [a] =>
    match a with
    | .obj fs => .ok (.fuse fs)
    | _ => .error .error
  | "defaultkey", [.null] => .ok (.v .null)
  | "defaultkey", [a] =>
    match a with
    | .obj [(_, v)] => .ok (.v v)
    | _ => .error .error
  | "raise", [_] => .error .error
  | "raise_when", [c, _] =>
    match c with
    | .bool true => .error .error
    | .bool false => .ok .omit
    | _ => .error .error
  | "report", [_] => .ok .omit
  | "report_when", [c, _] =>
    match c with
    | .bool _ => .ok .omit
    | _ => .error .error
  | _, _ => .error .oom            -- not a function of this model

/-- Aggregate and scalar built-ins over already evaluated arguments: `Guard(n, args)` first, then
    the body.  `star` is `current["*"]` when it is an array (COUNT with no arguments). -/
def callBuiltin (concatNilText : Bool) (name : String) (star : Option (List (Val N)))
    (fromLen : Nat) (args : List (Val N)) : R (IVal N) :=
  match arityOf name with
  | some n => if args.length = n then callBody concatNilText name star fromLen args else .error .error
  | none => callBody concatNilText name star fromLen args

end Genql
