/-
  Genql.Model.Async — the wait-group protocol of one query: `n` rows, a select list whose items
  are function calls carrying a strategy (unqualified, ASYNC, SPIN, SPINASYNC, ONCE), the main
  goroutine, the goroutines it spawns, `wg.Add / wg.Done / wg.Wait` and the post-processors.

  Mirrors `FunExpr` (cases async / spin / spinasync / once), the `*any` post-processor of
  `SelectExpr`, and `execAndPostProcess` in /repo/plsql.go.  Core Lean only.

  Calls are numbered row-major: call `c` is item `c % k` of row `c / k` (`k` = length of the
  select list).  Thread `0` is the main goroutine, thread `c + 1` the goroutine of call `c`.
-/
namespace Genql.Async

inductive Strategy where
  | plain | async | spin | spinasync | once
  deriving DecidableEq, Repr

/-- The qualifiers that start a goroutine — exactly the ones an immediate function rejects. -/
def Strategy.spawns : Strategy → Bool
  | .async | .spin | .spinasync => true
  | _ => false

/-- The qualifiers whose goroutine is registered with the query's wait group. -/
def Strategy.waited : Strategy → Bool
  | .async | .spinasync => true
  | _ => false

/-- One select-list item: a call of function `name` (an index into the registry). -/
structure Item where
  strat : Strategy
  name : Nat
  deriving DecidableEq, Repr

/-- A query: `rows` rows, the select list, the registry (`f name` is an arbitrary pure user
    function, `imm name` says whether it is registered as immediate) and the evaluated
    arguments of every call. -/
structure Query (A V : Type) where
  rows : Nat
  items : List Item
  f : Nat → A → V
  args : Nat → A
  imm : Nat → Bool

variable {A V : Type}

def Query.total (q : Query A V) : Nat := q.rows * q.items.length
def Query.item (q : Query A V) (c : Nat) : Item := q.items.getD (c % q.items.length) ⟨.plain, 0⟩
def Query.strat (q : Query A V) (c : Nat) : Strategy := (q.item c).strat
def Query.name (q : Query A V) (c : Nat) : Nat := (q.item c).name
/-- What the unqualified call puts in the row's column. -/
def Query.value (q : Query A V) (c : Nat) : V := q.f (q.name c) (q.args c)

/-- The decision table of `FunExpr`: `IsImmediateFunction(name)` together with one of the three
    goroutine qualifiers is an error (`EXPECTATION_FAILED`). -/
def rejects (imm : Bool) (s : Strategy) : Bool := imm && s.spawns

def Query.rejected (q : Query A V) (c : Nat) : Bool := rejects (q.imm (q.name c)) (q.strat c)

/-- State of the goroutine of a call. -/
inductive Task where
  | unspawned   -- no `go` yet (never, for unqualified and ONCE calls)
  | pending     -- started, the function has not been called yet
  | ran         -- the function has been called
  | stored      -- (ASYNC) the result has been assigned to the captured variable
  | done        -- the goroutine has returned (after `wg.Done()` when it is waited for)
  deriving DecidableEq, Repr

/-- A row's column for one item: no such column, the `*any` pointer put there by `SelectExpr`
    until the post-processor runs, or a value (`none` = Go `nil`). -/
inductive Cell (V : Type) where
  | absent
  | ptr
  | val (v : Option V)
  deriving DecidableEq, Repr

/-- Program counter of the main goroutine besides the index of the next call. -/
inductive Phase where
  | run (added : Bool)      -- evaluating calls; `added`: `wg.Add(1)` of the current call is done
  | post (rest : List Nat)  -- `wg.Wait()` has returned; post-processors still to run
  | returned                -- `Exec` has returned the rows
  | failed                  -- `Exec` has returned an error
  deriving DecidableEq, Repr

structure St (V : Type) where
  pc : Nat                    -- next call of the main goroutine
  phase : Phase
  wg : Nat                    -- the WaitGroup counter
  task : Nat → Task
  invoked : Nat → Nat         -- how many times the function was called on behalf of call `c`
  slot : Nat → Option V       -- the captured `rs` of an ASYNC call
  col : Nat → Cell V
  memo : Nat → Option V       -- `query.singletonExecutions["once.<name>"]`
  onceCount : Nat → Nat       -- invocations made by ONCE, per function name
  onceFirst : Nat → Option Nat  -- (ghost) the call that filled the memo
  posts : List Nat            -- registered post-processors (calls whose column is a pointer)

def upd {β : Type} (g : Nat → β) (i : Nat) (b : β) : Nat → β := fun j => if j = i then b else g j

def init : St V where
  pc := 0
  phase := .run false
  wg := 0
  task := fun _ => .unspawned
  invoked := fun _ => 0
  slot := fun _ => none
  col := fun _ => .absent
  memo := fun _ => none
  onceCount := fun _ => 0
  onceFirst := fun _ => none
  posts := []

/-- The main goroutine evaluates call `c = s.pc` (one atomic step, except that for the waited
    qualifiers `wg.Add(1)` and `go …` are two steps). -/
def evalCall (q : Query A V) (s : St V) (added : Bool) : St V :=
  let c := s.pc
  if q.rejected c then { s with phase := .failed }
  else
    match q.strat c with
    | .plain =>
      { s with pc := c + 1, invoked := upd s.invoked c (s.invoked c + 1),
               col := upd s.col c (.val (some (q.value c))) }
    | .once =>
      match s.memo (q.name c) with
      | some v => { s with pc := c + 1, col := upd s.col c (.val (some v)) }
      | none =>
        { s with pc := c + 1, invoked := upd s.invoked c (s.invoked c + 1),
                 onceCount := upd s.onceCount (q.name c) (s.onceCount (q.name c) + 1),
                 onceFirst := upd s.onceFirst (q.name c) (some c),
                 memo := upd s.memo (q.name c) (some (q.value c)),
                 col := upd s.col c (.val (some (q.value c))) }
    | .spin => { s with pc := c + 1, task := upd s.task c .pending }
    | .async =>
      if added then
        -- `go func(){…}()`, register the post-processor, `data[name] = &rs`
        { s with pc := c + 1, phase := .run false, task := upd s.task c .pending,
                 col := upd s.col c .ptr, posts := s.posts ++ [c] }
      else { s with phase := .run true, wg := s.wg + 1 }
    | .spinasync =>
      if added then { s with pc := c + 1, phase := .run false, task := upd s.task c .pending }
      else { s with phase := .run true, wg := s.wg + 1 }

/-- One step of the main goroutine; `none` = blocked (in `wg.Wait()`) or finished. -/
def stepMain (q : Query A V) (s : St V) : Option (St V) :=
  match s.phase with
  | .run added =>
    if s.pc < q.total then some (evalCall q s added)
    else if s.wg = 0 then some { s with phase := .post s.posts }   -- `wg.Wait()` returns
    else none
  | .post (c :: rest) => some { s with phase := .post rest, col := upd s.col c (.val (s.slot c)) }
  | .post [] => some { s with phase := .returned }
  | .returned => none
  | .failed => none

/-- One step of the goroutine of call `c`. -/
def stepTask (q : Query A V) (s : St V) (c : Nat) : Option (St V) :=
  match s.task c, q.strat c with
  | .pending, _ => some { s with task := upd s.task c .ran, invoked := upd s.invoked c (s.invoked c + 1) }
  | .ran, .async => some { s with task := upd s.task c .stored, slot := upd s.slot c (some (q.value c)) }
  | .ran, .spinasync => some { s with task := upd s.task c .done, wg := s.wg - 1 }   -- `wg.Done()`
  | .ran, .spin => some { s with task := upd s.task c .done }
  | .stored, _ => some { s with task := upd s.task c .done, wg := s.wg - 1 }         -- `wg.Done()`
  | _, _ => none

/-- Thread `0` is the main goroutine, thread `c + 1` the goroutine of call `c`. -/
def step (q : Query A V) (s : St V) : Nat → Option (St V)
  | 0 => stepMain q s
  | c + 1 => stepTask q s c

/-- A schedule is a list of thread ids (a disabled pick is skipped). -/
def run (q : Query A V) (s : St V) : List Nat → St V
  | [] => s
  | t :: ts => match step q s t with
    | some s' => run q s' ts
    | none => run q s ts

inductive Reach (q : Query A V) : St V → Prop
  | init : Reach q init
  | step {s s' t} : Reach q s → step q s t = some s' → Reach q s'

/-! ### The events a run emits

Every step is labelled with the abstract event it performs and the call it belongs to
(`wgWait` belongs to all calls), so that the *order of events per call* in the model can be
compared with the order the fact extractor reads off the Go source (`AsyncShape` below). -/

/-- Abstract events, in the vocabulary of the fact extractor. -/
inductive Ev where
  | wgAdd | go | invoke | store | wgDone | wgWait | post
  deriving DecidableEq, Repr

/-- The labelled events of the step thread `t` would take in `s`. -/
def emits (q : Query A V) (s : St V) : Nat → List (Nat × Ev)
  | 0 =>
    match s.phase with
    | .run added =>
      if s.pc < q.total then
        if q.rejected s.pc then []
        else match q.strat s.pc with
          | .plain => [(s.pc, .invoke)]
          | .once => match s.memo (q.name s.pc) with
            | some _ => []
            | none => [(s.pc, .invoke)]
          | .spin => [(s.pc, .go)]
          | .async => if added then [(s.pc, .go)] else [(s.pc, .wgAdd)]
          | .spinasync => if added then [(s.pc, .go)] else [(s.pc, .wgAdd)]
      else if s.wg = 0 then [(0, .wgWait)] else []
    | .post (c :: _) => [(c, .post)]
    | _ => []
  | c + 1 =>
    match s.task c, q.strat c with
    | .pending, _ => [(c, .invoke)]
    | .ran, .async => [(c, .store)]
    | .ran, .spinasync => [(c, .wgDone)]
    | .stored, _ => [(c, .wgDone)]
    | _, _ => []

/-- The event trace of a schedule. -/
def trace (q : Query A V) (s : St V) : List Nat → List (Nat × Ev)
  | [] => []
  | t :: ts => match step q s t with
    | some s' => emits q s t ++ trace q s' ts
    | none => trace q s ts

/-- The events of call `c` (and the query-wide `wgWait`), in order. -/
def proj (c : Nat) (tr : List (Nat × Ev)) : List Ev :=
  (tr.filter fun e => e.1 == c || e.2 == .wgWait).map (·.2)

/-- The query with every ASYNC qualifier dropped. -/
def Query.unqualified (q : Query A V) : Query A V :=
  { q with items := q.items.map fun it => if it.strat = .async then { it with strat := .plain } else it }

/-! ### The shape of the extracted event order -/

/-! The fact extractor reports the events in program order: the statements of the
`async`/`spinasync` case of `FunExpr` (main goroutine up to `go`, then the goroutine body with
deferred calls last) followed by those of `execAndPostProcess`. -/

/-- Split at the first occurrence of `e`: the part before it and the part after it. -/
def splitAt (e : Ev) : List Ev → Option (List Ev × List Ev)
  | [] => none
  | x :: xs => if x = e then some ([], xs) else
      match splitAt e xs with
      | some (a, b) => some (x :: a, b)
      | none => none

/-- The goroutine body: exactly one `invoke`, then at most a `store`, then the one `wgDone`,
    last. -/
def bodyOk : List Ev → Bool
  | [.invoke, .store, .wgDone] => true
  | [.invoke, .wgDone] => true
  | _ => false

/-- "Add precedes go; the goroutine body ends with Done; Wait precedes every post":
    the list is `pre ++ go :: body ++ wgWait :: tail` where `pre` contains exactly the one
    `wgAdd`, `body` is a well-formed goroutine body and `tail` consists of `post`s only. -/
def AsyncShape (evs : List Ev) : Bool :=
  match splitAt .go evs with
  | none => false
  | some (pre, rest) =>
    pre == [.wgAdd] &&
    match splitAt .wgWait rest with
    | none => false
    | some (body, tail) => bodyOk body && tail.all (· == .post)

/-! ### Nested queries forward their wait

`BuildFromAliasedTable`, `SubqueryExpr` and `ExistExpr` run a sub-query with `exec()` (which does
not wait), append its post-processors to the parent's, and then

    query.wg.Add(1); go func() { subquery.wg.Wait(); query.wg.Done() }()

At that point the sub-query's main goroutine has finished, so its counter only decreases. -/

namespace Nested

inductive Fwd where
  | notStarted | waiting | passed | done
  deriving DecidableEq, Repr

inductive Main where
  | start | added | spawned | returned
  deriving DecidableEq, Repr

structure St where
  cw : Nat        -- the sub-query's counter: its goroutines still running
  pw : Nat        -- the parent's counter
  fwd : Fwd       -- the forwarding goroutine
  main : Main     -- the parent's main goroutine
  deriving DecidableEq, Repr

/-- Thread `0`: parent main; thread `1`: the forwarder; any other thread: one of the sub-query's
    goroutines calling `Done`. -/
def step (s : St) : Nat → Option St
  | 0 => match s.main with
    | .start => some { s with main := .added, pw := s.pw + 1 }
    | .added => some { s with main := .spawned, fwd := .waiting }
    | .spawned => if s.pw = 0 then some { s with main := .returned } else none
    | .returned => none
  | 1 => match s.fwd with
    | .waiting => if s.cw = 0 then some { s with fwd := .passed } else none
    | .passed => some { s with fwd := .done, pw := s.pw - 1 }
    | _ => none
  | _ + 2 => if s.cw = 0 then none else some { s with cw := s.cw - 1 }

def init (k : Nat) : St := ⟨k, 0, .notStarted, .start⟩

inductive Reach (k : Nat) : St → Prop
  | init : Reach k (init k)
  | step {s s' t} : Reach k s → step s t = some s' → Reach k s'

def run (s : St) : List Nat → St
  | [] => s
  | t :: ts => match step s t with
    | some s' => run s' ts
    | none => run s ts

end Nested

end Genql.Async
