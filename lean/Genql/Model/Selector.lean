/-
  Genql.Model.Selector — the path-selector language of `selector.go`:
  `ParseSelector`, `ParseArray`, `ReadRange`, `ReadIndex`, `ParsePipe` (a hand-written tokenizer
  equivalent to the three regular expressions, applied the way `FindAllString` applies them),
  `SelectDimension`, `SelectMany`, `Unwind`, `Reader`, `ReaderExecutor`, `ExecReader` (with the
  `::` continuation), `Mix`, `Distinct`.

  Core Lean only.  All recursion is structural.  Every Go operation that can panic (`match[0]`,
  `split[0]`, `array[i]`, `array[b:e]`, `rs.([]any)`) is an explicit `.error .panic` branch placed
  *behind the guard the Go code has now*; `C09.sel_total_no_panic` proves the branches unreachable.
-/
import Genql.Model.Value
namespace Genql.Sel
open Genql
variable {N : Type} [Num N]

/-! ## Abstract syntax -/

/-- One dimension of an array selector.  Go encodes `each` as the index `-1` and `begin`/`end`
    as the range bound `-1`; parsed indices are never negative (`ReadIndex` rejects them). -/
inductive Dim where
  | idx (i : Nat)
  | each
  | range (b e : Option Nat)
  deriving DecidableEq, Repr, Inhabited

/-- `KeySelector`, `[]*IndexSelector`, `KeepDimension`, `[]*PipeSelector` (key, type text). -/
inductive Step where
  | key (k : String)
  | dims (ds : List Dim)
  | keep (ds : List Dim)
  | pipe (ps : List (String × String))
  deriving DecidableEq, Repr, Inhabited

/-- The result of `ParseSelector`: an optional leading `TopLevelFunctionSelector` and the steps. -/
structure Parsed where
  fn : Option String
  steps : List Step
  deriving DecidableEq, Repr, Inhabited

/-! ## Character-level helpers -/

/-- `\w` of Go's RE2: ASCII letters, digits and `_` only. -/
def isWord (c : Char) : Bool := c.isAlphanum || c == '_'

/-- length of the longest prefix whose characters satisfy `p` (a greedy `p*`) -/
def spanLen (p : Char → Bool) : List Char → Nat
  | [] => 0
  | c :: cs => if p c then spanLen p cs + 1 else 0

/-- `regexp.FindAllString(s, -1)` for a pattern that never matches the empty string: `m cs` is
    the length of the (leftmost-first) match of the pattern *at the head* of `cs`, if any.  At
    every position that is not inside the previous match the pattern is tried; a match is
    emitted and its characters are skipped, an unmatched character is skipped.  The first
    argument counts the characters of the previous match still to be skipped. -/
def findAll (m : List Char → Option Nat) : Nat → List Char → List (List Char)
  | _, [] => []
  | skip + 1, _ :: cs => findAll m skip cs
  | 0, c :: cs =>
    match m (c :: cs) with
    | some (n + 1) => (c :: cs).take (n + 1) :: findAll m n cs
    | _ => findAll m 0 cs

/-- `strings.TrimLeft(s, string(c))` -/
def trimLeft (c : Char) (cs : List Char) : List Char := cs.dropWhile (· == c)
/-- `strings.TrimRight(s, string(c))` -/
def trimRight (c : Char) (cs : List Char) : List Char := (cs.reverse.dropWhile (· == c)).reverse
/-- `strings.Trim(s, string(c))` -/
def trimBoth (c : Char) (cs : List Char) : List Char := trimRight c (trimLeft c cs)

/-- put a character in front of the first part of a split -/
def consHead (c : Char) : List (List Char) → List (List Char)
  | h :: t => (c :: h) :: t
  | [] => [[c]]

/-- `strings.Split(s, string(sep))` — always at least one part. -/
def splitChar (sep : Char) : List Char → List (List Char)
  | [] => [[]]
  | c :: cs => if c == sep then [] :: splitChar sep cs else consHead c (splitChar sep cs)

/-- `strings.Split(s, "::")` — non-overlapping occurrences, left to right. -/
def splitCC : List Char → List (List Char)
  | [] => [[]]
  | [c] => [[c]]
  | c :: d :: rest =>
    if c == ':' && d == ':' then [] :: splitCC rest else consHead c (splitCC (d :: rest))

/-- `strings.SplitN(s, "=>", 2)`: `some (before, after)` for the first `=>`, `none` if absent. -/
def splitArrow : List Char → Option (List Char × List Char)
  | [] => none
  | c :: rest =>
    if c == '=' && rest.head? == some '>' then some ([], rest.tail)
    else (splitArrow rest).map fun p => (c :: p.1, p.2)

/-! ## The three regular expressions, as "match length at the head" functions

  Go's `regexp` is leftmost-first: alternatives are tried in order and quantifiers are greedy with
  backtracking.  In all three patterns the backtracking alternatives are dead (a shorter greedy
  run is always followed by a character of the same class, which the continuation rejects), so
  the deterministic readings below are exact. -/

/-- `'[^']*'+` — a quote, non-quotes, then one or more quotes (all of them: greedy). -/
def mQuoted : List Char → Option Nat
  | [] => none
  | c :: cs =>
    if c == '\'' then
      let n := spanLen (· != '\'') cs
      let k := spanLen (· == '\'') (cs.drop n)
      if k == 0 then none else some (1 + n + k)
    else none

/-- `\w+` -/
def mWord (cs : List Char) : Option Nat :=
  let n := spanLen isWord cs
  if n == 0 then none else some n

/-- a literal -/
def mLit (lit cs : List Char) : Option Nat :=
  if lit.isPrefixOf cs then some lit.length else none

/-- `\[[^\[\]]*\]` with `o = '['`, `c = ']'` (and the same with braces) -/
def mBracket (o c : Char) : List Char → Option Nat
  | [] => none
  | x :: cs =>
    if x == o then
      let n := spanLen (fun y => y != o && y != c) cs
      match cs.drop n with
      | y :: _ => if y == c then some (n + 2) else none
      | [] => none
    else none

/-- `_FULLPATTERN = ('[^']*'+|\<\-|\*|[\w]+|\[[^\[\]]*\]|\{[^\{\}]*\})` -/
def matchFull (cs : List Char) : Option Nat :=
  mQuoted cs <|> mLit ['<', '-'] cs <|> mLit ['*'] cs <|> mWord cs
    <|> mBracket '[' ']' cs <|> mBracket '{' '}' cs

/-- `\([^\)]*\)+` -/
def mParen : List Char → Option Nat
  | [] => none
  | c :: cs =>
    if c == '(' then
      let n := spanLen (· != ')') cs
      let k := spanLen (· == ')') (cs.drop n)
      if k == 0 then none else some (1 + n + k)
    else none

/-- `_ARRAYPATTERN = \([^\)]*\)+|\w+` -/
def matchArray (cs : List Char) : Option Nat := mParen cs <|> mWord cs

/-- `!?\|\w+` -/
def mPipeTail (cs : List Char) : Option Nat :=
  let bang : Nat := if cs.head? == some '!' then 1 else 0
  match cs.drop bang with
  | [] => none
  | c :: r =>
    if c == '|' then
      let n := spanLen isWord r
      if n == 0 then none else some (bang + 1 + n)
    else none

/-- `_PIPEPATTERN = ('[^']*'+|\w+)(!?\|\w+)|\w+` -/
def matchPipe (cs : List Char) : Option Nat :=
  (match mQuoted cs <|> mWord cs with
   | some n => (mPipeTail (cs.drop n)).map (n + ·)
   | none => none) <|> mWord cs

/-! ## Parsing -/

def kwEach : List Char := ['e', 'a', 'c', 'h']
def kwBegin : List Char := ['b', 'e', 'g', 'i', 'n']
def kwEnd : List Char := ['e', 'n', 'd']
def kwKeep : List Char := ['k', 'e', 'e', 'p', '=', '>']

/-- value of a string of ASCII digits (`none` if some character is not a digit) -/
def digitsVal : List Char → Nat → Option Nat
  | [], acc => some acc
  | c :: cs, acc => if c.isDigit then digitsVal cs (acc * 10 + (c.toNat - 48)) else none

def maxInt64 : Nat := 9223372036854775807

/-- an optional leading sign: (is it `-`, the rest) -/
def splitSign : List Char → Bool × List Char
  | [] => (false, [])
  | c :: r => if c == '-' then (true, r) else if c == '+' then (false, r) else (false, c :: r)

/-- `ReadIndex`: `strconv.Atoi` (optional sign, one or more ASCII digits, value within `int64`)
    followed by the rejection of negative numbers.  `-0` is accepted (it is `0`). -/
def readIndex (cs : List Char) : R Nat :=
  let sg := splitSign cs
  if sg.2.isEmpty then .error .error
  else match digitsVal sg.2 0 with
    | none => .error .error
    | some n =>
      if sg.1 then (if n == 0 then .ok 0 else .error .error)
      else if n ≤ maxInt64 then .ok n else .error .error

def readBound (kw cs : List Char) : R (Option Nat) :=
  if cs == kw then .ok none else some <$> readIndex cs

/-- `ReadRange` -/
def readRange (m : List Char) : R Dim :=
  let s := trimRight ')' (trimLeft '(' (trimBoth ' ' m))
  match splitChar ':' s with
  | [a, b] => do
    let b' ← readBound kwBegin a
    let e' ← readBound kwEnd b
    pure (.range b' e')
  | _ => .error .error

/-- the body of the loop of `ParseArray` -/
def parseDim (m : List Char) : R Dim :=
  match m with
  | [] => .error .panic                       -- `match[0]`
  | c :: _ =>
    if c == '(' then readRange m
    else if m == kwEach then .ok .each
    else Dim.idx <$> readIndex m

/-- `ParseArray` -/
def parseArray (m : List Char) : R Step :=
  let body := trimRight ']' (trimLeft '[' m)
  let keep := kwKeep.isPrefixOf body
  let body' := if keep then body.drop kwKeep.length else body
  (fun ds => if keep then Step.keep ds else Step.dims ds) <$> mapE parseDim (findAll matchArray 0 body')

def trimQuotes (cs : List Char) : List Char := trimRight '\'' (trimLeft '\'' cs)

/-- the body of the loop of `ParsePipe` -/
def parsePipeItem (m : List Char) : R (String × String) :=
  match splitChar '|' m with
  | [] => .error .panic                       -- `split[0]`
  | [k] => .ok (String.ofList (trimQuotes k), "")
  | [k, t] => .ok (String.ofList (trimQuotes k), String.ofList t)
  | _ => .error .error

/-- `ParsePipe` -/
def parsePipe (m : List Char) : R Step :=
  Step.pipe <$> mapE parsePipeItem (findAll matchPipe 0 m)

/-- the body of the loop of `ParseSelector` -/
def parseTok (m : List Char) : R Step :=
  match m with
  | [] => .error .panic                       -- `match[0]`
  | c :: _ =>
    if c == '[' then parseArray (trimBoth ' ' m)
    else if c == '{' then parsePipe m
    else .ok (.key (String.ofList (trimQuotes m)))

/-- the head of `ParseSelector`: `strings.SplitN(selector, "=>", 2)` and the `^\w*$` test on the
    part before the arrow; yields the function name (if any) and the text to tokenize -/
def splitFn (s : List Char) : Option String × List Char :=
  match splitArrow s with
  | some (f, rest) => if f.all isWord then (some (String.ofList f), rest) else (none, s)
  | none => (none, s)

/-- `ParseSelector` on the characters of the selector -/
def parseSelectorL (s : List Char) : R Parsed :=
  Parsed.mk (splitFn s).1 <$> mapE parseTok (findAll matchFull 0 (splitFn s).2)

def parseSelector (s : String) : R Parsed := parseSelectorL s.toList

/-! ## Evaluation -/

/-- `array[b:e]` — panics unless `b ≤ e ≤ len` -/
def goSlice (xs : List α) (b e : Nat) : R (List α) :=
  if b ≤ e ∧ e ≤ xs.length then .ok ((xs.drop b).take (e - b)) else .error .panic

/-- `array[i]` — panics unless `i < len` -/
def goIndex (xs : List α) (i : Nat) : R α :=
  match xs[i]? with
  | some x => .ok x
  | none => .error .panic

/-- `SelectDimension` -/
def selDim : List Dim → Val N → R (Val N)
  | [], v => .ok v
  | d :: ds, .arr xs =>
    match d with
    | .range b e =>
      let b' := b.getD 0
      let e' := e.getD xs.length
      if b' > e' ∨ e' > xs.length then .error .error
      else goSlice xs b' e' >>= fun s => selDim ds (.arr s)
    | .each =>
      Val.arr <$> mapE (selDim ds) xs
    | .idx i =>
      if i ≥ xs.length then .error .error
      else goIndex xs i >>= selDim ds
  | _ :: _, _ => .error .error

mutual
/-- the contribution of one item to `Unwind(data, depth)`; `d` is the already decremented depth -/
def unwindItem : Int → Val N → List (Val N)
  | d, .arr ys => if d == 0 then ys else unwindItems (d - 1) ys
  | _, v => [v]
def unwindItems : Int → List (Val N) → List (Val N)
  | _, [] => []
  | d, x :: xs => unwindItem d x ++ unwindItems d xs
end

/-- `Unwind(data, depth)`.  The depth is an `int`: `SelectMany` passes `len(dimensions)-1`, which
    is `-1` for the empty selector `[]`; a negative depth never reaches `0`, i.e. flattens fully. -/
def unwind (depth : Int) (data : List (Val N)) : List (Val N) :=
  if depth == 0 then data else unwindItems (depth - 1) data

/-- the post-processing `SelectMany` applies to the result of `SelectDimension` -/
def flattenKept (depth : Int) : Val N → Val N
  | .arr ys => .arr (unwind depth ys)
  | v => v

/-- `SelectMany` -/
def selMany (xs : List (Val N)) (ds : List Dim) : R (Val N) :=
  flattenKept ((ds.length : Int) - 1) <$> selDim ds (.arr xs)

/-- `[]*IndexSelector` step of `Reader` -/
def dimsStep (ds : List Dim) (cont : Val N → R (Val N)) : Val N → R (Val N)
  | .null => .ok .null
  | .arr xs => selMany xs ds >>= cont
  | _ => .error .error

/-- `KeepDimension` step of `Reader` -/
def keepStep (ds : List Dim) (cont : Val N → R (Val N)) : Val N → R (Val N)
  | .null => .ok .null
  | .arr xs => selDim ds (.arr xs) >>= cont
  | _ => .error .error

/-- `%f` (six decimals) from the `%v` text of a non-integral float64, when that is certainly
    exact: the `%v` text is `d+.d{1,6}` with at most nine integer digits (then the binary value
    is within 1e-7 of the printed decimal, so rounding it to six places gives the same digits). -/
def fmtF6 (t : String) : Option String :=
  let cs := t.toList
  let neg := cs.head? == some '-'
  let body := if neg then cs.tail else cs
  match splitChar '.' body with
  | [ip, fp] =>
    if ip.all Char.isDigit && fp.all Char.isDigit && 1 ≤ ip.length && ip.length ≤ 9
        && 1 ≤ fp.length && fp.length ≤ 6 then
      some (String.ofList ((if neg then ['-'] else []) ++ ip ++ '.' :: fp
        ++ List.replicate (6 - fp.length) '0'))
    else none
  | _ => none

/-- `{k|string}`: `%d` of an integral float64, `%f` of any other, `%v` of the other kinds. -/
def pipeString : Val N → R (Val N)
  | .num n =>
    match Num.toInt? n with
    | some i => .ok (.str (toString i))
    | none =>
      match (Num.fmt n).bind fmtF6 with
      | some s => .ok (.str s)
      | none => .error .oom
  | v =>
    match fmtV v with
    | some s => .ok (.str s)
    | none => .error .oom

/-- the digit-free strings `strconv.ParseFloat` accepts (compared ASCII case-insensitively) -/
def floatSpecials : List (List Char) :=
  ["inf".toList, "+inf".toList, "-inf".toList, "infinity".toList, "+infinity".toList,
   "-infinity".toList, "nan".toList]

/-- `strconv.ParseFloat(s, 64)`, modelled exactly for decimal integers of at most 15 digits (other
    than `-0`, whose sign bit `Num.ofInt` cannot express) and for strings without any digit (an
    error unless they spell infinity or NaN).  Everything else is out of model. -/
def parseFloatModel (cs : List Char) : R (Val N) :=
  if !(cs.any Char.isDigit) then
    -- without a digit only `[+-]?inf(inity)?` and `nan` (ASCII case-insensitively) are floats
    (if floatSpecials.contains (cs.map Char.toLower) then .error .oom else .error .error)
  else
    let sg := splitSign cs
    if sg.2.isEmpty || sg.2.length > 15 then .error .oom
    else match digitsVal sg.2 0 with
      | none => .error .oom
      | some n =>
        if sg.1 then (if n == 0 then .error .oom else .ok (.num (Num.ofInt (-(n : Int)))))
        else .ok (.num (Num.ofInt (n : Int)))

/-- `{k|number}`: `strconv.ParseFloat` of a string; anything but a string is an error. -/
def pipeNumber : Val N → R (Val N)
  | .str s => parseFloatModel s.toList
  | _ => .error .error

/-- one `PipeSelector` applied to the value found under its key -/
def pipeConv (ty : String) (v : Val N) : R (Val N) :=
  if ty = "" then .ok v
  else if ty = "string" then pipeString v
  else if ty = "number" then pipeNumber v
  else .error .error

/-- the loop over the pipe selectors that fills `copy` -/
def pipeObj (fs : Row N) : List (String × String) → Row N → R (Row N)
  | [], acc => .ok acc
  | p :: ps, acc =>
    pipeConv p.2 (Val.get fs p.1) >>= fun v => pipeObj fs ps (setKey p.1 v acc)

mutual
/-- `[]*PipeSelector` step of `Reader` -/
def pipeStep (ps : List (String × String)) (cont : Val N → R (Val N)) : Val N → R (Val N)
  | .null => .ok .null
  | .obj fs => pipeObj fs ps [] >>= fun c => cont (.obj c)
  | .arr xs => do
    let ys ← pipeStepList ps cont xs
    pure (.arr ys)
  | _ => .error .error
def pipeStepList (ps : List (String × String)) (cont : Val N → R (Val N)) :
    List (Val N) → R (List (Val N))
  | [] => .ok []
  | x :: xs => do
    let y ← pipeStep ps cont x
    let ys ← pipeStepList ps cont xs
    pure (y :: ys)
end

/-- `Reader`: the rest of the selector list is the continuation of each step. -/
def evalSteps : List Step → Val N → R (Val N)
  | [] => fun d => .ok d
  | .key k :: rest => keyStep k (evalSteps rest)
  | .dims ds :: rest => dimsStep ds (evalSteps rest)
  | .keep ds :: rest => keepStep ds (evalSteps rest)
  | .pipe ps :: rest => pipeStep ps (evalSteps rest)

abbrev execSteps : List Step → Val N → R (Val N) := evalSteps

/-! ## Top level functions -/

mutual
def mixItem : Val N → List (Val N)
  | .arr ys => mixItems ys
  | v => [v]
/-- `MixArray` -/
def mixItems : List (Val N) → List (Val N)
  | [] => []
  | x :: xs => mixItem x ++ mixItems xs
end

def prefixKey (k : String) (p : String × Val N) : String × Val N := (k ++ "_" ++ p.1, p.2)

mutual
def mixField (k : String) : Val N → List (String × Val N)
  | .obj fs => (mixFields fs).map (prefixKey k)
  | v => [(k, v)]
/-- the writes `MixObject` performs, in the order of one traversal -/
def mixFields : List (String × Val N) → List (String × Val N)
  | [] => []
  | (k, v) :: rest => mixField k v ++ mixFields rest
end

def hasKey (k : String) : List (String × α) → Bool
  | [] => false
  | p :: rest => p.1 == k || hasKey k rest

def dupKeys : List (String × α) → Bool
  | [] => false
  | p :: rest => hasKey p.1 rest || dupKeys rest

/-- `Mix`.  `MixObject` ranges over Go maps, so when two flattened keys collide
    (`{"a_b":1,"a":{"b":2}}`) the survivor depends on the iteration order: out of model. -/
def mix : Val N → R (Val N)
  | .arr xs => .ok (.arr (mixItems xs))
  | .obj fs =>
    let flat := mixFields fs
    if dupKeys flat then .error .oom else .ok (.obj flat)
  | _ => .error .error

/-- the loop of `Distinct`; `seen` are the `%v` fingerprints met so far -/
def distinctGo : List (Val N) → List String → R (List (Val N))
  | [], _ => .ok []
  | x :: xs, seen =>
    match fmtV x with
    | none => .error .oom
    | some s =>
      if seen.contains s then distinctGo xs seen
      else (x :: ·) <$> distinctGo xs (s :: seen)

/-- `Distinct` -/
def distinct : Val N → R (Val N)
  | .arr xs => Val.arr <$> distinctGo xs []
  | _ => .error .error

/-- `topLevelFunctions` -/
abbrev Registry (N : Type) := String → Option (Val N → R (Val N))

/-- the registry after `init()` -/
def builtins : Registry N := fun f =>
  if f = "mix" then some mix else if f = "distinct" then some distinct else none

/-- `RegisterTopLevelFunction(name, g)`: the map entry is (over)written -/
def register (reg : Registry N) (name : String) (g : Val N → R (Val N)) : Registry N :=
  fun f => if f = name then some g else reg f

/-- the functions the correspondence harness registers (and registers again) under names of its choosing -/
def testImpl : String → Option (Val N → R (Val N))
  | "count" => some fun v => match v with
    | .arr xs => .ok (.num (Num.ofInt (Int.ofNat xs.length)))
    | _ => .ok (.num (Num.ofInt 1))
  | "wrap" => some fun v => .ok (.arr [v])
  | "id" => some fun v => .ok v
  | "first" => some fun v => match v with
    | .arr (x :: _) => .ok x
    | _ => .ok .null
  | _ => none

/-- `ReaderExecutor` -/
def readerExecutor (reg : Registry N) (p : Parsed) (d : Val N) : R (Val N) :=
  match p.fn with
  | none => evalSteps p.steps d
  | some f =>
    evalSteps p.steps d >>= fun rs =>
      match reg f with
      | some g => g rs
      | none => .error .error

/-- the parsing half of `ExecReader`: every `::`-separated part is parsed before anything runs -/
def parseAllL (s : List Char) : R (List Parsed) := mapE parseSelectorL (splitCC s)

/-- the executing half of `ExecReader`: each part continues from the previous result -/
def runAll (reg : Registry N) : List Parsed → Val N → R (Val N)
  | [], d => .ok d
  | p :: ps, d =>
    readerExecutor reg p d >>= runAll reg ps

/-- `ExecReader` with an explicit registry of top level functions (the cache is semantically
    invisible: parsing is a pure function of the selector text). -/
def execReaderWith (reg : Registry N) (d : Val N) (s : String) : R (Val N) :=
  parseAllL s.toList >>= fun ps => runAll reg ps d

/-- `ExecReader` -/
def execReader (d : Val N) (s : String) : R (Val N) := execReaderWith builtins d s

end Genql.Sel
