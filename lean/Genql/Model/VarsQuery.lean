/-
  Genql.Model.VarsQuery — SETVAR / GETVAR inside a query: the select list of a SELECT over a flat table,
  evaluated for every source row in order, item by item from left to right, with the caller's variable map
  threaded through (`ExecSelect` → `SelectExpr` → `FunExpr` → `SetVarFunc` / `GetVarFunc`).

  `SETVAR(k, v)` evaluates its two arguments (key first), stores `vars[%v of k] = v` and contributes no
  column; `GETVAR(k)` contributes the stored value (NULL when the key was never set) under the item's
  name; every other item is evaluated by the ordinary evaluator and does not touch the map.
-/
import Genql.Model.Eval
import Genql.Model.Vars
namespace Genql.VarsQ
open Genql Genql.Vars
variable {N : Type} [Num N]

abbrev Store (N : Type) := List (String × Val N)

/-- how an item of the select list touches the variable map -/
inductive Touch (N : Type) where
  | set (k a : Expr N)
  | get (k : Expr N) (col : String)
  | other (it : SelItem N)

def classify : SelItem N → Touch N
  | .item (.func .none "setvar" [k, a]) _ _ => .set k a
  | .item (.func .none "getvar" [k]) key _ => .get k key
  | it => .other it

/-- an argument: evaluated, then `ValueOf` -/
def argVal (env : Env N) (ctx : Ctx N) (cur : Row N) (e : Expr N) : R (Val N) := do
  let x ← evalExpr env ctx cur e
  valueOf cur x

/-- the key text: `fmt.Sprintf("%v", args[0])` -/
def keyOf (env : Env N) (ctx : Ctx N) (cur : Row N) (k : Expr N) : R String := do
  let v ← argVal env ctx cur k
  fmtR v

/-- one row: `(output row, store, values GETVAR returned in order)` -/
def selVars (env : Env N) (ctx : Ctx N) (cur : Row N) :
    List (SelItem N) → Store N → Row N → R (Row N × Store N × List (Option (Val N)))
  | [], st, acc => .ok (acc, st, [])
  | it :: rest, st, acc =>
    match classify it with
    | .set k a => do
      let key ← keyOf env ctx cur k
      let v ← argVal env ctx cur a
      selVars env ctx cur rest (setKey key v st) acc
    | .get k col => do
      let key ← keyOf env ctx cur k
      let r := lookup? key st
      let (out, st', reads) ← selVars env ctx cur rest st (setKey col (r.getD .null) acc)
      pure (out, st', r :: reads)
    | .other it' => do
      let acc' ← evalSel env ctx cur [it'] acc
      selVars env ctx cur rest st acc'

/-- all rows, in source order -/
def rowsVars (env : Env N) (ctx : Ctx N) (sel : List (SelItem N)) :
    List (Row N) → Store N → R (List (Val N) × Store N × List (Option (Val N)))
  | [], st => .ok ([], st, [])
  | r :: rs, st => do
    let (out, st', reads) ← selVars env ctx r sel st []
    let (outs, st'', reads') ← rowsVars env ctx sel rs st'
    pure (.obj out :: outs, st'', reads ++ reads')

/-! ### the history of calls, on its own -/

/-- the calls one item makes -/
def itemOps (env : Env N) (ctx : Ctx N) (cur : Row N) (it : SelItem N) : R (List (VOp (Val N))) :=
  match classify it with
  | .set k a => do
    let key ← keyOf env ctx cur k
    let v ← argVal env ctx cur a
    pure [.set key v]
  | .get k _ => do
    let key ← keyOf env ctx cur k
    pure [.get key]
  | .other _ => pure []

/-- one row's calls: the items from left to right -/
def rowOps (env : Env N) (ctx : Ctx N) (cur : Row N) : List (SelItem N) → R (List (VOp (Val N)))
  | [] => .ok []
  | it :: rest => do
    let a ← itemOps env ctx cur it
    let b ← rowOps env ctx cur rest
    pure (a ++ b)

/-- the whole query's calls: row-major -/
def historyOf (env : Env N) (ctx : Ctx N) (sel : List (SelItem N)) : List (Row N) → R (List (VOp (Val N)))
  | [] => .ok []
  | r :: rs => do
    let a ← rowOps env ctx r sel
    let b ← historyOf env ctx sel rs
    pure (a ++ b)

end Genql.VarsQ
