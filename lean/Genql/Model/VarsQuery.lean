/-
  Genql.Model.VarsQuery — SETVAR / GETVAR inside a query: the select list of a SELECT over a flat table,
  evaluated for every source row in order, item by item from left to right, with the caller's variable map
  threaded through (`ExecSelect` → `SelectExpr` → `FunExpr` → `SetVarFunc` / `GetVarFunc`).

  `SETVAR(k, v)` evaluates its two arguments (key first), stores `vars[%v of k] = v` and contributes no
  column; `GETVAR(k)` contributes the stored value (NULL when the key was never set) under the item's
  name; every other item is evaluated by the ordinary evaluator and does not touch the map.  GETVAR calls nested in
  the value argument of SETVAR or in another item (`SETVAR('n', GETVAR('n') + 1)`) read the map as it is at that
  moment: modelled by substituting the stored scalar for the call (`substGet`).
-/
import Genql.Model.Eval
import Genql.Model.Vars
namespace Genql.VarsQ
open Genql Genql.Vars
variable {N : Type} [Num N]

abbrev Store (N : Type) := List (String × Val N)

/-- how an item of the select list touches the variable map -/
inductive Touch (N : Type) where
  | set (k a : Expr N)
  | get (k : Expr N) (col : String)
  | other (it : SelItem N)

def classify : SelItem N → Touch N
  | .item (.func .none "setvar" [k, a]) _ _ => .set k a
  | .item (.func .none "getvar" [k]) key _ => .get k key
  | it => .other it

/-- a scalar as a literal expression (composite values have no literal form) -/
def litOf : Val N → Option (Expr N)
  | .null => some .null
  | .bool b => some (.bool b)
  | .num n => some (.num n)
  | .str s => some (.str s)
  | _ => none

/- `GETVAR('k')` calls NESTED inside an expression read the map as it is when the expression is evaluated — a pure
   read.  They are modelled by substitution: every `GETVAR(<literal key>)` whose stored value is a scalar (or
   absent: NULL) is replaced by that value as a literal before the ordinary evaluator runs; any other nested use
   (computed key, composite value, nested SETVAR) is left in place and is out of model for that evaluator. -/
/-- the key a literal key argument names: its `%v` text -/
def litKey : Expr N → Option String
  | .str k => some k
  | .num n => (fmtR (.num n : Val N)).toOption
  | .bool b => (fmtR (.bool b : Val N)).toOption
  | _ => none

mutual
def substGet (st : Store N) : Expr N → Expr N
  | .func .none "getvar" [k] =>
    match litKey k with
    | some key =>
      match lookup? key st with
      | none => .null
      | some v => (litOf v).getD (.func .none "getvar" [k])
    | none => .func .none "getvar" [substGet st k]
  | .and a b => .and (substGet st a) (substGet st b)
  | .or a b => .or (substGet st a) (substGet st b)
  | .not a => .not (substGet st a)
  | .cmp op a b => .cmp op (substGet st a) (substGet st b)
  | .between isB x lo hi => .between isB (substGet st x) (substGet st lo) (substGet st hi)
  | .bin op a b => .bin op (substGet st a) (substGet st b)
  | .un op a => .un op (substGet st a)
  | .is op a => .is op (substGet st a)
  | .tuple xs => .tuple (substGetList st xs)
  | .case whens els => .case (substGetWhens st whens) (substGet st els)
  | .func q name args => .func q name (substGetList st args)
  | e => e
def substGetList (st : Store N) : List (Expr N) → List (Expr N)
  | [] => []
  | e :: es => substGet st e :: substGetList st es
def substGetWhens (st : Store N) : List (When N) → List (When N)
  | [] => []
  | .mk c v :: rest => .mk (substGet st c) (substGet st v) :: substGetWhens st rest
end

def substItem (st : Store N) : SelItem N → SelItem N
  | .item e key alias => .item (substGet st e) key alias
  | .star => .star

/-- an argument: evaluated, then `ValueOf` -/
def argVal (env : Env N) (ctx : Ctx N) (cur : Row N) (e : Expr N) : R (Val N) := do
  let x ← evalExpr env ctx cur e
  valueOf cur x

/-- the key text: `fmt.Sprintf("%v", args[0])` -/
def keyOf (env : Env N) (ctx : Ctx N) (cur : Row N) (k : Expr N) : R String := do
  let v ← argVal env ctx cur k
  fmtR v

/-- one row: `(output row, store, values GETVAR returned in order)` -/
def selVars (env : Env N) (ctx : Ctx N) (cur : Row N) :
    List (SelItem N) → Store N → Row N → R (Row N × Store N × List (Option (Val N)))
  | [], st, acc => .ok (acc, st, [])
  | it :: rest, st, acc =>
    match classify it with
    | .set k a => do
      let key ← keyOf env ctx cur k
      let v ← argVal env ctx cur (substGet st a)
      selVars env ctx cur rest (setKey key v st) acc
    | .get k col => do
      let key ← keyOf env ctx cur k
      let r := lookup? key st
      let (out, st', reads) ← selVars env ctx cur rest st (setKey col (r.getD .null) acc)
      pure (out, st', r :: reads)
    | .other it' => do
      let acc' ← evalSel env ctx cur [substItem st it'] acc
      selVars env ctx cur rest st acc'

/-- all rows, in source order -/
def rowsVars (env : Env N) (ctx : Ctx N) (sel : List (SelItem N)) :
    List (Row N) → Store N → R (List (Val N) × Store N × List (Option (Val N)))
  | [], st => .ok ([], st, [])
  | r :: rs, st => do
    let (out, st', reads) ← selVars env ctx r sel st []
    let (outs, st'', reads') ← rowsVars env ctx sel rs st'
    pure (.obj out :: outs, st'', reads ++ reads')

/-! ### the history of calls, on its own -/

/-- the calls one item makes, given the map as it is when the item is reached -/
def itemOps (env : Env N) (ctx : Ctx N) (cur : Row N) (st : Store N) (it : SelItem N) : R (List (VOp (Val N))) :=
  match classify it with
  | .set k a => do
    let key ← keyOf env ctx cur k
    let v ← argVal env ctx cur (substGet st a)
    pure [.set key v]
  | .get k _ => do
    let key ← keyOf env ctx cur k
    pure [.get key]
  | .other _ => pure []

/-- one row's calls: the items from left to right, each seeing the map its predecessors left -/
def rowOps (env : Env N) (ctx : Ctx N) (cur : Row N) : List (SelItem N) → Store N → R (List (VOp (Val N)))
  | [], _ => .ok []
  | it :: rest, st => do
    let a ← itemOps env ctx cur st it
    let b ← rowOps env ctx cur rest (run st a).1
    pure (a ++ b)

/-- the whole query's calls: row-major -/
def historyOf (env : Env N) (ctx : Ctx N) (sel : List (SelItem N)) : List (Row N) → Store N → R (List (VOp (Val N)))
  | [], _ => .ok []
  | r :: rs, st => do
    let a ← rowOps env ctx r sel st
    let b ← historyOf env ctx sel rs (run st a).1
    pure (a ++ b)

end Genql.VarsQ
