/-
  Genql.Model.Eval — the evaluator: `Expr` and friends, `SelectExpr`, FROM resolution, CTEs,
  derived tables, sub-queries, EXISTS, UNION, and the `exec()` pipeline, following `plsql.go`.

  Everything is structurally recursive on the syntax (so `decide`/`rfl` can run it on witnesses).
-/
import Genql.Model.Join
import Genql.Model.Builtins
import Genql.Model.Selector
namespace Genql
variable {N : Type} [Num N]

/-- Switches that reproduce *open* (recorded, unrepaired) defects of the Go code.  All theorems
    are about `Defects.none`; the correspondence uses the as-is setting only to recognise a listed
    known finding. -/
structure Defects where
  /-- KF-concat-null: CONCAT renders a NULL argument as `<nil>` -/
  concatNilText : Bool := false
  deriving Repr, Inhabited

def Defects.none : Defects := {}

/-- Per-call constants of the evaluation (`Options`). -/
structure Env (N : Type) where
  dfx : Defects
  constants : Option (Row N)
  /-- fault injection (C19): the harness function `VF_FAIL(x)` returns `x`, except that it fails on
      this argument value -/
  failOn : Option (Val N) := none

/-- Per-query evaluation context (`*Query` fields read by `Expr`). -/
structure Ctx (N : Type) where
  /-- `query.data` (CTE results are materialised in it) -/
  data : Row N
  /-- `HardCodedValueExprOpt` -/
  hard : Bool
  /-- `len(query.groupDefinition) != 0` -/
  grouped : Bool
  /-- `query.matched()` -/
  matched : List (Val N)
  /-- `len(query.from)` -/
  fromLen : Nat

/-- `WithBackwardNavigation` -/
def withMarker (cur data : Row N) : Row N := setKey "<-" (.obj data) cur

/-- `ValueOf` -/
def valueOf (cur : Row N) : IVal N → R (Val N)
  | .v x => .ok x
  | .col p => readPath p (.obj cur)
  | .neutral s => .ok (.str s)
  | .fptr none => .ok .null
  | .fptr (some n) => .ok (.num n)
  | .omit => .error .oom
  | .fuse fs => .ok (.obj fs)

/-- `leftValueRaw == nil → error; AsType[bool]` -/
def asBool : Val N → R Bool
  | .bool b => .ok b
  | _ => .error .error

/-- `rs.(bool)` on the raw result of `Expr` (WHERE, HAVING, ON, CASE conditions). -/
def rawBool : IVal N → R Bool
  | .v (.bool b) => .ok b
  | _ => .error .error

def two63 : Int := 9223372036854775808

/-- wrap an integer to Go's `int64` -/
def wrap64 (x : Int) : Int :=
  let m := x % (2 * two63)
  if m ≥ two63 then m - 2 * two63 else m

/-- the arithmetic of `BinaryExpr` on two non-NULL numbers -/
def binArith (op : BinOp) (x y : N) : R N :=
  let ints (f : Int → Int → R Int) : R N :=
    match Num.toInt? x, Num.toInt? y with
    | some a, some b => do
      let r ← f a b
      pure (Num.ofInt r)
    | _, _ => .error .oom
  match op with
  | .plus => .ok (Num.add x y)
  | .minus => .ok (Num.sub x y)
  | .mult => .ok (Num.mul x y)
  | .div => .ok (Num.div x y)
  | .intDiv => ints fun a b => if b = 0 then .error .error else .ok (wrap64 (Int.tdiv a b))
  | .mod =>
    -- `math.Mod`; a NaN result (zero divisor, infinities) is out of model
    match Num.fmod x y with
    | some r => .ok r
    | none => .error .oom
  | .bitAnd => ints fun a b => .ok (BitVec.ofInt 64 a &&& BitVec.ofInt 64 b).toInt
  | .bitOr => ints fun a b => .ok (BitVec.ofInt 64 a ||| BitVec.ofInt 64 b).toInt
  | .bitXor => ints fun a b => .ok (BitVec.ofInt 64 a ^^^ BitVec.ofInt 64 b).toInt
  | .shl => ints fun a b =>
      if b < 0 then .error .error else if b ≥ 64 then .ok 0 else .ok (wrap64 (a * 2 ^ b.toNat))
  | .shr => ints fun a b =>
      if b < 0 then .error .error else if b ≥ 64 then .ok (if a < 0 then -1 else 0)
      else .ok (Int.fdiv a (2 ^ b.toNat))

/-- the `IN` scan: object elements (sub-query rows) must consist of one column and contribute its
    value; a row with no or several columns is an error (repair D50: Go picked a random column) -/
def inLoop (lv : Val N) : List (Val N) → R Bool
  | [] => .ok false
  | .obj [(_, v)] :: rest => do
    let c ← compareVal lv v
    if c = 0 then pure true else inLoop lv rest
  | .obj _ :: _ => .error .error
  | v :: rest => do
    let c ← compareVal lv v
    if c = 0 then pure true else inLoop lv rest

def notInLoop (lv : Val N) : List (Val N) → R Bool
  | [] => .ok true
  | v :: rest => do
    let c ← compareVal lv v
    if c = 0 then pure false else notInLoop lv rest

/-- the operator switch of `ComparisonExpr`; `r` is the raw right operand, `rv` its value -/
def cmpDispatch (op : CmpOp) (lv : Val N) (r : IVal N) (rv : Val N) : R Bool :=
  match op with
  | .eq => do let c ← compareVal lv rv; pure (c = 0)
  | .ne => do let c ← compareVal lv rv; pure (c ≠ 0)
  | .gt => do let c ← compareVal lv rv; pure (c = 1)
  | .ge => do let c ← compareVal lv rv; pure (c ≥ 0)
  | .lt => do let c ← compareVal lv rv; pure (c = -1)
  | .le => do let c ← compareVal lv rv; pure (c ≤ 0)
  | .like => do
    let a ← fmtR lv
    let b ← fmtR rv
    pure (regexComparison a b)
  | .notLike => do
    let a ← fmtR lv
    let b ← fmtR rv
    pure (!regexComparison a b)
  | .in_ =>
    match r with
    | .v (.arr xs) => inLoop lv xs
    | _ => .error .error
  | .notIn =>
    match r with
    | .v (.arr xs) => notInLoop lv xs
    | _ => .error .error

def isDispatch (op : IsOp) (lv : Val N) : R Bool :=
  match op with
  | .null => .ok lv.isNull
  | .notNull => .ok (!lv.isNull)
  | .true_ | .notFalse =>
    match lv with
    | .bool b => .ok b
    | _ => .error .error
  | .notTrue | .false_ =>
    match lv with
    | .bool b => .ok (!b)
    | _ => .error .error

def aggrNames : List String := ["sum", "avg", "min", "max", "count"]

/-- `current["*"]` when it is an array -/
def starOf (cur : Row N) : Option (List (Val N)) :=
  match lookup? "*" cur with
  | some (.arr xs) => some xs
  | _ => none

/-- `IsSelectAllAggregate` -/
def isAllAggr : List (SelItem N) → Bool
  | [] => true
  | .item (.aggr _ _) _ _ :: rest => isAllAggr rest
  | _ => false

/- structural equality of JSON-like values with objects compared as maps (what the `%#v`
   fingerprint of `ExecDistinct` identifies) -/
mutual
def valEq : Val N → Val N → Bool
  | .null, .null => true
  | .bool a, .bool b => a == b
  | .num a, .num b => Num.eq a b
  | .str a, .str b => a == b
  | .arr xs, .arr ys => listEq xs ys
  | .obj fs, .obj gs => fs.length == gs.length && objSub fs gs
  | _, _ => false
def listEq : List (Val N) → List (Val N) → Bool
  | [], [] => true
  | x :: xs, y :: ys => valEq x y && listEq xs ys
  | _, _ => false
def objSub : List (String × Val N) → List (String × Val N) → Bool
  | [], _ => true
  | (k, v) :: rest, gs =>
    (match lookup? k gs with
     | some w => valEq v w
     | none => false) && objSub rest gs
end

/-- `ExecOrderBy` / `Sort`: keys are read once per row (`ExecReader(row, key)`), rows are ordered
    by `lessKeys`.  With fewer than two rows the comparator never runs. -/
def sortRows (orderBy : List (List String × Bool)) (rows : List (Val N)) : R (List (Val N)) :=
  if orderBy.isEmpty || rows.length ≤ 1 then .ok rows
  else do
    let keyed ← mapE (fun r => do
        let ks ← mapE (fun (pa : List String × Bool) => do
            let v ← readPath pa.1 r
            let _ ← fmtR v          -- a key the model cannot print is out of model
            pure (v, pa.2)) orderBy
        pure (ks, r)) rows
    let less (a b : List (Val N × Bool) × Val N) : Bool :=
      match lessKeys ((a.1.zip b.1).map fun p => (p.1.1, p.2.1, p.1.2)) with
      | .ok r => r
      | .error _ => false
    pure ((insertSort less keyed).map (·.2))

/-- what `prepare` hands back: the resolved source rows and the rest of `exec()` -/
structure Prepared (N : Type) where
  frm : List (Val N)
  run : List (Val N) → R (Val N)

/-- scopes for CTE names: `bad` failed when evaluated, `fwd` not (yet) defined in the model's
    sequential reading (self / forward references: out of model) -/
structure Scope where
  bad : List String := []
  fwd : List String := []

def cteNames : List (Cte N) → List String
  | [] => []
  | .mk n _ :: rest => n :: cteNames rest

mutual

def evalExpr (env : Env N) (ctx : Ctx N) (cur : Row N) : Expr N → R (IVal N)
  | .null => .ok (.v .null)
  | .bool b => .ok (.v (.bool b))
  | .num n => .ok (.v (.num n))
  | .str s => .ok (.neutral s)
  | .col p => .ok (.col (if ctx.hard then [".".intercalate p] else p))
  | .selc t =>
    -- `ExecReader(current, text)`; the hard-coded reads of a join's ON (key maps) are not modelled for selectors
    if ctx.hard then .error .oom
    else do
      let v ← Sel.execReader (.obj cur) t
      pure (.v v)
  | .and a b => do
    let l ← evalExpr env ctx cur a
    let lb ← asBool (← valueOf cur l)
    let r ← evalExpr env ctx cur b
    let rb ← asBool (← valueOf cur r)
    pure (.v (.bool (lb && rb)))
  | .or a b => do
    let l ← evalExpr env ctx cur a
    let lb ← asBool (← valueOf cur l)
    let r ← evalExpr env ctx cur b
    let rb ← asBool (← valueOf cur r)
    pure (.v (.bool (lb || rb)))
  | .not a => do
    let l ← evalExpr env ctx cur a
    let lb ← asBool (← valueOf cur l)
    pure (.v (.bool (!lb)))
  | .cmp op a b => do
    let cur' := withMarker cur ctx.data
    let l ← evalExpr env ctx cur' a
    let lv ← valueOf cur' l
    let r ← evalExpr env ctx cur' b
    let rv ← valueOf cur' r
    let res ← cmpDispatch op lv r rv
    pure (.v (.bool res))
  | .between isB x lo hi => do
    let p ← evalExpr env ctx cur x
    let pv ← valueOf cur p
    let f ← evalExpr env ctx cur lo
    let t ← evalExpr env ctx cur hi
    let fv ← valueOf cur f
    let tv ← valueOf cur t
    let c1 ← compareVal pv fv
    let c2 ← compareVal pv tv
    let isBetween := decide (c1 ≥ 0) && decide (c2 ≤ 0)
    pure (.v (.bool (if isB then isBetween else !isBetween)))
  | .bin op a b => do
    let l ← evalExpr env ctx cur a
    let lv ← valueOf cur l
    match lv with
    | .null => pure (.fptr none)
    | .num x => do
      let r ← evalExpr env ctx cur b
      let rv ← valueOf cur r
      match rv with
      | .null => pure (.fptr none)
      | .num y => do
        let z ← binArith op x y
        pure (.fptr (some z))
      | _ => .error .error
    | _ => .error .error
  | .un op a => do
    let x ← evalExpr env ctx cur a
    let xv ← valueOf cur x
    match op, xv with
    | _, .null => .error .error
    | .tilda, .num n =>
      match Num.toInt? n with
      | some k => pure (.fptr (some (Num.ofInt (-k - 1))))
      | none => .error .oom
    | .neg, .num n => pure (.fptr (some (Num.neg n)))
    | .bang, .bool b => pure (.v (.bool (!b)))
    | _, _ => .error .error
  | .is op a => do
    let l ← evalExpr env ctx cur a
    let lv ← valueOf cur l
    let b ← isDispatch op lv
    pure (.v (.bool b))
  | .tuple xs => do
    let vs ← evalArgs env ctx cur xs
    pure (.v (.arr vs))
  | .case whens els => do
    match ← evalWhens env ctx cur whens with
    | some v => pure v
    | none => evalExpr env ctx cur els
  | .func q name args =>
    match q with
    | .none | .scoped => do
      -- `FuncArgReader(query, current, expr.Exprs)` is called WITHOUT the expression options: inside a join's ON (hard-coded
      -- reads on the merged key map) the arguments of a function call read their columns as ordinary paths
      let vs ← evalArgs env { ctx with hard := false } cur args
      if name = "vf_fail" then
        match vs with
        | [x] =>
          match env.failOn with
          | some w => if valEq x w then .error .error else .ok (.v x)
          | none => .ok (.v x)
        | _ => .error .error
      else if name = "constant" then
        match vs, env.constants with
        | [k], some cs => do
          let key ← fmtR k
          match lookup? key cs with
          | some v => pure (.v v)
          | none => .error .error
        | _, _ => .error .error
      else callBuiltin env.dfx.concatNilText name (starOf cur) ctx.fromLen vs
    | _ => .error .oom
  | .aggr name args =>
    if name ∉ aggrNames then .error .error
    else do
      let cur2 : Row N := if ctx.grouped then cur else [("*", .arr ctx.matched)]
      let vs ← evalAggrArgs env { ctx with hard := false } cur2 args
      callBuiltin env.dfx.concatNilText name (starOf cur2) ctx.fromLen vs
  | .subq q => do
    let cur' := withMarker cur ctx.data
    let p ← prepare env cur' {} q
    let v ← p.run p.frm
    pure (.v v)
  | .exists q => do
    let cur' := withMarker cur ctx.data
    let p ← prepare env cur' {} q
    let merged ← mapE (fun item =>
      match item with
      | .obj fs => (.ok (.obj (copyInto (copyInto [] fs) cur')) : R (Val N))
      | _ => .error .error) p.frm
    match p.run merged with
    | .ok (.arr rows) => pure (.v (.bool (!rows.isEmpty)))
    | .ok _ => .error .error
    | .error .oom => .error .oom
    | .error _ => .error .error

/-- `FuncArgReader` / `ValueTupleExpr`: each argument evaluated, then `ValueOf` -/
def evalArgs (env : Env N) (ctx : Ctx N) (cur : Row N) : List (Expr N) → R (List (Val N))
  | [] => .ok []
  | e :: es => do
    let x ← evalExpr env ctx cur e
    let v ← valueOf cur x
    let vs ← evalArgs env ctx cur es
    pure (v :: vs)

/-- `AggrFuncArgReader`: a column argument is read from `current["*"]` when that is an array -/
def evalAggrArgs (env : Env N) (ctx : Ctx N) (cur : Row N) : List (Expr N) → R (List (Val N))
  | [] => .ok []
  | .selc _ :: _ => .error .oom      -- a selector text as aggregate argument (read from `*`): not modelled
  | e :: es => do
    let x ← evalExpr env ctx cur e
    let v ← (match x with
      | .col p =>
        match starOf cur with
        | some xs => readPath p (.arr xs)
        | none => readPath p (.obj cur)
      | x => valueOf cur x)
    let vs ← evalAggrArgs env ctx cur es
    pure (v :: vs)

/-- `CaseExpr`'s loop: `some v` = the first WHEN whose condition is `true` -/
def evalWhens (env : Env N) (ctx : Ctx N) (cur : Row N) : List (When N) → R (Option (IVal N))
  | [] => .ok none
  | .mk c v :: rest => do
    let b ← rawBool (← evalExpr env ctx cur c)
    if b then do
      let r ← evalExpr env ctx cur v
      pure (some r)
    else evalWhens env ctx cur rest

/-- `SelectExpr`: the output object of one row, built left to right (later keys overwrite) -/
def evalSel (env : Env N) (ctx : Ctx N) (cur : Row N) : List (SelItem N) → Row N → R (Row N)
  | [], acc => .ok acc
  | .star :: rest, acc => evalSel env ctx cur rest (copyInto acc (delKey "<-" cur))
  | .item e key alias :: rest, acc => do
    let x ← evalExpr env ctx cur e
    match x with
    | .omit => evalSel env ctx cur rest acc
    | .fuse fs =>
      let acc' := fs.foldl (fun a kv => setKey (if alias.isEmpty then kv.1 else alias ++ "." ++ kv.1) kv.2 a) acc
      evalSel env ctx cur rest acc'
    | x => do
      let v ← valueOf cur x
      evalSel env ctx cur rest (setKey key v acc)

/-- FROM resolution (`BuildFrom`, `BuildFromAliasedTable`, `BuildJoin`):
    `(rows, dual, ident)` -/
def evalFrom (env : Env N) (data : Row N) (sc : Scope) : From N → R (List (Val N) × Bool × String)
  | .table path alias ident =>
    match path with
    | [] => .error .oom
    | h :: _ =>
      if h ∈ sc.fwd then .error .oom
      else if h ∈ sc.bad then .error .error
      else do
        let d ← readPath path (.obj data)
        match d with
        | .null =>
          if path = ["dual"] then pure ([.obj data], true, ident)
          else pure ([], false, ident)
        | d => do
          let rows ← asArray d
          pure (processAlias rows alias, false, ident)
  | .tableSel text alias ident =>
    -- a CTE name inside a selector text is resolved by the thunk machinery of the Go code: not modelled
    if (sc.fwd ++ sc.bad).any (fun n => n.isPrefixOf text) then .error .oom
    else do
      let d ← Sel.execReader (.obj data) text
      match d with
      | .null => pure ([], false, ident)
      | d => do
        let rows ← asArray d
        pure (processAlias rows alias, false, ident)
  | .derived q alias => do
    let p ← prepare env data sc q
    let v ← p.run p.frm
    let rows ← asArray v
    pure (processAlias rows alias, false, alias)
  | .join jt l r on => do
    let (lrows, _, lident) ← evalFrom env data sc l
    let (rrows, _, rident) ← evalFrom env data sc r
    let ctx : Ctx N := { data := data, hard := true, grouped := false, matched := [], fromLen := 0 }
    let rows ← execJoin jt (fun row => do rawBool (← evalExpr env ctx row on)) on lrows rrows lident rident
    pure (rows, false, "")

/-- `BuildCte`, read sequentially: each CTE's outcome is recorded; a failed one is only an error
    when it is referenced (the Go thunks are lazy). -/
def evalCtes (env : Env N) (data : Row N) (sc : Scope) : List (Cte N) → R (Row N × Scope)
  | [] => .ok (data, sc)
  | .mk name q :: rest =>
    match (do let p ← prepare env data sc q; p.run p.frm) with
    | .ok v =>
      evalCtes env (setKey name v data)
        { bad := sc.bad.filter (· ≠ name), fwd := sc.fwd.filter (· ≠ name) } rest
    | .error .oom =>
      evalCtes env (delKey name data) { sc with fwd := name :: sc.fwd } rest
    | .error _ =>
      evalCtes env (delKey name data)
        { bad := name :: sc.bad, fwd := sc.fwd.filter (· ≠ name) } rest

/-- `Prepare` (= `Build`): resolve the source, return the rest of `exec()` as a function of it -/
def prepare (env : Env N) (data : Row N) (sc : Scope) : Query N → R (Prepared N)
  | .select ctes distinct sel frm wh groupBy having orderBy limit offset => do
    let sc0 : Scope := { sc with fwd := cteNames ctes ++ sc.fwd }
    let (data', sc') ← evalCtes env data sc0 ctes
    let (rows, dual, _) ← evalFrom env data' sc' frm
    let grouped := !groupBy.isEmpty
    let selectRows (ctx : Ctx N) (rs : List (Val N)) : R (List (Val N)) :=
      selectRowsWith (fun fs => evalSel env ctx fs sel [])
        (if isAllAggr sel && !ctx.grouped then some (evalSel env ctx [] sel []) else none) rs
    let post (src kept : List (Val N)) : R (List (Val N)) := do
      let ctx : Ctx N := { data := data', hard := false, grouped := grouped, matched := kept, fromLen := src.length }
      let groupedRows ← (if !grouped then pure kept else do
        let gs ← groupLoop
          (fun item => groupBy.foldlM (init := ([] : Row N)) fun acc (kp : String × List String) => do
              let v ← readPath kp.2 item
              pure (setKey kp.1 v acc))
          (fun (k1 k2 : Row N) => k2.foldlM (init := true) fun acc kv =>
              if !acc then pure false else goEq (Val.get k1 kv.1) kv.2)
          kept []
        let cands := gs.map fun g => setKey "*" (.arr g.2) (copyInto [] g.1)
        let keptGroups ← filterLoop (fun cur => do rawBool (← evalExpr env ctx cur having)) cands
        pure (keptGroups.map Val.obj))
      let rs ← selectRows ctx groupedRows
      let rs := if distinct then dedupBy valEq rs else rs
      let rs ← sortRows orderBy rs
      window rs offset limit
    let run (rows : List (Val N)) : R (Val N) :=
      if dual then do
        let ctx : Ctx N := { data := data', hard := false, grouped := grouped, matched := rows, fromLen := rows.length }
        let rs ← selectRows ctx rows
        pure (rs.head?.getD .null)
      else do
        let out ← execLevel
          (fun src cur => do
            let ctx : Ctx N := { data := data', hard := false, grouped := grouped, matched := src, fromLen := src.length }
            rawBool (← evalExpr env ctx cur wh))
          post rows
        pure (.arr out)
    pure { frm := rows, run := run }
  | .union ctes l r distinct orderBy limit offset => do
    -- `execUnionBranch`: the union's WITH is handed to each branch that has none of its own
    let sc0 : Scope := { sc with fwd := cteNames ctes ++ sc.fwd }
    let (data', sc') ← evalCtes env data sc0 ctes
    let lp ← prepare env data' sc' l
    let lv ← lp.run lp.frm
    let lrows ← (match lv with | .null => pure [] | v => asArray v)
    let rp ← prepare env data' sc' r
    let rv ← rp.run rp.frm
    let rrows ← (match rv with | .null => pure [] | v => asArray v)
    let run (rows : List (Val N)) : R (Val N) := do
      let out ← execLevel (fun _ _ => .ok true)
        (fun _ kept => do
          let rs ← mapE (fun r =>
            match r with
            | .arr xs => (.ok (.arr xs) : R (Val N))
            | .obj fs => .ok (.obj (copyInto [] (delKey "<-" fs)))
            | _ => .error .error) kept
          let rs := if distinct then dedupBy valEq rs else rs
          let rs ← sortRows orderBy rs
          window rs offset limit)
        rows
      pure (.arr out)
    pure { frm := lrows ++ rrows, run := run }

end

/-- `Prepare` + `exec()` -/
def execQuery (env : Env N) (data : Row N) (sc : Scope) (q : Query N) : R (Val N) := do
  let p ← prepare env data sc q
  p.run p.frm

end Genql
