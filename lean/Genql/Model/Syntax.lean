/-
  Genql.Model.Syntax — abstract syntax of the query language as the engine consumes it
  (the shape of the third-party parser's AST after `Build*`), and the engine-internal values.
-/
import Genql.Basic
namespace Genql

inductive BinOp where
  | plus | minus | mult | div | intDiv | mod | bitAnd | bitOr | bitXor | shl | shr
  deriving DecidableEq, Repr, Inhabited

inductive CmpOp where
  | eq | ne | lt | le | gt | ge | like | notLike | in_ | notIn
  deriving DecidableEq, Repr, Inhabited

inductive UnOp where
  | neg | tilda | bang
  deriving DecidableEq, Repr, Inhabited

inductive IsOp where
  | null | notNull | true_ | notFalse | notTrue | false_
  deriving DecidableEq, Repr, Inhabited

/-- Function execution strategy (`expr.Qualifier`). -/
inductive Qual where
  | none | async | spin | spinasync | once | scoped
  deriving DecidableEq, Repr, Inhabited

/-- The predicates of `sqlparser.JoinType` the engine consults. -/
structure JoinType where
  inner    : Bool   -- IsInner()
  left     : Bool   -- IsLeftJoin()
  straight : Bool   -- IsStraightJoin()
  parallel : Bool   -- IsParallel()
  deriving DecidableEq, Repr, Inhabited

mutual
inductive Expr (N : Type) where
  | null
  | bool (b : Bool)
  | num (n : N)
  | str (s : String)
  /-- column reference; `path` = the keys the selector parser yields for the column text -/
  | col (path : List String)
  | and (a b : Expr N)
  | or (a b : Expr N)
  | not (a : Expr N)
  | cmp (op : CmpOp) (a b : Expr N)
  | between (isBetween : Bool) (x lo hi : Expr N)
  | bin (op : BinOp) (a b : Expr N)
  | un (op : UnOp) (a : Expr N)
  | is (op : IsOp) (a : Expr N)
  | tuple (xs : List (Expr N))
  /-- `els = .null` when the ELSE branch is absent (the Go code evaluates a `NullVal`) -/
  | case (whens : List (When N)) (els : Expr N)
  | func (q : Qual) (name : String) (args : List (Expr N))
  /-- aggregate call; `COUNT(*)` has no arguments; `text` is `sqlparser.String(expr)` (memo key) -/
  | aggr (name : String) (args : List (Expr N))
  | subq (q : Query N)
  | exists (q : Query N)
  /-- column reference written as a path-selector text that is more than a key path
      (`items[0].x`, `tags[(1:end)]`, `o{k|string}`): evaluated by the selector model -/
  | selc (text : String)
inductive When (N : Type) where
  | mk (cond val : Expr N)
inductive SelItem (N : Type) where
  | star
  /-- `key` = alias if present, else the column's last name (`AliasedExpr.ColumnName()`) -/
  | item (e : Expr N) (key : String) (alias : String)
inductive From (N : Type) where
  /-- `path`: selector keys of the table name; `ident`: alias, or first segment of the name -/
  | table (path : List String) (alias : String) (ident : String)
  | derived (q : Query N) (alias : String)
  | join (jt : JoinType) (l r : From N) (on : Expr N)
  /-- table named by a selector text that is more than a key path (`t[(0:2)]`, `t[each].items`) -/
  | tableSel (text : String) (alias : String) (ident : String)
inductive Cte (N : Type) where
  | mk (name : String) (q : Query N)
inductive Query (N : Type) where
  | select (ctes : List (Cte N)) (distinct : Bool) (sel : List (SelItem N)) (frm : From N)
      (wh : Expr N) (groupBy : List (String × List String)) (having : Expr N)
      (orderBy : List (List String × Bool)) (limit offset : Option Nat)
  | union (ctes : List (Cte N)) (l r : Query N) (distinct : Bool)
      (orderBy : List (List String × Bool)) (limit offset : Option Nat)
end

/-- What `Expr(...)` can return in the Go code before `ValueOf`. -/
inductive IVal (N : Type) where
  | v (x : Val N)
  /-- `ColumnName` -/
  | col (path : List String)
  /-- `NeutalString` (a string literal) -/
  | neutral (s : String)
  /-- `*float64`; `none` is the typed nil pointer `BinaryExpr` returns for a NULL operand -/
  | fptr (x : Option N)
  /-- `Ommit` -/
  | omit
  /-- `Fuse` -/
  | fuse (fs : Row N)
  deriving Inhabited

end Genql
