/-
  Genql.Model.Vars — SETVAR / GETVAR (`functions.go GetVarFunc / SetVarFunc`): the caller's variable
  map as an association list, the row loop × select-list loop flattened into one history of operations
  in evaluation order (rows in source order, select-list items left to right).
-/
import Genql.Basic
namespace Genql.Vars
open Genql
variable {V : Type}

/-- one call, in evaluation order -/
inductive VOp (V : Type) where
  | set (k : String) (v : V)
  | get (k : String)
  deriving Repr

/-- `GETVAR`: the stored value, or `none` (NULL) if the key was never set; `SETVAR`: `vars[k] = v`,
    returns the omit marker (no column) -/
def step (st : List (String × V)) : VOp V → List (String × V) × Option (Option V)
  | .set k v => (setKey k v st, none)                    -- `none`: no column (Ommit)
  | .get k => (st, some (lookup? k st))                  -- `some x`: a column holding x (NULL = none)

/-- a whole history: final store and the columns produced, in order (`none` = no column) -/
def run (st : List (String × V)) : List (VOp V) → List (String × V) × List (Option (Option V))
  | [] => (st, [])
  | op :: ops =>
    let (st', o) := step st op
    let (st'', os) := run st' ops
    (st'', o :: os)

end Genql.Vars
