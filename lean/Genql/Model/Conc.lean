/-
  Genql.Model.Conc — threads as lists of atomic instructions, lock-respecting interleavings,
  the decidable "well locked" predicate instantiated on instruction paths extracted from the Go
  source, and a small-step model of `ExecReader` with its process-wide selector cache.

  Core Lean only.
-/
namespace Genql.Conc

/-- Atomic instructions of a goroutine as far as the locking protocol is concerned. -/
inductive Instr where
  | lock (m : String)
  | unlock (m : String)
  | read (x : String)
  | write (x : String)
  deriving DecidableEq, Repr

abbrev Thread := List Instr

/-- `held` contains `m` (the guard of a location, if it has one). -/
def guardHeld (guard : String → Option String) (held : List String) (x : String) : Bool :=
  match guard x with
  | none => true
  | some m => held.contains m

/-- Well-lockedness of the remaining program of a thread that currently holds `held`:
    guarded accesses happen while the guard is held, a held mutex is not re-acquired (Go's
    `sync.Mutex` is not re-entrant: that would self-deadlock), only held mutexes are released
    (`Unlock` of an unlocked mutex is a fatal error), and the path ends with nothing held. -/
def WLfrom (guard : String → Option String) : List String → List Instr → Bool
  | held, [] => held.isEmpty
  | held, .lock m :: p => !held.contains m && WLfrom guard (m :: held) p
  | held, .unlock m :: p => held.contains m && WLfrom guard (held.filter (· != m)) p
  | held, .read x :: p => guardHeld guard held x && WLfrom guard held p
  | held, .write x :: p => guardHeld guard held x && WLfrom guard held p

/-- A path is well locked when it is so starting with no mutex held. -/
def WL (guard : String → Option String) (t : List Instr) : Bool := WLfrom guard [] t

/-- All extracted paths of a function are well locked. -/
def WLpaths (guard : String → Option String) (paths : List (List Instr)) : Bool :=
  paths.all (WL guard)

/-! ### Interleaving semantics -/

/-- Global state: who holds each mutex, the remaining program of every thread, and (ghost) the
    mutexes each thread acquired and did not release yet. -/
structure St where
  holder : String → Option Nat
  prog : Nat → List Instr
  held : Nat → List String

def upd {β : Type} (f : Nat → β) (t : Nat) (b : β) : Nat → β :=
  fun u => if u = t then b else f u

def updS {β : Type} (f : String → β) (m : String) (b : β) : String → β :=
  fun k => if k = m then b else f k

/-- One atomic step of thread `t`; `none` when `t` has finished or is blocked on a mutex.
    `unlock` follows Go: it releases the mutex whoever locked it (that it is never executed by
    a thread that does not hold the mutex is a *theorem* about well-locked programs). -/
def step (s : St) (t : Nat) : Option St :=
  match s.prog t with
  | [] => none
  | .lock m :: p =>
    match s.holder m with
    | none => some ⟨updS s.holder m (some t), upd s.prog t p, upd s.held t (m :: s.held t)⟩
    | some _ => none
  | .unlock m :: p =>
    some ⟨updS s.holder m none, upd s.prog t p, upd s.held t ((s.held t).filter (· != m))⟩
  | .read _ :: p => some ⟨s.holder, upd s.prog t p, s.held⟩
  | .write _ :: p => some ⟨s.holder, upd s.prog t p, s.held⟩

/-- Initial state of a family of threads. -/
def start (prog : Nat → List Instr) : St := ⟨fun _ => none, prog, fun _ => []⟩

/-- A scheduler is a list of thread ids; picking a finished/blocked thread is a no-op, so
    every list is a schedule and every interleaving is some list. -/
def run (s : St) : List Nat → St
  | [] => s
  | t :: ts => match step s t with
    | some s' => run s' ts
    | none => run s ts

/-- States reachable by some interleaving. -/
inductive Reach (init : St) : St → Prop
  | refl : Reach init init
  | step {s s' t} : Reach init s → step s t = some s' → Reach init s'

/-- `t` is about to access `x` (`w = true`: write). -/
def AtAccess (s : St) (t : Nat) (x : String) (w : Bool) : Prop :=
  ∃ p, s.prog t = (if w then .write x else .read x) :: p

/-- A data race: two different threads both about to access the same guarded location (accesses
    are always enabled, so the two are unordered), at least one of them writing. -/
def Race (guard : String → Option String) (s : St) : Prop :=
  ∃ t u x w1 w2, t ≠ u ∧ (guard x).isSome ∧ AtAccess s t x w1 ∧ AtAccess s u x w2 ∧
    (w1 = true ∨ w2 = true)

/-- Every thread has finished. -/
def Finished (s : St) : Prop := ∀ t, s.prog t = []

/-- Only the mutex `m0` is ever locked. -/
def SingleLock (m0 : String) (p : List Instr) : Prop := ∀ m, .lock m ∈ p → m = m0

/-! ### The selector cache of `ExecReader`

`Cache P` is a finite map (association list) from selector text to parsed selector. -/

abbrev Cache (P : Type) := List (String × P)

def Cache.get {P : Type} (k : String) : Cache P → Option P
  | [] => none
  | (k', v) :: rest => if k' = k then some v else Cache.get k rest

def Cache.put {P : Type} (k : String) (v : P) : Cache P → Cache P
  | [] => [(k, v)]
  | (k', v') :: rest => if k' = k then (k, v) :: rest else (k', v') :: Cache.put k v rest

/-- Program counter of one `ExecReader(doc, key)` call (repaired tree). -/
inductive Pc (P R : Type) where
  | start                 -- before `mut.Lock()`
  | locked                -- holds `mut`; about to test `cache[selector]`
  | miss                  -- holds `mut`; about to parse and (on success) store
  | hit                   -- holds `mut`; about to read `parsed := cache[selector]`
  | failUnlock            -- holds `mut`; parse failed, about to unlock and return the error
  | gotUnlock (p : P)     -- holds `mut`; has `parsed`, about to unlock
  | evalNext (p : P)      -- lock released; about to run `ReaderExecutor` over `parsed`
  | done (r : Option R)   -- returned (`none` = parse error)
  deriving DecidableEq

/-- A call in progress. -/
structure Call (D P R : Type) where
  doc : D
  key : String
  pc : Pc P R

structure CSt (D P R : Type) where
  mutHolder : Option Nat
  cache : Cache P
  call : Nat → Call D P R

/-- One atomic step of call `t`.  `parse` is `ParseSelector` over the `::`-separated parts,
    `eval` the `ReaderExecutor` loop; both are arbitrary pure functions here. -/
def cstep {D P R : Type} (parse : String → Option P) (eval : P → D → R)
    (s : CSt D P R) (t : Nat) : Option (CSt D P R) :=
  let c := s.call t
  let goto (pc : Pc P R) : Nat → Call D P R := upd s.call t { c with pc := pc }
  match c.pc with
  | .start =>
    match s.mutHolder with
    | none => some { s with mutHolder := some t, call := goto .locked }
    | some _ => none
  | .locked =>
    match s.cache.get c.key with
    | none => some { s with call := goto .miss }
    | some _ => some { s with call := goto .hit }
  | .miss =>
    match parse c.key with
    | none => some { s with call := goto .failUnlock }
    | some p => some { s with cache := s.cache.put c.key p, call := goto .hit }
  | .hit =>
    match s.cache.get c.key with
    | some p => some { s with call := goto (.gotUnlock p) }
    -- Go: a missing key yields the nil slice and the loop does not run; cannot happen (theorem)
    | none => none
  | .failUnlock => some { s with mutHolder := none, call := goto (.done none) }
  | .gotUnlock p => some { s with mutHolder := none, call := goto (.evalNext p) }
  | .evalNext p => some { s with call := goto (.done (some (eval p c.doc))) }
  | .done _ => none

inductive CReach {D P R : Type} (parse : String → Option P) (eval : P → D → R)
    (init : CSt D P R) : CSt D P R → Prop
  | refl : CReach parse eval init init
  | step {s s' t} : CReach parse eval init s → cstep parse eval s t = some s' →
      CReach parse eval init s'

def crun {D P R : Type} (parse : String → Option P) (eval : P → D → R)
    (s : CSt D P R) : List Nat → CSt D P R
  | [] => s
  | t :: ts => match cstep parse eval s t with
    | some s' => crun parse eval s' ts
    | none => crun parse eval s ts

/-- What a call returns when it runs alone (on any cache that is a sub-graph of `parse`). -/
def alone {D P R : Type} (parse : String → Option P) (eval : P → D → R) (doc : D) (key : String) :
    Option R :=
  (parse key).map (fun p => eval p doc)

/-- The instruction paths of the repaired `ExecReader` as the fact extractor reports them
    (cache hit, cache miss, parse error) — kept here as the reference shape; the regenerated
    facts file states the same obligation on the freshly extracted paths. -/
def execReaderFixedPaths : List (List Instr) :=
  [ [.lock "mut", .read "cache", .read "cache", .unlock "mut"],
    [.lock "mut", .read "cache", .write "cache", .read "cache", .unlock "mut"],
    [.lock "mut", .read "cache", .unlock "mut"] ]

/-- The pinned tree (D31): `cache[selector]` is read after `mut.Unlock()`. -/
def execReaderPinnedPaths : List (List Instr) :=
  [ [.lock "mut", .read "cache", .unlock "mut", .read "cache"],
    [.lock "mut", .read "cache", .write "cache", .unlock "mut", .read "cache"],
    [.lock "mut", .read "cache", .unlock "mut"] ]

/-- `cache` is guarded by `mut`; nothing else is shared. -/
def execReaderGuard (x : String) : Option String :=
  if x = "cache" then some "mut" else none

/-- `ParallelJoinFunc` (join.go): the worker goroutines share the result slice and the first
    error, both guarded by the function-local mutex (called `jmut` here).  The main goroutine
    reads them only after `wg.Wait()`, i.e. after every worker has finished (the wait-group
    protocol of `Genql.Model.Async`). -/
def parallelJoinGuard (x : String) : Option String :=
  if x = "slice" ∨ x = "firstErr" then some "jmut" else none

/-- Worker paths: match found; error / recovered panic (`fail`), first or later; no match. -/
def parallelJoinWorkerPaths : List (List Instr) :=
  [ [.lock "jmut", .read "slice", .write "slice", .unlock "jmut"],
    [.lock "jmut", .read "firstErr", .write "firstErr", .unlock "jmut"],
    [.lock "jmut", .read "firstErr", .unlock "jmut"],
    [] ]

end Genql.Conc
