/-
  Genql.Model.Value — value-level helpers mirroring `compare/compare.go`, Go's `%v`, Go interface
  equality, `heplers.go AsArray`, and the key-path part of `selector.go Reader`.
-/
import Genql.Model.Syntax
namespace Genql
variable {N : Type} [Num N]

/-- `strings.Compare` (byte-wise; on valid UTF-8 equal to code-point order). -/
def cmpStr (a b : String) : Int :=
  if a < b then -1 else if a = b then 0 else 1

/-- insertion of a key into a sorted key list (used to print maps with sorted keys, like `fmt`) -/
def insertSorted (kv : String × α) : List (String × α) → List (String × α)
  | [] => [kv]
  | x :: xs => if kv.1 < x.1 then kv :: x :: xs else x :: insertSorted kv xs

def sortKeys (fs : List (String × α)) : List (String × α) :=
  fs.foldr insertSorted []

mutual
/-- Go's `fmt.Sprintf("%v", x)` for JSON-like data: `<nil>`, `true`, shortest float text,
    the string itself, `[a b]`, `map[k:v k2:v2]` (keys sorted). -/
def fmtV : Val N → Option String
  | .null => some "<nil>"
  | .bool b => some (if b then "true" else "false")
  | .num n => Num.fmt n
  | .str s => some s
  | .arr xs => (fmtVs xs).map fun ss => "[" ++ " ".intercalate ss ++ "]"
  | .obj fs => (fmtFs fs).map fun ps =>
      "map[" ++ " ".intercalate ((sortKeys ps).map fun p => p.1 ++ ":" ++ p.2) ++ "]"
def fmtVs : List (Val N) → Option (List String)
  | [] => some []
  | x :: xs => do
    let a ← fmtV x
    let b ← fmtVs xs
    pure (a :: b)
def fmtFs : List (String × Val N) → Option (List (String × String))
  | [] => some []
  | (k, x) :: xs => do
    let a ← fmtV x
    let b ← fmtFs xs
    pure ((k, a) :: b)
end

def fmtR (x : Val N) : R String :=
  match fmtV x with
  | some s => .ok s
  | none => .error .oom

/-- `compare.Compare` restricted to what a JSON document can hold (float64, string, bool, nil,
    slices, maps): two numbers numerically, a number against a string by the number's text,
    everything else by `%v` text. -/
def compareVal (a b : Val N) : R Int :=
  match a, b with
  | .num x, .num y =>
    .ok (if Num.eq x y then 0 else if Num.lt y x then 1 else -1)
  | .num x, .str s => do
    let t ← fmtR (.num x : Val N)
    pure (cmpStr t s)
  | a, b => do
    let s ← fmtR a
    let t ← fmtR b
    pure (cmpStr s t)

/-- Go `==` on two `any` holding JSON-like data: `panic` when both are slices or both are maps
    (uncomparable dynamic types), `false` when the dynamic types differ. -/
def goEq (a b : Val N) : R Bool :=
  match a, b with
  | .null, .null => .ok true
  | .bool x, .bool y => .ok (x == y)
  | .num x, .num y => .ok (Num.eq x y)
  | .str x, .str y => .ok (x == y)
  | .arr _, .arr _ => .error .panic
  | .obj _, .obj _ => .error .panic
  | _, _ => .ok false

/-- `AsArray` on JSON-like data. -/
def asArray : Val N → R (List (Val N))
  | .arr xs => .ok xs
  | .obj fs => .ok [.obj fs]
  | _ => .error .error

/-- `ProcessAlias` -/
def processAlias (rows : List (Val N)) (alias : String) : List (Val N) :=
  if alias.isEmpty then rows else rows.map fun r => .obj [(alias, r)]

mutual
/-- One `KeySelector` step of `Reader`, with the rest of the path as a continuation:
    objects are descended, arrays are mapped over (with the *same* step), NULL stays NULL,
    anything else is an error. -/
def keyStep (k : String) (cont : Val N → R (Val N)) : Val N → R (Val N)
  | .null => .ok .null
  | .obj fs => cont (Val.get fs k)
  | .arr xs => do
    let ys ← keyStepList k cont xs
    pure (.arr ys)
  | _ => .error .error
def keyStepList (k : String) (cont : Val N → R (Val N)) : List (Val N) → R (List (Val N))
  | [] => .ok []
  | x :: xs => do
    let y ← keyStep k cont x
    let ys ← keyStepList k cont xs
    pure (y :: ys)
end

/-- `ExecReader(data, path)` for a selector that consists of key steps only. -/
def readPath : List String → Val N → R (Val N)
  | [] => fun d => .ok d
  | k :: rest => keyStep k (readPath rest)

/-- ASCII lower-casing (the generators keep LIKE operands to ASCII letters plus caseless
    characters, for which it coincides with `strings.ToLower`). -/
def lowerStr (s : String) : String := String.ofList (s.toList.map Char.toLower)

/-- `f` holds for some suffix of `s` (what `.*` followed by the rest of the pattern means) -/
def anySuffix (f : List Char → Bool) : List Char → Bool
  | [] => f []
  | c :: cs => f (c :: cs) || anySuffix f cs

/-- The anchored matcher for the regular expression `RegexComparison` builds from a LIKE
    pattern: `_` ↦ any one character, `%` ↦ any sequence, anything else ↦ itself. -/
def likeMatch : List Char → List Char → Bool
  | [], s => s.isEmpty
  | p :: ps, s =>
    if p = '%' then anySuffix (likeMatch ps) s
    else match s with
      | [] => false
      | c :: cs => (p = '_' || p == c) && likeMatch ps cs

def regexComparison (left pattern : String) : Bool :=
  likeMatch (lowerStr pattern).toList (lowerStr left).toList

end Genql
