/-
  Genql.Lawful — the order laws theorems assume of the abstract number type, and the proof that
  `Int` satisfies them (so no theorem is vacuous).  `Float` does NOT satisfy them in general
  (NaN); IEEE behaviour is outside every theorem and is only exercised by the correspondence.
-/
import Genql.Basic
import Genql.Inst.IntNum
namespace Genql

class LawfulNum (N : Type) [Num N] : Prop where
  eq_iff : ∀ a b : N, Num.eq a b = true ↔ a = b
  lt_irrefl : ∀ a : N, Num.lt a a = false
  lt_asymm : ∀ a b : N, Num.lt a b = true → Num.lt b a = false
  lt_trans : ∀ a b c : N, Num.lt a b = true → Num.lt b c = true → Num.lt a c = true
  lt_total : ∀ a b : N, Num.lt a b = true ∨ a = b ∨ Num.lt b a = true

instance : LawfulNum Int where
  eq_iff := by intro a b; simp [Num.eq]
  lt_irrefl := by intro a; simp [Num.lt]
  lt_asymm := by intro a b; simp [Num.lt]; omega
  lt_trans := by intro a b c; simp [Num.lt]; omega
  lt_total := by intro a b; simp [Num.lt]; omega

variable {N : Type} [Num N] [LawfulNum N]

theorem Num.eq_self (a : N) : Num.eq a a = true := (LawfulNum.eq_iff a a).2 rfl

theorem Num.lt_ne {a b : N} (h : Num.lt a b = true) : Num.eq a b = false := by
  cases he : Num.eq a b with
  | false => rfl
  | true =>
    have := (LawfulNum.eq_iff a b).1 he
    subst this
    rw [LawfulNum.lt_irrefl] at h
    cases h

/-- trichotomy in the shape the comparison dispatch needs -/
theorem Num.not_eq_not_gt_iff_lt (a b : N) :
    (Num.eq a b = false ∧ Num.lt b a = false) ↔ Num.lt a b = true := by
  constructor
  · intro ⟨he, hg⟩
    rcases LawfulNum.lt_total a b with h | h | h
    · exact h
    · subst h; rw [Num.eq_self] at he; cases he
    · rw [h] at hg; cases hg
  · intro h
    exact ⟨Num.lt_ne h, LawfulNum.lt_asymm a b h⟩

end Genql
