/-
  Genql.Basic — values, outcomes and the abstract number interface shared by the whole model.

  Core Lean only (no Mathlib): this file is linked into the `driver` executable.
-/
namespace Genql

/-- Outcome classes of the Go code that the model distinguishes.  Error *messages* are never
    modelled.  `panic` is a Go panic that would escape to the caller (after the repairs every
    API entry point recovers, so the model of the repaired code never produces it; it is kept so
    that "returns an error, never panics" is a statement and not an artefact of totalisation).
    `oom` = "out of model": the model declines to predict (e.g. a number whose `%v` text it
    cannot render); such cases are skipped and counted by the correspondence. -/
inductive Err where
  | error | panic | oom
  deriving DecidableEq, Repr, Inhabited

abbrev R (α : Type) := Except Err α

/-- The operations on numbers the engine uses.  The driver instantiates `N := Float` (the
    same IEEE-754 binary64 operations as Go's `float64`); theorems are stated for every `N`
    satisfying the order laws in `LawfulNum` and are instantiated at `Int` for non-vacuity. -/
class Num (N : Type) where
  add : N → N → N
  sub : N → N → N
  mul : N → N → N
  div : N → N → N
  neg : N → N
  lt  : N → N → Bool
  eq  : N → N → Bool
  /-- `math.Mod` (IEEE remainder with the sign of the dividend); `none` when the result is not a
      finite number (zero divisor, infinite operands) -/
  fmod : N → N → Option N
  ofInt : Int → N
  /-- `some i` iff the number is integral and fits Go's `int64` (conversion is exact). -/
  toInt? : N → Option Int
  /-- Go's `%v` text of the number, `none` when the model cannot render it exactly. -/
  fmt : N → Option String

/-- JSON-like data as the engine sees it (`nil, bool, float64, string, []any, map[string]any`).
    Objects are association lists; keys are kept unique by `Val.set`. -/
inductive Val (N : Type) where
  | null
  | bool (b : Bool)
  | num (n : N)
  | str (s : String)
  | arr (xs : List (Val N))
  | obj (fs : List (String × Val N))
  deriving Inhabited

abbrev Row (N : Type) := List (String × Val N)

variable {N : Type}

/-- Association-list lookup (`data[key]`, second result of the comma-ok form). -/
def lookup? (k : String) : List (String × α) → Option α
  | [] => none
  | (k', v) :: rest => if k' = k then some v else lookup? k rest

/-- `data[key] = value` on a Go map: replace in place if present, else add. -/
def setKey (k : String) (v : α) : List (String × α) → List (String × α)
  | [] => [(k, v)]
  | (k', v') :: rest => if k' = k then (k, v) :: rest else (k', v') :: setKey k v rest

def delKey (k : String) : List (String × α) → List (String × α)
  | [] => []
  | (k', v') :: rest => if k' = k then delKey k rest else (k', v') :: delKey k rest

/-- `maps.Copy(dst, src)`. -/
def copyInto (dst src : List (String × α)) : List (String × α) :=
  src.foldl (fun acc kv => setKey kv.1 kv.2 acc) dst

/-- `SelectObject`: a missing key reads as NULL. -/
def Val.get (fs : Row N) (k : String) : Val N :=
  match lookup? k fs with
  | some v => v
  | none => .null

def Val.isNull : Val N → Bool
  | .null => true
  | _ => false

@[simp] theorem lookup?_setKey_same (k : String) (v : α) (fs : List (String × α)) :
    lookup? k (setKey k v fs) = some v := by
  induction fs with
  | nil => simp [setKey, lookup?]
  | cons h t ih =>
    obtain ⟨k', v'⟩ := h
    by_cases hk : k' = k <;> simp [setKey, lookup?, hk, ih]

theorem lookup?_setKey_other {k k' : String} (h : k' ≠ k) (v : α) (fs : List (String × α)) :
    lookup? k' (setKey k v fs) = lookup? k' fs := by
  induction fs with
  | nil => simp [setKey, lookup?]; intro h'; exact absurd h'.symm h
  | cons hd t ih =>
    obtain ⟨k1, v1⟩ := hd
    by_cases hk : k1 = k
    · subst hk; simp [setKey, lookup?]
      have : ¬ (k1 = k') := fun e => h e.symm
      simp [this]
    · simp [setKey, lookup?, hk, ih]

/-- Helper: monadic map with an explicit structural recursion (so that definitions using it
    on nested inductive children still reduce in the kernel). -/
def mapE {ε α β : Type} (f : α → Except ε β) : List α → Except ε (List β)
  | [] => .ok []
  | x :: xs => do
    let y ← f x
    let ys ← mapE f xs
    pure (y :: ys)

theorem mapE_ok_length {ε α β : Type} {f : α → Except ε β} {xs : List α} {ys : List β}
    (h : mapE f xs = .ok ys) : ys.length = xs.length := by
  induction xs generalizing ys with
  | nil => simp [mapE] at h; subst h; rfl
  | cons x xs ih =>
    simp only [mapE, bind, Except.bind] at h
    split at h
    · cases h
    · split at h
      · cases h
      · rename_i y _ ys' hys
        simp only [pure, Except.pure] at h
        cases h
        simp [ih hys]

theorem mapE_eq_map_of_ok {ε α β : Type} {f : α → Except ε β} {g : α → β} {xs : List α}
    (h : ∀ x ∈ xs, f x = .ok (g x)) : mapE f xs = .ok (xs.map g) := by
  induction xs with
  | nil => rfl
  | cons x xs ih =>
    have hx := h x (by simp)
    have hxs := ih (fun y hy => h y (by simp [hy]))
    simp [mapE, hx, hxs, bind, Except.bind, pure, Except.pure]

end Genql
