/-
  C03 for the executable model, end to end: `SELECT g, COUNT(*) AS n FROM t WHERE p GROUP BY g`
  returns one row per distinct value of `g` among the rows that passed WHERE, in order of first
  appearance, with the number of those rows — i.e. the textbook grouping (`groupsSpec`) of the filtered
  table.  This connects the pure grouping theorems of `Properties/C03` (stated for the scan `scanG`)
  with the pipeline the driver runs (`prepare`: key reading with `readPath`, key comparison with Go
  `==`, the `*` member list, HAVING, the select list evaluated per group).
-/
import Genql.Properties.C03
import Genql.Properties.C04
import Genql.Properties.C01
import Genql.Proofs.ValEq
set_option linter.unusedSectionVars false
set_option linter.unusedVariables false
set_option linter.unusedSimpArgs false
namespace Genql.GroupModel
open Genql Genql.C01 Genql.C03 Genql.C04
variable {N : Type} [Num N] [LawfulNum N] [DecidableEq N]

/-- values Go's `==` compares without panicking and by value -/
def IsScalar : Val N → Prop
  | .arr _ => False
  | .obj _ => False
  | _ => True

theorem goEq_scalar {a b : Val N} (ha : IsScalar a) (hb : IsScalar b) : goEq a b = .ok (decide (a = b)) := by
  cases a <;> cases b <;> simp [IsScalar] at ha hb <;> simp [goEq]
  case bool.bool x y => cases x <;> cases y <;> rfl
  case str.str x y => by_cases h : x = y <;> simp [h]
  case num.num x y =>
    cases h : Num.eq x y
    · have : x ≠ y := fun e => by rw [(LawfulNum.eq_iff x y).mpr e] at h; cases h
      simp [this]
    · simp [(LawfulNum.eq_iff x y).mp h]

/-- the key row of `GROUP BY g` -/
def gkey (r : Val N) : Row N :=
  match r with
  | .obj fs => [("g", Val.get fs "g")]
  | _ => []

/-- key rows as `ExecGroupBy` builds them: one entry, a scalar -/
def KeyShape (k : Row N) : Prop := ∃ v, IsScalar v ∧ k = [("g", v)]

/-- the model's key comparison (`group.key[key] != value` for every key of the row's own key map) -/
def keyEq (k1 k2 : Row N) : R Bool :=
  k2.foldlM (init := true) fun acc kv => if !acc then pure false else goEq (Val.get k1 kv.1) kv.2

theorem keyEq_shape {a b : Row N} (ha : KeyShape a) (hb : KeyShape b) : keyEq a b = .ok (keq a b) := by
  obtain ⟨va, hva, rfl⟩ := ha
  obtain ⟨vb, hvb, rfl⟩ := hb
  simp only [keyEq, List.foldlM_cons, List.foldlM_nil, Bool.not_true, Bool.false_eq_true, if_false, Val.get, lookup?,
    if_true, bind, Except.bind, pure, Except.pure, goEq_scalar hva hvb, keq]
  by_cases h : va = vb
  · simp [h]
  · have : ¬ ([("g", va)] : Row N) = [("g", vb)] := fun e => h (by simpa using e)
    simp [h, this]

theorem addToGroup_on (k : Row N) (x : Val N) (hk : KeyShape k) :
    ∀ (gs : List (Row N × List (Val N))), (∀ g ∈ gs, KeyShape g.1) →
      addToGroup keyEq k x gs = .ok (addG keq k x gs) ∧ (∀ g ∈ addG keq k x gs, KeyShape g.1) := by
  intro gs
  induction gs with
  | nil => intro _; exact ⟨rfl, by intro g hg; simp [addG] at hg; subst hg; exact hk⟩
  | cons g gs ih =>
    intro hgs
    obtain ⟨k', xs⟩ := g
    have hk' : KeyShape k' := hgs (k', xs) (by simp)
    obtain ⟨h1, h2⟩ := ih (fun g hg => hgs g (by simp [hg]))
    simp only [addToGroup, keyEq_shape hk' hk, addG, bind, Except.bind, pure, Except.pure]
    cases hb : keq k' k
    · simp only [Bool.false_eq_true, if_false, h1]
      refine ⟨trivial, ?_⟩
      intro g hg
      simp only [List.mem_cons] at hg
      rcases hg with rfl | hg
      · exact hk'
      · exact h2 g hg
    · simp only [if_true]
      refine ⟨trivial, ?_⟩
      intro g hg
      simp only [List.mem_cons] at hg
      rcases hg with rfl | hg
      · exact hk'
      · exact hgs g (by simp [hg])

/-- the model's `groupLoop` with Go's key comparison is the pure scan of C03/C04 on scalar keys -/
theorem groupLoop_on (keyOf : Val N → R (Row N)) (key : Val N → Row N) :
    ∀ (xs : List (Val N)) (acc : List (Row N × List (Val N))),
      (∀ x ∈ xs, keyOf x = .ok (key x) ∧ KeyShape (key x)) → (∀ g ∈ acc, KeyShape g.1) →
      groupLoop keyOf keyEq xs acc = .ok (scanG keq key xs acc) := by
  intro xs
  induction xs with
  | nil => intro acc _ _; rfl
  | cons x xs ih =>
    intro acc hx hacc
    obtain ⟨hk, hs⟩ := hx x (by simp)
    obtain ⟨h1, h2⟩ := addToGroup_on (key x) x hs acc hacc
    simp only [groupLoop, hk, h1, scanG, bind, Except.bind]
    exact ih _ (fun y hy => hx y (by simp [hy])) h2

end Genql.GroupModel

namespace Genql.GroupModel
open Genql Genql.C01 Genql.C03 Genql.C04
variable {N : Type} [Num N] [LawfulNum N] [DecidableEq N]

theorem groupLoop_on' (keyOf : Val N → R (Row N)) (eq : Row N → Row N → R Bool) (key : Val N → Row N)
    (heq : ∀ a b, eq a b = keyEq a b) (xs : List (Val N)) (acc : List (Row N × List (Val N)))
    (h1 : ∀ x ∈ xs, keyOf x = .ok (key x) ∧ KeyShape (key x)) (h2 : ∀ g ∈ acc, KeyShape g.1) :
    groupLoop keyOf eq xs acc = .ok (scanG keq key xs acc) := by
  have : eq = keyEq := funext fun a => funext fun b => heq a b
  subst this
  exact groupLoop_on keyOf key xs acc h1 h2

theorem mapE_comp {ε α β γ : Type} (f : β → Except ε γ) (h : α → β) (xs : List α) :
    mapE f (xs.map h) = mapE (fun x => f (h x)) xs := by
  induction xs with
  | nil => rfl
  | cons x xs ih => simp [mapE, ih]

/-- every key group of the catalogue carries the key row of one of the rows -/
theorem catalogue_key_shape (xs : List (Val N)) (hx : ∀ x ∈ xs, KeyShape (gkey x)) :
    ∀ g ∈ catalogue gkey xs, KeyShape g.1 := by
  intro g hg
  rw [catalogue_eq_groups] at hg
  simp only [groupsSpec, List.mem_map] at hg
  obtain ⟨k, hk, rfl⟩ := hg
  have := (C06.specDedup_sublist keq _).subset hk
  simp only [List.mem_map] at this
  obtain ⟨x, hx', rfl⟩ := this
  exact hx x hx'

/-- the select list `g, COUNT(*) AS n` on one group row -/
theorem evalSel_group (env : Env N) (ctx : Ctx N) (hh : ctx.hard = false) (hgr : ctx.grouped = true)
    (k : Row N) (hk : KeyShape k) (ms : List (Val N)) :
    evalSel env ctx (setKey "*" (.arr ms) (copyInto [] k))
        [.item (.col ["g"]) "g" "", .item (.aggr "count" []) "n" "n"] []
      = .ok [("g", Val.get k "g"), ("n", .num (Num.ofInt ms.length))] := by
  obtain ⟨v, hv, rfl⟩ := hk
  have hmem : "count" ∈ aggrNames := by decide
  have hne : ("g" : String) ≠ "*" := by decide
  simp [evalSel, evalExpr, hh, hgr, hmem, evalAggrArgs, callBuiltin, callBody, arityOf, arities, starOf, lookup?,
    valueOf, setKey, copyInto, readPath, keyStep, Val.get, asSlice, bind, Except.bind, pure, Except.pure, hne]

theorem group_count_model (env : Env N) (data : Row N) (t : String) (rows : List (Row N)) (p : Expr N)
    (ht : Val.get data t = .arr (rows.map Val.obj)) (hwt : ∀ r ∈ rows, WT r p)
    (hg : ∀ r ∈ rows, IsScalar (Val.get r "g")) :
    execQuery env data {} (.select [] false [.item (.col ["g"]) "g" "", .item (.aggr "count" []) "n" "n"]
        (.table [t] "" t) p [("g", ["g"])] (.bool true) [] none none)
      = .ok (.arr ((catalogue gkey ((rows.filter (sem · p)).map Val.obj)).map fun g =>
          Val.obj [("g", Val.get g.1 "g"), ("n", .num (Num.ofInt g.2.length))])) := by
  have hE : ("" : String).isEmpty = true := by decide
  simp only [execQuery, prepare, evalCtes, evalFrom, cteNames, List.append_nil, List.not_mem_nil,
    if_false, readPath_single, ht, asArray, processAlias, bind, Except.bind, pure, Except.pure,
    hE, if_true, execLevel, List.isEmpty_nil, Bool.not_true]
  rw [levelLoop_flat _ _ _ rows (fun r => sem r p) (by
    intro r hr
    simp [evalPred_sound env ⟨data, false, true, _, _⟩ rfl r p (hwt r hr), rawBool])]
  simp only [List.isEmpty_cons, Bool.not_false, Bool.not_true, Bool.false_eq_true, if_false]
  -- the kept rows and their key rows
  have hshape : ∀ x ∈ (rows.filter (sem · p)).map Val.obj, KeyShape (gkey x) := by
    intro x hx
    simp only [List.mem_map, List.mem_filter] at hx
    obtain ⟨r, ⟨hr, _⟩, rfl⟩ := hx
    exact ⟨Val.get r "g", hg r hr, rfl⟩
  rw [groupLoop_on' _ (fun (k1 k2 : Row N) =>
        List.foldlM (fun acc (kv : String × Val N) =>
          if (!acc) = true then Except.ok false else goEq (Val.get k1 kv.fst) kv.snd) true k2)
      gkey (fun _ _ => rfl) ((rows.filter (sem · p)).map Val.obj) [] (by
      intro x hx
      refine ⟨?_, hshape x hx⟩
      simp only [List.mem_map] at hx
      obtain ⟨r, _, rfl⟩ := hx
      simp [List.foldlM, readPath_single, gkey, setKey, bind, Except.bind, pure, Except.pure]) (by simp)]
  have hcat : scanG keq gkey ((rows.filter (sem · p)).map Val.obj) [] =
      catalogue gkey ((rows.filter (sem · p)).map Val.obj) := rfl
  rw [hcat]
  dsimp only
  -- HAVING TRUE keeps every group
  rw [filterLoop_filter _ (fun _ => true) _ (by
    intro x _
    simp [evalExpr, rawBool, bind, Except.bind])]
  have hft : ∀ (l : List (Row N)), l.filter (fun _ => true) = l := fun l => List.filter_eq_self.mpr (by simp)
  simp only [hft, isAllAggr, Bool.false_and, Bool.false_eq_true, if_false, selectRowsWith, List.map_map,
    Function.comp_def]
  rw [mapE_comp, mapE_eq_map_of_ok (g := fun g : Row N × List (Val N) =>
      Val.obj [("g", Val.get g.1 "g"), ("n", .num (Num.ofInt g.2.length))])]
  · simp [sortRows, window_none]
  · intro g hgm
    have hk := catalogue_key_shape _ hshape g hgm
    have := evalSel_group env
      { data := data, hard := false, grouped := true,
        matched := List.map Val.obj (List.filter (fun r => sem r p) rows), fromLen := (List.map Val.obj rows).length }
      rfl rfl g.1 hk g.2
    simp only [this, bind, Except.bind, pure, Except.pure]

theorem filterLoop_map {α β : Type} (p : β → R Bool) (h : α → β) (f : α → Bool) (xs : List α)
    (hp : ∀ x ∈ xs, p (h x) = .ok (f x)) : filterLoop p (xs.map h) = .ok ((xs.filter f).map h) := by
  induction xs with
  | nil => rfl
  | cons x xs ih =>
    have hx := hp x (by simp)
    have := ih (fun y hy => hp y (by simp [hy]))
    simp only [List.map_cons, filterLoop, hx, this, bind, Except.bind, pure, Except.pure, List.filter_cons]
    cases f x <;> rfl

/-- the row a group is presented as to HAVING and to the select list: its key columns plus `*` = the members -/
def groupRow (g : Row N × List (Val N)) : Row N := setKey "*" (.arr g.2) (copyInto [] g.1)

/-- the context of the grouped stages -/
def groupCtx (data : Row N) (src kept : List (Val N)) : Ctx N :=
  { data := data, hard := false, grouped := true, matched := kept, fromLen := src.length }

/-- **the grouped pipeline.**  `SELECT [DISTINCT] sel FROM t WHERE p GROUP BY g HAVING h ORDER BY … LIMIT …` over a flat
    table whose `g` values are scalars: the rows that passed WHERE are grouped as the textbook grouping
    (`catalogue` = `groupsSpec`), HAVING filters the GROUPS, the select list is evaluated once per kept group on
    `{g: key, *: members}`, then DISTINCT, ORDER BY and the window apply to the projected groups. -/
theorem group_pipeline (env : Env N) (data : Row N) (t : String) (rows : List (Row N)) (p : Expr N)
    (sel : List (SelItem N)) (having : Expr N) (distinct : Bool) (orderBy : List (List String × Bool))
    (limit offset : Option Nat) (hv : Row N × List (Val N) → Bool) (proj : Row N × List (Val N) → Row N)
    (ht : Val.get data t = .arr (rows.map Val.obj)) (hwt : ∀ r ∈ rows, WT r p)
    (hg : ∀ r ∈ rows, IsScalar (Val.get r "g"))
    (hhav : ∀ g ∈ catalogue gkey ((rows.filter (sem · p)).map Val.obj),
      (do rawBool (← evalExpr env (groupCtx data (rows.map Val.obj) ((rows.filter (sem · p)).map Val.obj))
        (groupRow g) having)) = .ok (hv g))
    (hsel : ∀ g ∈ catalogue gkey ((rows.filter (sem · p)).map Val.obj),
      evalSel env (groupCtx data (rows.map Val.obj) ((rows.filter (sem · p)).map Val.obj)) (groupRow g) sel [] =
        .ok (proj g)) :
    execQuery env data {} (.select [] distinct sel (.table [t] "" t) p [("g", ["g"])] having orderBy limit offset)
      = (do
          let groups := (catalogue gkey ((rows.filter (sem · p)).map Val.obj)).filter hv
          let projected := groups.map fun g => Val.obj (proj g)
          let deduped := if distinct then dedupBy valEq projected else projected
          let sorted ← sortRows orderBy deduped
          let out ← window sorted offset limit
          pure (Val.arr out)) := by
  have hE : ("" : String).isEmpty = true := by decide
  simp only [execQuery, prepare, evalCtes, evalFrom, cteNames, List.append_nil, List.not_mem_nil,
    if_false, readPath_single, ht, asArray, processAlias, bind, Except.bind, pure, Except.pure,
    hE, if_true, execLevel, List.isEmpty_nil, Bool.not_true]
  rw [levelLoop_flat _ _ _ rows (fun r => sem r p) (by
    intro r hr
    simp [evalPred_sound env ⟨data, false, true, _, _⟩ rfl r p (hwt r hr), rawBool])]
  simp only [List.isEmpty_cons, Bool.not_false, Bool.not_true, Bool.false_eq_true, if_false]
  have hshape : ∀ x ∈ (rows.filter (sem · p)).map Val.obj, KeyShape (gkey x) := by
    intro x hx
    simp only [List.mem_map, List.mem_filter] at hx
    obtain ⟨r, ⟨hr, _⟩, rfl⟩ := hx
    exact ⟨Val.get r "g", hg r hr, rfl⟩
  rw [groupLoop_on' _ (fun (k1 k2 : Row N) =>
        List.foldlM (fun acc (kv : String × Val N) =>
          if (!acc) = true then Except.ok false else goEq (Val.get k1 kv.fst) kv.snd) true k2)
      gkey (fun _ _ => rfl) ((rows.filter (sem · p)).map Val.obj) [] (by
      intro x hx
      refine ⟨?_, hshape x hx⟩
      simp only [List.mem_map] at hx
      obtain ⟨r, _, rfl⟩ := hx
      simp [List.foldlM, readPath_single, gkey, setKey, bind, Except.bind, pure, Except.pure]) (by simp)]
  have hcat : scanG keq gkey ((rows.filter (sem · p)).map Val.obj) [] =
      catalogue gkey ((rows.filter (sem · p)).map Val.obj) := rfl
  rw [hcat]
  dsimp only
  -- HAVING filters the groups
  rw [show (List.map (fun g => setKey "*" (Val.arr g.snd) (copyInto [] g.fst))
        (catalogue gkey (List.map Val.obj (List.filter (fun r => sem r p) rows)))) =
      (catalogue gkey (List.map Val.obj (List.filter (fun r => sem r p) rows))).map groupRow from rfl]
  rw [filterLoop_map _ groupRow hv _ (by
    intro g hgm
    have := hhav g hgm
    simp only [groupCtx, bind, Except.bind] at this
    exact this)]
  simp only [List.map_map, Function.comp_def]
  -- the select list per kept group
  have hnot : (isAllAggr sel && false) = false := by simp
  simp only [hnot, Bool.false_eq_true, if_false, selectRowsWith]
  rw [mapE_comp, mapE_eq_map_of_ok (g := fun g : Row N × List (Val N) => Val.obj (proj g))]
  · simp only [List.map_map, Function.comp_def]
    generalize (if distinct = true then
        dedupBy valEq (List.map (fun g => Val.obj (proj g))
          (List.filter hv (catalogue gkey (List.map Val.obj (List.filter (fun r => sem r p) rows)))))
      else List.map (fun g => Val.obj (proj g))
          (List.filter hv (catalogue gkey (List.map Val.obj (List.filter (fun r => sem r p) rows))))) = combined
    cases hs : sortRows orderBy combined with
    | error e => rfl
    | ok v => cases hw : window v offset limit <;> rfl
  · intro g hgm
    have hmem : g ∈ catalogue gkey ((rows.filter (sem · p)).map Val.obj) := (List.mem_filter.mp hgm).1
    have := hsel g hmem
    simp only [groupCtx] at this
    simp only [groupRow] at this ⊢
    simp only [this, bind, Except.bind, pure, Except.pure]

/-- the groups of that result are the textbook grouping of the kept rows: distinct key rows in order of first
    appearance, each with exactly the rows carrying that key, in source order -/
theorem group_count_groups (rows : List (Row N)) (p : Expr N) :
    catalogue gkey ((rows.filter (sem · p)).map Val.obj) =
      groupsSpec keq gkey ((rows.filter (sem · p)).map (Val.obj (N := N))) :=
  catalogue_eq_groups gkey _

/-- conservation: the `n` column adds up to the number of rows that passed WHERE -/
theorem group_count_sum (rows : List (Row N)) (p : Expr N) :
    ((catalogue gkey ((rows.filter (sem · p)).map (Val.obj (N := N)))).map (·.2.length)).sum =
      (rows.filter (sem · p)).length := by
  rw [catalogue_eq_groups, count_conservation keq keq_equiv]
  simp

end Genql.GroupModel

/-! ### a concrete instance (a test of the statement's shape, not part of the proof) -/
namespace Genql.GroupModel
open Genql
def exData : Row Int := [("t", .arr [.obj [("g", .str "x"), ("b", .num 9)], .obj [("g", .str "y"), ("b", .num 8)],
  .obj [("g", .str "x"), ("b", .num 7)], .obj [("g", .str "z"), ("b", .num 0)]])]
def exEnv : Env Int := { dfx := .none, constants := none, failOn := none }
/-- `SELECT g, COUNT(*) AS n FROM t WHERE b > 0 GROUP BY g` -/
example : execQuery exEnv exData {} (.select [] false [.item (.col ["g"]) "g" "", .item (.aggr "count" []) "n" "n"]
      (.table ["t"] "" "t") (.cmp .gt (.col ["b"]) (.num 0)) [("g", ["g"])] (.bool true) [] none none)
    = .ok (.arr [.obj [("g", .str "x"), ("n", .num 2)], .obj [("g", .str "y"), ("n", .num 1)]]) := by decide
end Genql.GroupModel
