/-
  C02 / C09 bridge: columns and tables written as path-selector texts (`Expr.selc`, `From.tableSel`).
  The query model evaluates them with the selector model of C09; on texts that are plain dotted key
  paths this is exactly the column reading the rest of the query model uses (`Expr.col`,
  `From.table`), so the two spellings of a column denote the same value.
-/
import Genql.Properties.C09
import Genql.Model.Eval
set_option linter.unusedSectionVars false
set_option linter.unusedVariables false
namespace Genql.C02
open Genql Genql.Sel
variable {N : Type} [Num N]

/-- a selector-text column evaluates, on the current row only, to what `ExecReader` returns for it -/
theorem selc_eval (env : Env N) (ctx : Ctx N) (hh : ctx.hard = false) (cur : Row N) (t : String) :
    evalExpr env ctx cur (.selc t) = (do let v ← Sel.execReader (.obj cur) t; pure (IVal.v v)) := by
  simp [evalExpr, hh]

/-- a failing selector fails the expression (no default, no NULL) -/
theorem selc_error (env : Env N) (ctx : Ctx N) (hh : ctx.hard = false) (cur : Row N) (t : String) (e : Err)
    (h : Sel.execReader (.obj cur) t = .error e) : evalExpr env ctx cur (.selc t) = .error e := by
  simp [evalExpr, hh, h, bind, Except.bind]

/-- **the two spellings of a key path agree**: a column written as the selector text `k1.k2…` has the
    value of the column reference with path `[k1, k2, …]` -/
theorem selc_keys_eq_col (env : Env N) (ctx : Ctx N) (hh : ctx.hard = false) (cur : Row N) (ks : List String)
    (h : ∀ k ∈ ks, k.toList ≠ [] ∧ ∀ c ∈ k.toList, isWord c = true) :
    (do let x ← evalExpr env ctx cur (.selc (".".intercalate ks)); valueOf cur x) =
    (do let x ← evalExpr env ctx cur (.col ks); valueOf cur x) := by
  have hk := Genql.C09.exec_keys ks h (Val.obj cur)
  simp only [evalExpr, hh, hk, bind, Except.bind, Bool.false_eq_true, if_false]
  cases hr : readPath ks (Val.obj cur) with
  | error e => simp [valueOf, hr]
  | ok v => simp [valueOf, hr, pure, Except.pure]

/-- FROM: a table named by the selector text of a key path is the table named by that path
    (when no CTE name is a prefix of the text, and the path is not `dual`) -/
theorem tableSel_keys_eq_table (env : Env N) (data : Row N) (ks : List String) (alias ident : String)
    (h : ∀ k ∈ ks, k.toList ≠ [] ∧ ∀ c ∈ k.toList, isWord c = true) (hne : ks ≠ []) (hd : ks ≠ ["dual"]) :
    evalFrom env data { bad := [], fwd := [] } (.tableSel (".".intercalate ks) alias ident) =
    evalFrom env data { bad := [], fwd := [] } (.table ks alias ident) := by
  have hk := Genql.C09.exec_keys ks h (Val.obj data)
  cases ks with
  | nil => exact absurd rfl hne
  | cons k0 rest =>
    simp only [evalFrom, List.append_nil, List.any_nil, Bool.false_eq_true, if_false, hk, List.not_mem_nil,
      bind, Except.bind]
    cases hr : readPath (k0 :: rest) (Val.obj data) with
    | error e => rfl
    | ok v =>
      cases v <;> simp [hd]

/-- non-vacuity: `a.b` over `{a: {b: 7}}` -/
def exEnv : Env Int := { dfx := .none, constants := none, failOn := none }
def exCtx : Ctx Int := { data := [], hard := false, grouped := false, matched := [], fromLen := 0 }
def exRow : Row Int := [("a", .obj [("b", .num 7)])]
example : (do let x ← evalExpr exEnv exCtx exRow (.col ["a", "b"]); valueOf exRow x) = .ok (.num 7) := by decide

end Genql.C02
