/-
  Property C16 — substituting arguments into `$n` placeholders is injection-safe with respect to
  the SQL dialect the library itself parses.

  Model: `Genql/Model/Sanitize.lean` (`lex`, `sanitize`, `quoteString`; consumer side `scanStr`).

  `quote_roundtrip`        : for EVERY string `s`, the tokenizer reads `QuoteString s` as one literal
                             with value exactly `s` and resumes exactly after it.
  `number_single_token`,
  `bool_null_keyword`      : int / bool / NULL arguments are `-?[0-9]+` (denoting the integer) /
                             `true` / `false` / `null`.
  `sanitize_spec`,
  `sanitize_shape`         : complete characterisation of `SanitizeSQL`; a successful output is the
                             template's raw parts unchanged with each `$n` replaced by the text of
                             `args[n-1]`.
  `missing_unused_reported`,
  `placeholder_zero_error`(`_template`),
  `sanitize_no_panic`      : missing / unused arguments and `$0` are errors; never a panic.
  `lexer_skips_quoted_partial` : `$n` inside `'…'`, `"…"`, `-- …⏎`, `/* … */` is not a placeholder
                             (PARTIAL w.r.t. the MySQL dialect: backtick identifiers, backslash
                             escapes in template literals and `#` comments are read differently by
                             the pinned lexer — `decide`d counterexamples are given).
  `echo_any`, `echo_string`: `SELECT $1 AS v FROM dual` end to end.

  Concrete witnesses are evaluated with `decide +kernel` (plain kernel evaluation; no axioms
  beyond the three standard ones): the elaborator's `whnf` used by bare `decide` re-decodes string
  literals at every step and times out on 20-character templates.
-/
import Genql.Model.Sanitize
namespace Genql.C16
open Genql Genql.San

/-! ## 1. Quoting round trip -/

theorem quoteString_eq_passes (s : List Char) : quoteString s = quoteStringPasses s := by
  have h : ∀ s, quoteBody s = replaceChar '\'' ['\'', '\''] (replaceChar '\\' ['\\', '\\'] s) := by
    intro s
    induction s with
    | nil => rfl
    | cons c cs ih =>
      by_cases h1 : c = '\\'
      · subst h1; simp [quoteBody, replaceChar, ih]
      · by_cases h2 : c = '\''
        · subst h2; simp [quoteBody, replaceChar, ih]
        · simp [quoteBody, replaceChar, h1, h2, ih]
  simp [quoteString, quoteStringPasses, h]

theorem scan_quoteBody (s rest : List Char) (h : rest.head? ≠ some '\'') :
    scanStr (quoteBody s ++ '\'' :: rest) = some (s, rest) := by
  induction s with
  | nil =>
    cases rest with
    | nil => simp [quoteBody, scanStr]
    | cons r rs =>
      have : r ≠ '\'' := by simpa using h
      simp [quoteBody, scanStr, this]
  | cons c cs ih =>
    by_cases h1 : c = '\\'
    · subst h1; simp [quoteBody, scanStr, ih, consOut, decodeEsc]
    · by_cases h2 : c = '\''
      · subst h2; simp [quoteBody, scanStr, ih, consOut]
      · simp only [quoteBody, h1, h2, ↓reduceIte, List.cons_append]
        rw [scanStr.eq_def]; simp [h1, h2, ih, consOut]

/-- **Round trip.**  Whatever the argument string `s` is (quotes, backslashes, NUL, newlines,
    `\Z`, `%`, `_`, non-ASCII …), the tokenizer reads the text produced by `QuoteString s` as ONE
    string literal whose value is exactly `s`, and continues with exactly the text that followed
    the placeholder.  (`rest` must not itself begin with a quote: `$1'x'` in a template would glue
    two literals together, for any quoting function.) -/
theorem quote_roundtrip (s rest : List Char) (h : rest.head? ≠ some '\'') :
    scanStr ((quoteString s).tail ++ rest) = some (s, rest) := by
  simpa [quoteString] using scan_quoteBody s rest h

example : scanStr ((quoteString "a' OR 1=1 -- \\".toList).tail ++ " AS v".toList)
    = some ("a' OR 1=1 -- \\".toList, " AS v".toList) := by decide +kernel

/-! ## 2. Numbers, booleans, NULL -/

/-- the value of a string of decimal digits -/
def digitsVal (ds : List Char) : Nat := ds.foldl (fun a c => a * 10 + (c.toNat - 48)) 0

theorem digitChar_spec (d : Nat) (h : d < 10) :
    isDigit (digitChar d) = true ∧ (digitChar d).toNat - 48 = d := by
  have : d = 0 ∨ d = 1 ∨ d = 2 ∨ d = 3 ∨ d = 4 ∨ d = 5 ∨ d = 6 ∨ d = 7 ∨ d = 8 ∨ d = 9 := by omega
  rcases this with rfl | rfl | rfl | rfl | rfl | rfl | rfl | rfl | rfl | rfl <;> decide

theorem natDigitsAux_spec (fuel : Nat) : ∀ (n : Nat) (acc : List Char), n < fuel →
    ∃ ds, natDigitsAux fuel n acc = ds ++ acc ∧ ds ≠ [] ∧ (∀ c ∈ ds, isDigit c = true) ∧
      digitsVal ds = n := by
  induction fuel with
  | zero => intro n acc h; omega
  | succ fuel ih =>
    intro n acc h
    have hd := digitChar_spec (n % 10) (Nat.mod_lt _ (by omega))
    by_cases h0 : n / 10 = 0
    · refine ⟨[digitChar (n % 10)], by simp [natDigitsAux, h0], by simp, by simpa using hd.1, ?_⟩
      simp only [digitsVal, List.foldl_cons, List.foldl_nil, hd.2]; omega
    · obtain ⟨ds, h1, _, h3, h4⟩ := ih (n / 10) (digitChar (n % 10) :: acc) (by omega)
      refine ⟨ds ++ [digitChar (n % 10)], by simp [natDigitsAux, h0, h1], by simp, ?_, ?_⟩
      · intro c hc
        rcases List.mem_append.1 hc with hc | hc
        · exact h3 c hc
        · have : c = digitChar (n % 10) := by simpa using hc
          subst this; exact hd.1
      · unfold digitsVal at h4 ⊢
        rw [List.foldl_append, h4]
        simp only [List.foldl_cons, List.foldl_nil, hd.2]; omega

/-- decimal rendering: non-empty, digits only, and it denotes the number. -/
theorem natDigits_spec (n : Nat) :
    natDigits n ≠ [] ∧ (∀ c ∈ natDigits n, isDigit c = true) ∧ digitsVal (natDigits n) = n := by
  obtain ⟨ds, h1, h2, h3, h4⟩ := natDigitsAux_spec (n + 1) n [] (by omega)
  have : natDigits n = ds := by simpa [natDigits] using h1
  rw [this]; exact ⟨h2, h3, h4⟩

/-- **Integer arguments** are rendered as an optional `-` followed by a non-empty string of
    decimal digits whose value is `|i|`: one numeric token that evaluates to `i`; in particular
    every character is in `[0-9-]`. -/
theorem number_single_token (i : Int) :
    (∃ ds, fmtArg (.int i) = (if i < 0 then ['-'] else []) ++ ds ∧ ds ≠ [] ∧
        (∀ c ∈ ds, isDigit c = true) ∧ digitsVal ds = i.natAbs) ∧
    (∀ c ∈ fmtArg (.int i), c = '-' ∨ isDigit c = true) := by
  obtain ⟨h1, h2, h3⟩ := natDigits_spec i.natAbs
  constructor
  · refine ⟨natDigits i.natAbs, ?_, h1, h2, h3⟩
    by_cases h : i < 0 <;> simp [fmtArg, fmtInt, h]
  · intro c hc
    by_cases h : i < 0 <;> simp only [fmtArg, fmtInt, h, ↓reduceIte, List.mem_cons] at hc
    · rcases hc with hc | hc
      · exact .inl hc
      · exact .inr (h2 c hc)
    · exact .inr (h2 c hc)

example : fmtArg (.int (-1203)) = "-1203".toList := by decide +kernel
example : fmtArg (.int 0) = "0".toList := by decide +kernel

/-- **Boolean and NULL arguments** are rendered as the bare keywords `true` / `false` / `null`. -/
theorem bool_null_keyword :
    fmtArg .null = "null".toList ∧ fmtArg (.bool true) = "true".toList ∧
    fmtArg (.bool false) = "false".toList := by decide +kernel

/-! ## 3. `Sanitize`: shape of the output, errors, no panic -/

/-- what a part contributes to the output: raw text unchanged, a placeholder the text of its
    argument -/
def render (args : List Arg) : Part → List Char
  | .raw s => s
  | .ph n => match args[(n - 1).toNat]? with
    | some a => fmtArg a
    | none => []

/-- the template with every placeholder replaced by the text of its argument -/
def expand (args : List Arg) (parts : List Part) : List Char := (parts.map (render args)).flatten

/-- every placeholder refers to a supplied argument (`$1` … `$len`) -/
def InRange (args : List Arg) (parts : List Part) : Prop :=
  ∀ n, Part.ph n ∈ parts → 1 ≤ n ∧ n ≤ (args.length : Int)

/-- every supplied argument is referenced by some placeholder -/
def AllUsed (args : List Arg) (parts : List Part) : Prop :=
  ∀ i, i < args.length → Part.ph ((i : Int) + 1) ∈ parts

theorem subst_spec (args : List Arg) (parts : List Part) :
    (InRange args parts ∧ subst args parts = .ok (expand args parts)) ∨
    (¬ InRange args parts ∧ subst args parts = .error .error) := by
  induction parts with
  | nil => left; exact ⟨(by intro n h; cases h), rfl⟩
  | cons p ps ih =>
    have hcons : ∀ q, InRange args (q :: ps) ↔
        (∀ n, q = .ph n → 1 ≤ n ∧ n ≤ (args.length : Int)) ∧ InRange args ps := by
      intro q; constructor
      · intro h; exact ⟨fun n e => h n (by simp [e]), fun n hn => h n (List.mem_cons_of_mem _ hn)⟩
      · rintro ⟨h1, h2⟩ n hn
        rcases List.mem_cons.1 hn with e | hn
        · exact h1 n e.symm
        · exact h2 n hn
    cases p with
    | raw s =>
      have hr : InRange args (.raw s :: ps) ↔ InRange args ps := by
        rw [hcons]; simp
      rcases ih with ⟨h1, h2⟩ | ⟨h1, h2⟩
      · left; exact ⟨hr.2 h1, by simp [subst, h2, expand, render]⟩
      · right; exact ⟨fun h => h1 (hr.1 h), by simp [subst, h2]⟩
    | ph n =>
      have hr : InRange args (.ph n :: ps) ↔
          (1 ≤ n ∧ n ≤ (args.length : Int)) ∧ InRange args ps := by
        rw [hcons]; simp
      by_cases hn : 1 ≤ n ∧ n ≤ (args.length : Int)
      · have hlt : (n - 1).toNat < args.length := by omega
        have hget : args[(n - 1).toNat]? = some args[(n - 1).toNat] := List.getElem?_eq_getElem hlt
        have c1 : ¬ (n - 1 < 0) := by omega
        have c2 : ¬ ((n - 1).toNat ≥ args.length) := by omega
        rcases ih with ⟨h1, h2⟩ | ⟨h1, h2⟩
        · left; refine ⟨hr.2 ⟨hn, h1⟩, ?_⟩
          simp only [subst, c1, c2, ↓reduceIte, hget, h2, expand, render, List.map_cons,
            List.flatten_cons]
        · right; refine ⟨fun h => h1 (hr.1 h).2, ?_⟩
          simp only [subst, c1, c2, ↓reduceIte, hget, h2]
      · right; refine ⟨fun h => hn (hr.1 h).1, ?_⟩
        by_cases c1 : n - 1 < 0
        · simp [subst, c1]
        · have c2 : (n - 1).toNat ≥ args.length := by omega
          simp only [subst, c1, c2, ↓reduceIte]

theorem allUsed_iff (args : List Arg) (parts : List Part) :
    (List.range args.length).all (argUsed parts) = true ↔ AllUsed args parts := by
  simp [AllUsed, argUsed, List.all_eq_true, List.any_eq_true]

/-- **Complete characterisation of `SanitizeSQL`.**  It succeeds exactly when every placeholder
    is one of `$1 … $len(args)` and every argument is used; the result then is the template with
    raw parts unchanged and each placeholder replaced by the text of its argument.  In every
    other case it returns an error (never a panic). -/
theorem sanitize_spec (t : List Char) (args : List Arg) :
    (InRange args (lex t) ∧ AllUsed args (lex t) ∧
        sanitize t args = .ok (expand args (lex t))) ∨
    (¬ (InRange args (lex t) ∧ AllUsed args (lex t)) ∧ sanitize t args = .error .error) := by
  rcases subst_spec args (lex t) with ⟨h1, h2⟩ | ⟨h1, h2⟩
  · by_cases hu : AllUsed args (lex t)
    · left; refine ⟨h1, hu, ?_⟩
      simp [sanitize, sanitizeParts, h2, (allUsed_iff args (lex t)).2 hu]
    · right; refine ⟨fun h => hu h.2, ?_⟩
      have : ¬ (List.range args.length).all (argUsed (lex t)) = true :=
        fun h => hu ((allUsed_iff _ _).1 h)
      simp only [sanitize, sanitizeParts, h2]
      simp [this]
  · right; exact ⟨fun h => h1 h.1, by simp [sanitize, sanitizeParts, h2]⟩

/-- **Shape.**  A successful result is the concatenation, over the parts of the template, of the
    raw parts unchanged and, for each placeholder `$n`, the formatted `args[n-1]` (which exists);
    and every argument occurs. -/
theorem sanitize_shape (t : List Char) (args : List Arg) (out : List Char)
    (h : sanitize t args = .ok out) :
    out = ((lex t).map (render args)).flatten ∧
    (∀ n, Part.ph n ∈ lex t → ∃ a, 1 ≤ n ∧ args[(n - 1).toNat]? = some a ∧
        render args (.ph n) = fmtArg a) ∧
    AllUsed args (lex t) := by
  rcases sanitize_spec t args with ⟨h1, h2, h3⟩ | ⟨_, h3⟩
  · rw [h3] at h
    refine ⟨by injection h with h; exact h.symm, ?_, h2⟩
    intro n hn
    have := h1 n hn
    have hlt : (n - 1).toNat < args.length := by omega
    refine ⟨args[(n - 1).toNat], this.1, List.getElem?_eq_getElem hlt, ?_⟩
    simp only [render, List.getElem?_eq_getElem hlt]
  · rw [h3] at h; cases h

example : sanitizeStr "SELECT $2, $1, $2" [.int 7, .str "x'y"]
    = some "SELECT 'x''y', 7, 'x''y'" := by decide +kernel

/-- **Missing / unused arguments are reported as errors.** -/
theorem missing_unused_reported (t : List Char) (args : List Arg) :
    ((∃ n, Part.ph n ∈ lex t ∧ (args.length : Int) < n) → sanitize t args = .error .error) ∧
    ((∃ i, i < args.length ∧ Part.ph ((i : Int) + 1) ∉ lex t) → sanitize t args = .error .error) := by
  constructor
  · rintro ⟨n, hn, hlt⟩
    rcases sanitize_spec t args with ⟨h1, _, _⟩ | ⟨_, h3⟩
    · have := h1 n hn; omega
    · exact h3
  · rintro ⟨i, hi, hni⟩
    rcases sanitize_spec t args with ⟨_, h2, _⟩ | ⟨_, h3⟩
    · exact absurd (h2 i hi) hni
    · exact h3

/-- **`$0`** (and any placeholder number that is not positive, which can only arise from 64-bit
    overflow of the digits) is reported as an error. -/
theorem placeholder_zero_error (t : List Char) (args : List Arg) (n : Int) (hn : n ≤ 0)
    (h : Part.ph n ∈ lex t) : sanitize t args = .error .error := by
  rcases sanitize_spec t args with ⟨h1, _, _⟩ | ⟨_, h3⟩
  · have := h1 n h; omega
  · exact h3

/-- **No panic**, for all templates and all argument lists. -/
theorem sanitize_no_panic (t : List Char) (args : List Arg) :
    sanitize t args ≠ .error .panic ∧ sanitize t args ≠ .error .oom := by
  rcases sanitize_spec t args with ⟨_, _, h3⟩ | ⟨_, h3⟩ <;> rw [h3] <;> simp

/-! ## 4. The lexer: `$n` inside literals, quoted identifiers and comments -/

/-- the placeholder numbers among the parts, in order -/
def phs (ps : List Part) : List Int :=
  ps.filterMap (fun p => match p with | .ph n => some n | .raw _ => none)

@[simp] theorem phs_nil : phs [] = [] := rfl
@[simp] theorem phs_raw (s : List Char) (ps : List Part) : phs (.raw s :: ps) = phs ps := rfl
@[simp] theorem phs_ph (n : Int) (ps : List Part) : phs (.ph n :: ps) = n :: phs ps := rfl
@[simp] theorem phs_append (p q : List Part) : phs (p ++ q) = phs p ++ phs q := by
  simp [phs, List.filterMap_append]

theorem mem_phs {n : Int} {ps : List Part} : n ∈ phs ps ↔ Part.ph n ∈ ps := by
  induction ps with
  | nil => simp
  | cons p ps ih => cases p <;> simp [ih]

/-- one loop iteration, for the state functions other than `placeholderState` -/
theorem go_cons (st : St) (hst : ∀ num, st ≠ .ph num) (acc : List Char) (c : Char) (cs : List Char) :
    go st acc (c :: cs) =
      match step st c cs.head? with
      | .next st' => go st' (c :: acc) cs
      | .next2 st' =>
        (match cs with
         | d :: cs' => go st' (d :: c :: acc) cs'
         | [] => atEnd st' (c :: acc))
      | .startPh => .raw acc.reverse :: go (.ph 0) [] cs
      | .digit num => go (.ph num) [] cs := by
  cases st <;> first | exact absurd rfl (hst _) | (simp only [go, leavesPh, Bool.false_eq_true, ↓reduceIte, List.nil_append]; rfl)

theorem go_next {st st' : St} (hst : ∀ num, st ≠ .ph num) {c : Char} {cs : List Char}
    (h : step st c cs.head? = .next st') (acc : List Char) :
    go st acc (c :: cs) = go st' (c :: acc) cs := by
  rw [go_cons st hst, h]

theorem go_next2 {st st' : St} (hst : ∀ num, st ≠ .ph num) {c d : Char} {cs : List Char}
    (h : step st c (some d) = .next2 st') (acc : List Char) :
    go st acc (c :: d :: cs) = go st' (d :: c :: acc) cs := by
  rw [go_cons st hst]; simp only [List.head?_cons, h]

theorem phs_atEnd (st : St) (acc acc' : List Char) : phs (atEnd st acc) = phs (atEnd st acc') := by
  cases st <;> simp only [atEnd] <;> (try split) <;> (try split) <;> rfl

/-- the placeholders found do not depend on the pending raw text -/
theorem phs_go_acc (n : Nat) : ∀ xs : List Char, xs.length ≤ n → ∀ (st : St) (acc acc' : List Char),
    phs (go st acc xs) = phs (go st acc' xs) := by
  induction n with
  | zero =>
    intro xs h st acc acc'
    have : xs = [] := List.eq_nil_of_length_eq_zero (by omega)
    subst this; exact phs_atEnd st acc acc'
  | succ n ih =>
    intro xs h st acc acc'
    cases xs with
    | nil => exact phs_atEnd st acc acc'
    | cons c cs =>
      have hcs : cs.length ≤ n := by simp at h; omega
      cases st
      all_goals
        simp only [go, phs_append]
        congr 1
        generalize (if leavesPh _ c = true then [] else acc) = a
        generalize (if leavesPh _ c = true then [] else acc') = a'
        cases step _ c cs.head? with
        | next st' => exact ih cs hcs st' _ _
        | next2 st' =>
          cases cs with
          | nil => exact phs_atEnd st' _ _
          | cons d cs' => exact ih cs' (by simp at hcs; omega) st' _ _
        | startPh => simp
        | digit num => rfl

theorem phs_go_nil_acc (st : St) (acc : List Char) (xs : List Char) :
    phs (go st acc xs) = phs (go st [] xs) := phs_go_acc xs.length xs (Nat.le_refl _) st acc []

theorem raw_ne_ph : ∀ num, St.raw ≠ .ph num := by intro _ h; cases h
theorem sq_ne_ph : ∀ num, St.sq ≠ .ph num := by intro _ h; cases h
theorem dq_ne_ph : ∀ num, St.dq ≠ .ph num := by intro _ h; cases h
theorem olc_ne_ph : ∀ num, St.olc ≠ .ph num := by intro _ h; cases h
theorem mlc_ne_ph (k : Nat) : ∀ num, St.mlc k ≠ .ph num := by intro _ h; cases h

/-- inside `'…'`: everything up to the closing quote stays raw text -/
theorem go_sq_body (post : List Char) (hpost : post.head? ≠ some '\'') :
    ∀ (body acc : List Char), '\'' ∉ body →
      go .sq acc (body ++ '\'' :: post) = go .raw ('\'' :: (body.reverse ++ acc)) post := by
  intro body
  induction body with
  | nil =>
    intro acc _
    exact go_next sq_ne_ph (by simp [step, sqStep, hpost]) acc
  | cons c cs ih =>
    intro acc h
    have hc : c ≠ '\'' := fun e => h (by simp [e])
    have hcs : '\'' ∉ cs := fun e => h (List.mem_cons_of_mem _ e)
    rw [List.cons_append, go_next sq_ne_ph (st' := .sq) (by simp [step, sqStep, hc]), ih _ hcs]
    simp

/-- inside `"…"` -/
theorem go_dq_body (post : List Char) (hpost : post.head? ≠ some '"') :
    ∀ (body acc : List Char), '"' ∉ body →
      go .dq acc (body ++ '"' :: post) = go .raw ('"' :: (body.reverse ++ acc)) post := by
  intro body
  induction body with
  | nil =>
    intro acc _
    exact go_next dq_ne_ph (by simp [step, dqStep, hpost]) acc
  | cons c cs ih =>
    intro acc h
    have hc : c ≠ '"' := fun e => h (by simp [e])
    have hcs : '"' ∉ cs := fun e => h (List.mem_cons_of_mem _ e)
    rw [List.cons_append, go_next dq_ne_ph (st' := .dq) (by simp [step, dqStep, hc]), ih _ hcs]
    simp

/-- inside `-- …` up to the end of the line -/
theorem go_olc_body (post : List Char) (nl : Char) (hnl : nl = '\n' ∨ nl = '\r') :
    ∀ (body acc : List Char), '\\' ∉ body → '\n' ∉ body → '\r' ∉ body →
      go .olc acc (body ++ nl :: post) = go .raw (nl :: (body.reverse ++ acc)) post := by
  intro body
  induction body with
  | nil =>
    intro acc _ _ _
    have : nl ≠ '\\' := by rcases hnl with rfl | rfl <;> decide
    exact go_next olc_ne_ph (by simp [step, olcStep, this, hnl]) acc
  | cons c cs ih =>
    intro acc h1 h2 h3
    have c1 : c ≠ '\\' := fun e => h1 (by simp [e])
    have c2 : c ≠ '\n' := fun e => h2 (by simp [e])
    have c3 : c ≠ '\r' := fun e => h3 (by simp [e])
    rw [List.cons_append, go_next olc_ne_ph (st' := .olc) (by simp [step, olcStep, c1, c2, c3]),
      ih _ (fun e => h1 (List.mem_cons_of_mem _ e)) (fun e => h2 (List.mem_cons_of_mem _ e))
        (fun e => h3 (List.mem_cons_of_mem _ e))]
    simp

/-- inside `/* … */` (body without `*`, not ending in `/`, so that neither `/*` nor an early `*/`
    occurs) -/
theorem go_mlc_body (post : List Char) :
    ∀ (body acc : List Char), '*' ∉ body → body.getLast? ≠ some '/' →
      go (.mlc 0) acc (body ++ '*' :: '/' :: post) = go .raw ('/' :: '*' :: (body.reverse ++ acc)) post := by
  intro body
  induction body with
  | nil =>
    intro acc _ _
    exact go_next2 (mlc_ne_ph 0) (by simp [step, mlcStep]) acc
  | cons c cs ih =>
    intro acc h1 h2
    have c1 : c ≠ '*' := fun e => h1 (by simp [e])
    have hcs : '*' ∉ cs := fun e => h1 (List.mem_cons_of_mem _ e)
    have hstep : step (.mlc 0) c (cs ++ '*' :: '/' :: post).head? = .next (.mlc 0) := by
      by_cases c2 : c = '/'
      · cases cs with
        | nil => exact absurd (by simp [c2]) h2
        | cons d ds =>
          have : d ≠ '*' := fun e => hcs (by simp [e])
          simp [step, mlcStep, c2, this]
      · simp [step, mlcStep, c1, c2]
    have hlast : cs.getLast? ≠ some '/' := by
      cases cs with
      | nil => simp
      | cons d ds => simpa [List.getLast?_cons_cons] using h2
    rw [List.cons_append, go_next (mlc_ne_ph 0) hstep, ih _ hcs hlast]
    simp

/-- A quoted segment `q` of a template, followed by `post`:
    * `'body'`   — `body` without `'`, and `post` does not start with `'` (else the literal goes on);
    * `"body"`   — likewise with `"`;
    * `-- body⏎` — `body` without backslash / newline / carriage return, closed by `\n` or `\r`;
    * `/* body */` — `body` without `*` and not ending in `/`. -/
inductive QuotedSeg : List Char → List Char → Prop
  | sq (body post : List Char) : '\'' ∉ body → post.head? ≠ some '\'' →
      QuotedSeg ('\'' :: (body ++ ['\''])) post
  | dq (body post : List Char) : '"' ∉ body → post.head? ≠ some '"' →
      QuotedSeg ('"' :: (body ++ ['"'])) post
  | lineComment (body post : List Char) (nl : Char) : (nl = '\n' ∨ nl = '\r') →
      '\\' ∉ body → '\n' ∉ body → '\r' ∉ body → QuotedSeg ('-' :: '-' :: (body ++ [nl])) post
  | blockComment (body post : List Char) : '*' ∉ body → body.getLast? ≠ some '/' →
      QuotedSeg ('/' :: '*' :: (body ++ ['*', '/'])) post

/-- **Quoted segments are transparent.**  Whenever the lexer is in `rawState` (with whatever
    pending text) in front of a quoted segment, it copies the whole segment into the pending raw
    text and is in `rawState` again right after it: nothing inside is taken for a placeholder. -/
theorem go_raw_quoted {q post : List Char} (h : QuotedSeg q post) (acc : List Char) :
    go .raw acc (q ++ post) = go .raw (q.reverse ++ acc) post := by
  cases h with
  | sq body post h1 h2 =>
    have := go_sq_body post h2 body ('\'' :: acc) h1
    rw [List.cons_append, go_next raw_ne_ph (st' := .sq) (by simp [step, rawStep]),
      List.append_assoc, List.singleton_append, this]
    simp
  | dq body post h1 h2 =>
    have := go_dq_body post h2 body ('"' :: acc) h1
    rw [List.cons_append, go_next raw_ne_ph (st' := .dq) (by simp [step, rawStep]),
      List.append_assoc, List.singleton_append, this]
    simp
  | lineComment body post nl h0 h1 h2 h3 =>
    have := go_olc_body post nl h0 body ('-' :: '-' :: acc) h1 h2 h3
    rw [List.cons_append, List.cons_append, go_next2 raw_ne_ph (st' := .olc) (by simp [step, rawStep]),
      List.append_assoc, List.singleton_append, this]
    simp
  | blockComment body post h1 h2 =>
    have := go_mlc_body post body ('*' :: '/' :: acc) h1 h2
    rw [List.cons_append, List.cons_append,
      go_next2 raw_ne_ph (st' := .mlc 0) (by simp [step, rawStep]), List.append_assoc]
    simp only [List.cons_append, List.nil_append]
    rw [this]; simp

/-- `pre` leaves the lexer in `rawState`, whatever follows: the parts of `pre ++ rest` are some
    fixed parts `ps` followed by what `rawState` produces on `rest` with some pending text. -/
def RawAfter (pre : List Char) : Prop :=
  ∃ (ps : List Part) (acc : List Char), ∀ rest, lex (pre ++ rest) = ps ++ go .raw acc rest

theorem RawAfter.nil : RawAfter [] := ⟨[], [], fun _ => rfl⟩

theorem RawAfter.append {pre q : List Char} (h : RawAfter pre)
    (hq : ∀ acc rest, go .raw acc (q ++ rest) = go .raw (q.reverse ++ acc) rest) :
    RawAfter (pre ++ q) := by
  obtain ⟨ps, acc, h⟩ := h
  exact ⟨ps, q.reverse ++ acc, fun rest => by rw [List.append_assoc, h, hq]⟩

/-- characters that `rawState` passes over without looking further (`e`/`E` only look ahead) -/
def Safe (c : Char) : Prop := c ≠ '\'' ∧ c ≠ '"' ∧ c ≠ '$' ∧ c ≠ '-' ∧ c ≠ '/'

theorem go_raw_safe : ∀ (pre acc rest : List Char), (∀ c ∈ pre, Safe c) →
    pre.getLast? ≠ some 'e' → pre.getLast? ≠ some 'E' →
    go .raw acc (pre ++ rest) = go .raw (pre.reverse ++ acc) rest := by
  intro pre
  induction pre with
  | nil => intro acc rest _ _ _; rfl
  | cons c cs ih =>
    intro acc rest hs h1 h2
    obtain ⟨s1, s2, s3, s4, s5⟩ := hs c (by simp)
    have hstep : step .raw c (cs ++ rest).head? = .next .raw := by
      cases cs with
      | nil =>
        have e1 : c ≠ 'e' := fun e => h1 (by simp [e])
        have e2 : c ≠ 'E' := fun e => h2 (by simp [e])
        simp [step, rawStep, s1, s2, s3, s4, s5, e1, e2]
      | cons d ds =>
        have := (hs d (by simp)).1
        simp only [step, rawStep, s1, s2, s3, s4, s5, List.cons_append, List.head?_cons,
          Option.some.injEq, this, ↓reduceIte]
        split <;> rfl
    have hl1 : cs.getLast? ≠ some 'e' := by
      cases cs with
      | nil => simp
      | cons d ds => simpa [List.getLast?_cons_cons] using h1
    have hl2 : cs.getLast? ≠ some 'E' := by
      cases cs with
      | nil => simp
      | cons d ds => simpa [List.getLast?_cons_cons] using h2
    rw [List.cons_append, go_next raw_ne_ph hstep,
      ih _ _ (fun x hx => hs x (List.mem_cons_of_mem _ hx)) hl1 hl2]
    simp

/-- plain SQL text (no quote, `$`, `-`, `/`; not ending in `e`/`E`) leaves the lexer in `rawState` -/
theorem rawAfter_of_safe (pre : List Char) (hs : ∀ c ∈ pre, Safe c)
    (h1 : pre.getLast? ≠ some 'e') (h2 : pre.getLast? ≠ some 'E') : RawAfter pre :=
  ⟨[], pre.reverse, fun rest => by simpa [lex] using go_raw_safe pre [] rest hs h1 h2⟩

/-- **`$n` inside string literals, double-quoted identifiers and comments is left alone**
    (partial: for the quoting forms the pinned lexer knows).  If the template is
    `pre ++ q ++ post`, where the lexer is in `rawState` after `pre` and `q` is a quoted segment,
    then the placeholders of the template are exactly those of `pre` followed by those of `post`:
    no `$n` inside `q` is substituted, and `q` does not disturb the lexing of `post`.

    FULL statement of C16 for this clause (NOT provable for the pinned lexer): "for every
    segment `q` that the MySQL-dialect tokenizer reads as ONE token of kind string literal
    (`'…'` or `"…"`, with backslash escapes and doubled delimiters), quoted identifier
    (`` `…` ``) or comment (`-- …`, `# …`, `/* … */`), no `$n` inside `q` is a placeholder."
    It fails because the lexer (extracted from pgx, PostgreSQL conventions) and the tokenizer
    disagree on where such segments end:
      * backtick identifiers are unknown to the lexer       → `backtick_counterexample` (KF-lexer-backtick);
      * inside `'…'` / `"…"` the lexer treats `\` as an ordinary character, the tokenizer as an
        escape                                               → `backslash_template_counterexample`;
      * `#` comments are unknown to the lexer                → `hash_comment_counterexample`.
    The hypotheses of `QuotedSeg` (no `'` in the body, …) are what makes the two readings agree
    (together with "no backslash in the body" for the two string forms, see `sq_segment_agrees`). -/
theorem lexer_skips_quoted_partial {pre q post : List Char} (hpre : RawAfter pre)
    (hq : QuotedSeg q post) :
    phs (lex (pre ++ q ++ post)) = phs (lex pre) ++ phs (lex post) := by
  obtain ⟨ps, acc, h⟩ := hpre
  have h1 : lex pre = ps ++ go .raw acc [] := by simpa using h []
  have h2 : phs (go .raw acc []) = [] := by
    simp only [go, atEnd]; split <;> rfl
  rw [List.append_assoc, h, go_raw_quoted hq, h1, phs_append, phs_append, h2, phs_go_nil_acc]
  simp [lex]

/-- the stronger, textual form: the segment is copied verbatim into the pending raw text -/
theorem lexer_copies_quoted {pre q post : List Char} (hq : QuotedSeg q post) (ps : List Part)
    (acc : List Char) (h : ∀ rest, lex (pre ++ rest) = ps ++ go .raw acc rest) :
    lex (pre ++ q ++ post) = ps ++ go .raw (q.reverse ++ acc) post := by
  rw [List.append_assoc, h, go_raw_quoted hq]

/-- on a `'…'` segment without `'` and `\` in the body the tokenizer agrees with the lexer about
    where the literal ends -/
theorem sq_segment_agrees (body post : List Char) (h1 : '\'' ∉ body) (h2 : '\\' ∉ body)
    (hpost : post.head? ≠ some '\'') : scanStr (body ++ '\'' :: post) = some (body, post) := by
  have : quoteBody body = body := by
    induction body with
    | nil => rfl
    | cons c cs ih =>
      have c1 : c ≠ '\'' := fun e => h1 (by simp [e])
      have c2 : c ≠ '\\' := fun e => h2 (by simp [e])
      simp [quoteBody, c1, c2, ih (fun e => h1 (List.mem_cons_of_mem _ e))
        (fun e => h2 (List.mem_cons_of_mem _ e))]
  simpa [this] using scan_quoteBody body post hpost

-- the hypotheses are satisfiable on a non-trivial template: `$2` (in a literal), `$3` (in a
-- comment) are not placeholders, `$1` and `$4` are.
example : phs (lex ("SELECT $1, ".toList ++ "'it costs $2'".toList ++ " /* $3 */ + $4".toList))
    = [1, 4] := by decide +kernel
example : RawAfter "SELECT $1, ".toList :=
  ⟨[.raw "SELECT ".toList, .ph 1], [' ', ','], fun rest => by
    have : "SELECT $1, ".toList = ['S','E','L','E','C','T',' ','$','1',',',' '] := by decide +kernel
    rw [this]
    simp [lex, go, step, rawStep, leavesPh, isDigit, pushDigit, toInt64, two63, two64]⟩
example : QuotedSeg "'it costs $2'".toList " /* $3 */ + $4".toList := by
  have : "'it costs $2'".toList = '\'' :: ("it costs $2".toList ++ ['\'']) := by decide +kernel
  rw [this]; exact .sq _ _ (by decide +kernel) (by decide +kernel)

/-- KF-lexer-backtick: the pinned lexer DOES substitute `$1` inside a backtick-quoted identifier. -/
theorem backtick_counterexample :
    sanitizeStr "SELECT `a$1` FROM t" [.str "x` FROM u -- "]
      = some "SELECT `a'x` FROM u -- '` FROM t" := by decide +kernel

/-- template literal with a backslash escape: for the tokenizer `'\'$1'` is ONE literal (value
    `'$1`), the lexer sees the literal `'\'`, then the placeholder `$1`, then an opening quote. -/
theorem backslash_template_counterexample :
    scanStr "\\'$1'".toList = some ("'$1".toList, []) ∧ phs (lex "'\\'$1'".toList) = [1] := by
  decide +kernel

/-- `# …` is a comment for the tokenizer, ordinary text for the lexer. -/
theorem hash_comment_counterexample : phs (lex "SELECT 1 # $1\n".toList) = [1] := by
  decide +kernel

/-! ## 5. Placeholders: `placeholderState`, `$0`, the echo template -/

/-- `placeholderState` on a digit -/
theorem go_ph_digit (k : Nat) (acc : List Char) {c : Char} (cs : List Char) (h : isDigit c = true) :
    go (.ph k) acc (c :: cs) = go (.ph (pushDigit k c)) [] cs := by
  simp [go, leavesPh, step, h]

/-- `placeholderState` on a non-digit: the number is appended, the rune is un-read and
    `rawState` continues with nothing pending -/
theorem go_ph_leave (k : Nat) (acc : List Char) {c : Char} (cs : List Char) (h : isDigit c = false) :
    go (.ph k) acc (c :: cs) = .ph (toInt64 k) :: go .raw [] (c :: cs) := by
  rw [go_cons .raw raw_ne_ph]
  simp only [go, leavesPh, step, h, Bool.not_false, ↓reduceIte, Bool.false_eq_true,
    List.singleton_append, List.cons.injEq, true_and]
  rfl

/-- **`$0` in a template is reported as an error** (whatever the arguments): stated on the
    template text — `$0` in raw position, not followed by a further digit. -/
theorem placeholder_zero_error_template {pre post : List Char} (hpre : RawAfter pre)
    (hpost : ∀ c, post.head? = some c → isDigit c = false) (args : List Arg) :
    sanitize (pre ++ '$' :: '0' :: post) args = .error .error := by
  obtain ⟨ps, acc, h⟩ := hpre
  apply placeholder_zero_error _ _ 0 (Int.le_refl _)
  rw [h, go_cons .raw raw_ne_ph]
  have h0 : isDigit '0' = true := by decide
  have hp : pushDigit 0 '0' = 0 := by decide
  have ht : toInt64 0 = 0 := by decide
  simp only [step, rawStep, List.head?_cons, h0, ↓reduceIte]
  simp only [show ¬ (('$' : Char) = 'e' ∨ ('$' : Char) = 'E') by decide,
    show ('$' : Char) ≠ '\'' by decide, show ('$' : Char) ≠ '"' by decide, ↓reduceIte]
  rw [go_ph_digit 0 [] post h0, hp]
  cases post with
  | nil => simp [go, atEnd, ht]
  | cons c cs =>
    rw [go_ph_leave 0 [] cs (hpost c rfl), ht]
    simp

instance : DecidablePred Safe := fun c => by unfold Safe; infer_instance

example : sanitize ("SELECT ".toList ++ '$' :: '0' :: " AS v".toList) [.int 1] = .error .error :=
  placeholder_zero_error_template
    (rawAfter_of_safe _ (by decide +kernel) (by decide +kernel) (by decide +kernel))
    (by decide +kernel) _

example : sanitizeStr "SELECT $0 AS v" [.int 1] = none := by decide +kernel
example : sanitizeStr "SELECT $2 AS v" [.int 1] = none := by decide +kernel          -- missing
example : sanitizeStr "SELECT $1 AS v" [.int 1, .int 2] = none := by decide +kernel  -- unused
example : sanitizeStr "SELECT $1, $1" [.int 7] = some "SELECT 7, 7" := by decide +kernel
/-- the placeholder number is a 64-bit Go `int` and wraps: `$18446744073709551617` is `$1` -/
example : sanitizeStr "SELECT $18446744073709551617" [.int 7] = some "SELECT 7" := by decide +kernel

def echoTemplate : List Char := "SELECT $1 AS v FROM dual".toList
def echoHead : List Char := "SELECT ".toList
def echoTail : List Char := " AS v FROM dual".toList

theorem lex_echo : lex echoTemplate = [.raw echoHead, .ph 1, .raw echoTail] := by decide +kernel

/-- `SELECT $1 AS v FROM dual` with one argument of any kind: the output is the template with
    the placeholder replaced by the argument's text. -/
theorem echo_any (a : Arg) :
    sanitize echoTemplate [a] = .ok (echoHead ++ fmtArg a ++ echoTail) := by
  have hu : (List.range [a].length).all (argUsed (lex echoTemplate)) = true := by
    rw [lex_echo]; simp only [List.length_singleton]; decide
  simp only [sanitize, sanitizeParts]
  rw [hu, lex_echo]
  simp [subst]

/-- **Echo.**  For EVERY string `s`, `SELECT $1 AS v FROM dual` becomes
    `SELECT '…' AS v FROM dual` where the tokenizer reads `'…'` as one string literal with value
    exactly `s` and then continues with the unchanged tail ` AS v FROM dual`. -/
theorem echo_string (s : String) :
    ∃ lit, sanitize echoTemplate [.str s] = .ok (echoHead ++ '\'' :: lit ++ echoTail) ∧
      scanStr (lit ++ echoTail) = some (s.toList, echoTail) := by
  refine ⟨(quoteString s.toList).tail, ?_, quote_roundtrip _ _ (by decide +kernel)⟩
  rw [echo_any]; simp [fmtArg, quoteString]

example : sanitizeStr "SELECT $1 AS v FROM dual" [.str "a' OR 1=1 -- "]
    = some "SELECT 'a'' OR 1=1 -- ' AS v FROM dual" := by decide +kernel
example : sanitizeStr "SELECT $1 AS v FROM dual" [.str "\\' OR 1=1 -- "]
    = some "SELECT '\\\\'' OR 1=1 -- ' AS v FROM dual" := by decide +kernel
example : scanStr "\\\\'' OR 1=1 -- ' AS v FROM dual".toList
    = some ("\\' OR 1=1 -- ".toList, " AS v FROM dual".toList) := by decide +kernel
example : sanitizeStr "SELECT $1 AS v FROM dual" [.str "x\n\u0000\u001a%_\"é"]
    = some "SELECT 'x\n\u0000\u001a%_\"é' AS v FROM dual" := by decide +kernel
example : sanitizeStr "SELECT $1, $2, $3, $4 FROM dual" [.int (-42), .bool true, .null, .float "1.5"]
    = some "SELECT -42, true, null, 1.5 FROM dual" := by decide +kernel
example : sanitizeStr "SELECT '$1', \"$1\", e'\\'$1' -- $1\n /* $1 /* $1 */ $1 */ , $1" [.int 5]
    = some "SELECT '$1', \"$1\", e'\\'$1' -- $1\n /* $1 /* $1 */ $1 */ , 5" := by decide +kernel

end Genql.C16

#print axioms Genql.C16.quoteString_eq_passes
#print axioms Genql.C16.quote_roundtrip
#print axioms Genql.C16.number_single_token
#print axioms Genql.C16.bool_null_keyword
#print axioms Genql.C16.sanitize_spec
#print axioms Genql.C16.sanitize_shape
#print axioms Genql.C16.missing_unused_reported
#print axioms Genql.C16.placeholder_zero_error
#print axioms Genql.C16.placeholder_zero_error_template
#print axioms Genql.C16.sanitize_no_panic
#print axioms Genql.C16.go_raw_quoted
#print axioms Genql.C16.lexer_skips_quoted_partial
#print axioms Genql.C16.lexer_copies_quoted
#print axioms Genql.C16.sq_segment_agrees
#print axioms Genql.C16.rawAfter_of_safe
#print axioms Genql.C16.backtick_counterexample
#print axioms Genql.C16.backslash_template_counterexample
#print axioms Genql.C16.hash_comment_counterexample
#print axioms Genql.C16.echo_any
#print axioms Genql.C16.echo_string
