/-
  Property C02, "correctly computed columns": what the value-producing expression forms compute, stated
  against their SQL reading — CASE picks the first WHEN whose condition is true (else ELSE, else NULL),
  arithmetic on two numbers is the operator applied to them and NULL when either operand is NULL, a
  tuple is the array of its operands' values.
-/
import Genql.Properties.C02
import Genql.Proofs.ValEq
set_option linter.unusedSectionVars false
set_option linter.unusedVariables false
set_option linter.unusedSimpArgs false
namespace Genql.C02
open Genql
variable {N : Type} [Num N]

def whenCond : When N → Expr N | .mk c _ => c
def whenVal : When N → Expr N | .mk _ v => v

/-- **CASE**: when every WHEN condition evaluates to a boolean (`cond w`), the loop returns the value of the
    FIRST arm whose condition is true and evaluates no later arm; `none` when no condition is true -/
theorem evalWhens_first_true (env : Env N) (ctx : Ctx N) (cur : Row N) (whens : List (When N)) (cond : When N → Bool)
    (hc : ∀ w ∈ whens, evalExpr env ctx cur (whenCond w) = .ok (.v (.bool (cond w)))) :
    evalWhens env ctx cur whens =
      (match whens.find? cond with
       | some w => (evalExpr env ctx cur (whenVal w)).map some
       | none => .ok none) := by
  induction whens with
  | nil => simp [evalWhens]
  | cons w rest ih =>
    obtain ⟨c, v⟩ := w
    have h1 := hc (.mk c v) (by simp)
    simp only [whenCond] at h1
    have ih' := ih (fun w hw => hc w (by simp [hw]))
    simp only [evalWhens, h1, rawBool, bind, Except.bind, pure, Except.pure, List.find?_cons]
    cases hb : cond (.mk c v)
    · simp [ih']
    · simp [whenVal]
      cases evalExpr env ctx cur v <;> rfl

/-- `CASE WHEN … END` as a whole: the first true arm's value, else the ELSE expression (`.null` when absent) -/
theorem case_spec (env : Env N) (ctx : Ctx N) (cur : Row N) (whens : List (When N)) (els : Expr N) (cond : When N → Bool)
    (hc : ∀ w ∈ whens, evalExpr env ctx cur (whenCond w) = .ok (.v (.bool (cond w)))) :
    evalExpr env ctx cur (.case whens els) =
      (match whens.find? cond with
       | some w => evalExpr env ctx cur (whenVal w)
       | none => evalExpr env ctx cur els) := by
  simp only [evalExpr, evalWhens_first_true env ctx cur whens cond hc, bind, Except.bind, pure, Except.pure]
  cases whens.find? cond with
  | none => rfl
  | some w =>
    simp only [Except.map]
    cases evalExpr env ctx cur (whenVal w) <;> rfl

/-- a CASE without ELSE whose conditions are all false is NULL -/
theorem case_no_match_null (env : Env N) (ctx : Ctx N) (cur : Row N) (whens : List (When N))
    (hc : ∀ w ∈ whens, evalExpr env ctx cur (whenCond w) = .ok (.v (.bool false))) :
    evalExpr env ctx cur (.case whens .null) = .ok (.v .null) := by
  rw [case_spec env ctx cur whens .null (fun _ => false) hc]
  have : whens.find? (fun _ => false) = none := by simp
  rw [this]
  simp [evalExpr]

/-- **arithmetic on two numbers** is the operator's arithmetic on them (`binArith`: IEEE / int64 semantics of the Go
    expression of that operator — see `Obligations/C01.binary_cases` for the text of each case) -/
theorem bin_num (env : Env N) (ctx : Ctx N) (cur : Row N) (op : BinOp) (a b : Expr N) (ia ib : IVal N) (x y : N)
    (ha : evalExpr env ctx cur a = .ok ia) (hva : valueOf cur ia = .ok (.num x))
    (hb : evalExpr env ctx cur b = .ok ib) (hvb : valueOf cur ib = .ok (.num y)) :
    evalExpr env ctx cur (.bin op a b) = (binArith op x y).map fun z => .fptr (some z) := by
  simp only [evalExpr, ha, hva, hb, hvb, bind, Except.bind, pure, Except.pure]
  cases binArith op x y <;> rfl

/-- the four field operations never fail on numbers -/
theorem bin_field_total (op : BinOp) (hop : op = .plus ∨ op = .minus ∨ op = .mult ∨ op = .div) (x y : N) :
    ∃ z, binArith op x y = .ok z := by
  rcases hop with rfl | rfl | rfl | rfl <;> exact ⟨_, rfl⟩

/-- a NULL right operand (left a number) gives NULL as well — with `binop_null` (NULL left operand): arithmetic is
    NULL-strict in both operands -/
theorem bin_null_right (env : Env N) (ctx : Ctx N) (cur : Row N) (op : BinOp) (a b : Expr N) (ia ib : IVal N) (x : N)
    (ha : evalExpr env ctx cur a = .ok ia) (hva : valueOf cur ia = .ok (.num x))
    (hb : evalExpr env ctx cur b = .ok ib) (hvb : valueOf cur ib = .ok .null) :
    evalExpr env ctx cur (.bin op a b) = .ok (.fptr none) := by
  simp only [evalExpr, ha, hva, hb, hvb, bind, Except.bind, pure, Except.pure]

/-- a non-numeric, non-NULL operand is an error, not a silently coerced value -/
theorem bin_type_error (env : Env N) (ctx : Ctx N) (cur : Row N) (op : BinOp) (a b : Expr N) (ia : IVal N) (v : Val N)
    (ha : evalExpr env ctx cur a = .ok ia) (hva : valueOf cur ia = .ok v)
    (hv : v ≠ .null) (hn : ∀ x, v ≠ .num x) :
    evalExpr env ctx cur (.bin op a b) = .error .error := by
  cases v with
  | null => exact absurd rfl hv
  | num x => exact absurd rfl (hn x)
  | _ => simp only [evalExpr, ha, hva, bind, Except.bind, pure, Except.pure]

/-- **a value tuple** is the array of its operands' values, in order -/
theorem tuple_values (env : Env N) (ctx : Ctx N) (cur : Row N) (xs : List (Expr N)) (vs : List (Val N))
    (h : evalArgs env ctx cur xs = .ok vs) : evalExpr env ctx cur (.tuple xs) = .ok (.v (.arr vs)) := by
  simp only [evalExpr, h, bind, Except.bind, pure, Except.pure]

/-- `evalArgs` is the point-wise evaluation: as many values as operands -/
theorem evalArgs_length (env : Env N) (ctx : Ctx N) (cur : Row N) (xs : List (Expr N)) (vs : List (Val N))
    (h : evalArgs env ctx cur xs = .ok vs) : vs.length = xs.length := by
  induction xs generalizing vs with
  | nil => simp [evalArgs] at h; subst h; rfl
  | cons e es ih =>
    simp only [evalArgs, bind, Except.bind, pure, Except.pure] at h
    cases h1 : evalExpr env ctx cur e with
    | error _ => rw [h1] at h; cases h
    | ok x =>
      rw [h1] at h; simp only [] at h
      cases h2 : valueOf cur x with
      | error _ => rw [h2] at h; cases h
      | ok v =>
        rw [h2] at h; simp only [] at h
        cases h3 : evalArgs env ctx cur es with
        | error _ => rw [h3] at h; cases h
        | ok ws =>
          rw [h3] at h; cases h
          simp [ih ws h3]

end Genql.C02

/-! ### instance (a test of the statements' shape) -/
namespace Genql.C02
/-- `CASE WHEN a > 5 THEN 'big' WHEN a > 1 THEN 'mid' ELSE 'small' END` on a = 3 -/
example : (evalExpr (N := Int) { dfx := .none, constants := none } ⟨[], false, false, [], 0⟩ [("a", .num 3)]
    (.case [.mk (.cmp .gt (.col ["a"]) (.num 5)) (.str "big"), .mk (.cmp .gt (.col ["a"]) (.num 1)) (.str "mid")] (.str "small"))
    >>= valueOf [("a", .num 3)]) = .ok (.str "mid") := by decide
end Genql.C02
