/-
  The stage order of `exec()` as one theorem about the executable model: for a flat table,
    WHERE  →  select list  →  DISTINCT  →  ORDER BY  →  OFFSET / LIMIT,
  each stage applied to the whole output of the previous one.  The per-stage theorems (C01 filter,
  C02 projection, C06 first-occurrence deduplication, C05 sorting and windows) are about the very
  functions composed here, so this is what turns them into statements about whole SELECT queries —
  and what a change that moves a stage (cutting the window before DISTINCT or before the sort,
  skipping rows beyond the window in the select list) falsifies.
-/
import Genql.Properties.C01
import Genql.Proofs.ValEq
set_option linter.unusedSectionVars false
set_option linter.unusedVariables false
set_option linter.unusedSimpArgs false
namespace Genql.Pipeline
open Genql Genql.C01
variable {N : Type} [Num N] [LawfulNum N]

/-- the context `exec()` evaluates the select list in: all rows that passed WHERE are `matched` -/
def selCtx (data : Row N) (src kept : List (Val N)) : Ctx N :=
  { data := data, hard := false, grouped := false, matched := kept, fromLen := src.length }

/-- **stage order.**  `SELECT [DISTINCT] sel FROM t WHERE p ORDER BY … LIMIT … OFFSET …` over a document
    whose key `t` holds an array of objects: if `p` is well typed on every row and the select list
    evaluates on every kept row (to `proj r`), the query returns
    `window (sort (dedup ((rows.filter p).map proj)))` — or exactly the error of the sort / window. -/
theorem select_pipeline (env : Env N) (data : Row N) (t : String) (rows : List (Row N)) (p : Expr N)
    (sel : List (SelItem N)) (distinct : Bool) (orderBy : List (List String × Bool)) (limit offset : Option Nat)
    (proj : Row N → Row N)
    (ht : Val.get data t = .arr (rows.map Val.obj)) (hwt : ∀ r ∈ rows, WT r p)
    (hna : isAllAggr sel = false)
    (hsel : ∀ r ∈ rows.filter (sem · p),
      evalSel env (selCtx data (rows.map Val.obj) ((rows.filter (sem · p)).map Val.obj)) r sel [] = .ok (proj r)) :
    execQuery env data {} (.select [] distinct sel (.table [t] "" t) p [] (.bool true) orderBy limit offset)
      = (do
          let projected := (rows.filter (sem · p)).map fun r => Val.obj (proj r)
          let deduped := if distinct then dedupBy valEq projected else projected
          let sorted ← sortRows orderBy deduped
          let out ← window sorted offset limit
          pure (Val.arr out)) := by
  have hE : ("" : String).isEmpty = true := by decide
  simp only [execQuery, prepare, evalCtes, evalFrom, cteNames, List.append_nil, List.not_mem_nil,
    if_false, readPath_single, ht, asArray, processAlias, bind, Except.bind, pure, Except.pure,
    hE, if_true, execLevel, List.isEmpty_nil, Bool.not_true]
  rw [levelLoop_flat _ _ _ rows (fun r => sem r p) (by
    intro r hr
    simp [evalPred_sound env ⟨data, false, false, _, _⟩ rfl r p (hwt r hr), rawBool])]
  simp only [Bool.false_eq_true, if_false, hna, Bool.false_and, selectRowsWith, Bool.not_false, if_true]
  rw [mapE_eq_map_of_ok (g := fun v => match v with | Val.obj fs => Val.obj (proj fs) | v => v)]
  · simp only [List.map_map, Function.comp_def]
    cases hs : sortRows orderBy (if distinct = true then
        dedupBy valEq (List.map (fun x => Val.obj (proj x)) (List.filter (fun r => sem r p) rows))
        else List.map (fun x => Val.obj (proj x)) (List.filter (fun r => sem r p) rows)) with
    | error e => rfl
    | ok v => cases hw : window v offset limit <;> rfl
  · intro x hx
    simp only [List.mem_map] at hx
    obtain ⟨r, hr, rfl⟩ := hx
    have := hsel r hr
    simp only [selCtx, List.length_map] at this
    simp only [List.length_map, bind, Except.bind, pure, Except.pure, this]

/-- the context `exec()` evaluates WHERE in: the rows that passed are not known yet, `matched` is the whole source -/
def whereCtx (data : Row N) (src : List (Val N)) : Ctx N :=
  { data := data, hard := false, grouped := false, matched := src, fromLen := src.length }

/-- **two phases, two row sets.**  For ANY WHERE expression — in particular one that contains a whole-table aggregate, which
    `WT` excludes — whose truth value on each source row, evaluated in the SOURCE context (`matched` = every source row), is
    `keep r`: the statement returns `window (sort (dedup ((rows.filter keep).map proj)))`, where the select list was
    evaluated in the KEPT context (`matched` = the rows that passed).  An aggregate call therefore sees all source rows
    when it stands in WHERE and the filtered rows when the same text stands in the select list (repair D53). -/
theorem select_pipeline_phases (env : Env N) (data : Row N) (t : String) (rows : List (Row N)) (p : Expr N)
    (sel : List (SelItem N)) (distinct : Bool) (orderBy : List (List String × Bool)) (limit offset : Option Nat)
    (keep : Row N → Bool) (proj : Row N → Row N)
    (ht : Val.get data t = .arr (rows.map Val.obj))
    (hkeep : ∀ r ∈ rows, (evalExpr env (whereCtx data (rows.map Val.obj)) r p >>= rawBool) = .ok (keep r))
    (hna : isAllAggr sel = false)
    (hsel : ∀ r ∈ rows.filter keep,
      evalSel env (selCtx data (rows.map Val.obj) ((rows.filter keep).map Val.obj)) r sel [] = .ok (proj r)) :
    execQuery env data {} (.select [] distinct sel (.table [t] "" t) p [] (.bool true) orderBy limit offset)
      = (do
          let projected := (rows.filter keep).map fun r => Val.obj (proj r)
          let deduped := if distinct then dedupBy valEq projected else projected
          let sorted ← sortRows orderBy deduped
          let out ← window sorted offset limit
          pure (Val.arr out)) := by
  have hE : ("" : String).isEmpty = true := by decide
  simp only [execQuery, prepare, evalCtes, evalFrom, cteNames, List.append_nil, List.not_mem_nil,
    if_false, readPath_single, ht, asArray, processAlias, bind, Except.bind, pure, Except.pure,
    hE, if_true, execLevel, List.isEmpty_nil, Bool.not_true]
  rw [levelLoop_flat _ _ _ rows keep (by
    intro r hr
    have := hkeep r hr
    simp only [whereCtx, bind, Except.bind] at this
    exact this)]
  simp only [Bool.false_eq_true, if_false, hna, Bool.false_and, selectRowsWith, Bool.not_false, if_true]
  rw [mapE_eq_map_of_ok (g := fun v => match v with | Val.obj fs => Val.obj (proj fs) | v => v)]
  · simp only [List.map_map, Function.comp_def]
    cases hs : sortRows orderBy (if distinct = true then
        dedupBy valEq (List.map (fun x => Val.obj (proj x)) (List.filter keep rows))
        else List.map (fun x => Val.obj (proj x)) (List.filter keep rows)) with
    | error e => rfl
    | ok v => cases hw : window v offset limit <;> rfl
  · intro x hx
    simp only [List.mem_map] at hx
    obtain ⟨r, hr, rfl⟩ := hx
    have := hsel r hr
    simp only [selCtx, List.length_map] at this
    simp only [List.length_map, bind, Except.bind, pure, Except.pure, this]

/-- without ORDER BY, DISTINCT and a window the pipeline is filter-then-project (C01 + C02) -/
theorem select_filter_project (env : Env N) (data : Row N) (t : String) (rows : List (Row N)) (p : Expr N)
    (sel : List (SelItem N)) (proj : Row N → Row N)
    (ht : Val.get data t = .arr (rows.map Val.obj)) (hwt : ∀ r ∈ rows, WT r p)
    (hna : isAllAggr sel = false)
    (hsel : ∀ r ∈ rows.filter (sem · p),
      evalSel env (selCtx data (rows.map Val.obj) ((rows.filter (sem · p)).map Val.obj)) r sel [] = .ok (proj r)) :
    execQuery env data {} (.select [] false sel (.table [t] "" t) p [] (.bool true) [] none none)
      = .ok (.arr ((rows.filter (sem · p)).map fun r => Val.obj (proj r))) := by
  rw [select_pipeline env data t rows p sel false [] none none proj ht hwt hna hsel]
  simp [sortRows, window_none, bind, Except.bind, pure, Except.pure]

/-- with DISTINCT only: the first occurrences of the projected rows, in order -/
theorem select_distinct (env : Env N) (data : Row N) (t : String) (rows : List (Row N)) (p : Expr N)
    (sel : List (SelItem N)) (proj : Row N → Row N)
    (ht : Val.get data t = .arr (rows.map Val.obj)) (hwt : ∀ r ∈ rows, WT r p)
    (hna : isAllAggr sel = false)
    (hsel : ∀ r ∈ rows.filter (sem · p),
      evalSel env (selCtx data (rows.map Val.obj) ((rows.filter (sem · p)).map Val.obj)) r sel [] = .ok (proj r)) :
    execQuery env data {} (.select [] true sel (.table [t] "" t) p [] (.bool true) [] none none)
      = .ok (.arr (dedupBy valEq ((rows.filter (sem · p)).map fun r => Val.obj (proj r)))) := by
  rw [select_pipeline env data t rows p sel true [] none none proj ht hwt hna hsel]
  simp [sortRows, window_none, bind, Except.bind, pure, Except.pure]

/-- **whole-table aggregates.**  When the select list consists of aggregates only and there is no GROUP BY, the
    query computes ONE row, over ALL the rows that passed WHERE (they are `matched` of the context the select
    list is evaluated in, whatever LIMIT / OFFSET say), and DISTINCT, ORDER BY and the window then apply to
    that one row — a LIMIT cannot shorten what the aggregates see. -/
theorem whole_aggregate_pipeline (env : Env N) (data : Row N) (t : String) (rows : List (Row N)) (p : Expr N)
    (sel : List (SelItem N)) (distinct : Bool) (orderBy : List (List String × Bool)) (limit offset : Option Nat)
    (row : Row N)
    (ht : Val.get data t = .arr (rows.map Val.obj)) (hwt : ∀ r ∈ rows, WT r p)
    (hall : isAllAggr sel = true)
    (hsel : evalSel env (selCtx data (rows.map Val.obj) ((rows.filter (sem · p)).map Val.obj)) [] sel [] = .ok row) :
    execQuery env data {} (.select [] distinct sel (.table [t] "" t) p [] (.bool true) orderBy limit offset)
      = (do
          let out ← window [Val.obj row] offset limit
          pure (Val.arr out)) := by
  have hE : ("" : String).isEmpty = true := by decide
  simp only [execQuery, prepare, evalCtes, evalFrom, cteNames, List.append_nil, List.not_mem_nil,
    if_false, readPath_single, ht, asArray, processAlias, bind, Except.bind, pure, Except.pure,
    hE, if_true, execLevel, List.isEmpty_nil, Bool.not_true]
  rw [levelLoop_flat _ _ _ rows (fun r => sem r p) (by
    intro r hr
    simp [evalPred_sound env ⟨data, false, false, _, _⟩ rfl r p (hwt r hr), rawBool])]
  simp only [selCtx, List.length_map] at hsel
  have hd : dedupBy valEq [Val.obj row] = [Val.obj row] := by simp [dedupBy, dedupLoop]
  have hs : sortRows orderBy [Val.obj row] = .ok [Val.obj row] := by simp [sortRows]
  simp only [Bool.false_eq_true, if_false, hall, Bool.true_and, selectRowsWith, Bool.not_false, if_true,
    List.length_map, hsel, bind, Except.bind, pure, Except.pure, hd, ite_self, hs]

/-- the same for ANY WHERE expression (aggregates included) with truth value `keep r` in the source context: the ONE row is
    computed over the rows that passed, whatever value the same aggregate text had while WHERE was evaluated (D53) -/
theorem whole_aggregate_phases (env : Env N) (data : Row N) (t : String) (rows : List (Row N)) (p : Expr N)
    (sel : List (SelItem N)) (distinct : Bool) (orderBy : List (List String × Bool)) (limit offset : Option Nat)
    (keep : Row N → Bool) (row : Row N)
    (ht : Val.get data t = .arr (rows.map Val.obj))
    (hkeep : ∀ r ∈ rows, (evalExpr env (whereCtx data (rows.map Val.obj)) r p >>= rawBool) = .ok (keep r))
    (hall : isAllAggr sel = true)
    (hsel : evalSel env (selCtx data (rows.map Val.obj) ((rows.filter keep).map Val.obj)) [] sel [] = .ok row) :
    execQuery env data {} (.select [] distinct sel (.table [t] "" t) p [] (.bool true) orderBy limit offset)
      = (do
          let out ← window [Val.obj row] offset limit
          pure (Val.arr out)) := by
  have hE : ("" : String).isEmpty = true := by decide
  simp only [execQuery, prepare, evalCtes, evalFrom, cteNames, List.append_nil, List.not_mem_nil,
    if_false, readPath_single, ht, asArray, processAlias, bind, Except.bind, pure, Except.pure,
    hE, if_true, execLevel, List.isEmpty_nil, Bool.not_true]
  rw [levelLoop_flat _ _ _ rows keep (by
    intro r hr
    have := hkeep r hr
    simp only [whereCtx, bind, Except.bind] at this
    exact this)]
  simp only [selCtx, List.length_map] at hsel
  have hd : dedupBy valEq [Val.obj row] = [Val.obj row] := by simp [dedupBy, dedupLoop]
  have hs : sortRows orderBy [Val.obj row] = .ok [Val.obj row] := by simp [sortRows]
  simp only [Bool.false_eq_true, if_false, hall, Bool.true_and, selectRowsWith, Bool.not_false, if_true,
    List.length_map, hsel, bind, Except.bind, pure, Except.pure, hd, ite_self, hs]

/-- in particular `SELECT <aggregates> FROM t WHERE p LIMIT n` (n ≥ 1) is the row over all matching rows -/
theorem whole_aggregate_limit (env : Env N) (data : Row N) (t : String) (rows : List (Row N)) (p : Expr N)
    (sel : List (SelItem N)) (n : Nat) (hn : 1 ≤ n) (row : Row N)
    (ht : Val.get data t = .arr (rows.map Val.obj)) (hwt : ∀ r ∈ rows, WT r p)
    (hall : isAllAggr sel = true)
    (hsel : evalSel env (selCtx data (rows.map Val.obj) ((rows.filter (sem · p)).map Val.obj)) [] sel [] = .ok row) :
    execQuery env data {} (.select [] false sel (.table [t] "" t) p [] (.bool true) [] (some n) none)
      = .ok (.arr [.obj row]) := by
  rw [whole_aggregate_pipeline env data t rows p sel false [] (some n) none row ht hwt hall hsel]
  have hw : window [Val.obj row] none (some n) = .ok [Val.obj row] := by
    unfold window
    by_cases h1 : n > 1
    · simp [h1]
    · have : n = 1 := by omega
      subst this; simp
  simp [hw, bind, Except.bind, pure, Except.pure]

/-- A HAVING clause on a statement WITHOUT GROUP BY is read and applies nothing: the statement returns what it returns
    without it — one output row per row that passed WHERE (C02), whatever the HAVING condition says.  (This is the
    engine's behaviour, mirrored by the model; a change that starts filtering by it breaks C02's row count.) -/
theorem having_without_group_by_is_inert (env : Env N) (data : Row N) (sc : Scope) (ctes : List (Cte N)) (distinct : Bool)
    (sel : List (SelItem N)) (frm : From N) (wh hv : Expr N) (orderBy : List (List String × Bool)) (limit offset : Option Nat) :
    execQuery env data sc (.select ctes distinct sel frm wh [] hv orderBy limit offset)
      = execQuery env data sc (.select ctes distinct sel frm wh [] (.bool true) orderBy limit offset) := by
  simp only [execQuery, prepare, List.isEmpty_nil, Bool.not_true, Bool.not_false, if_true]

end Genql.Pipeline

/-! ### a concrete instance (a test of the statement's shape, not part of the proof) -/
namespace Genql.Pipeline
open Genql
def exData : Row Int := [("t", .arr [.obj [("a", .num 2), ("b", .num 9)], .obj [("a", .num 1), ("b", .num 8)],
  .obj [("a", .num 2), ("b", .num 7)], .obj [("a", .num 5), ("b", .num 0)]])]
def exEnv : Env Int := { dfx := .none, constants := none, failOn := none }
/-- `SELECT DISTINCT a FROM t WHERE b > 0 ORDER BY a DESC LIMIT 1 OFFSET 1`:
    kept a = 2,1,2 → distinct 2,1 → sorted DESC 2,1 → window [1] -/
example : execQuery exEnv exData {} (.select [] true [.item (.col ["a"]) "a" ""] (.table ["t"] "" "t")
      (.cmp .gt (.col ["b"]) (.num 0)) [] (.bool true) [(["a"], false)] (some 1) (some 1))
    = .ok (.arr [.obj [("a", .num 1)]]) := by decide
/-- `SELECT COUNT(*) AS n, SUM(a) AS s FROM t WHERE b > 0 LIMIT 1`: three rows pass, the one row is over all three -/
example : execQuery exEnv exData {} (.select [] false [.item (.aggr "count" []) "n" "n", .item (.aggr "sum" [.col ["a"]]) "s" "s"]
      (.table ["t"] "" "t") (.cmp .gt (.col ["b"]) (.num 0)) [] (.bool true) [] (some 1) none)
    = .ok (.arr [.obj [("n", .num 3), ("s", .num 5)]]) := by decide
/-- a CORRELATED `IN` sub-query — ``SELECT id FROM t WHERE id IN (SELECT v FROM `<-u` WHERE v >= `<-.lo`)`` — is evaluated for
    every outer row with that row behind `<-`: the candidate set differs from row to row ({} for lo = 10, {1,2,3} for lo = 0,
    {3} for lo = 3, {2,3} for lo = 2), so rows 2 and 3 are kept (round 11: a memo per sub-query text kept the first row's set) -/
example : execQuery exEnv
      [("t", .arr [.obj [("id", .num 1), ("lo", .num 10)], .obj [("id", .num 2), ("lo", .num 0)], .obj [("id", .num 3), ("lo", .num 3)],
                   .obj [("id", .num 1), ("lo", .num 2)], .obj [("id", .num 5), ("lo", .num 0)]]),
       ("u", .arr [.obj [("v", .num 1)], .obj [("v", .num 2)], .obj [("v", .num 3)]])] {}
      (.select [] false [.item (.col ["id"]) "id" ""] (.table ["t"] "" "t")
        (.cmp .in_ (.col ["id"]) (.subq (.select [] false [.item (.col ["v"]) "v" ""] (.table ["<-", "u"] "" "<-u")
          (.cmp .ge (.col ["v"]) (.col ["<-", "lo"])) [] (.bool true) [] none none)))
        [] (.bool true) [] none none)
    = .ok (.arr [.obj [("id", .num 2)], .obj [("id", .num 3)]]) := by decide

/-- `SELECT SUM(f) AS v FROM t` / `SELECT g, MAX(f) AS v FROM t GROUP BY g` over rows whose `f` is a boolean on one row: the
    statement fails (C19; `C19.numeric_aggregate_type_error` is the general fact about the aggregate bodies) -/
example : execQuery exEnv [("t", .arr [.obj [("f", .num 1), ("g", .num 1)], .obj [("f", .bool true), ("g", .num 1)]])] {}
      (.select [] false [.item (.aggr "sum" [.col ["f"]]) "v" "v"] (.table ["t"] "" "t") (.bool true) [] (.bool true) [] none none)
    = .error .error := by decide
example : execQuery exEnv [("t", .arr [.obj [("f", .num 1), ("g", .num 1)], .obj [("f", .bool true), ("g", .num 1)]])] {}
      (.select [] false [.item (.col ["g"]) "g" "", .item (.aggr "max" [.col ["f"]]) "v" "v"] (.table ["t"] "" "t") (.bool true)
        [("g", ["g"])] (.bool true) [] none none)
    = .error .error := by decide
/-- every `<-` is exactly one step back, also under EXISTS: in
    ``SELECT id FROM t WHERE EXISTS (SELECT * FROM items WHERE k > `<-.lim`)`` the inner WHERE reads the OUTER row's `lim`
    (only row 1 has an item above its own limit), and in
    ``… WHERE EXISTS (SELECT * FROM items WHERE k IN (SELECT id FROM `<-.<-.u`))`` two steps lead from the item over the row to the
    document (items 1 and 3 are ids of `u`) — round 11: a row that already carried a marker was not re-scoped -/
def exNav : Row Int :=
  [("t", .arr [.obj [("id", .num 1), ("lim", .num 1), ("items", .arr [.obj [("k", .num 1)], .obj [("k", .num 2)]])],
               .obj [("id", .num 2), ("lim", .num 5), ("items", .arr [.obj [("k", .num 3)]])],
               .obj [("id", .num 3), ("lim", .num 0), ("items", .arr [])]]),
   ("u", .arr [.obj [("id", .num 1)], .obj [("id", .num 3)]])]
example : execQuery exEnv exNav {} (.select [] false [.item (.col ["id"]) "id" ""] (.table ["t"] "" "t")
      (.exists (.select [] false [.star] (.table ["items"] "" "items") (.cmp .gt (.col ["k"]) (.col ["<-", "lim"])) [] (.bool true) [] none none))
      [] (.bool true) [] none none)
    = .ok (.arr [.obj [("id", .num 1)]]) := by decide
example : execQuery exEnv exNav {} (.select [] false [.item (.col ["id"]) "id" ""] (.table ["t"] "" "t")
      (.exists (.select [] false [.star] (.table ["items"] "" "items")
        (.cmp .in_ (.col ["k"]) (.subq (.select [] false [.item (.col ["id"]) "id" ""] (.table ["<-", "<-", "u"] "" "<-.<-.u")
          (.bool true) [] (.bool true) [] none none))) [] (.bool true) [] none none))
      [] (.bool true) [] none none)
    = .ok (.arr [.obj [("id", .num 1)], .obj [("id", .num 2)]]) := by decide
/-- `SELECT a, a - MAX(a) AS d FROM t LIMIT 2`: an aggregate NESTED in an expression of a plain select list is over all rows
    that passed WHERE (MAX = 5, from the fourth row), although the window keeps two (round 11: a scan that stopped at the
    end of the window) -/
example : execQuery exEnv exData {} (.select [] false [.item (.col ["a"]) "a" "", .item (.bin .minus (.col ["a"]) (.aggr "max" [.col ["a"]])) "d" "d"]
      (.table ["t"] "" "t") (.bool true) [] (.bool true) [] (some 2) none)
    = .ok (.arr [.obj [("a", .num 2), ("d", .num (-3))], .obj [("a", .num 1), ("d", .num (-4))]]) := by decide
/-- the WHERE hypothesis of `select_pipeline_phases` is met by a predicate with an aggregate: on the four rows of `t`,
    `a * 4 > SUM(a)` (SUM over the SOURCE = 10) keeps exactly the row with a = 5 -/
def exRows : List (Row Int) := [[("a", .num 2), ("b", .num 9)], [("a", .num 1), ("b", .num 8)], [("a", .num 2), ("b", .num 7)], [("a", .num 5), ("b", .num 0)]]
example : ∀ r ∈ exRows, (evalExpr exEnv (whereCtx exData (exRows.map Val.obj)) r
      (.cmp .gt (.bin .mult (.col ["a"]) (.num 4)) (.aggr "sum" [.col ["a"]])) >>= rawBool)
    = .ok (decide (Val.get r "a" = .num 5)) := by decide
/-- `SELECT SUM(a) AS s, COUNT(*) AS n FROM t WHERE a * 4 > SUM(a)`: the `SUM(a)` inside WHERE is over ALL source rows
    (2+1+2+5 = 10: the filter has not run), the `SUM(a)` of the same text in the select list is over the one row that
    passed (a = 5).  The implementation shared one memo entry between the two until repair D53 (it answered s = 10). -/
example : execQuery exEnv exData {} (.select [] false [.item (.aggr "sum" [.col ["a"]]) "s" "s", .item (.aggr "count" []) "n" "n"]
      (.table ["t"] "" "t") (.cmp .gt (.bin .mult (.col ["a"]) (.num 4)) (.aggr "sum" [.col ["a"]])) [] (.bool true) [] none none)
    = .ok (.arr [.obj [("s", .num 5), ("n", .num 1)]]) := by decide
/-- ... and when no row passes, the select list's aggregate is NULL / 0 although the WHERE-phase value exists (the witness of D53) -/
example : execQuery exEnv exData {} (.select [] false [.item (.aggr "sum" [.col ["a"]]) "s" "s", .item (.aggr "count" []) "n" "n"]
      (.table ["t"] "" "t") (.cmp .gt (.col ["a"]) (.aggr "sum" [.col ["a"]])) [] (.bool true) [] none none)
    = .ok (.arr [.obj [("s", .null), ("n", .num 0)]]) := by decide
end Genql.Pipeline
