/-
  Property C05 — ORDER BY sorts; LIMIT/OFFSET is the exact window and never fails.

  * the comparator of `sort.go` (`lessKeys`) on rows whose sort keys are of one sortable kind per
    column (NULL allowed) is a strict weak order: irreflexive, transitive, incomparability transitive
    (for NULL-free keys; with NULLs the property only claims single-key sorts);
  * the model's sort returns a permutation that is sorted w.r.t. the comparator;
  * rows with a NULL (single) key come after all rows with a non-NULL key, in both directions;
  * `window rs offset limit = (rs.drop offset).take limit`, never an error, for all sizes.
-/
import Genql.Proofs.Order
import Genql.Model.Algo
set_option linter.unusedSectionVars false
namespace Genql.C05
open Genql
variable {N : Type} [Num N] [LawfulNum N]

/-! ### the comparator -/

/-- pure mirror of `lessKeys` (`cmpK` is `compare.Compare` made total) -/
def lessK : List Bool → List (Val N) → List (Val N) → Bool
  | asc :: ds, x :: xs, y :: ys =>
    if x.isNull then false
    else if y.isNull then true
    else
      let r := cmpK x y
      if r = 0 then lessK ds xs ys else r = (if asc then -1 else 1)
  | _, _, _ => false

/-- the key list of a row is well-kinded: one sortable kind per column, or NULL -/
def KeysOK : List Kind → List (Val N) → Prop
  | [], [] => True
  | κ :: κs, x :: xs => Sortable κ ∧ (x = .null ∨ kindOf x = some κ) ∧ KeysOK κs xs
  | _, _ => False

def triples (ds : List Bool) (xs ys : List (Val N)) : List (Val N × Val N × Bool) :=
  match ds, xs, ys with
  | d :: ds, x :: xs, y :: ys => (x, y, d) :: triples ds xs ys
  | _, _, _ => []

theorem isNull_of_kind {x : Val N} {κ : Kind} (h : kindOf x = some κ) : x.isNull = false := by
  cases x <;> simp [kindOf] at h <;> rfl

/-- the model comparator never fails on well-kinded keys and equals its pure mirror -/
theorem lessKeys_eq_lessK : ∀ (κs : List Kind) (ds : List Bool) (xs ys : List (Val N)),
    KeysOK κs xs → KeysOK κs ys → lessKeys (triples ds xs ys) = .ok (lessK ds xs ys)
  | _, [], _, _, _, _ => by simp [triples, lessKeys, lessK]
  | _, _ :: _, [], _, _, _ => by simp [triples, lessKeys, lessK]
  | _, _ :: _, _ :: _, [], _, _ => by simp [triples, lessKeys, lessK]
  | [], _ :: _, _ :: _, _ :: _, h, _ => by simp [KeysOK] at h
  | κ :: κs, d :: ds, x :: xs, y :: ys, hx, hy => by
    obtain ⟨hκ, hx1, hxs⟩ := hx
    obtain ⟨-, hy1, hys⟩ := hy
    have ih := lessKeys_eq_lessK κs ds xs ys hxs hys
    rcases hx1 with rfl | hkx
    · simp [triples, lessKeys, lessK, Val.isNull]
    · have nx := isNull_of_kind hkx
      rcases hy1 with rfl | hky
      · cases x <;> simp [kindOf] at hkx <;> simp [triples, lessKeys, lessK, Val.isNull]
      · have ny := isNull_of_kind hky
        obtain ⟨hc, -⟩ := cmpK_spec hκ hkx hky
        cases x <;> simp [kindOf] at hkx <;> cases y <;> simp [kindOf] at hky <;>
          simp [triples, lessKeys, lessK, Val.isNull, hc, ih, bind, Except.bind, pure, Except.pure] <;>
          split <;> simp_all

theorem less_irrefl : ∀ (κs : List Kind) (ds : List Bool) (xs : List (Val N)), KeysOK κs xs →
    lessK ds xs xs = false
  | _, [], _, _ => by simp [lessK]
  | _, _ :: _, [], _ => by simp [lessK]
  | [], _ :: _, _ :: _, h => by simp [KeysOK] at h
  | κ :: κs, d :: ds, x :: xs, ⟨hκ, hx, hxs⟩ => by
    rcases hx with rfl | hk
    · simp [lessK, Val.isNull]
    · simp [lessK, isNull_of_kind hk, cmpK_refl hκ hk, less_irrefl κs ds xs hxs]

theorem less_trans : ∀ (κs : List Kind) (ds : List Bool) (xs ys zs : List (Val N)),
    KeysOK κs xs → KeysOK κs ys → KeysOK κs zs →
    lessK ds xs ys = true → lessK ds ys zs = true → lessK ds xs zs = true
  | _, [], _, _, _, _, _, _ => by simp [lessK]
  | _, _ :: _, [], _, _, _, _, _ => by simp [lessK]
  | _, _ :: _, _ :: _, [], _, _, _, _ => by simp [lessK]
  | _, _ :: _, _ :: _, _ :: _, [], _, _, _ => by simp [lessK]
  | [], _ :: _, _ :: _, _ :: _, _ :: _, h, _, _ => by simp [KeysOK] at h
  | κ :: κs, asc :: ds, x :: xs, y :: ys, z :: zs, ⟨hκ, hx, hxs⟩, ⟨_, hy, hys⟩, ⟨_, hz, hzs⟩ => by
    intro h1 h2
    have ih := less_trans κs ds xs ys zs hxs hys hzs
    rcases hx with rfl | hkx
    · simp [lessK, Val.isNull] at h1
    · have nx := isNull_of_kind hkx
      rcases hy with rfl | hky
      · simp [lessK, Val.isNull] at h2
      · have ny := isNull_of_kind hky
        rcases hz with rfl | hkz
        · simp only [lessK, nx]; simp [Val.isNull]
        · have nz := isNull_of_kind hkz
          simp only [lessK, nx, ny, nz, Bool.false_eq_true, if_false] at h1 h2 ⊢
          have rab := (cmpK_spec hκ hkx hky).2.2.2.2
          have rbc := (cmpK_spec hκ hky hkz).2.2.2.2
          have anti_ab := cmpK_antisymm hκ hkx hky
          have anti_bc := cmpK_antisymm hκ hky hkz
          have anti_ac := cmpK_antisymm hκ hkx hkz
          by_cases hab : cmpK x y = 0
          · have hac : cmpK x z = cmpK y z := cmpK_eq_left hκ hkx hky hab
            by_cases hbc : cmpK y z = 0
            · simp only [hab, hbc, hac, if_true] at h1 h2 ⊢
              exact ih h1 h2
            · simp only [hab, hbc, hac, if_true, if_false] at h1 h2 ⊢
              exact h2
          · by_cases hbc : cmpK y z = 0
            · have h : cmpK x z = cmpK x y := by
                have e1 := cmpK_eq_left (c := x) hκ hky hkz hbc
                have e2 := cmpK_antisymm hκ hkz hkx
                have e3 := cmpK_antisymm hκ hky hkx
                omega
              simp only [hab, hbc, h, if_true, if_false] at h1 h2 ⊢
              exact h1
            · simp only [hab, hbc, if_false] at h1 h2
              have h1' := of_decide_eq_true h1
              have h2' := of_decide_eq_true h2
              cases asc with
              | true =>
                simp at h1' h2'
                have := cmpK_trans_lt hκ hkx hky hkz h1' h2'
                simp [this]
              | false =>
                simp at h1' h2'
                have := cmpK_trans_lt hκ hkz hky hkx (by omega) (by omega)
                have hac : cmpK x z = 1 := by omega
                simp [hac]


/-- incomparability is transitive (stated as negative transitivity): with irreflexivity and
    transitivity this makes the comparator a strict weak order -/
theorem less_incomp_trans : ∀ (κs : List Kind) (ds : List Bool) (xs ys zs : List (Val N)),
    KeysOK κs xs → KeysOK κs ys → KeysOK κs zs →
    lessK ds xs ys = false → lessK ds ys zs = false → lessK ds xs zs = false
  | _, [], _, _, _, _, _, _ => by simp [lessK]
  | _, _ :: _, [], _, _, _, _, _ => by simp [lessK]
  | _, _ :: _, _ :: _, _, [], _, _, _ => by simp [lessK]
  | [], _ :: _, _ :: _, _, _ :: _, h, _, _ => by simp [KeysOK] at h
  | κ :: κs, _ :: _, _ :: _, [], _ :: _, _, h, _ => by simp [KeysOK] at h
  | κ :: κs, asc :: ds, x :: xs, y :: ys, z :: zs, ⟨hκ, hx, hxs⟩, ⟨_, hy, hys⟩, ⟨_, hz, hzs⟩ => by
    intro h1 h2
    have ih := less_incomp_trans κs ds xs ys zs hxs hys hzs
    rcases hx with rfl | hkx
    · simp [lessK, Val.isNull]
    · have nx := isNull_of_kind hkx
      rcases hy with rfl | hky
      · simp only [lessK, nx] at h1; simp [Val.isNull] at h1
      · have ny := isNull_of_kind hky
        rcases hz with rfl | hkz
        · simp only [lessK, ny] at h2; simp [Val.isNull] at h2
        · have nz := isNull_of_kind hkz
          simp only [lessK, nx, ny, nz, Bool.false_eq_true, if_false] at h1 h2 ⊢
          have rab := (cmpK_spec hκ hkx hky).2.2.2.2
          have rbc := (cmpK_spec hκ hky hkz).2.2.2.2
          have rac := (cmpK_spec hκ hkx hkz).2.2.2.2
          have anti_ab := cmpK_antisymm hκ hkx hky
          have anti_bc := cmpK_antisymm hκ hky hkz
          have anti_ac := cmpK_antisymm hκ hkx hkz
          by_cases hab : cmpK x y = 0
          · have hac : cmpK x z = cmpK y z := cmpK_eq_left hκ hkx hky hab
            by_cases hbc : cmpK y z = 0
            · simp only [hab, hbc, hac, if_true] at h1 h2 ⊢
              exact ih h1 h2
            · simp only [hab, hbc, hac, if_true, if_false] at h1 h2 ⊢
              exact h2
          · by_cases hbc : cmpK y z = 0
            · have h : cmpK x z = cmpK x y := by
                have e1 := cmpK_eq_left (c := x) hκ hky hkz hbc
                have e2 := cmpK_antisymm hκ hkz hkx
                have e3 := cmpK_antisymm hκ hky hkx
                omega
              simp only [hab, hbc, h, if_true, if_false] at h1 h2 ⊢
              exact h1
            · simp only [hab, hbc, if_false] at h1 h2
              have h1' := of_decide_eq_false h1
              have h2' := of_decide_eq_false h2
              cases asc with
              | true =>
                simp at h1' h2'
                -- x > y > z
                have hyx := cmpK_trans_lt hκ hkz hky hkx (by omega) (by omega)
                have hac : cmpK x z = 1 := by omega
                simp [hac]
              | false =>
                simp at h1' h2'
                have := cmpK_trans_lt hκ hkx hky hkz (by omega) (by omega)
                simp [this]

/-- **NULLs last.** With a single sort key, a row whose key is NULL is never placed before a row
    whose key is not NULL, whatever the direction. -/
theorem nulls_last (asc : Bool) (x : Val N) (κ : Kind) (hx : kindOf x = some κ) :
    lessK [asc] [x] [.null] = true ∧ lessK [asc] [(.null : Val N)] [x] = false := by
  simp only [lessK, isNull_of_kind hx]; simp [Val.isNull]

/-! ### sorting with a strict weak order -/

section sort
variable {α : Type} (less : α → α → Bool) (P : α → Prop)

/-- a strict weak order on the elements satisfying `P` -/
structure SWO : Prop where
  irrefl : ∀ a, P a → less a a = false
  trans : ∀ a b c, P a → P b → P c → less a b = true → less b c = true → less a c = true
  negtrans : ∀ a b c, P a → P b → P c → less a b = false → less b c = false → less a c = false

theorem SWO.asymm {less : α → α → Bool} {P : α → Prop} (h : SWO less P) {a b : α} (ha : P a) (hb : P b)
    (hab : less a b = true) : less b a = false := by
  cases hba : less b a with
  | false => rfl
  | true =>
    have := h.trans a b a ha hb ha hab hba
    rw [h.irrefl a ha] at this; cases this

theorem insertBy_perm (x : α) (ys : List α) : (insertBy less x ys).Perm (x :: ys) := by
  induction ys with
  | nil => exact List.Perm.refl _
  | cons y ys ih =>
    simp only [insertBy]
    split
    · exact List.Perm.refl _
    · exact (List.Perm.cons y ih).trans (List.Perm.swap x y ys)

/-- the sort returns a permutation of its input -/
theorem sort_perm (xs : List α) : (insertSort less xs).Perm xs := by
  induction xs with
  | nil => exact List.Perm.refl _
  | cons x xs ih => exact (insertBy_perm less x _).trans (List.Perm.cons x ih)

/-- no inversion: an earlier element is never greater than a later one -/
def Sorted (l : List α) : Prop := l.Pairwise (fun a b => less b a = false)

theorem mem_insertBy {x z : α} {ys : List α} (h : z ∈ insertBy less x ys) : z = x ∨ z ∈ ys := by
  have := (insertBy_perm less x ys).mem_iff.mp h
  simpa using this

theorem insertBy_sorted (h : SWO less P) (x : α) (hx : P x) (ys : List α) (hP : ∀ y ∈ ys, P y)
    (hs : Sorted less ys) : Sorted less (insertBy less x ys) := by
  induction ys with
  | nil => simp [insertBy, Sorted]
  | cons y ys ih =>
    have hy := hP y (by simp)
    have hys : ∀ z ∈ ys, P z := fun z hz => hP z (by simp [hz])
    simp only [Sorted, List.pairwise_cons] at hs
    obtain ⟨hy_le, hs'⟩ := hs
    simp only [insertBy]
    split
    · rename_i hlt
      refine List.Pairwise.cons ?_ (List.Pairwise.cons hy_le hs')
      intro z hz
      simp only [List.mem_cons] at hz
      rcases hz with rfl | hz
      · exact h.asymm hx hy hlt
      · -- z after y, y after x ⇒ z not before x
        exact h.negtrans z z x (hys z hz) (hys z hz) hx (h.irrefl z (hys z hz)) (by
          have h1 : less z y = false := hy_le z hz
          have h2 : less y x = false := h.asymm hx hy hlt
          exact h.negtrans z y x (hys z hz) hy hx h1 h2)
    · rename_i hnlt
      have hnlt' : less x y = false := by simpa using hnlt
      refine List.Pairwise.cons ?_ (ih hys hs')
      intro z hz
      rcases mem_insertBy less hz with rfl | hz
      · exact hnlt'
      · exact hy_le z hz

/-- **The output is sorted**: for a strict weak order, no element is greater than a later one. -/
theorem sort_sorted (h : SWO less P) (xs : List α) (hP : ∀ x ∈ xs, P x) :
    Sorted less (insertSort less xs) := by
  induction xs with
  | nil => simp [insertSort, Sorted]
  | cons x xs ih =>
    have hxs : ∀ y ∈ xs, P y := fun y hy => hP y (by simp [hy])
    apply insertBy_sorted less P h x (hP x (by simp))
    · intro y hy
      exact hxs y ((sort_perm less xs).mem_iff.mp hy)
    · exact ih hxs

end sort

/-- the comparator of `sort.go`, on well-kinded key lists, is a strict weak order -/
theorem lessK_swo (κs : List Kind) (ds : List Bool) :
    SWO (lessK (N := N) ds) (KeysOK κs) where
  irrefl := fun a ha => less_irrefl κs ds a ha
  trans := fun a b c ha hb hc => less_trans κs ds a b c ha hb hc
  negtrans := fun a b c ha hb hc => less_incomp_trans κs ds a b c ha hb hc

/-! ### LIMIT / OFFSET -/

/-- **The window is exact and never fails**: positions `offset .. offset+limit-1` that exist. -/
theorem window_exact {α : Type} (rs : List α) (offset limit : Option Nat) :
    window rs offset limit = .ok ((rs.drop (offset.getD 0)).take (limit.getD rs.length)) := by
  unfold window
  simp only
  by_cases h : offset.getD 0 ≥ rs.length
  · simp [h, List.drop_eq_nil_of_le h]
  · simp only [h, if_false]
    have hlt : offset.getD 0 < rs.length := by omega
    by_cases h2 : limit.getD rs.length > rs.length - offset.getD 0
    · simp only [h2, if_true]
      have : ¬ (offset.getD 0 + (rs.length - offset.getD 0) > rs.length) := by omega
      simp only [this, if_false]
      congr 1
      rw [List.take_of_length_le (by simp), List.take_of_length_le (by simp; omega)]
    · simp only [h2, if_false]
      have : ¬ (offset.getD 0 + limit.getD rs.length > rs.length) := by omega
      simp [this]

theorem window_never_fails {α : Type} (rs : List α) (offset limit : Option Nat) :
    ∃ out, window rs offset limit = .ok out ∧ out.length ≤ rs.length ∧ ∀ x ∈ out, x ∈ rs := by
  refine ⟨_, window_exact rs offset limit, ?_, ?_⟩
  · simp [List.length_take, List.length_drop]; omega
  · intro x hx
    exact List.mem_of_mem_drop (List.mem_of_mem_take hx)

/-- both LIMIT spellings build the same (offset, limit) pair, hence the same window -/
example : window [1, 2, 3, 4] (some 2) (some 3) = .ok [3, 4] := rfl
example : window [1, 2, 3, 4] (some 7) (some 3) = .ok [] := rfl
example : KeysOK (N := Int) [.num, .str] [.num 1, .str "a"] := by simp [KeysOK, Sortable, kindOf]

end Genql.C05
