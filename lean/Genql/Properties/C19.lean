/-
  Property C19 — a failure anywhere surfaces as an error, never as a partial result.

  In the model a result is `Except Err _`: rows XOR an error, by typing (the Go API could return
  both; the harness checks it does not).  The content here is propagation: every loop of the engine
  (filter loop incl. nested sources, select loop, argument lists, group scan, sort-key reading, join
  loops) returns the FIRST error of any step and nothing else, and so do the clauses built on them.
-/
import Genql.Properties.C01
set_option linter.unusedSectionVars false
set_option linter.unusedVariables false
set_option linter.unusedSimpArgs false
namespace Genql.C19
open Genql Genql.C01
variable {N : Type} [Num N]

def IsError {α : Type} (r : R α) : Prop := ∃ e, r = .error e

/-- the filter loop fails as soon as the predicate fails on some row -/
theorem filterLoop_error {α : Type} (p : α → R Bool) (xs : List α) (x : α) (hx : x ∈ xs) (hp : IsError (p x)) :
    IsError (filterLoop p xs) := by
  induction xs with
  | nil => cases hx
  | cons y ys ih =>
    simp only [filterLoop, bind, Except.bind]
    cases hy : p y with
    | error e => exact ⟨e, rfl⟩
    | ok b =>
      simp only []
      rcases List.mem_cons.mp hx with rfl | hx'
      · obtain ⟨e, he⟩ := hp; rw [hy] at he; cases he
      · obtain ⟨e, he⟩ := ih hx'
        rw [he]; exact ⟨e, rfl⟩

theorem mapE_error {ε α β : Type} (f : α → Except ε β) (xs : List α) (x : α) (hx : x ∈ xs) (e : ε) (hf : f x = .error e) :
    ∃ e', mapE f xs = .error e' := by
  induction xs with
  | nil => cases hx
  | cons y ys ih =>
    simp only [mapE, bind, Except.bind]
    cases hy : f y with
    | error e1 => exact ⟨e1, rfl⟩
    | ok b =>
      simp only []
      rcases List.mem_cons.mp hx with rfl | hx'
      · rw [hy] at hf; cases hf
      · obtain ⟨e', he'⟩ := ih hx'
        rw [he']; exact ⟨e', rfl⟩

/-- the filter loop of `exec()` over a flat table: a WHERE failure on any row fails the level -/
theorem levelLoop_error (wh : List (Val N) → Row N → R Bool)
    (post : List (Val N) → List (Val N) → R (List (Val N))) (src : List (Val N))
    (rows : List (Row N)) (r : Row N) (hr : r ∈ rows) (hw : IsError (wh src r)) :
    IsError (levelLoop wh post src (rows.map Val.obj)) := by
  induction rows with
  | nil => cases hr
  | cons y ys ih =>
    simp only [List.map_cons, levelLoop, levelElem, bind, Except.bind, pure, Except.pure]
    cases hy : wh src y with
    | error e => exact ⟨e, rfl⟩
    | ok b =>
      simp only []
      rcases List.mem_cons.mp hr with rfl | hr'
      · obtain ⟨e, he⟩ := hw; rw [hy] at he; cases he
      · obtain ⟨e, he⟩ := ih hr'
        rw [he]; exact ⟨e, rfl⟩

/-- an argument list fails if any argument fails (`FuncArgReader`, `ValueTupleExpr`) -/
theorem evalArgs_error (env : Env N) (ctx : Ctx N) (cur : Row N) (es : List (Expr N)) (e : Expr N) (he : e ∈ es)
    (hf : IsError (evalExpr env ctx cur e)) : IsError (evalArgs env ctx cur es) := by
  induction es with
  | nil => cases he
  | cons y ys ih =>
    simp only [evalArgs, bind, Except.bind]
    cases hy : evalExpr env ctx cur y with
    | error e1 => exact ⟨e1, rfl⟩
    | ok x =>
      simp only []
      cases hv : valueOf cur x with
      | error e2 => exact ⟨e2, rfl⟩
      | ok v =>
        simp only []
        rcases List.mem_cons.mp he with rfl | he'
        · obtain ⟨e3, h3⟩ := hf; rw [hy] at h3; cases h3
        · obtain ⟨e3, h3⟩ := ih he'
          rw [h3]; exact ⟨e3, rfl⟩

/-- the select list fails if any item's expression fails: no NULL-patched row is produced -/
theorem evalSel_error (env : Env N) (ctx : Ctx N) (cur : Row N) (sel : List (SelItem N)) (acc : Row N)
    (e : Expr N) (key alias : String) (hm : SelItem.item e key alias ∈ sel)
    (hf : IsError (evalExpr env ctx cur e)) : IsError (evalSel env ctx cur sel acc) := by
  induction sel generalizing acc with
  | nil => cases hm
  | cons it rest ih =>
    cases it with
    | star =>
      simp only [evalSel]
      exact ih _ (by simpa using hm)
    | item e0 k0 a0 =>
      simp only [evalSel, bind, Except.bind]
      cases h0 : evalExpr env ctx cur e0 with
      | error e1 => exact ⟨e1, rfl⟩
      | ok x =>
        simp only []
        have hrest : ∀ acc', SelItem.item e key alias ∈ rest → IsError (evalSel env ctx cur rest acc') :=
          fun acc' hm' => ih acc' hm'
        rcases List.mem_cons.mp hm with heq | hm'
        · cases heq
          obtain ⟨e3, h3⟩ := hf; rw [h0] at h3; cases h3
        · cases x with
          | «omit» => exact hrest _ hm'
          | fuse fs => exact hrest _ hm'
          | v y => exact hrest _ hm'
          | neutral s => exact hrest _ hm'
          | fptr o => cases o <;> exact hrest _ hm'
          | col p =>
            simp only []
            cases valueOf cur (IVal.col p) with
            | error e2 => exact ⟨e2, rfl⟩
            | ok v => exact hrest _ hm'

/-- the injected fault: `VF_FAIL(x)` fails exactly on the configured argument value -/
theorem vf_fail_fails (env : Env N) (ctx : Ctx N) (cur : Row N) (a : Expr N) (x : IVal N) (v w : Val N)
    (ha : evalExpr env { ctx with hard := false } cur a = .ok x) (hv : valueOf cur x = .ok v) (hw : env.failOn = some w)
    (heq : valEq v w = true) : evalExpr env ctx cur (.func .none "vf_fail" [a]) = .error .error := by
  simp [evalExpr, evalArgs, ha, hv, hw, heq, bind, Except.bind, pure, Except.pure]

theorem isError_bind {α β : Type} {x : R α} (f : α → R β) (h : IsError x) : IsError (x >>= f) := by
  obtain ⟨e, rfl⟩ := h; exact ⟨e, rfl⟩

theorem ok_bind {α β : Type} (a : α) (f : α → R β) : ((Except.ok a : R α) >>= f) = f a := rfl

theorem execLevel_error (wh : List (Val N) → Row N → R Bool)
    (post : List (Val N) → List (Val N) → R (List (Val N)))
    (rows : List (Row N)) (r : Row N) (hr : r ∈ rows) (hw : IsError (wh (rows.map Val.obj) r)) :
    IsError (execLevel wh post (rows.map Val.obj)) := by
  unfold execLevel
  exact isError_bind _ (levelLoop_error wh post _ rows r hr hw)

/-- **a failure in WHERE on any row fails the whole query — no rows are returned** -/
theorem where_fault_propagates (env : Env N) (data : Row N) (t : String) (rows : List (Row N)) (p : Expr N)
    (sel : List (SelItem N)) (ht : Val.get data t = .arr (rows.map Val.obj))
    (r : Row N) (hr : r ∈ rows)
    (hf : ∀ ctx : Ctx N, ctx.data = data → IsError (evalExpr env ctx r p)) :
    IsError (execQuery env data {} (.select [] false sel (.table [t] "" t) p [] (.bool true) [] none none)) := by
  have hE : ("" : String).isEmpty = true := by decide
  simp only [execQuery, prepare, evalCtes, evalFrom, cteNames, List.append_nil, List.not_mem_nil,
    if_false, readPath_single, ht, asArray, processAlias, ok_bind, pure, Except.pure,
    hE, if_true, Bool.false_eq_true]
  apply isError_bind
  apply execLevel_error _ _ rows r hr
  apply isError_bind
  exact hf _ rfl

/-- rows XOR error -/
theorem no_partial_result (env : Env N) (data : Row N) (q : Query N) :
    (∃ v, execQuery env data {} q = .ok v) ∨ (∃ e, execQuery env data {} q = .error e) := by
  cases execQuery env data {} q with
  | ok v => exact .inl ⟨v, rfl⟩
  | error e => exact .inr ⟨e, rfl⟩

/-! ### a numeric aggregate over a value that is no number fails (it is not read as 0) -/

/-- a value `ToFloat64` refuses: a boolean, an object, an array -/
def NotNumeric : Val N → Prop
  | .bool _ => True
  | .arr _ => True
  | .obj _ => True
  | _ => False

/-- no member is a text (texts go through `ParseFloat`, which the model does not predict: out of model) -/
def NoText (xs : List (Val N)) : Prop := ∀ x ∈ xs, ∀ s, x ≠ .str s

theorem toFloat64_notNumeric (v : Val N) (h : NotNumeric v) : toFloat64 v = .error .error := by
  cases v <;> simp_all [NotNumeric, toFloat64]

/-- SUM / AVG: one boolean, object or array among the members fails the whole aggregate, wherever it stands and whatever the
    other members add up to -/
theorem sumLoop_notNumeric (xs : List (Val N)) (acc : Option N) (hn : NoText xs) (hb : ∃ x ∈ xs, NotNumeric x) :
    sumLoop xs acc = .error .error := by
  induction xs generalizing acc with
  | nil => obtain ⟨x, hx, _⟩ := hb; cases hx
  | cons y ys ih =>
    have hn' : NoText ys := fun x hx => hn x (List.mem_cons_of_mem _ hx)
    cases y with
    | null =>
      simp only [sumLoop]
      obtain ⟨x, hx, hxn⟩ := hb
      rcases List.mem_cons.mp hx with rfl | hx'
      · cases hxn
      · exact ih acc hn' ⟨x, hx', hxn⟩
    | num n =>
      simp only [sumLoop, toFloat64, bind, Except.bind]
      obtain ⟨x, hx, hxn⟩ := hb
      rcases List.mem_cons.mp hx with rfl | hx'
      · cases hxn
      · exact ih _ hn' ⟨x, hx', hxn⟩
    | str s => exact absurd rfl (hn (.str s) (by simp) s)
    | bool b => simp [sumLoop, toFloat64, bind, Except.bind]
    | arr a => simp [sumLoop, toFloat64, bind, Except.bind]
    | obj o => simp [sumLoop, toFloat64, bind, Except.bind]

/-- MIN / MAX likewise -/
theorem minLoop_notNumeric (better : N → N → Bool) (xs : List (Val N)) (acc : Option N) (hn : NoText xs)
    (hb : ∃ x ∈ xs, NotNumeric x) : minLoop better xs acc = .error .error := by
  induction xs generalizing acc with
  | nil => obtain ⟨x, hx, _⟩ := hb; cases hx
  | cons y ys ih =>
    have hn' : NoText ys := fun x hx => hn x (List.mem_cons_of_mem _ hx)
    cases y with
    | null =>
      simp only [minLoop]
      obtain ⟨x, hx, hxn⟩ := hb
      rcases List.mem_cons.mp hx with rfl | hx'
      · cases hxn
      · exact ih acc hn' ⟨x, hx', hxn⟩
    | num n =>
      simp only [minLoop, toFloat64, bind, Except.bind]
      obtain ⟨x, hx, hxn⟩ := hb
      rcases List.mem_cons.mp hx with rfl | hx'
      · cases hxn
      · exact ih _ hn' ⟨x, hx', hxn⟩
    | str s => exact absurd rfl (hn (.str s) (by simp) s)
    | bool b => simp [minLoop, toFloat64, bind, Except.bind]
    | arr a => simp [minLoop, toFloat64, bind, Except.bind]
    | obj o => simp [minLoop, toFloat64, bind, Except.bind]

/-- the four numeric aggregates as the engine calls them (`callBody`, after the arity guard): over members of which one is a
    boolean / object / array (and none a text) each of them is an error -/
theorem numeric_aggregate_type_error (cnt : Bool) (f : String) (hf : f = "sum" ∨ f = "avg" ∨ f = "min" ∨ f = "max")
    (star : Option (List (Val N))) (fromLen : Nat) (xs : List (Val N)) (hn : NoText xs) (hb : ∃ x ∈ xs, NotNumeric x) :
    callBody cnt f star fromLen [.arr xs] = .error .error := by
  rcases hf with rfl | rfl | rfl | rfl <;>
    simp [callBody, asSlice, sumLoop_notNumeric xs none hn hb, minLoop_notNumeric _ xs none hn hb, bind, Except.bind]

/-- `CHANGETYPE(x, 'double')` of a boolean, object or array is an error as well (the same `ToFloat64`) -/
theorem changetype_double_notNumeric (cnt : Bool) (star : Option (List (Val N))) (fromLen : Nat) (x : Val N)
    (h : NotNumeric x) : callBody cnt "changetype" star fromLen [x, .str "double"] = .error .error := by
  have hl : lowerStr "double" = "double" := by decide
  cases x <;> simp_all [NotNumeric, callBody]

example : callBody (N := Int) false "sum" none 0 [.arr [.num 1, .null, .bool true, .num 2]] = .error .error :=
  numeric_aggregate_type_error false "sum" (.inl rfl) none 0 _ (by intro x hx s; simp at hx; rcases hx with rfl | rfl | rfl | rfl <;> simp)
    ⟨.bool true, by simp, trivial⟩

end Genql.C19
