/-
  C05 for the function the driver runs: `sortRows` (keys read once per row with `readPath`, rows ordered by
  `lessKeys` with an insertion sort) returns a permutation of its input that has no inversion w.r.t. the
  `sort.go` comparator — whenever every row's keys are readable, printable and of one sortable kind per
  column (NULL allowed).  This instantiates the abstract sorting theorems of `Properties/C05` (`sort_perm`,
  `sort_sorted`, `lessK_swo`) at the model's own `less`, so that `Pipeline.select_pipeline`'s ORDER BY stage is
  covered by them.
-/
import Genql.Properties.C05
import Genql.Model.Eval
set_option linter.unusedSectionVars false
set_option linter.unusedVariables false
set_option linter.unusedSimpArgs false
namespace Genql.C05
open Genql
variable {N : Type} [Num N] [LawfulNum N]

/-- the keys `sortRows` reads for one row (value and ASC flag per ORDER BY item) -/
def rowKeys (orderBy : List (List String × Bool)) (r : Val N) : R (List (Val N × Bool)) :=
  mapE (fun (pa : List String × Bool) => do
    let v ← readPath pa.1 r
    let _ ← fmtR v
    pure (v, pa.2)) orderBy

/-- the model's comparator on keyed rows -/
def keyedLess (a b : List (Val N × Bool) × Val N) : Bool :=
  match lessKeys ((a.1.zip b.1).map fun p => (p.1.1, p.2.1, p.1.2)) with
  | .ok r => r
  | .error _ => false

theorem mapE_cons_ok {ε α β : Type} {f : α → Except ε β} {x : α} {xs : List α} {out : List β}
    (h : mapE f (x :: xs) = .ok out) : ∃ y ys, f x = .ok y ∧ mapE f xs = .ok ys ∧ out = y :: ys := by
  simp only [mapE, bind, Except.bind] at h
  cases hx : f x with
  | error e => rw [hx] at h; cases h
  | ok y =>
    rw [hx] at h
    simp only [] at h
    cases hxs : mapE f xs with
    | error e => rw [hxs] at h; cases h
    | ok ys =>
      rw [hxs] at h
      simp only [pure, Except.pure] at h
      cases h
      exact ⟨y, ys, rfl, rfl, rfl⟩

theorem rowKeys_dirs (orderBy : List (List String × Bool)) (r : Val N) (ks : List (Val N × Bool))
    (h : rowKeys orderBy r = .ok ks) : ks.map (·.2) = orderBy.map (·.2) := by
  induction orderBy generalizing ks with
  | nil => simp [rowKeys, mapE] at h; subst h; rfl
  | cons pa rest ih =>
    obtain ⟨y, ys, hy, hys, rfl⟩ := mapE_cons_ok h
    have hy2 : y.2 = pa.2 := by
      simp only [bind, Except.bind] at hy
      cases hr : readPath pa.1 r with
      | error e => rw [hr] at hy; cases hy
      | ok v =>
        rw [hr] at hy
        simp only [] at hy
        cases hf : fmtR v with
        | error e => rw [hf] at hy; cases hy
        | ok t => rw [hf] at hy; simp only [pure, Except.pure] at hy; cases hy; rfl
    simp [hy2, ih ys hys]

/-- zipping two key lists with the same ASC flags is `triples` -/
theorem zip_triples : ∀ (ds : List Bool) (a b : List (Val N × Bool)),
    a.map (·.2) = ds → b.map (·.2) = ds →
    (a.zip b).map (fun p => (p.1.1, p.2.1, p.1.2)) = triples ds (a.map (·.1)) (b.map (·.1))
  | [], a, b, ha, hb => by
    have : a = [] := List.map_eq_nil_iff.mp ha
    subst this; simp [triples]
  | d :: ds, [], b, ha, hb => by simp at ha
  | d :: ds, x :: a, [], ha, hb => by simp at hb
  | d :: ds, x :: a, y :: b, ha, hb => by
    simp only [List.map_cons, List.cons.injEq] at ha hb
    simp only [List.zip_cons_cons, List.map_cons, triples, zip_triples ds a b ha.2 hb.2, ha.1]

/-- on well-kinded keys with the same ASC flags the model's comparator is the pure `lessK` -/
theorem keyedLess_eq (κs : List Kind) (ds : List Bool) (a b : List (Val N × Bool) × Val N)
    (ha : a.1.map (·.2) = ds) (hb : b.1.map (·.2) = ds)
    (ka : KeysOK κs (a.1.map (·.1))) (kb : KeysOK κs (b.1.map (·.1))) :
    keyedLess a b = lessK ds (a.1.map (·.1)) (b.1.map (·.1)) := by
  unfold keyedLess
  rw [zip_triples ds a.1 b.1 ha hb, lessKeys_eq_lessK κs ds _ _ ka kb]

/-- what the keyed rows of `sortRows` satisfy -/
def KeyedOK (κs : List Kind) (ds : List Bool) (a : List (Val N × Bool) × Val N) : Prop :=
  a.1.map (·.2) = ds ∧ KeysOK κs (a.1.map (·.1))

/-- the model's comparator is a strict weak order on the keyed rows of one `sortRows` call -/
theorem keyedLess_swo (κs : List Kind) (ds : List Bool) : SWO (keyedLess (N := N)) (KeyedOK κs ds) where
  irrefl := by
    intro a ha
    rw [keyedLess_eq κs ds a a ha.1 ha.1 ha.2 ha.2]
    exact (lessK_swo κs ds).irrefl _ ha.2
  trans := by
    intro a b c ha hb hc h1 h2
    rw [keyedLess_eq κs ds _ _ ha.1 hb.1 ha.2 hb.2] at h1
    rw [keyedLess_eq κs ds _ _ hb.1 hc.1 hb.2 hc.2] at h2
    rw [keyedLess_eq κs ds _ _ ha.1 hc.1 ha.2 hc.2]
    exact (lessK_swo κs ds).trans _ _ _ ha.2 hb.2 hc.2 h1 h2
  negtrans := by
    intro a b c ha hb hc h1 h2
    rw [keyedLess_eq κs ds _ _ ha.1 hb.1 ha.2 hb.2] at h1
    rw [keyedLess_eq κs ds _ _ hb.1 hc.1 hb.2 hc.2] at h2
    rw [keyedLess_eq κs ds _ _ ha.1 hc.1 ha.2 hc.2]
    exact (lessK_swo κs ds).negtrans _ _ _ ha.2 hb.2 hc.2 h1 h2

/-- `sortRows` in terms of the keyed rows -/
theorem sortRows_keyed (orderBy : List (List String × Bool)) (rows : List (Val N))
    (hne : (orderBy.isEmpty || decide (rows.length ≤ 1)) = false) :
    sortRows orderBy rows = (do
      let keyed ← mapE (fun r => do let ks ← rowKeys orderBy r; pure (ks, r)) rows
      pure ((insertSort keyedLess keyed).map (·.2))) := by
  unfold sortRows
  simp only [hne, Bool.false_eq_true, if_false]
  rfl

theorem mapE_keyed_snd (orderBy : List (List String × Bool)) :
    ∀ (rows : List (Val N)) (keyed : List (List (Val N × Bool) × Val N)),
      mapE (fun r => do let ks ← rowKeys orderBy r; pure (ks, r)) rows = .ok keyed →
      keyed.map (·.2) = rows ∧ ∀ a ∈ keyed, rowKeys orderBy a.2 = .ok a.1
  | [], keyed, h => by simp [mapE] at h; subst h; simp
  | r :: rows, keyed, h => by
    obtain ⟨y, ys, hy, hys, rfl⟩ := mapE_cons_ok h
    obtain ⟨h1, h2⟩ := mapE_keyed_snd orderBy rows ys hys
    have hyr : y.2 = r ∧ rowKeys orderBy r = .ok y.1 := by
      simp only [bind, Except.bind] at hy
      cases hk : rowKeys orderBy r with
      | error e => rw [hk] at hy; cases hy
      | ok ks => rw [hk] at hy; simp only [pure, Except.pure] at hy; cases hy; exact ⟨rfl, rfl⟩
    refine ⟨by simp [h1, hyr.1], ?_⟩
    intro a ha
    simp only [List.mem_cons] at ha
    rcases ha with rfl | ha
    · rw [hyr.1]; exact hyr.2
    · exact h2 a ha

/-- **ORDER BY in the executable model returns a permutation of the rows …** -/
theorem sortRows_perm (orderBy : List (List String × Bool)) (rows out : List (Val N))
    (h : sortRows orderBy rows = .ok out) : out.Perm rows := by
  by_cases hne : (orderBy.isEmpty || decide (rows.length ≤ 1)) = true
  · unfold sortRows at h
    simp only [hne, if_true] at h
    cases h; exact List.Perm.refl _
  · have hne' : (orderBy.isEmpty || decide (rows.length ≤ 1)) = false := by simpa using hne
    rw [sortRows_keyed orderBy rows hne'] at h
    cases hm : mapE (fun r => do let ks ← rowKeys orderBy r; pure (ks, r)) rows with
    | error e => rw [hm] at h; cases h
    | ok keyed =>
      rw [hm] at h
      simp only [bind, Except.bind, pure, Except.pure] at h
      cases h
      obtain ⟨h1, _⟩ := mapE_keyed_snd orderBy rows keyed hm
      rw [← h1]
      exact (sort_perm keyedLess keyed).map _

/-- the key values of a row, as a total function (NULL where a key cannot be read) -/
def keyVals (orderBy : List (List String × Bool)) (r : Val N) : List (Val N) :=
  match rowKeys orderBy r with
  | .ok ks => ks.map (·.1)
  | .error _ => []

/-- **… that has no inversion**: no row is followed by a row that the `sort.go` comparator puts strictly
    before it — for rows whose keys are readable, printable and of one sortable kind per column -/
theorem sortRows_sorted (κs : List Kind) (orderBy : List (List String × Bool)) (rows out : List (Val N))
    (hk : ∀ r ∈ rows, ∃ ks, rowKeys orderBy r = .ok ks ∧ KeysOK κs (ks.map (·.1)))
    (hne : (orderBy.isEmpty || decide (rows.length ≤ 1)) = false)
    (h : sortRows orderBy rows = .ok out) :
    Sorted (fun a b => lessK (orderBy.map (·.2)) (keyVals orderBy a) (keyVals orderBy b)) out := by
  rw [sortRows_keyed orderBy rows hne] at h
  cases hm : mapE (fun r => do let ks ← rowKeys orderBy r; pure (ks, r)) rows with
  | error e => rw [hm] at h; cases h
  | ok keyed =>
    rw [hm] at h
    simp only [bind, Except.bind, pure, Except.pure] at h
    cases h
    obtain ⟨h1, h2⟩ := mapE_keyed_snd orderBy rows keyed hm
    have hP : ∀ a ∈ keyed, KeyedOK κs (orderBy.map (·.2)) a := by
      intro a ha
      have hka := h2 a ha
      have hmem : a.2 ∈ rows := by rw [← h1]; exact List.mem_map.mpr ⟨a, ha, rfl⟩
      obtain ⟨ks, hks, hok⟩ := hk a.2 hmem
      rw [hka] at hks
      cases hks
      exact ⟨rowKeys_dirs orderBy a.2 a.1 hka, hok⟩
    have hsorted := sort_sorted keyedLess (KeyedOK κs (orderBy.map (·.2))) (keyedLess_swo κs _) keyed hP
    have hPs : ∀ a ∈ insertSort keyedLess keyed, KeyedOK κs (orderBy.map (·.2)) a ∧ rowKeys orderBy a.2 = .ok a.1 := by
      intro a ha
      have := (sort_perm keyedLess keyed).mem_iff.mp ha
      exact ⟨hP a this, h2 a this⟩
    unfold Sorted at hsorted ⊢
    rw [List.pairwise_map]
    refine List.Pairwise.imp_of_mem ?_ hsorted
    intro a b ha hb hab
    obtain ⟨pa, ka⟩ := hPs a ha
    obtain ⟨pb, kb⟩ := hPs b hb
    rw [keyedLess_eq κs _ b a pb.1 pa.1 pb.2 pa.2] at hab
    simp only [keyVals, ka, kb]
    exact hab

end Genql.C05
