/-
  Property C01 — WHERE keeps exactly the rows that satisfy the predicate, in source order.

  `evalPred_sound`   : on the property's domain (`WT`) the evaluator's predicate fragment returns
                       exactly the SQL truth value `sem`, never an error.
  `where_exact`      : the filter loop of `exec()` returns `rows.filter sem` (each kept row once, in
                       source order) for every table and every well-typed predicate.
  `where_exact_model`: the same statement for the whole modelled API path `SELECT * FROM t WHERE p`.
  corollaries        : NOT IN is the complement of IN, BETWEEN is `>= AND <=`, a predicate and its
                       negation partition the rows; LIKE's matcher is the SQL LIKE relation.
-/
import Genql.Proofs.Pred
set_option linter.unusedSectionVars false
namespace Genql.C01
open Genql
variable {N : Type} [Num N] [LawfulNum N]

theorem scoped_marker (row data : Row N) : Scoped row (withMarker row data) := .inr ⟨data, rfl⟩
theorem scoped_self (row : Row N) : Scoped row row := .inl rfl

/-- comparison operators on two operands of one kind -/
theorem cmp_eval (env : Env N) (ctx : Ctx N) (hh : ctx.hard = false) {row : Row N} {κ : Kind}
    {op : CmpOp} {a b : Expr N} (hop : op ∈ [CmpOp.eq, .ne, .lt, .le, .gt, .ge])
    (hκ : κ ≠ .bool ∨ op ∈ [CmpOp.eq, .ne])
    (ha : Operand row κ a) (hb : Operand row κ b) :
    evalExpr env ctx row (.cmp op a b) = .ok (.v (.bool (sem row (.cmp op a b)))) := by
  obtain ⟨ia, hea, hva, hka⟩ := operand_eval env ctx hh (scoped_marker row ctx.data) ha
  obtain ⟨ib, heb, hvb, hkb⟩ := operand_eval env ctx hh (scoped_marker row ctx.data) hb
  obtain ⟨c, hc, h0, hlt, hgt, hrange⟩ := compare_same_kind hka hkb
  simp only [evalExpr, hea, heb, hva, hvb, bind, Except.bind, pure, Except.pure]
  simp only [List.mem_cons, List.mem_nil_iff, or_false] at hop hκ
  rcases hop with rfl | rfl | rfl | rfl | rfl | rfl <;>
    simp only [cmpDispatch, hc, bind, Except.bind, pure, Except.pure, sem]
  · -- eq
    congr 3; rw [Bool.eq_iff_iff]; simpa using h0
  · -- ne
    congr 3; rw [Bool.eq_iff_iff]; simp only [ne_eq, decide_not, Bool.not_eq_true', decide_eq_false_iff_not]
    rw [h0]; simp
  · -- lt
    have hk : κ ≠ .bool := by rcases hκ with h | h | h <;> first | exact h | cases h
    congr 3; rw [Bool.eq_iff_iff]; simpa using hlt hk
  · -- le
    have hk : κ ≠ .bool := by rcases hκ with h | h | h <;> first | exact h | cases h
    congr 3; rw [Bool.eq_iff_iff]
    simp only [decide_eq_true_eq, Bool.or_eq_true, ← h0, ← hlt hk]
    rcases hrange with h | h | h <;> subst h <;> simp
  · -- gt
    have hk : κ ≠ .bool := by rcases hκ with h | h | h <;> first | exact h | cases h
    congr 3; rw [Bool.eq_iff_iff]; simpa using hgt hk
  · -- ge
    have hk : κ ≠ .bool := by rcases hκ with h | h | h <;> first | exact h | cases h
    congr 3; rw [Bool.eq_iff_iff]
    simp only [decide_eq_true_eq, Bool.or_eq_true, ← h0, ← hgt hk]
    rcases hrange with h | h | h <;> subst h <;> simp


theorem evalArgs_operands (env : Env N) (ctx : Ctx N) (hh : ctx.hard = false) {row cur : Row N}
    (hs : Scoped row cur) {κ : Kind} (xs : List (Expr N)) (h : ∀ x ∈ xs, Operand row κ x) :
    evalArgs env ctx cur xs = .ok (tupleVals row xs) ∧ ∀ v ∈ tupleVals row xs, kindOf v = some κ := by
  induction xs with
  | nil => simp [evalArgs, tupleVals]
  | cons x xs ih =>
    obtain ⟨ix, hex, hvx, hkx⟩ := operand_eval env ctx hh hs (h x (by simp))
    obtain ⟨ih1, ih2⟩ := ih (fun y hy => h y (by simp [hy]))
    constructor
    · simp only [evalArgs, hex, hvx, ih1, bind, Except.bind, pure, Except.pure, tupleVals, List.map_cons]
    · intro v hv
      simp only [tupleVals, List.map_cons, List.mem_cons] at hv
      rcases hv with rfl | hv
      · exact hkx
      · exact ih2 v hv

theorem valueOf_v (cur : Row N) (x : Val N) : valueOf cur (.v x) = .ok x := rfl

theorem inLoop_cons_scalar {κ : Kind} (lv : Val N) {v : Val N} (hk : kindOf v = some κ) (rest : List (Val N)) :
    inLoop lv (v :: rest) = (do
      let c ← compareVal lv v
      if c = 0 then pure true else inLoop lv rest) := by
  cases v <;> simp [kindOf] at hk <;> simp [inLoop]

theorem inLoop_any {κ : Kind} {lv : Val N} (hl : kindOf lv = some κ) (vs : List (Val N))
    (hv : ∀ v ∈ vs, kindOf v = some κ) : inLoop lv vs = .ok (vs.any (eqV lv)) := by
  induction vs with
  | nil => simp [inLoop]
  | cons v vs ih =>
    have hk := hv v (by simp)
    obtain ⟨c, hc, h0, -, -, -⟩ := compare_same_kind hl hk
    have ih' := ih (fun w hw => hv w (by simp [hw]))
    rw [inLoop_cons_scalar lv hk]
    simp only [hc, bind, Except.bind, pure, Except.pure, List.any_cons]
    by_cases hz : c = 0
    · simp [hz, h0.1 hz]
    · have : eqV lv v = false := by
        cases he : eqV lv v with
        | false => rfl
        | true => exact absurd (h0.2 he) hz
      simp [hz, this, ih']

/-- **IN over a single-column sub-query**: when the right side is the list of rows of a sub-query,
    each consisting of one column whose value has the kind of the left operand, `IN` is membership of
    the left value among those column values — whatever the column is called -/
theorem inLoop_subquery_rows {κ : Kind} {lv : Val N} (hl : kindOf lv = some κ) (cells : List (String × Val N))
    (hv : ∀ c ∈ cells, kindOf c.2 = some κ) :
    inLoop lv (cells.map fun c => Val.obj [c]) = .ok ((cells.map (·.2)).any (eqV lv)) := by
  induction cells with
  | nil => simp [inLoop]
  | cons cell cells ih =>
    obtain ⟨k, v⟩ := cell
    have hk : kindOf v = some κ := hv (k, v) (by simp)
    obtain ⟨c, hc, h0, -, -, -⟩ := compare_same_kind hl hk
    have ih' := ih (fun w hw => hv w (by simp [hw]))
    simp only [List.map_cons, inLoop, hc, bind, Except.bind, pure, Except.pure, List.any_cons]
    by_cases hz : c = 0
    · simp [hz, h0.1 hz]
    · have : eqV lv v = false := by
        cases he : eqV lv v with
        | false => rfl
        | true => exact absurd (h0.2 he) hz
      simp [hz, this, ih']

/-- a sub-query row with no or several columns on the right of IN is an error, never a guess (D50) -/
theorem inLoop_multi_column_error (lv : Val N) (c1 c2 : String × Val N) (fs : List (String × Val N))
    (rest : List (Val N)) :
    inLoop lv (Val.obj (c1 :: c2 :: fs) :: rest) = .error .error ∧ inLoop lv (Val.obj [] :: rest) = .error .error := by
  constructor <;> simp [inLoop]

theorem notInLoop_any {κ : Kind} {lv : Val N} (hl : kindOf lv = some κ) (vs : List (Val N))
    (hv : ∀ v ∈ vs, kindOf v = some κ) : notInLoop lv vs = .ok (!vs.any (eqV lv)) := by
  induction vs with
  | nil => simp [notInLoop]
  | cons v vs ih =>
    have hk := hv v (by simp)
    obtain ⟨c, hc, h0, -, -, -⟩ := compare_same_kind hl hk
    have ih' := ih (fun w hw => hv w (by simp [hw]))
    simp only [notInLoop, hc, bind, Except.bind, pure, Except.pure, List.any_cons]
    by_cases hz : c = 0
    · simp [hz, h0.1 hz]
    · have : eqV lv v = false := by
        cases he : eqV lv v with
        | false => rfl
        | true => exact absurd (h0.2 he) hz
      simp [hz, this, ih']

theorem str_of_kind {v : Val N} (h : kindOf v = some .str) : ∃ s, v = .str s := by
  cases v <;> simp [kindOf] at h
  exact ⟨_, rfl⟩

theorem bool_of_kind {v : Val N} (h : kindOf v = some .bool) : ∃ b, v = .bool b := by
  cases v <;> simp [kindOf] at h
  exact ⟨_, rfl⟩

/-- **The evaluator computes the SQL meaning of every well-typed predicate, without error.** -/
theorem evalPred_sound (env : Env N) (ctx : Ctx N) (hh : ctx.hard = false) (row : Row N)
    (e : Expr N) (h : WT row e) :
    evalExpr env ctx row e = .ok (.v (.bool (sem row e))) := by
  induction h with
  | lit b => simp [evalExpr, sem]
  | and ha hb iha ihb =>
    simp [evalExpr, iha, ihb, valueOf, asBool, sem, bind, Except.bind, pure, Except.pure]
  | or ha hb iha ihb =>
    simp [evalExpr, iha, ihb, valueOf, asBool, sem, bind, Except.bind, pure, Except.pure]
  | not ha iha =>
    simp [evalExpr, iha, valueOf, asBool, sem, bind, Except.bind, pure, Except.pure]
  | cmpNum hop ha hb => exact cmp_eval env ctx hh hop (.inl (by decide)) ha hb
  | cmpStr hop ha hb => exact cmp_eval env ctx hh hop (.inl (by decide)) ha hb
  | cmpBool hop ha hb =>
    refine cmp_eval env ctx hh ?_ (.inr hop) ha hb
    simp only [List.mem_cons, List.mem_nil_iff, or_false] at hop ⊢
    rcases hop with h | h <;> simp [h]
  | @inList κ a xs ha hxs =>
    obtain ⟨ia, hea, hva, hka⟩ := operand_eval env ctx hh (scoped_marker row ctx.data) ha
    obtain ⟨hargs, hkinds⟩ := evalArgs_operands env ctx hh (scoped_marker row ctx.data) xs hxs
    simp only [evalExpr, hea, hva, hargs, valueOf_v, cmpDispatch, inLoop_any hka _ hkinds, sem,
      bind, Except.bind, pure, Except.pure]
  | @notInList κ a xs ha hxs =>
    obtain ⟨ia, hea, hva, hka⟩ := operand_eval env ctx hh (scoped_marker row ctx.data) ha
    obtain ⟨hargs, hkinds⟩ := evalArgs_operands env ctx hh (scoped_marker row ctx.data) xs hxs
    simp only [evalExpr, hea, hva, hargs, valueOf_v, cmpDispatch, notInLoop_any hka _ hkinds, sem,
      bind, Except.bind, pure, Except.pure]
  | @like a b ha hb =>
    obtain ⟨ia, hea, hva, hka⟩ := operand_eval env ctx hh (scoped_marker row ctx.data) ha
    obtain ⟨ib, heb, hvb, hkb⟩ := operand_eval env ctx hh (scoped_marker row ctx.data) hb
    obtain ⟨s, hs⟩ := str_of_kind hka
    obtain ⟨p, hp⟩ := str_of_kind hkb
    simp only [evalExpr, hea, hva, heb, hvb, hs, hp, cmpDispatch, fmtR, fmtV, regexComparison, sem,
      bind, Except.bind, pure, Except.pure]
  | @notLike a b ha hb =>
    obtain ⟨ia, hea, hva, hka⟩ := operand_eval env ctx hh (scoped_marker row ctx.data) ha
    obtain ⟨ib, heb, hvb, hkb⟩ := operand_eval env ctx hh (scoped_marker row ctx.data) hb
    obtain ⟨s, hs⟩ := str_of_kind hka
    obtain ⟨p, hp⟩ := str_of_kind hkb
    simp only [evalExpr, hea, hva, heb, hvb, hs, hp, cmpDispatch, fmtR, fmtV, regexComparison, sem,
      bind, Except.bind, pure, Except.pure]
  | @between κ isB x lo hi hκ hx hlo hhi =>
    obtain ⟨ix, hex, hvx, hkx⟩ := operand_eval env ctx hh (scoped_self row) hx
    obtain ⟨il, hel, hvl, hkl⟩ := operand_eval env ctx hh (scoped_self row) hlo
    obtain ⟨ih, heh, hvh, hkh⟩ := operand_eval env ctx hh (scoped_self row) hhi
    obtain ⟨c1, hc1, h10, h1lt, h1gt, hr1⟩ := compare_same_kind hkx hkl
    obtain ⟨c2, hc2, h20, h2lt, h2gt, hr2⟩ := compare_same_kind hkx hkh
    simp only [evalExpr, hex, hvx, hel, hvl, heh, hvh, hc1, hc2, sem, bind, Except.bind, pure, Except.pure]
    have e1 : decide (c1 ≥ 0) = (ltV (operand row lo) (operand row x) || eqV (operand row x) (operand row lo)) := by
      rw [Bool.eq_iff_iff]
      simp only [decide_eq_true_eq, Bool.or_eq_true, ← h10, ← h1gt hκ]
      rcases hr1 with h | h | h <;> subst h <;> simp
    have e2 : decide (c2 ≤ 0) = (ltV (operand row x) (operand row hi) || eqV (operand row x) (operand row hi)) := by
      rw [Bool.eq_iff_iff]
      simp only [decide_eq_true_eq, Bool.or_eq_true, ← h20, ← h2lt hκ]
      rcases hr2 with h | h | h <;> subst h <;> simp
    rw [e1, e2]
  | @isNull op a hop ha =>
    cases ha with
    | col k hk =>
      simp only [List.mem_cons, List.mem_nil_iff, or_false] at hop
      rcases hop with rfl | rfl <;>
        simp [evalExpr, hh, valueOf, readPath_single, isDispatch, sem, operand, bind, Except.bind, pure, Except.pure]
  | @isBool op a ha =>
    obtain ⟨ia, hea, hva, hka⟩ := operand_eval env ctx hh (scoped_self row) ha
    obtain ⟨b, hb⟩ := bool_of_kind hka
    cases op <;>
      simp [evalExpr, hea, hva, hb, isDispatch, sem, Val.isNull, bind, Except.bind, pure, Except.pure]


/-! ### the filter loop -/

theorem filterLoop_filter {α : Type} (p : α → R Bool) (f : α → Bool) (xs : List α)
    (h : ∀ x ∈ xs, p x = .ok (f x)) : filterLoop p xs = .ok (xs.filter f) := by
  induction xs with
  | nil => rfl
  | cons x xs ih =>
    have hx := h x (by simp)
    have := ih (fun y hy => h y (by simp [hy]))
    simp only [filterLoop, hx, this, bind, Except.bind, pure, Except.pure, List.filter_cons]

/-- the filter loop of `exec()` on a flat table (every element an object) -/
theorem levelLoop_flat (wh : List (Val N) → Row N → R Bool)
    (post : List (Val N) → List (Val N) → R (List (Val N))) (src : List (Val N))
    (rows : List (Row N)) (f : Row N → Bool) (h : ∀ r ∈ rows, wh src r = .ok (f r)) :
    levelLoop wh post src (rows.map Val.obj) = .ok ((rows.filter f).map Val.obj) := by
  induction rows with
  | nil => simp [levelLoop]
  | cons r rows ih =>
    have hr := h r (by simp)
    have := ih (fun y hy => h y (by simp [hy]))
    simp only [List.map_cons, levelLoop, levelElem, hr, this, bind, Except.bind, pure, Except.pure,
      List.filter_cons]
    cases f r <;> rfl

/-- **C01 (filter loop).** For every table of objects and every predicate that is well typed on
    each row, the WHERE stage keeps exactly the rows whose SQL truth value is true — each once, in
    source order — and never fails. -/
theorem where_exact (env : Env N) (mkCtx : List (Val N) → Ctx N) (hh : ∀ src, (mkCtx src).hard = false)
    (post : List (Val N) → List (Val N) → R (List (Val N))) (src : List (Val N))
    (rows : List (Row N)) (p : Expr N) (hwt : ∀ r ∈ rows, WT r p) :
    levelLoop (fun src cur => do rawBool (← evalExpr env (mkCtx src) cur p)) post src (rows.map Val.obj)
      = .ok ((rows.filter (sem · p)).map Val.obj) := by
  apply levelLoop_flat
  intro r hr
  simp [evalPred_sound env (mkCtx src) (hh src) r p (hwt r hr), rawBool, bind, Except.bind]

theorem window_none {α : Type} (rs : List α) : window rs none none = .ok rs := by
  unfold window
  simp only [Option.getD_none]
  by_cases h : rs.length = 0
  · simp [List.length_eq_zero_iff.mp h]
  · have : ¬ (0 ≥ rs.length) := by omega
    simp [this]

theorem mapE_map {ε α β : Type} (g : α → β) (xs : List α) :
    mapE (fun x => (.ok (g x) : Except ε β)) xs = .ok (xs.map g) :=
  mapE_eq_map_of_ok (fun _ _ => rfl)

/-- `SELECT *` on one row: the row itself, copied (and without the navigation marker) -/
def starRow (r : Row N) : Val N := .obj (copyInto [] (delKey "<-" r))

/-- **C01 (whole modelled path).** `SELECT * FROM t WHERE p` over a document whose key `t` holds an
    array of objects returns exactly the satisfying rows, in source order, each once. -/
theorem where_exact_model (env : Env N) (data : Row N) (t : String) (rows : List (Row N)) (p : Expr N)
    (ht : Val.get data t = .arr (rows.map Val.obj)) (hwt : ∀ r ∈ rows, WT r p) :
    execQuery env data {} (.select [] false [.star] (.table [t] "" t) p [] (.bool true) [] none none)
      = .ok (.arr ((rows.filter (sem · p)).map starRow)) := by
  have hE : ("" : String).isEmpty = true := by decide
  simp only [execQuery, prepare, evalCtes, evalFrom, cteNames, List.append_nil, List.not_mem_nil,
    if_false, readPath_single, ht, asArray, processAlias, bind, Except.bind, pure, Except.pure,
    hE, if_true, execLevel, List.isEmpty_nil, Bool.not_true]
  rw [levelLoop_flat _ _ _ rows (fun r => sem r p) (by
    intro r hr
    simp [evalPred_sound env ⟨data, false, false, _, _⟩ rfl r p (hwt r hr), rawBool])]
  simp only [Bool.false_eq_true, if_false, isAllAggr, sortRows, List.isEmpty_nil, Bool.true_or, if_true,
    window_none, Bool.not_false, selectRowsWith, Bool.false_and]
  rw [mapE_eq_map_of_ok (g := fun v => match v with | Val.obj fs => starRow fs | v => v)]
  · simp [List.map_map, Function.comp_def]
  · intro x hx
    simp only [List.mem_map] at hx
    obtain ⟨r, _, rfl⟩ := hx
    simp [evalSel, starRow, Functor.map, Except.map]


/-! ### consequences named in the property -/

/-- NOT IN is the complement of IN (as evaluated by the engine, on the property's domain). -/
theorem notIn_complement (env : Env N) (ctx : Ctx N) (hh : ctx.hard = false) (row : Row N) {κ : Kind}
    (a : Expr N) (xs : List (Expr N)) (ha : Operand row κ a) (hxs : ∀ x ∈ xs, Operand row κ x) :
    ∃ b, evalExpr env ctx row (.cmp .in_ a (.tuple xs)) = .ok (.v (.bool b)) ∧
         evalExpr env ctx row (.cmp .notIn a (.tuple xs)) = .ok (.v (.bool (!b))) :=
  ⟨_, evalPred_sound env ctx hh row _ (.inList ha hxs), evalPred_sound env ctx hh row _ (.notInList ha hxs)⟩

/-- `x BETWEEN lo AND hi` agrees with `x >= lo AND x <= hi` (inclusive at both ends). -/
theorem between_iff_ge_le (env : Env N) (ctx : Ctx N) (hh : ctx.hard = false) (row : Row N) {κ : Kind}
    (hκ : κ ≠ .bool) (x lo hi : Expr N)
    (hx : Operand row κ x) (hlo : Operand row κ lo) (hhi : Operand row κ hi) :
    evalExpr env ctx row (.between true x lo hi) =
      evalExpr env ctx row (.and (.cmp .ge x lo) (.cmp .le x hi)) := by
  have hcmp : ∀ op ∈ [CmpOp.eq, .ne, .lt, .le, .gt, .ge], ∀ a b, Operand row κ a → Operand row κ b →
      WT row (.cmp op a b) := by
    intro op hop a b ha hb
    cases κ with
    | num => exact .cmpNum hop ha hb
    | str => exact .cmpStr hop ha hb
    | bool => exact absurd rfl hκ
  rw [evalPred_sound env ctx hh row _ (.between hκ hx hlo hhi),
      evalPred_sound env ctx hh row _ (.and (hcmp _ (by simp) _ _ hx hlo) (hcmp _ (by simp) _ _ hx hhi))]
  simp [sem]

/-- a predicate and its negation partition the rows: disjoint, and together a permutation of
    the table (in fact an interleaving that preserves source order on each side) -/
theorem not_partitions (rows : List (Row N)) (p : Expr N) :
    (rows.filter (sem · p) ++ rows.filter (sem · (.not p))).Perm rows ∧
    ∀ r, r ∈ rows.filter (sem · p) → r ∈ rows.filter (sem · (.not p)) → False := by
  constructor
  · have : (fun r : Row N => sem r (.not p)) = fun r => !sem r p := by funext r; simp [sem]
    rw [this]
    exact List.filter_append_perm _ _
  · intro r h1 h2
    simp only [List.mem_filter, sem, Bool.not_eq_true'] at h1 h2
    rw [h1.2] at h2
    exact absurd h2.2 (by simp)

/-! ### LIKE: the matcher the engine's regular expression denotes is the SQL LIKE relation -/

theorem anySuffix_iff (f : List Char → Bool) (s : List Char) :
    anySuffix f s = true ↔ ∃ t, t <:+ s ∧ f t = true := by
  induction s with
  | nil =>
    simp only [anySuffix, List.suffix_nil]
    constructor
    · intro h; exact ⟨[], rfl, h⟩
    · rintro ⟨t, rfl, h⟩; exact h
  | cons c cs ih =>
    simp only [anySuffix, Bool.or_eq_true, ih, List.suffix_cons_iff]
    constructor
    · rintro (h | ⟨t, ht, hf⟩)
      · exact ⟨_, .inl rfl, h⟩
      · exact ⟨t, .inr ht, hf⟩
    · rintro ⟨t, (rfl | ht), hf⟩
      · exact .inl hf
      · exact .inr ⟨t, ht, hf⟩

theorem like_pct_of_suffix {ps t : List Char} (h : Like ps t) :
    ∀ s, t <:+ s → Like ('%' :: ps) s := by
  intro s
  induction s with
  | nil => intro hs; rw [List.suffix_nil.mp hs] at h; exact .pctSkip h
  | cons c cs ih =>
    intro hs
    rcases List.suffix_cons_iff.mp hs with rfl | hs'
    · exact .pctSkip h
    · exact .pctEat (ih hs')

theorem suffix_of_like_pct {q s : List Char} (h : Like q s) :
    ∀ ps, q = '%' :: ps → ∃ t, t <:+ s ∧ Like ps t := by
  induction h with
  | nil => intro ps h; cases h
  | pctSkip h _ => intro ps hq; cases hq; exact ⟨_, List.suffix_refl _, h⟩
  | pctEat _ ih =>
    intro ps hq
    obtain ⟨t, ht, hl⟩ := ih ps hq
    exact ⟨t, List.suffix_cons_iff.mpr (.inr ht), hl⟩
  | under _ _ => intro ps hq; cases hq
  | lit hp _ _ _ => intro ps hq; cases hq; exact absurd rfl hp

/-- **LIKE translation.** The anchored matcher for the expression `RegexComparison` builds
    (`_` ↦ `.`, `%` ↦ `.*`, anything else quoted) accepts exactly the SQL LIKE relation. -/
theorem like_translation (pat s : List Char) : likeMatch pat s = true ↔ Like pat s := by
  induction pat generalizing s with
  | nil =>
    cases s with
    | nil => simp [likeMatch]; exact .nil
    | cons c cs => simp [likeMatch]; intro h; cases h
  | cons p ps ih =>
    by_cases hp : p = '%'
    · subst hp
      simp only [likeMatch, if_true, anySuffix_iff]
      constructor
      · rintro ⟨t, ht, hm⟩; exact like_pct_of_suffix ((ih t).mp hm) s ht
      · intro h
        obtain ⟨t, ht, hl⟩ := suffix_of_like_pct h ps rfl
        exact ⟨t, ht, (ih t).mpr hl⟩
    · simp only [likeMatch, hp, if_false]
      cases s with
      | nil => simp; intro h; cases h <;> simp_all
      | cons c cs =>
        simp only [Bool.and_eq_true, Bool.or_eq_true, decide_eq_true_eq, beq_iff_eq, ih]
        constructor
        · rintro ⟨(rfl | rfl), hl⟩
          · exact .under hl
          · by_cases hu : p = '_'
            · subst hu; exact .under hl
            · exact .lit hp hu hl
        · intro h
          cases h with
          | pctSkip => exact absurd rfl hp
          | pctEat => exact absurd rfl hp
          | under hl => exact ⟨.inl rfl, hl⟩
          | lit _ _ hl => exact ⟨.inr rfl, hl⟩

/-! ### the premises are satisfiable (non-vacuity) -/

example : WT (N := Int) [("a", .num 3), ("s", .str "Ab")]
    (.and (.cmp .ge (.col ["a"]) (.num 2)) (.cmp .like (.col ["s"]) (.str "a%"))) :=
  .and (.cmpNum (by simp) (.col "a" .num (by decide) rfl) (.num 2))
       (.like (.col "s" .str (by decide) rfl) (.str "a%"))

example : sem (N := Int) [("a", .num 3), ("s", .str "Ab")]
    (.and (.cmp .ge (.col ["a"]) (.num 2)) (.cmp .like (.col ["s"]) (.str "a%"))) = true := by decide

end Genql.C01
