/-
  C04, second half: the join code the driver runs (`Genql.Model.Join`: `toCatalog`, `catLookup`,
  `pairAll`, `nullAll`, `hashJoinRun`) IS the pure catalogue / hash join that `Genql.Properties.C04`
  relates to the textbook join — whenever key extraction succeeds and the rows are objects.
-/
import Genql.Properties.C04
set_option linter.unusedSectionVars false
set_option linter.unusedVariables false
set_option linter.unusedSimpArgs false
namespace Genql.C04
open Genql Genql.C03 Genql.C06
variable {N : Type} [Num N]

def toPair (e : CatEntry N) : String × List (Val N) := (e.key, e.rows)

theorem catInsert_pure (k : String) (km : Row N) (row : Val N) (acc : List (CatEntry N)) :
    (catInsert k km row acc).map toPair = addG keq k row (acc.map toPair) := by
  induction acc with
  | nil => rfl
  | cons e es ih =>
    simp only [catInsert, List.map_cons, addG, toPair, keq]
    by_cases h : e.key = k
    · simp [h, toPair]
    · simp [h, toPair]
      exact ih

/-- `ToCatalog` computes the catalogue of C04 (first-appearance grouping by key text) -/
theorem toCatalog_pure (cols : List (List String)) (keyf : Val N → String) (kmf : Val N → Row N) :
    ∀ (rows : List (Val N)) (acc : List (CatEntry N)),
      (∀ row ∈ rows, rowKey cols row = .ok (keyf row, kmf row)) →
      ∃ out, toCatalog cols rows acc = .ok out ∧ out.map toPair = scanG keq keyf rows (acc.map toPair) := by
  intro rows
  induction rows with
  | nil => intro acc _; exact ⟨acc, rfl, rfl⟩
  | cons row rows ih =>
    intro acc hk
    obtain ⟨out, h1, h2⟩ := ih (catInsert (keyf row) (kmf row) row acc) (fun r hr => hk r (by simp [hr]))
    refine ⟨out, ?_, ?_⟩
    · simp only [toCatalog, hk row (by simp), bind, Except.bind, h1]
    · rw [h2, catInsert_pure]; rfl

theorem toCatalog_catalogue (cols : List (List String)) (keyf : Val N → String) (kmf : Val N → Row N)
    (rows : List (Val N)) (hk : ∀ row ∈ rows, rowKey cols row = .ok (keyf row, kmf row)) :
    ∃ out, toCatalog cols rows [] = .ok out ∧ out.map toPair = catalogue keyf rows := by
  obtain ⟨out, h1, h2⟩ := toCatalog_pure cols keyf kmf rows [] hk
  exact ⟨out, h1, h2⟩

theorem catLookup_pure (k : String) (c : List (CatEntry N)) :
    (match catLookup k c with | some e => e.rows | none => []) = lookupCat k (c.map toPair) := by
  induction c with
  | nil => rfl
  | cons e es ih =>
    simp only [catLookup, List.map_cons, lookupCat, toPair]
    by_cases h : e.key = k
    · simp [h]
    · simp [h]; exact ih

/-- all rows are objects -/
def AllObj (rows : List (Val N)) : Prop := ∀ r ∈ rows, ∃ fs, r = Val.obj fs

/-- the merged row `{…l, …r}` -/
def mergeObj (l r : Val N) : Val N :=
  match l, r with
  | .obj a, .obj b => .obj (copyInto (copyInto [] a) b)
  | l, _ => l

def padObj (rightIdent : String) (l : Val N) : Val N :=
  match l with
  | .obj a => .obj (setKey rightIdent .null (copyInto [] a))
  | l => l

theorem pairAll_pure (ls rs : List (Val N)) (hl : AllObj ls) (hr : AllObj rs) :
    pairAll ls rs = .ok (ls.flatMap fun l => rs.map (mergeObj l)) := by
  unfold pairAll
  rw [mapE_eq_map_of_ok (g := fun l => rs.map (mergeObj l))]
  · simp [bind, Except.bind, pure, Except.pure, List.flatMap_def]
  · intro l hlm
    obtain ⟨a, rfl⟩ := hl l hlm
    apply mapE_eq_map_of_ok
    intro r hrm
    obtain ⟨b, rfl⟩ := hr r hrm
    rfl

theorem nullAll_pure (ls : List (Val N)) (rightIdent : String) (hl : AllObj ls) :
    nullAll ls rightIdent = .ok (ls.map (padObj rightIdent)) := by
  unfold nullAll
  apply mapE_eq_map_of_ok
  intro l hlm
  obtain ⟨a, rfl⟩ := hl l hlm
  rfl

/-- the pure hash join over catalogue entries (inner or left), as the model computes it -/
def hashPure (inner : Bool) (rightIdent : String) (l r : List (String × List (Val N))) : List (Val N) :=
  l.flatMap fun g =>
    let rs := lookupCat g.1 r
    if rs.isEmpty then (if inner then [] else g.2.map (padObj rightIdent))
    else g.2.flatMap fun a => rs.map (mergeObj a)

theorem hashMatch_pure (inner : Bool) (rightIdent : String) (r : List (CatEntry N)) (le : CatEntry N)
    (hl : AllObj le.rows) (hr : ∀ e ∈ r, AllObj e.rows) (hne : ∀ e ∈ r, e.rows ≠ []) :
    hashMatch inner rightIdent r le = .ok (
      let rs := lookupCat le.key (r.map toPair)
      if rs.isEmpty then (if inner then [] else le.rows.map (padObj rightIdent))
      else le.rows.flatMap fun a => rs.map (mergeObj a)) := by
  have hlook := catLookup_pure le.key r
  unfold hashMatch
  cases hc : catLookup le.key r with
  | none =>
    rw [hc] at hlook
    simp only [← hlook, List.isEmpty_nil, if_true]
    cases inner
    · simp [nullAll_pure le.rows rightIdent hl]
    · simp
  | some re =>
    rw [hc] at hlook
    simp only [← hlook]
    have hmem : re ∈ r := by
      clear hlook
      induction r with
      | nil => simp [catLookup] at hc
      | cons e es ih =>
        simp only [catLookup] at hc
        by_cases h : e.key = le.key
        · simp [h] at hc; subst hc; simp
        · simp [h] at hc
          exact List.mem_cons_of_mem _ (ih (fun x hx => hr x (by simp [hx])) (fun x hx => hne x (by simp [hx])) hc)
    have hne' : re.rows.isEmpty = false := by
      cases hh : re.rows with
      | nil => exact absurd hh (hne re hmem)
      | cons a as => rfl
    simp only [hne', Bool.false_eq_true, if_false]
    exact pairAll_pure le.rows re.rows hl (hr re hmem)

/-- **the hash join the driver runs is the pure hash join of the catalogues** (and therefore, by
    `hash_inner_perm_textbook` / `hash_left_perm_textbook`, a permutation of the textbook join) -/
theorem hashJoinRun_pure (inner : Bool) (rightIdent : String) (l r : List (CatEntry N))
    (hl : ∀ e ∈ l, AllObj e.rows) (hr : ∀ e ∈ r, AllObj e.rows) (hne : ∀ e ∈ r, e.rows ≠ []) :
    hashJoinRun inner rightIdent l r = .ok (hashPure inner rightIdent (l.map toPair) (r.map toPair)) := by
  unfold hashJoinRun hashPure
  rw [mapE_eq_map_of_ok (g := fun le =>
      let rs := lookupCat le.key (r.map toPair)
      if rs.isEmpty then (if inner then [] else le.rows.map (padObj rightIdent))
      else le.rows.flatMap fun a => rs.map (mergeObj a))]
  · simp only [bind, Except.bind, pure, Except.pure, List.flatMap_def, List.map_map, Function.comp_def, toPair]
    rfl
  · intro le hle
    exact hashMatch_pure inner rightIdent r le (hl le hle) hr hne

/-- for the inner case the pure form is literally `hashInner` of C04 -/
theorem hashPure_inner_eq (rightIdent : String) (kl kr : Val N → String) (ls rs : List (Val N)) :
    hashPure true rightIdent (catalogue kl ls) (catalogue kr rs) = hashInner mergeObj kl kr ls rs := by
  unfold hashPure hashInner
  apply flatMap_congr_mem
  intro g _
  simp only [if_true]
  cases h : lookupCat g.1 (catalogue kr rs) with
  | nil => simp [flatMap_nil_fun]
  | cons a as => simp

/-- for the LEFT case the pure form is literally `hashLeft` of C04 -/
theorem hashPure_left_eq (rightIdent : String) (kl kr : Val N → String) (ls rs : List (Val N)) :
    hashPure false rightIdent (catalogue kl ls) (catalogue kr rs) =
      hashLeft mergeObj (padObj rightIdent) kl kr ls rs := by
  unfold hashPure hashLeft
  apply flatMap_congr_mem
  intro g _
  simp

/-! ### the nested loop the driver runs -/

/-- the pure nested loop over catalogue entries (inner or left), as the model computes it -/
def nestedPure (inner : Bool) (rightIdent : String) (onKey : String → String → Bool)
    (l r : List (String × List (Val N))) : List (Val N) :=
  l.flatMap fun gl =>
    let rows := r.flatMap fun gr =>
      if onKey gl.1 gr.1 then gl.2.flatMap fun a => gr.2.map (mergeObj a) else []
    if r.any (fun gr => onKey gl.1 gr.1) then rows
    else if inner then rows else rows ++ gl.2.map (padObj rightIdent)

theorem nestedPair_pure (on : Row N → R Bool) (onKey : String → String → Bool) (le re : CatEntry N)
    (hon : on (copyInto (copyInto [] le.keyMap) re.keyMap) = .ok (onKey le.key re.key))
    (hl : AllObj le.rows) (hr : AllObj re.rows) :
    nestedPair on le re = .ok (if onKey le.key re.key
      then some (le.rows.flatMap fun a => re.rows.map (mergeObj a)) else none) := by
  unfold nestedPair
  simp only [hon, bind, Except.bind]
  cases onKey le.key re.key
  · rfl
  · simp [pairAll_pure le.rows re.rows hl hr, bind, Except.bind, pure, Except.pure]

theorem flatten_getD_blocks {β' : Type} (c : β' → Bool) (f : β' → List (Val N)) (r : List β') :
    ((r.map fun x => if c x then some (f x) else none).map fun p => p.getD []).flatten =
      r.flatMap fun x => if c x then f x else [] := by
  induction r with
  | nil => rfl
  | cons x r ih =>
    simp only [List.map_cons, List.flatten_cons, List.flatMap_cons, ih]
    cases c x <;> simp

theorem any_isSome_blocks {β' δ : Type} (c : β' → Bool) (f : β' → δ) (r : List β') :
    (r.map fun x => if c x then some (f x) else none).any Option.isSome = r.any c := by
  induction r with
  | nil => rfl
  | cons x r ih =>
    simp only [List.map_cons, List.any_cons, ih]
    cases c x <;> simp

theorem nestedMatch_pure (on : Row N → R Bool) (onKey : String → String → Bool) (inner : Bool)
    (rightIdent : String) (le : CatEntry N) (r : List (CatEntry N))
    (hon : ∀ re ∈ r, on (copyInto (copyInto [] le.keyMap) re.keyMap) = .ok (onKey le.key re.key))
    (hl : AllObj le.rows) (hr : ∀ e ∈ r, AllObj e.rows) :
    nestedMatch on inner rightIdent le r = .ok (
      let rows := (r.map toPair).flatMap fun gr =>
        if onKey le.key gr.1 then le.rows.flatMap fun a => gr.2.map (mergeObj a) else []
      if (r.map toPair).any (fun gr => onKey le.key gr.1) then rows
      else if inner then rows else rows ++ le.rows.map (padObj rightIdent)) := by
  unfold nestedMatch
  rw [mapE_eq_map_of_ok (g := fun re => if onKey le.key re.key
      then some (le.rows.flatMap fun a => re.rows.map (mergeObj a)) else none)]
  · simp only [bind, Except.bind]
    rw [any_isSome_blocks (fun re : CatEntry N => onKey le.key re.key), flatten_getD_blocks]
    simp only [List.flatMap_map, List.any_map, Function.comp_def, toPair]
    cases hm : r.any (fun re => onKey le.key re.key)
    · cases inner
      · simp [nullAll_pure le.rows rightIdent hl, bind, Except.bind, pure, Except.pure]; rfl
      · simp [pure, Except.pure]; rfl
    · simp [pure, Except.pure]; rfl
  · intro re hre
    exact nestedPair_pure on onKey le re (hon re hre) hl (hr re hre)

/-- **the nested loop the driver runs is the pure nested loop over the catalogues** (and therefore,
    by `nested_inner_perm_textbook` / `nested_left_perm_textbook`, a permutation of the textbook
    join) — whenever ON, evaluated on the union of two key maps, is a function of the two key texts -/
theorem nestedRun_pure (on : Row N → R Bool) (onKey : String → String → Bool) (inner : Bool)
    (rightIdent : String) (l r : List (CatEntry N))
    (hon : ∀ le ∈ l, ∀ re ∈ r, on (copyInto (copyInto [] le.keyMap) re.keyMap) = .ok (onKey le.key re.key))
    (hl : ∀ e ∈ l, AllObj e.rows) (hr : ∀ e ∈ r, AllObj e.rows) :
    nestedRun on inner rightIdent l r = .ok (nestedPure inner rightIdent onKey (l.map toPair) (r.map toPair)) := by
  unfold nestedRun nestedPure
  rw [mapE_eq_map_of_ok (g := fun le =>
      let rows := (r.map toPair).flatMap fun gr =>
        if onKey le.key gr.1 then le.rows.flatMap fun a => gr.2.map (mergeObj a) else []
      if (r.map toPair).any (fun gr => onKey le.key gr.1) then rows
      else if inner then rows else rows ++ le.rows.map (padObj rightIdent))]
  · simp only [bind, Except.bind, pure, Except.pure, List.flatMap_def, List.map_map, Function.comp_def, toPair]
    rfl
  · intro le hle
    exact nestedMatch_pure on onKey inner rightIdent le r (hon le hle) (hl le hle) hr

theorem nestedPure_inner_eq (rightIdent : String) (onKey : String → String → Bool)
    (kl kr : Val N → String) (ls rs : List (Val N)) :
    nestedPure true rightIdent onKey (catalogue kl ls) (catalogue kr rs) =
      nestedInner mergeObj onKey kl kr ls rs := by
  unfold nestedPure nestedInner
  apply flatMap_congr_mem
  intro g _
  simp

theorem nestedPure_left_eq (rightIdent : String) (onKey : String → String → Bool)
    (kl kr : Val N → String) (ls rs : List (Val N)) :
    nestedPure false rightIdent onKey (catalogue kl ls) (catalogue kr rs) =
      nestedLeft mergeObj (padObj rightIdent) onKey kl kr ls rs := by
  unfold nestedPure nestedLeft
  apply flatMap_congr_mem
  intro g _
  simp

/-! ### end to end: catalogues + join loop of the model = textbook join -/

theorem entries_allObj (key : Val N → String) (rows : List (Val N)) (c : List (CatEntry N))
    (hc : c.map toPair = catalogue key rows) (hrows : AllObj rows) : ∀ e ∈ c, AllObj e.rows := by
  intro e he a ha
  have hg : toPair e ∈ catalogue key rows := by rw [← hc]; exact List.mem_map.mpr ⟨e, he, rfl⟩
  exact hrows a (catalog_member_mem key rows (toPair e) hg a ha)

theorem entries_nonempty (key : Val N → String) (rows : List (Val N)) (c : List (CatEntry N))
    (hc : c.map toPair = catalogue key rows) : ∀ e ∈ c, e.rows ≠ [] := by
  intro e he
  have hg : toPair e ∈ catalogue key rows := by rw [← hc]; exact List.mem_map.mpr ⟨e, he, rfl⟩
  exact catalog_group_nonempty key rows (toPair e) hg

/-- **hash join, end to end**: for object rows whose key columns can be read, `ToCatalog` on both
    sides followed by `HashJoinFunc` succeeds and returns a permutation of the textbook inner /
    LEFT OUTER equi-join on the key texts -/
theorem hash_join_model_textbook (inner : Bool) (ri : String) (lc rc : List (List String))
    (kl kr : Val N → String) (kml kmr : Val N → Row N) (ls rs : List (Val N))
    (hkl : ∀ row ∈ ls, rowKey lc row = .ok (kl row, kml row))
    (hkr : ∀ row ∈ rs, rowKey rc row = .ok (kr row, kmr row))
    (hl : AllObj ls) (hr : AllObj rs) :
    ∃ cl cr out, toCatalog lc ls [] = .ok cl ∧ toCatalog rc rs [] = .ok cr ∧
      hashJoinRun inner ri cl cr = .ok out ∧
      out.Perm (if inner then textbookInner mergeObj kl kr ls rs
                else textbookLeft mergeObj (padObj ri) kl kr ls rs) := by
  obtain ⟨cl, hcl, hclp⟩ := toCatalog_catalogue lc kl kml ls hkl
  obtain ⟨cr, hcr, hcrp⟩ := toCatalog_catalogue rc kr kmr rs hkr
  refine ⟨cl, cr, _, hcl, hcr,
    hashJoinRun_pure inner ri cl cr (entries_allObj kl ls cl hclp hl) (entries_allObj kr rs cr hcrp hr)
      (entries_nonempty kr rs cr hcrp), ?_⟩
  rw [hclp, hcrp]
  cases inner
  · simp only [Bool.false_eq_true, if_false]
    rw [hashPure_left_eq]; exact hash_left_perm_textbook _ _ kl kr ls rs
  · simp only [if_true]
    rw [hashPure_inner_eq]; exact hash_inner_perm_textbook _ kl kr ls rs

/-- the key text / key map of every catalogue entry are those of one of the source rows -/
theorem catInsert_entries (k : String) (km : Row N) (row : Val N) (acc : List (CatEntry N)) :
    ∀ e ∈ catInsert k km row acc,
      (e.key = k ∧ e.keyMap = km) ∨ (∃ e' ∈ acc, e.key = e'.key ∧ e.keyMap = e'.keyMap) := by
  induction acc with
  | nil =>
    intro e he
    simp only [catInsert, List.mem_singleton] at he
    subst he; exact Or.inl ⟨rfl, rfl⟩
  | cons e0 es ih =>
    intro e he
    simp only [catInsert] at he
    by_cases h : e0.key = k
    · simp only [h, if_true, List.mem_cons] at he
      rcases he with rfl | he
      · exact Or.inr ⟨e0, by simp, by simp [h], rfl⟩
      · exact Or.inr ⟨e, by simp [he], rfl, rfl⟩
    · simp only [h, if_false, List.mem_cons] at he
      rcases he with rfl | he
      · exact Or.inr ⟨e, by simp, rfl, rfl⟩
      · rcases ih e he with h1 | ⟨e', he', h2⟩
        · exact Or.inl h1
        · exact Or.inr ⟨e', by simp [he'], h2⟩

theorem toCatalog_entries (cols : List (List String)) (keyf : Val N → String) (kmf : Val N → Row N) :
    ∀ (rows : List (Val N)) (acc out : List (CatEntry N)),
      (∀ row ∈ rows, rowKey cols row = .ok (keyf row, kmf row)) →
      toCatalog cols rows acc = .ok out →
      ∀ e ∈ out, (∃ row ∈ rows, e.key = keyf row ∧ e.keyMap = kmf row) ∨
                 (∃ e' ∈ acc, e.key = e'.key ∧ e.keyMap = e'.keyMap) := by
  intro rows
  induction rows with
  | nil =>
    intro acc out _ h e he
    simp only [toCatalog] at h
    cases h
    exact Or.inr ⟨e, he, rfl, rfl⟩
  | cons row rows ih =>
    intro acc out hk h e he
    simp only [toCatalog, hk row (by simp), bind, Except.bind] at h
    rcases ih _ out (fun r hr => hk r (by simp [hr])) h e he with ⟨r, hr, h1⟩ | ⟨e', he', h2, h3⟩
    · exact Or.inl ⟨r, by simp [hr], h1⟩
    · rcases catInsert_entries _ _ row acc e' he' with ⟨h4, h5⟩ | ⟨e'', he'', h6, h7⟩
      · exact Or.inl ⟨row, by simp, by rw [h2, h4], by rw [h3, h5]⟩
      · exact Or.inr ⟨e'', he'', by rw [h2, h6], by rw [h3, h7]⟩

/-- **nested loop, end to end**: the same for `JoinFunc` with an arbitrary ON condition that is a
    function of the two key texts (ON only mentions the extracted key columns): ON is evaluated
    once per pair of key groups, on the union of the key maps of two source rows -/
theorem nested_join_model_textbook (inner : Bool) (ri : String) (lc rc : List (List String))
    (on : Row N → R Bool) (onKey : String → String → Bool)
    (kl kr : Val N → String) (kml kmr : Val N → Row N) (ls rs : List (Val N))
    (hkl : ∀ row ∈ ls, rowKey lc row = .ok (kl row, kml row))
    (hkr : ∀ row ∈ rs, rowKey rc row = .ok (kr row, kmr row))
    (hon : ∀ a ∈ ls, ∀ b ∈ rs, on (copyInto (copyInto [] (kml a)) (kmr b)) = .ok (onKey (kl a) (kr b)))
    (hl : AllObj ls) (hr : AllObj rs) :
    ∃ cl cr out, toCatalog lc ls [] = .ok cl ∧ toCatalog rc rs [] = .ok cr ∧
      nestedRun on inner ri cl cr = .ok out ∧
      out.Perm (if inner then textbookOn mergeObj (fun a b => onKey (kl a) (kr b)) ls rs
                else textbookLeftOn mergeObj (padObj ri) (fun a b => onKey (kl a) (kr b)) ls rs) := by
  obtain ⟨cl, hcl, hclp⟩ := toCatalog_catalogue lc kl kml ls hkl
  obtain ⟨cr, hcr, hcrp⟩ := toCatalog_catalogue rc kr kmr rs hkr
  have hon' : ∀ le ∈ cl, ∀ re ∈ cr,
      on (copyInto (copyInto [] le.keyMap) re.keyMap) = .ok (onKey le.key re.key) := by
    intro le hle re hre
    rcases toCatalog_entries lc kl kml ls [] cl hkl hcl le hle with ⟨a, ha, h1, h2⟩ | ⟨_, h, _⟩
    · rcases toCatalog_entries rc kr kmr rs [] cr hkr hcr re hre with ⟨b, hb, h3, h4⟩ | ⟨_, h, _⟩
      · rw [h1, h2, h3, h4]; exact hon a ha b hb
      · cases h
    · cases h
  refine ⟨cl, cr, _, hcl, hcr,
    nestedRun_pure on onKey inner ri cl cr hon'
      (entries_allObj kl ls cl hclp hl) (entries_allObj kr rs cr hcrp hr), ?_⟩
  rw [hclp, hcrp]
  cases inner
  · simp only [Bool.false_eq_true, if_false]
    rw [nestedPure_left_eq]
    exact nested_left_perm_textbook _ _ _ onKey kl kr (fun _ _ => rfl) ls rs
  · simp only [if_true]
    rw [nestedPure_inner_eq]
    exact nested_inner_perm_textbook _ _ onKey kl kr (fun _ _ => rfl) ls rs

/-! ### non-vacuity -/

example : nestedLeft (fun (a : Nat × Nat) (b : Nat × Nat) => (a, some b)) (fun a => (a, none)) (fun k k' => decide (k < k'))
      (·.1) (·.1) [(1, 10), (5, 50), (1, 11)] [(2, 7), (3, 9)]
    = [((1, 10), some (2, 7)), ((1, 11), some (2, 7)), ((1, 10), some (3, 9)), ((1, 11), some (3, 9)), ((5, 50), none)] := by
  decide

end Genql.C04
