/-
  C04, second half: the join code the driver runs (`Genql.Model.Join`: `toCatalog`, `catLookup`,
  `pairAll`, `nullAll`, `hashJoinRun`) IS the pure catalogue / hash join that `Genql.Properties.C04`
  relates to the textbook join — whenever key extraction succeeds and the rows are objects.
-/
import Genql.Properties.C04
set_option linter.unusedSectionVars false
set_option linter.unusedVariables false
set_option linter.unusedSimpArgs false
namespace Genql.C04
open Genql Genql.C03 Genql.C06
variable {N : Type} [Num N]

def toPair (e : CatEntry N) : String × List (Val N) := (e.key, e.rows)

theorem catInsert_pure (k : String) (km : Row N) (row : Val N) (acc : List (CatEntry N)) :
    (catInsert k km row acc).map toPair = addG keq k row (acc.map toPair) := by
  induction acc with
  | nil => rfl
  | cons e es ih =>
    simp only [catInsert, List.map_cons, addG, toPair, keq]
    by_cases h : e.key = k
    · simp [h, toPair]
    · simp [h, toPair]
      exact ih

/-- `ToCatalog` computes the catalogue of C04 (first-appearance grouping by key text) -/
theorem toCatalog_pure (cols : List (List String)) (keyf : Val N → String) (kmf : Val N → Row N)
    (hk : ∀ row, rowKey cols row = .ok (keyf row, kmf row)) :
    ∀ (rows : List (Val N)) (acc : List (CatEntry N)),
      ∃ out, toCatalog cols rows acc = .ok out ∧ out.map toPair = scanG keq keyf rows (acc.map toPair) := by
  intro rows
  induction rows with
  | nil => intro acc; exact ⟨acc, rfl, rfl⟩
  | cons row rows ih =>
    intro acc
    obtain ⟨out, h1, h2⟩ := ih (catInsert (keyf row) (kmf row) row acc)
    refine ⟨out, ?_, ?_⟩
    · simp only [toCatalog, hk, bind, Except.bind, h1]
    · rw [h2, catInsert_pure]; rfl

theorem toCatalog_catalogue (cols : List (List String)) (keyf : Val N → String) (kmf : Val N → Row N)
    (hk : ∀ row, rowKey cols row = .ok (keyf row, kmf row)) (rows : List (Val N)) :
    ∃ out, toCatalog cols rows [] = .ok out ∧ out.map toPair = catalogue keyf rows := by
  obtain ⟨out, h1, h2⟩ := toCatalog_pure cols keyf kmf hk rows []
  exact ⟨out, h1, h2⟩

theorem catLookup_pure (k : String) (c : List (CatEntry N)) :
    (match catLookup k c with | some e => e.rows | none => []) = lookupCat k (c.map toPair) := by
  induction c with
  | nil => rfl
  | cons e es ih =>
    simp only [catLookup, List.map_cons, lookupCat, toPair]
    by_cases h : e.key = k
    · simp [h]
    · simp [h]; exact ih

/-- all rows are objects -/
def AllObj (rows : List (Val N)) : Prop := ∀ r ∈ rows, ∃ fs, r = Val.obj fs

/-- the merged row `{…l, …r}` -/
def mergeObj (l r : Val N) : Val N :=
  match l, r with
  | .obj a, .obj b => .obj (copyInto (copyInto [] a) b)
  | l, _ => l

def padObj (rightIdent : String) (l : Val N) : Val N :=
  match l with
  | .obj a => .obj (setKey rightIdent .null (copyInto [] a))
  | l => l

theorem pairAll_pure (ls rs : List (Val N)) (hl : AllObj ls) (hr : AllObj rs) :
    pairAll ls rs = .ok (ls.flatMap fun l => rs.map (mergeObj l)) := by
  unfold pairAll
  rw [mapE_eq_map_of_ok (g := fun l => rs.map (mergeObj l))]
  · simp [bind, Except.bind, pure, Except.pure, List.flatMap_def]
  · intro l hlm
    obtain ⟨a, rfl⟩ := hl l hlm
    apply mapE_eq_map_of_ok
    intro r hrm
    obtain ⟨b, rfl⟩ := hr r hrm
    rfl

theorem nullAll_pure (ls : List (Val N)) (rightIdent : String) (hl : AllObj ls) :
    nullAll ls rightIdent = .ok (ls.map (padObj rightIdent)) := by
  unfold nullAll
  apply mapE_eq_map_of_ok
  intro l hlm
  obtain ⟨a, rfl⟩ := hl l hlm
  rfl

/-- the pure hash join over catalogue entries (inner or left), as the model computes it -/
def hashPure (inner : Bool) (rightIdent : String) (l r : List (String × List (Val N))) : List (Val N) :=
  l.flatMap fun g =>
    let rs := lookupCat g.1 r
    if rs.isEmpty then (if inner then [] else g.2.map (padObj rightIdent))
    else g.2.flatMap fun a => rs.map (mergeObj a)

theorem hashMatch_pure (inner : Bool) (rightIdent : String) (r : List (CatEntry N)) (le : CatEntry N)
    (hl : AllObj le.rows) (hr : ∀ e ∈ r, AllObj e.rows) (hne : ∀ e ∈ r, e.rows ≠ []) :
    hashMatch inner rightIdent r le = .ok (
      let rs := lookupCat le.key (r.map toPair)
      if rs.isEmpty then (if inner then [] else le.rows.map (padObj rightIdent))
      else le.rows.flatMap fun a => rs.map (mergeObj a)) := by
  have hlook := catLookup_pure le.key r
  unfold hashMatch
  cases hc : catLookup le.key r with
  | none =>
    rw [hc] at hlook
    simp only [← hlook, List.isEmpty_nil, if_true]
    cases inner
    · simp [nullAll_pure le.rows rightIdent hl]
    · simp
  | some re =>
    rw [hc] at hlook
    simp only [← hlook]
    have hmem : re ∈ r := by
      clear hlook
      induction r with
      | nil => simp [catLookup] at hc
      | cons e es ih =>
        simp only [catLookup] at hc
        by_cases h : e.key = le.key
        · simp [h] at hc; subst hc; simp
        · simp [h] at hc
          exact List.mem_cons_of_mem _ (ih (fun x hx => hr x (by simp [hx])) (fun x hx => hne x (by simp [hx])) hc)
    have hne' : re.rows.isEmpty = false := by
      cases hh : re.rows with
      | nil => exact absurd hh (hne re hmem)
      | cons a as => rfl
    simp only [hne', Bool.false_eq_true, if_false]
    exact pairAll_pure le.rows re.rows hl (hr re hmem)

/-- **the hash join the driver runs is the pure hash join of the catalogues** (and therefore, by
    `hash_inner_perm_textbook` / `hash_left_perm_textbook`, a permutation of the textbook join) -/
theorem hashJoinRun_pure (inner : Bool) (rightIdent : String) (l r : List (CatEntry N))
    (hl : ∀ e ∈ l, AllObj e.rows) (hr : ∀ e ∈ r, AllObj e.rows) (hne : ∀ e ∈ r, e.rows ≠ []) :
    hashJoinRun inner rightIdent l r = .ok (hashPure inner rightIdent (l.map toPair) (r.map toPair)) := by
  unfold hashJoinRun hashPure
  rw [mapE_eq_map_of_ok (g := fun le =>
      let rs := lookupCat le.key (r.map toPair)
      if rs.isEmpty then (if inner then [] else le.rows.map (padObj rightIdent))
      else le.rows.flatMap fun a => rs.map (mergeObj a))]
  · simp only [bind, Except.bind, pure, Except.pure, List.flatMap_def, List.map_map, Function.comp_def, toPair]
    rfl
  · intro le hle
    exact hashMatch_pure inner rightIdent r le (hl le hle) hr hne

/-- for the inner case the pure form is literally `hashInner` of C04 -/
theorem hashPure_inner_eq (rightIdent : String) (kl kr : Val N → String) (ls rs : List (Val N)) :
    hashPure true rightIdent (catalogue kl ls) (catalogue kr rs) = hashInner mergeObj kl kr ls rs := by
  unfold hashPure hashInner
  apply flatMap_congr_mem
  intro g _
  simp only [if_true]
  cases h : lookupCat g.1 (catalogue kr rs) with
  | nil => simp [flatMap_nil_fun]
  | cons a as => simp

end Genql.C04
