/-
  Property C11 — queries never modify the caller's input document.

  `input_frame`: an evaluation whose writes all target memory it allocated itself leaves every cell
  of the input exactly as it was — after the whole run AND after every prefix of it (so also at any
  point where evaluation fails part-way through).  That the Go code has this discipline is the
  regenerated write-site obligation (Genql/Obligations/C11.lean).
-/
import Genql.Model.Heap
set_option linter.unusedSectionVars false
namespace Genql.C11
open Genql.Heap

theorem step_next_mono (h : Heap) (op : HOp) : h.next ≤ (step h op).next := by
  cases op <;> simp only [step] <;> (try split) <;> simp <;> omega

theorem step_frame (h : Heap) (op : HOp) (base : Nat) (hb : base ≤ h.next)
    (hd : Disciplined base [op] = true) (a : Nat) (ha : a < base) : (step h op).objs a = h.objs a := by
  simp only [Disciplined, List.all_cons, List.all_nil, Bool.and_true] at hd
  cases op with
  | alloc o =>
    simp only [step, upd]
    have : a ≠ h.next := by omega
    simp [this]
  | read b => rfl
  | setKey b k c =>
    simp only [HOp.target, decide_eq_true_eq] at hd
    have : a ≠ b := by omega
    simp only [step]; split <;> simp [upd, this]
  | delKey b k =>
    simp only [HOp.target, decide_eq_true_eq] at hd
    have : a ≠ b := by omega
    simp only [step]; split <;> simp [upd, this]
  | setIdx b i c =>
    simp only [HOp.target, decide_eq_true_eq] at hd
    have : a ≠ b := by omega
    simp only [step]; split <;> simp [upd, this]
  | permute b xs =>
    simp only [HOp.target, decide_eq_true_eq] at hd
    have : a ≠ b := by omega
    simp only [step]; split <;> simp [upd, this]

/-- **input frame**: every address that existed before the query (`< base = h₀.next`) holds exactly
    what it held, whatever the (disciplined) evaluation did -/
theorem input_frame (h₀ : Heap) (ops : List HOp) (hd : Disciplined h₀.next ops = true) :
    ∀ a, a < h₀.next → (run h₀ ops).objs a = h₀.objs a := by
  suffices H : ∀ (h : Heap) (base : Nat), base ≤ h.next → Disciplined base ops = true →
      ∀ a, a < base → (run h ops).objs a = h.objs a from H h₀ h₀.next (Nat.le_refl _) hd
  clear hd
  induction ops with
  | nil => intro h base _ _ a _; rfl
  | cons op ops ih =>
    intro h base hb hd a ha
    simp only [Disciplined, List.all_cons, Bool.and_eq_true] at hd
    have hd1 : Disciplined base [op] = true := by simp [Disciplined, hd.1]
    simp only [run]
    rw [ih (step h op) base (Nat.le_trans hb (step_next_mono h op)) hd.2 a ha]
    exact step_frame h op base hb hd1 a ha

/-- … and at **every crash point**: the same holds after every prefix of the evaluation, i.e. also
    when `New`/`Exec` return an error part-way through -/
theorem input_frame_every_prefix (h₀ : Heap) (ops : List HOp) (hd : Disciplined h₀.next ops = true)
    (n : Nat) : ∀ a, a < h₀.next → (run h₀ (ops.take n)).objs a = h₀.objs a := by
  apply input_frame
  simp only [Disciplined] at hd ⊢
  exact List.all_eq_true.mpr fun op hop => List.all_eq_true.mp hd op (List.mem_of_mem_take hop)

/-- no reference cycle is introduced into the input: a cell of the input can only point where it
    pointed before (its content is unchanged), in particular not to memory allocated by the query -/
theorem no_new_reference (h₀ : Heap) (ops : List HOp) (hd : Disciplined h₀.next ops = true)
    (a : Nat) (ha : a < h₀.next) (o : Obj) (ho : (run h₀ ops).objs a = some o) : h₀.objs a = some o := by
  rw [← input_frame h₀ ops hd a ha]; exact ho

/-- the discipline is necessary: one write to an input address (the pinned tree's
    `current["<-"] = query.data`) changes the input and creates a reference into it -/
example :
    let h₀ : Heap := { next := 1, objs := fun a => if a = 0 then some (.map [("k", .scalar "v")]) else none }
    (run h₀ [.setKey 0 "<-" (.ref 0)]).objs 0 = some (.map [("k", .scalar "v"), ("<-", .ref 0)]) ∧
    Disciplined h₀.next [.setKey 0 "<-" (.ref 0)] = false := by
  constructor
  · rfl
  · decide

/-- non-vacuity: the repaired shape (clone, then write into the clone) is disciplined -/
example : Disciplined 1 [.read 0, .alloc (.map [("k", .scalar "v")]), .setKey 1 "<-" (.ref 0), .read 1] = true := by decide

end Genql.C11
