/-
  C04: what the ON condition of a join is evaluated on.  `JoinMatchFunc` evaluates ON once per pair of key
  groups, on the union of the two key maps (`{"x.a": va, "y.b": vb}`), with *hard-coded reads*: a column
  reference `x.a` is looked up under the flat key `"x.a"`.  On the predicate fragment (comparisons, BETWEEN,
  IS, AND / OR / NOT over columns and literals) this is ordinary evaluation of the same predicate with every
  column name flattened — so by C01's `evalPred_sound` ON has exactly its SQL truth value on the key map, and
  the option that selects hard-coded reads provably reaches every operand of AND / OR / NOT.
-/
import Genql.Properties.C04Model
import Genql.Properties.C01
set_option linter.unusedSectionVars false
set_option linter.unusedVariables false
set_option linter.unusedSimpArgs false
namespace Genql.C04
open Genql Genql.C01
variable {N : Type} [Num N] [LawfulNum N]

/-- the predicate fragment ON conditions are written in -/
inductive OnFrag : Expr N → Prop where
  | bool (b : Bool) : OnFrag (.bool b)
  | num (n : N) : OnFrag (.num n)
  | str (s : String) : OnFrag (.str s)
  | null : OnFrag .null
  | col (p : List String) : OnFrag (.col p)
  | and {a b} : OnFrag a → OnFrag b → OnFrag (.and a b)
  | or {a b} : OnFrag a → OnFrag b → OnFrag (.or a b)
  | not {a} : OnFrag a → OnFrag (.not a)
  | cmp (op : CmpOp) {a b} : OnFrag a → OnFrag b → OnFrag (.cmp op a b)
  | between (isB : Bool) {x lo hi} : OnFrag x → OnFrag lo → OnFrag hi → OnFrag (.between isB x lo hi)
  | is (op : IsOp) {a} : OnFrag a → OnFrag (.is op a)

/-- every column name flattened to one key (`x.a` ↦ the key `"x.a"`) -/
def flat : Expr N → Expr N
  | .col p => .col [".".intercalate p]
  | .and a b => .and (flat a) (flat b)
  | .or a b => .or (flat a) (flat b)
  | .not a => .not (flat a)
  | .cmp op a b => .cmp op (flat a) (flat b)
  | .between isB x lo hi => .between isB (flat x) (flat lo) (flat hi)
  | .is op a => .is op (flat a)
  | e => e

/-- the two contexts: ON's (hard-coded reads) and an ordinary one -/
def onCtx (data : Row N) : Ctx N := { data := data, hard := true, grouped := false, matched := [], fromLen := 0 }
def plainCtx (data : Row N) : Ctx N := { data := data, hard := false, grouped := false, matched := [], fromLen := 0 }

/-- **hard-coded reads = flattened column names**, on the whole predicate fragment and for every row -/
theorem hard_eq_flat (env : Env N) (data : Row N) {e : Expr N} (h : OnFrag e) :
    ∀ cur : Row N, evalExpr env (onCtx data) cur e = evalExpr env (plainCtx data) cur (flat e) := by
  induction h with
  | bool b => intro cur; simp [evalExpr, flat]
  | num n => intro cur; simp [evalExpr, flat]
  | str s => intro cur; simp [evalExpr, flat]
  | null => intro cur; simp [evalExpr, flat]
  | col p => intro cur; simp [evalExpr, flat, onCtx, plainCtx]
  | and _ _ iha ihb => intro cur; simp only [evalExpr, flat, iha cur, ihb cur]
  | or _ _ iha ihb => intro cur; simp only [evalExpr, flat, iha cur, ihb cur]
  | not _ iha => intro cur; simp only [evalExpr, flat, iha cur]
  | cmp op _ _ iha ihb =>
    intro cur
    simp only [evalExpr, flat, onCtx, plainCtx] at iha ihb ⊢
    simp only [iha, ihb]
  | between isB _ _ _ ihx ihl ihh =>
    intro cur
    simp only [evalExpr, flat, ihx cur, ihl cur, ihh cur]
  | is op _ iha => intro cur; simp only [evalExpr, flat, iha cur]

/-- **ON has its SQL truth value on the key map**: for an ON condition of the fragment whose flattened form is
    well typed on the merged key map, the nested loop's test returns exactly `sem` — never an error -/
theorem on_sound (env : Env N) (data km : Row N) {on : Expr N} (h : OnFrag on) (hwt : WT km (flat on)) :
    (do rawBool (← evalExpr env (onCtx data) km on)) = .ok (sem km (flat on)) := by
  rw [hard_eq_flat env data h km]
  simp [evalPred_sound env (plainCtx data) rfl km (flat on) hwt, rawBool, bind, Except.bind]

/-- in particular AND: both conjuncts are read with the flattened names -/
theorem on_and_sound (env : Env N) (data km : Row N) {a b : Expr N} (ha : OnFrag a) (hb : OnFrag b)
    (hwa : WT km (flat a)) (hwb : WT km (flat b)) :
    (do rawBool (← evalExpr env (onCtx data) km (.and a b))) = .ok (sem km (flat a) && sem km (flat b)) := by
  have := on_sound env data km (OnFrag.and ha hb) (by simpa [flat] using WT.and hwa hwb)
  simpa [flat, sem] using this

end Genql.C04

namespace Genql.C04
open Genql
variable {N : Type} [Num N]
/-- **outside the predicate fragment**: a function call drops the hard-coded read for its arguments (`FunExpr` calls
    `FuncArgReader` without the expression options), so inside ON a column written as an argument of a function is read as
    an ordinary path on the merged key map — where it is absent, i.e. NULL.  The model mirrors this; C04's grammar (boolean
    combinations of column-to-column comparisons) has no function calls, and no listed property speaks about them in ON. -/
theorem func_args_read_as_paths (env : Env N) (ctx : Ctx N) (cur : Row N) (name : String) (args : List (Expr N)) :
    evalExpr env ctx cur (.func .none name args) = evalExpr env { ctx with hard := false } cur (.func .none name args) := by
  simp only [evalExpr]
end Genql.C04
