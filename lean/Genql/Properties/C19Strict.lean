/-
  Property C19, "a failure ANYWHERE": propagation through expression nesting.

  `StrictPos c p` lists the operand positions of every expression form that the evaluator always
  evaluates (both operands of AND / OR, NOT, both sides of every comparison, the three operands of
  BETWEEN, the left operand of arithmetic, unary and IS operands, every tuple element, every argument
  of a (synchronous) function call, the first WHEN condition of CASE).  `strict_step`: a failure of
  the operand — of its evaluation or of the `ValueOf` that follows — is a failure of the parent;
  `strict_in_error` is the closure over any depth of nesting.  The query-level corollaries put such
  an expression into the select list, WHERE and HAVING-free positions of a SELECT over a flat table.

  (Not strict, by the code's own semantics: the right operand of arithmetic when the left one is NULL,
  later WHEN arms, CASE values and ELSE.)
-/
import Genql.Properties.C19
import Genql.Proofs.ValEq
set_option linter.unusedSectionVars false
set_option linter.unusedVariables false
set_option linter.unusedSimpArgs false
namespace Genql.C19
open Genql Genql.C01
variable {N : Type} [Num N]

/-- evaluation of `e` on `cur` fails -/
def EF (env : Env N) (ctx : Ctx N) (cur : Row N) (e : Expr N) : Prop := IsError (evalExpr env ctx cur e)

/-- evaluation of `e` followed by `ValueOf` fails (an unreadable column fails only here) -/
def VF (env : Env N) (ctx : Ctx N) (cur : Row N) (e : Expr N) : Prop :=
  IsError (evalExpr env ctx cur e >>= valueOf cur)

/-- … on the row and on the row with the navigation marker (comparisons evaluate their operands there) -/
def EF2 (env : Env N) (ctx : Ctx N) (cur : Row N) (e : Expr N) : Prop :=
  EF env ctx cur e ∧ EF env ctx (withMarker cur ctx.data) e

def VF2 (env : Env N) (ctx : Ctx N) (cur : Row N) (e : Expr N) : Prop :=
  VF env ctx cur e ∧ VF env ctx (withMarker cur ctx.data) e

theorem EF.toVF {env : Env N} {ctx : Ctx N} {cur : Row N} {e : Expr N} (h : EF env ctx cur e) : VF env ctx cur e :=
  isError_bind _ h

theorem EF2.toVF2 {env : Env N} {ctx : Ctx N} {cur : Row N} {e : Expr N} (h : EF2 env ctx cur e) : VF2 env ctx cur e :=
  ⟨h.1.toVF, h.2.toVF⟩

theorem setKey_setKey_same {α : Type} (k : String) (v : α) (fs : List (String × α)) :
    setKey k v (setKey k v fs) = setKey k v fs := by
  induction fs with
  | nil => simp [setKey]
  | cons h t ih =>
    obtain ⟨k', v'⟩ := h
    by_cases hk : k' = k
    · simp [setKey, hk]
    · simp [setKey, hk, ih]

theorem withMarker_idem (cur data : Row N) : withMarker (withMarker cur data) data = withMarker cur data := by
  unfold withMarker; exact setKey_setKey_same _ _ _

/-- the always-evaluated operand positions -/
inductive StrictPos : Expr N → Expr N → Prop
  | andL (a b : Expr N) : StrictPos a (.and a b)
  | andR (a b : Expr N) : StrictPos b (.and a b)
  | orL (a b : Expr N) : StrictPos a (.or a b)
  | orR (a b : Expr N) : StrictPos b (.or a b)
  | not (a : Expr N) : StrictPos a (.not a)
  | cmpL (op : CmpOp) (a b : Expr N) : StrictPos a (.cmp op a b)
  | cmpR (op : CmpOp) (a b : Expr N) : StrictPos b (.cmp op a b)
  | betweenX (isB : Bool) (x lo hi : Expr N) : StrictPos x (.between isB x lo hi)
  | betweenLo (isB : Bool) (x lo hi : Expr N) : StrictPos lo (.between isB x lo hi)
  | betweenHi (isB : Bool) (x lo hi : Expr N) : StrictPos hi (.between isB x lo hi)
  | binL (op : BinOp) (a b : Expr N) : StrictPos a (.bin op a b)
  | un (op : UnOp) (a : Expr N) : StrictPos a (.un op a)
  | is (op : IsOp) (a : Expr N) : StrictPos a (.is op a)
  | tuple (xs : List (Expr N)) (e : Expr N) (h : e ∈ xs) : StrictPos e (.tuple xs)
  | funcArg (name : String) (args : List (Expr N)) (e : Expr N) (h : e ∈ args) : StrictPos e (.func .none name args)
  | funcArgScoped (name : String) (args : List (Expr N)) (e : Expr N) (h : e ∈ args) :
      StrictPos e (.func .scoped name args)
  | caseCond (c v : Expr N) (rest : List (When N)) (els : Expr N) : StrictPos c (.case (.mk c v :: rest) els)

/-- an argument list fails if evaluation-then-`ValueOf` of any argument fails -/
theorem evalArgs_vf (env : Env N) (ctx : Ctx N) (cur : Row N) (es : List (Expr N)) (e : Expr N) (he : e ∈ es)
    (hf : VF env ctx cur e) : IsError (evalArgs env ctx cur es) := by
  induction es with
  | nil => cases he
  | cons y ys ih =>
    simp only [evalArgs, bind, Except.bind, pure, Except.pure]
    cases hy : evalExpr env ctx cur y with
    | error e1 => exact ⟨e1, rfl⟩
    | ok x =>
      simp only []
      cases hv : valueOf cur x with
      | error e2 => exact ⟨e2, rfl⟩
      | ok v =>
        simp only []
        rcases List.mem_cons.mp he with rfl | he'
        · obtain ⟨e3, h3⟩ := hf
          simp only [bind, Except.bind, hy, hv] at h3
          cases h3
        · obtain ⟨e', he''⟩ := ih he'
          rw [he'']; exact ⟨e', rfl⟩

/-- helper: a failing `x >>= valueOf` makes every continuation that starts the same way fail -/
theorem vf_bind {α : Type} {env : Env N} {ctx : Ctx N} {cur : Row N} {e : Expr N} (h : VF env ctx cur e)
    (k : IVal N → Val N → R α) :
    IsError (do let x ← evalExpr env ctx cur e; let v ← valueOf cur x; k x v) := by
  obtain ⟨e1, h1⟩ := h
  simp only [bind, Except.bind] at h1 ⊢
  cases hx : evalExpr env ctx cur e with
  | error e2 => exact ⟨e2, rfl⟩
  | ok x =>
    rw [hx] at h1
    simp only [] at h1 ⊢
    rw [h1]; exact ⟨e1, rfl⟩

/-- one step: a failing operand in a strict position fails the parent, on the row itself and on the
    row with the marker -/
theorem strict_step (env : Env N) (ctx : Ctx N) (hh : ctx.hard = false) (cur : Row N) {c p : Expr N} (hp : StrictPos c p)
    (hf : VF2 env ctx cur c) : EF2 env ctx cur p := by
  have hidem := withMarker_idem cur ctx.data
  have hctx : ({ ctx with hard := false } : Ctx N) = ctx := by
    cases ctx; simp only [] at hh; subst hh; rfl
  -- it suffices to show the one-row statement for a row whose marker row also fails
  suffices H : ∀ row : Row N, VF env ctx row c → VF env ctx (withMarker row ctx.data) c → EF env ctx row p by
    refine ⟨H cur hf.1 hf.2, H _ hf.2 ?_⟩
    rw [hidem]; exact hf.2
  intro row h1 h2
  unfold EF
  cases hp with
  | andL a b =>
    simp only [evalExpr]
    exact vf_bind h1 _
  | andR a b =>
    simp only [evalExpr, bind, Except.bind]
    cases evalExpr env ctx row a with
    | error e => exact ⟨e, rfl⟩
    | ok l =>
      simp only []
      cases valueOf row l with
      | error e => exact ⟨e, rfl⟩
      | ok lv =>
        simp only []
        cases asBool lv with
        | error e => exact ⟨e, rfl⟩
        | ok lb => exact vf_bind h1 _
  | orL a b =>
    simp only [evalExpr]
    exact vf_bind h1 _
  | orR a b =>
    simp only [evalExpr, bind, Except.bind]
    cases evalExpr env ctx row a with
    | error e => exact ⟨e, rfl⟩
    | ok l =>
      simp only []
      cases valueOf row l with
      | error e => exact ⟨e, rfl⟩
      | ok lv =>
        simp only []
        cases asBool lv with
        | error e => exact ⟨e, rfl⟩
        | ok lb => exact vf_bind h1 _
  | not a =>
    simp only [evalExpr]
    exact vf_bind h1 _
  | cmpL op a b =>
    simp only [evalExpr]
    exact vf_bind h2 _
  | cmpR op a b =>
    simp only [evalExpr, bind, Except.bind]
    cases evalExpr env ctx (withMarker row ctx.data) a with
    | error e => exact ⟨e, rfl⟩
    | ok l =>
      simp only []
      cases valueOf (withMarker row ctx.data) l with
      | error e => exact ⟨e, rfl⟩
      | ok lv => exact vf_bind h2 _
  | betweenX isB x lo hi =>
    simp only [evalExpr]
    exact vf_bind h1 _
  | betweenLo isB x lo hi =>
    simp only [evalExpr, bind, Except.bind]
    cases evalExpr env ctx row x with
    | error e => exact ⟨e, rfl⟩
    | ok l =>
      simp only []
      cases valueOf row l with
      | error e => exact ⟨e, rfl⟩
      | ok lv =>
        simp only []
        obtain ⟨e1, h1'⟩ := h1
        simp only [bind, Except.bind] at h1'
        cases hlo : evalExpr env ctx row c with
        | error e => exact ⟨e, rfl⟩
        | ok f =>
          rw [hlo] at h1'
          simp only [] at h1' ⊢
          cases evalExpr env ctx row hi with
          | error e => exact ⟨e, rfl⟩
          | ok t =>
            simp only []
            rw [h1']; exact ⟨e1, rfl⟩
  | betweenHi isB x lo hi =>
    simp only [evalExpr, bind, Except.bind]
    cases evalExpr env ctx row x with
    | error e => exact ⟨e, rfl⟩
    | ok l =>
      simp only []
      cases valueOf row l with
      | error e => exact ⟨e, rfl⟩
      | ok lv =>
        simp only []
        cases evalExpr env ctx row lo with
        | error e => exact ⟨e, rfl⟩
        | ok f =>
          simp only []
          obtain ⟨e1, h1'⟩ := h1
          simp only [bind, Except.bind] at h1'
          cases hhi : evalExpr env ctx row c with
          | error e => exact ⟨e, rfl⟩
          | ok t =>
            rw [hhi] at h1'
            simp only [] at h1' ⊢
            cases valueOf row f with
            | error e => exact ⟨e, rfl⟩
            | ok fv =>
              simp only []
              rw [h1']; exact ⟨e1, rfl⟩
  | binL op a b =>
    simp only [evalExpr]
    exact vf_bind h1 _
  | un op a =>
    simp only [evalExpr]
    exact vf_bind h1 _
  | is op a =>
    simp only [evalExpr]
    exact vf_bind h1 _
  | tuple xs e h =>
    simp only [evalExpr]
    exact isError_bind _ (evalArgs_vf env ctx row xs c h h1)
  | funcArg name args e h =>
    simp only [evalExpr, hctx]
    exact isError_bind _ (evalArgs_vf env ctx row args c h h1)
  | funcArgScoped name args e h =>
    simp only [evalExpr, hctx]
    exact isError_bind _ (evalArgs_vf env ctx row args c h h1)
  | caseCond c' v rest els =>
    simp only [evalExpr, evalWhens, bind, Except.bind]
    obtain ⟨e1, h1'⟩ := h1
    simp only [bind, Except.bind] at h1'
    cases hc : evalExpr env ctx row c with
    | error e => exact ⟨e, rfl⟩
    | ok x =>
      rw [hc] at h1'
      simp only [] at h1' ⊢
      cases x with
      | v y => simp [valueOf] at h1'
      | col q => exact ⟨_, rfl⟩
      | neutral s => exact ⟨_, rfl⟩
      | fptr o => exact ⟨_, rfl⟩
      | «omit» => exact ⟨_, rfl⟩
      | fuse fs => exact ⟨_, rfl⟩

/-- nesting of strict positions, one level or more -/
inductive StrictIn : Expr N → Expr N → Prop
  | single {c p : Expr N} : StrictPos c p → StrictIn c p
  | step {c m p : Expr N} : StrictIn c m → StrictPos m p → StrictIn c p

/-- **a failing operand at any depth of strict nesting fails the whole expression** -/
theorem strict_in_error (env : Env N) (ctx : Ctx N) (hh : ctx.hard = false) (cur : Row N) {c p : Expr N} (h : StrictIn c p)
    (hf : VF2 env ctx cur c) : EF2 env ctx cur p := by
  induction h with
  | single hp => exact strict_step env ctx hh cur hp hf
  | step _ hp ih => exact strict_step env ctx hh cur hp ih.toVF2

/-- … and hence the WHERE of a SELECT over a flat table: **the query returns an error, no rows** -/
theorem where_nested_fault_propagates (env : Env N) (data : Row N) (t : String) (rows : List (Row N))
    (c p : Expr N) (hin : StrictIn c p) (sel : List (SelItem N)) (ht : Val.get data t = .arr (rows.map Val.obj))
    (r : Row N) (hr : r ∈ rows)
    (hf : ∀ ctx : Ctx N, ctx.data = data → VF2 env ctx r c) :
    IsError (execQuery env data {} (.select [] false sel (.table [t] "" t) p [] (.bool true) [] none none)) := by
  have hE : ("" : String).isEmpty = true := by decide
  simp only [execQuery, prepare, evalCtes, evalFrom, cteNames, List.append_nil, List.not_mem_nil,
    if_false, readPath_single, ht, asArray, processAlias, ok_bind, pure, Except.pure,
    hE, if_true, Bool.false_eq_true]
  apply isError_bind
  apply execLevel_error _ _ rows r hr
  apply isError_bind
  exact (strict_in_error env _ rfl r hin (hf _ rfl)).1

/-- the same for an expression of the select list: one failing operand on one row, and the query
    returns an error instead of rows with a patched-in NULL -/
theorem select_nested_fault_propagates [LawfulNum N] (env : Env N) (data : Row N) (t : String) (rows : List (Row N))
    (c e : Expr N) (hin : StrictIn c e) (key alias : String) (sel : List (SelItem N))
    (hm : SelItem.item e key alias ∈ sel) (hna : isAllAggr sel = false)
    (ht : Val.get data t = .arr (rows.map Val.obj)) (r : Row N) (hr : r ∈ rows)
    (hf : ∀ ctx : Ctx N, ctx.data = data → VF2 env ctx r c) :
    IsError (execQuery env data {} (.select [] false sel (.table [t] "" t) (.bool true) [] (.bool true) [] none none)) := by
  have hE : ("" : String).isEmpty = true := by decide
  simp only [execQuery, prepare, evalCtes, evalFrom, cteNames, List.append_nil, List.not_mem_nil,
    if_false, readPath_single, ht, asArray, processAlias, ok_bind, pure, Except.pure,
    hE, if_true, Bool.false_eq_true, execLevel]
  rw [levelLoop_flat _ _ _ rows (fun _ => true) (by
    intro r hr; simp [evalExpr, rawBool, bind, Except.bind, pure, Except.pure])]
  rw [List.filter_eq_self.mpr (by simp)]
  simp only [ok_bind, List.isEmpty_nil, Bool.not_true, Bool.false_eq_true, if_false,
    hna, Bool.false_and, selectRowsWith, Bool.not_false, if_true, pure, Except.pure]
  apply isError_bind
  apply isError_bind
  obtain ⟨e1, he1⟩ := evalSel_error env
    { data := data, hard := false, grouped := false, matched := rows.map Val.obj, fromLen := (rows.map Val.obj).length }
    r sel [] e key alias hm (strict_in_error env _ rfl r hin (hf _ rfl)).1
  refine mapE_error _ _ (Val.obj r) (List.mem_map.mpr ⟨r, hr, rfl⟩) e1 ?_
  simp only [he1, bind, Except.bind]

/-! ### clause positions that hold a whole query -/

theorem mapE_isError {α β : Type} (f : α → R β) (xs : List α) (x : α) (hx : x ∈ xs) (hf : IsError (f x)) :
    IsError (mapE f xs) := by
  obtain ⟨e, he⟩ := hf
  exact mapE_error f xs x hx e he

theorem isError_bind_right {α β : Type} (x : R α) (f : α → R β) (h : ∀ a, x = .ok a → IsError (f a)) :
    IsError (x >>= f) := by
  cases x with
  | error e => exact ⟨e, rfl⟩
  | ok a => exact h a rfl

/-- a failing query is a failing derived table … -/
theorem derived_from_error (env : Env N) (data : Row N) (sc : Scope) (inner : Query N) (alias : String)
    (h : IsError (execQuery env data sc inner)) : IsError (evalFrom env data sc (.derived inner alias)) := by
  obtain ⟨e, he⟩ := h
  simp only [execQuery, bind, Except.bind] at he
  simp only [evalFrom, bind, Except.bind]
  cases hp : prepare env data sc inner with
  | error e1 => exact ⟨e1, rfl⟩
  | ok p =>
    rw [hp] at he
    simp only [] at he ⊢
    rw [he]; exact ⟨e, rfl⟩

/-- … and a failing FROM (whatever it is: table, derived table, join) fails the SELECT around it -/
theorem from_error_select (env : Env N) (data : Row N) (sc : Scope) (d : Bool) (sel : List (SelItem N))
    (frm : From N) (wh : Expr N) (gb : List (String × List String)) (hv : Expr N) (ob : List (List String × Bool))
    (lim off : Option Nat) (h : IsError (evalFrom env data sc frm)) :
    IsError (execQuery env data sc (.select [] d sel frm wh gb hv ob lim off)) := by
  obtain ⟨e, he⟩ := h
  simp only [execQuery, prepare, evalCtes, cteNames, List.nil_append, bind, Except.bind, he]
  exact ⟨e, rfl⟩

/-- **a failure in a derived table fails the outer query** -/
theorem derived_fault_propagates (env : Env N) (data : Row N) (sc : Scope) (inner : Query N) (alias : String)
    (d : Bool) (sel : List (SelItem N)) (wh : Expr N) (gb : List (String × List String)) (hv : Expr N)
    (ob : List (List String × Bool)) (lim off : Option Nat) (h : IsError (execQuery env data sc inner)) :
    IsError (execQuery env data sc (.select [] d sel (.derived inner alias) wh gb hv ob lim off)) :=
  from_error_select env data sc d sel _ wh gb hv ob lim off (derived_from_error env data sc inner alias h)

/-- **a failure in the left or in the right branch fails the UNION** (no rows of the other branch
    are returned) -/
theorem union_fault_propagates (env : Env N) (data : Row N) (sc : Scope) (l r : Query N) (d : Bool)
    (ob : List (List String × Bool)) (lim off : Option Nat)
    (h : IsError (execQuery env data sc l) ∨ IsError (execQuery env data sc r)) :
    IsError (execQuery env data sc (.union [] l r d ob lim off)) := by
  unfold execQuery at h ⊢
  apply isError_bind
  simp only [prepare, evalCtes, cteNames, List.nil_append, ok_bind]
  rcases h with h | h
  · refine isError_bind_right _ _ fun lp hlp => ?_
    have h' : IsError (lp.run lp.frm) := by
      have : (prepare env data sc l >>= fun p => p.run p.frm) = lp.run lp.frm := by
        show (prepare env data { bad := sc.bad, fwd := sc.fwd } l >>= fun p => p.run p.frm) = _
        rw [hlp]; rfl
      rw [← this]; exact h
    exact isError_bind _ h'
  · refine isError_bind_right _ _ fun lp _ => ?_
    refine isError_bind_right _ _ fun lv _ => ?_
    refine isError_bind_right _ _ fun lrows _ => ?_
    refine isError_bind_right _ _ fun rp hrp => ?_
    have h' : IsError (rp.run rp.frm) := by
      have : (prepare env data sc r >>= fun p => p.run p.frm) = rp.run rp.frm := by
        show (prepare env data { bad := sc.bad, fwd := sc.fwd } r >>= fun p => p.run p.frm) = _
        rw [hrp]; rfl
      rw [← this]; exact h
    exact isError_bind _ h'

/-- **a failing row-scoped sub-query fails the expression that holds it** (and then, by
    `strict_in_error` and the clause theorems, the query) -/
theorem subquery_error (env : Env N) (ctx : Ctx N) (cur : Row N) (q : Query N)
    (h : IsError (execQuery env (withMarker cur ctx.data) {} q)) : EF env ctx cur (.subq q) := by
  obtain ⟨e, he⟩ := h
  unfold EF
  simp only [execQuery, bind, Except.bind] at he
  simp only [evalExpr, bind, Except.bind]
  cases hp : prepare env (withMarker cur ctx.data) {} q with
  | error e1 => exact ⟨e1, rfl⟩
  | ok p =>
    rw [hp] at he
    simp only [] at he ⊢
    rw [he]; exact ⟨e, rfl⟩

/-- **EXISTS over a failing query fails** (it is not read as "no rows") -/
theorem exists_error (env : Env N) (ctx : Ctx N) (cur : Row N) (q : Query N)
    (h : IsError (prepare env (withMarker cur ctx.data) {} q)) : EF env ctx cur (.exists q) := by
  obtain ⟨e, he⟩ := h
  unfold EF
  simp only [evalExpr, bind, Except.bind, he]
  exact ⟨e, rfl⟩

/-- `x IN (SELECT …)` with a failing sub-query: the sub-query sits in a strict position of the comparison -/
theorem in_subquery_error (env : Env N) (ctx : Ctx N) (hh : ctx.hard = false) (cur : Row N) (x : Expr N) (q : Query N)
    (h1 : IsError (execQuery env (withMarker cur ctx.data) {} q)) :
    EF env ctx cur (.cmp .in_ x (.subq q)) :=
  (strict_step env ctx hh cur (.cmpR .in_ x (.subq q))
    ⟨(subquery_error env ctx cur q h1).toVF,
     (subquery_error env ctx _ q (by rw [withMarker_idem]; exact h1)).toVF⟩).1

/-- **a CTE whose body fails fails the query that reads it** (`WITH c AS (inner) SELECT … FROM c`) -/
theorem cte_fault_propagates (env : Env N) (data : Row N) (c : String) (inner : Query N) (d : Bool)
    (sel : List (SelItem N)) (alias : String) (wh : Expr N) (gb : List (String × List String)) (hv : Expr N)
    (ob : List (List String × Bool)) (lim off : Option Nat)
    (h : IsError (execQuery env data { bad := [], fwd := [c] } inner)) :
    IsError (execQuery env data {} (.select [.mk c inner] d sel (.table [c] alias c) wh gb hv ob lim off)) := by
  obtain ⟨e, he⟩ := h
  simp only [execQuery] at he
  simp only [execQuery, prepare, cteNames, List.append_nil, evalCtes, he]
  cases e <;>
    simp [evalCtes, evalFrom, bind, Except.bind, pure, Except.pure, IsError]

/-! ### join ON -/

/-- **the nested-loop join fails if ON fails on any (left key group, right key group)** — whatever
    matched before it -/
theorem nestedRun_on_error (on : Row N → R Bool) (inner : Bool) (ri : String) (l r : List (CatEntry N))
    (le re : CatEntry N) (hl : le ∈ l) (hr : re ∈ r)
    (h : IsError (on (copyInto (copyInto [] le.keyMap) re.keyMap))) : IsError (nestedRun on inner ri l r) := by
  unfold nestedRun
  apply isError_bind
  apply mapE_isError _ _ le hl
  unfold nestedMatch
  apply isError_bind
  apply mapE_isError _ _ re hr
  unfold nestedPair
  exact isError_bind _ h

/-! ### ORDER BY -/

/-- **a sort key that cannot be read on ONE row fails the sort** (with at least two rows — with fewer the
    comparator never runs, in Go as in the model): no partially sorted result -/
theorem sortRows_key_error (orderBy : List (List String × Bool)) (rows : List (Val N)) (h2 : 2 ≤ rows.length)
    (r : Val N) (hr : r ∈ rows) (k : List String × Bool) (hk : k ∈ orderBy) (h : IsError (readPath k.1 r)) :
    IsError (sortRows orderBy rows) := by
  unfold sortRows
  have h1 : orderBy.isEmpty = false := by
    cases orderBy with
    | nil => cases hk
    | cons _ _ => rfl
  have h3 : ¬ rows.length ≤ 1 := by omega
  simp only [h1, Bool.false_or, decide_eq_true_eq, h3, if_false]
  apply isError_bind
  apply mapE_isError _ _ r hr
  apply isError_bind
  apply mapE_isError _ _ k hk
  exact isError_bind _ h

/-! ### non-vacuity: a concrete nested fault -/

/-- `1 = (VF_FAIL(a) IS NULL)`-style nesting: `NOT (x < VF_FAIL(a))`; the operand is two strict levels down -/
example (a : Expr N) : StrictIn (Expr.func .none "vf_fail" [a])
    (Expr.not (Expr.cmp .lt (Expr.col ["x"]) (Expr.func .none "vf_fail" [a]))) :=
  .step (.single (.cmpR _ _ _)) (.not _)

example :
    execQuery (N := Int) { dfx := .none, constants := none, failOn := some (.num 2) }
      [("t", .arr [.obj [("a", .num 1)], .obj [("a", .num 2)], .obj [("a", .num 3)]])] {}
      (.select [] false [.item (.not (.cmp .lt (.num 0) (.func .none "vf_fail" [.col ["a"]]))) "f" ""]
        (.table ["t"] "" "t") (.bool true) [] (.bool true) [] none none) = .error .error := by decide

end Genql.C19
